"""C15 — ROC curves are genuine operating points, ordered along the chosen x-axis."""
from __future__ import annotations

from fractions import Fraction

import numpy as np

import common
import gen
from common import Case, Issue, q, ql, il, line
from thr_common import cells, is_pow2, U53, FLBOUND_SLACK, fl_in_range, fl_bucket

ID = "C15"
LEVEL = "proof"
RULE = ("cases = Scores (both classes non-empty; exact dyadic stream and generic floats; ties, easy counts) x 4 "
        "configurations x 8 x_axis names (+ invalid names) x {None, empty, 1 element, several incl. 0, 1 and values "
        "outside [0,1]} for each of fnr / fpr / thresholds (all 125 combinations, cycled) x nb_points in "
        "{None, 0, 1, 2, 7, 100} x ndarray / list arguments; one roc() call per case, one driver line; "
        "non-trivial = distinct input with ties or easy samples or a non-default configuration or supplied points")
EXPLANATION = ("Theorems in SA/Theorems/C15.lean prove for the model of roc / _find_support_thresholds (nb_extra_points="
               "None) and for ALL sorted score lists, easy counts, configurations, axis names, supplied arrays and "
               "nb_points: rates = object's rates at the returned thresholds with equal lengths (C15_rates_match), the "
               "count behind the named axis metric is non-decreasing along the thresholds (C15_monotone: sortedness, the "
               "two reversals and rateNum_eq/belowCount_mono), containment of supplied thresholds and of thresholdAt of "
               "supplied FNR/FPR (C15_contains, C15_perm), lengths (C15_length), views (C15_views), no error for valid "
               "names / ValueError otherwise (C15_total), and that the executable spec predicates hold of the model "
               "(C15_spec_*). The correspondence run calls the real roc(), compares its thresholds with the model's "
               "(bit for bit when every float operation is exact, else as sorted multisets to 1e-9), the model's matrices "
               "and rates at the implementation's thresholds exactly, and evaluates the Lean spec predicates on the "
               "implementation's own arrays (rates from its own scores.cm cells; x-axis view compared exactly; exact "
               "containment of the supplied thresholds and of scores.threshold_at_fnr/fpr of the supplied rates).")
TRUSTED_BASE = ["Lean 4.33 kernel", "axioms propext/Classical.choice/Quot.sound only",
                "hand-written model SA/Model/Roc.lean (+Threshold.lean, Basic.lean) tied to /repo by this correspondence run",
                "np.sort / np.concatenate / np.linspace by documented meaning; np.nextafter as an oracle",
                "harness and driver parsing; tolerance 1e-9 on interpolated thresholds, 2^-50 on quotients"]
ASSUMPTIONS = ["finite float scores and thresholds of moderate magnitude", "both classes non-empty",
               "1-d array (or list) arguments; nb_points a non-negative int or None",
               "float rounding of the interpolated support thresholds (targets supplied by the caller, or np.linspace(0, 1, k) = "
               "fl(i * fl(1/(k-1))), themselves rounded): within FLBOUND_SLACK x the bound of SA.thresholdAt_fl_error / "
               "SA.thresholdAtE_fl_error(_lip) / SA.C15_linspace_fl_error for interior targets (standard model |fl x - x| <= u|x|, "
               "u = 2^-53; scores and targets in [2^-200, 2^200]); within 1e-9 as sorted multisets everywhere"]

AXES = ["fnr", "fpr", "tnr", "tpr", "far", "frr", "tar", "trr"]
BAD_AXES = ["fnrr", "FPR", "x", "acc", "topr"]
KINDS = ["none", "none", "empty", "single", "several"]
NBS = [None, 0, 1, 2, 7, 100]
NCOMBO = len(KINDS) ** 3 * len(NBS)


def n_cases(tier):
    return 6 * NCOMBO if tier == "quick" else 48 * NCOMBO


def _rates(rng, kind, exact, n_rel, n_all):
    if kind == "none":
        return None
    if kind == "empty":
        return []

    def one():
        c = rng.random()
        if c < 0.25:
            return rng.choice([0.0, 1.0, -0.5, 1.5, 0.5, 0.0, 1.0])
        if c < 0.45:
            return rng.randint(0, n_all) / n_all
        if c < 0.6:
            return rng.randint(0, n_rel) / n_rel
        return rng.randint(0, 64) / 64.0 if exact else rng.random()
    if kind == "single":
        return [one()]
    vals = [one() for _ in range(rng.randint(2, 6))]
    if rng.random() < 0.5:
        vals += [0.0, 1.0]
    if rng.random() < 0.3:
        vals += [-0.25, 1.25]
    rng.shuffle(vals)
    return [float(v) for v in vals]


def _thresholds(rng, kind, pos, neg):
    if kind == "none":
        return None
    if kind == "empty":
        return []
    pool = [t for t in gen.thresholds(rng, pos, neg, k=6) if np.isfinite(t)]
    if kind == "single":
        return [float(rng.choice(pool))]
    k = rng.randint(2, 7)
    vals = [float(rng.choice(pool)) for _ in range(k)]  # duplicates on purpose
    return vals


def gen_one(rng, i, tier):
    stream = "exact" if i % 2 == 0 else "generic"
    c = (i // 2) % NCOMBO
    kf, c = KINDS[c % 5], c // 5
    kp, c = KINDS[c % 5], c // 5
    kt, c = KINDS[c % 5], c // 5
    nb = NBS[c % len(NBS)]
    pos, neg = gen.score_sets(rng, stream, nmin=1, allow_empty=False)
    if rng.random() < 0.2:
        pos, neg = gen.tiefree(rng, len(pos), len(neg), stream == "exact")
    if rng.random() < 0.06:
        pos = pos[:1]
    if rng.random() < 0.06:
        neg = neg[:1]
    # score arrays of a narrower dtype (float32 model outputs, integer scores): supplied thresholds and the thresholds
    # assigned to supplied targets are float64 numbers that need not be representable in the scores' dtype
    dtype = rng.choice(["f8"] * 7 + ["f4", "f4", "i8", "u1", "u2"])
    if dtype == "f4":
        pos, neg = [float(np.float32(x)) for x in pos], [float(np.float32(x)) for x in neg]
    elif dtype == "i8":
        k_ = rng.choice([1, 4, 16])
        pos, neg = [float(round(x * k_)) for x in pos], [float(round(x * k_)) for x in neg]
    elif dtype in ("u1", "u2"):
        # unsigned scores (quantised outputs) INCLUDING 0: ranks of the values, so ties and order type are kept
        vals = sorted(set(pos + neg))
        if 3 * len(vals) > 250:
            dtype = "u2"
        rank = {v: float(3 * k) for k, v in enumerate(vals)}
        pos, neg = [rank[x] for x in pos], [rank[x] for x in neg]
    ep, en = gen.easy_counts(rng, stream, len(pos), len(neg))
    sc, ec = rng.choice(gen.CFGS)
    xaxis = rng.choice(BAD_AXES) if rng.random() < 0.04 else rng.choice(AXES)
    exact = stream == "exact"
    return {"stream": stream, "pos": pos, "neg": neg, "ep": ep, "en": en, "sc": sc, "ec": ec,
            "xaxis": xaxis, "prior": rng.random() < 0.3,
            "fnr": _rates(rng, kf, exact, len(pos), len(pos) + ep),
            "fpr": _rates(rng, kp, exact, len(neg), len(neg) + en),
            "thr": _thresholds(rng, kt, pos, neg),
            "nb": nb, "aslist": rng.random() < 0.2, "dtype": dtype,
            # nb_points as a NumPy integer scalar / 0-d array (np.int64(50), the result of np.minimum(50, n))
            "nbform": rng.choice(["int", "int", "int", "np.int64", "np.int32", "0d"])}


def supplied(inp):
    return sum(len(inp[k]) for k in ("fnr", "fpr", "thr") if inp[k] is not None)


def nontrivial(inp):
    pos, neg = inp["pos"], inp["neg"]
    return (inp["ep"] > 0 or inp["en"] > 0 or (inp["sc"], inp["ec"]) != ("pos", "pos")
            or len(set(pos)) < len(pos) or len(set(neg)) < len(neg) or bool(set(pos) & set(neg))
            or supplied(inp) > 0)


def exact_case(inp) -> bool:
    """every float operation of the implementation is exact on this input"""
    if inp["stream"] != "exact":
        return False
    npos, nneg = len(inp["pos"]), len(inp["neg"])
    if not (is_pow2(npos) and is_pow2(npos + inp["ep"]) and is_pow2(nneg) and is_pow2(nneg + inp["en"])):
        return False
    if supplied(inp) == 0 and inp["nb"] not in (None, 0, 1, 2):
        return False  # linspace(0, 1, k) is not exact
    for key, n in (("fnr", npos + inp["ep"]), ("fpr", nneg + inp["en"])):
        for r in inp[key] or []:
            if (Fraction(r) * 64 * n).denominator != 1:
                return False
    return True


def _opt(xs):
    return "none" if xs is None else ql(xs)


def _arg(xs, aslist):
    if xs is None:
        return None
    return [float(x) for x in xs] if aslist else np.array(xs, dtype=float)


def _flat(x):
    return [float(v) for v in np.asarray(x, dtype=float).reshape(-1)]


def build(inp) -> Case:
    from score_analysis import Scores
    from score_analysis.roc_curve import roc

    inp = dict(inp)
    for k in ("fnr", "fpr", "thr"):
        if inp[k] is not None:
            inp[k] = [float(common.unjson_num(x)) for x in inp[k]]
    pos, neg, xaxis, nb = inp["pos"], inp["neg"], inp["xaxis"], inp["nb"]
    npdt = {"f8": np.float64, "f4": np.float32, "i8": np.int64, "u1": np.uint8, "u2": np.uint16}[inp.get("dtype", "f8")]
    if npdt is np.float64:
        s = Scores(pos, neg, nb_easy_pos=inp["ep"], nb_easy_neg=inp["en"], score_class=inp["sc"],
                   equal_class=inp["ec"])
    else:
        s = Scores(np.array(pos, dtype=npdt), np.array(neg, dtype=npdt), nb_easy_pos=inp["ep"], nb_easy_neg=inp["en"],
                   score_class=inp["sc"], equal_class=inp["ec"])
    al = inp["aslist"]

    def kwargs(nb_):
        if nb_ is not None and inp.get("nbform", "int") != "int":
            nb_ = {"np.int64": np.int64, "np.int32": np.int32, "0d": np.array}[inp["nbform"]](nb_)
        return dict(fnr=_arg(inp["fnr"], al), fpr=_arg(inp["fpr"], al), thresholds=_arg(inp["thr"], al),
                    nb_points=nb_, x_axis=xaxis)

    desc = (f"roc(Scores(pos={pos}, neg={neg}, nb_easy_pos={inp['ep']}, nb_easy_neg={inp['en']}, "
            f"score_class={inp['sc']}, equal_class={inp['ec']}), fnr={inp['fnr']}, fpr={inp['fpr']}, "
            f"thresholds={inp['thr']}, nb_points={nb}, x_axis={xaxis!r})")
    sig = f"roc/{xaxis if xaxis in AXES else 'bad-axis'}"
    pre = []
    nsup = supplied(inp)
    ex = exact_case(inp)
    scale = max([abs(x) for x in pos + neg + (inp["thr"] or [])] + [1.0])
    base = dict(pos=ql(pos), neg=ql(neg), ep=inp["ep"], en=inp["en"], sc=inp["sc"], ec=inp["ec"], sorted=0,
                fnr=_opt(inp["fnr"]), fpr=_opt(inp["fpr"]), thr=_opt(inp["thr"]),
                nb="none" if nb is None else nb, xaxis=xaxis)
    tags = [inp["stream"], f"cfg={inp['sc']},{inp['ec']}", f"xaxis={xaxis if xaxis in AXES else 'invalid'}",
            f"nb={nb}", "supplied" if nsup else "default-path", "exact-arith" if ex else "float-arith"]
    tags.append("dtype=" + inp.get("dtype", "f8"))
    if inp.get("nbform", "int") != "int" and nb is not None:
        tags.append("nb_points=" + inp["nbform"])
    for k in ("fnr", "fpr", "thr"):
        v = inp[k]
        tags.append(f"{k}:" + ("none" if v is None else "empty" if len(v) == 0 else "single" if len(v) == 1 else "several"))
    if inp["ep"] or inp["en"]:
        tags.append("easy")
    if len(set(pos)) < len(pos) or len(set(neg)) < len(neg) or set(pos) & set(neg):
        tags.append("ties")
    if al:
        tags.append("list-args")

    # an earlier roc() call on the SAME object with the x-axis of the opposite orientation (and the same support arguments):
    # the judged call below must not depend on the object's call history (roc is a query, C10)
    if inp.get("prior") and xaxis in AXES:
        other = {"fnr": "fpr", "fpr": "fnr", "tnr": "tpr", "tpr": "tnr", "frr": "far", "far": "frr", "trr": "tar", "tar": "trr"}[xaxis]
        kw0 = kwargs(nb); kw0["x_axis"] = other
        common.call(roc, s, **kw0)
        tags.append("prior-call")
    res = common.call(roc, s, **kwargs(nb))
    if res[0] == "exc":
        # exceptions are data: the model says whether one is expected
        ln = line("roc", obs=0, **base)
        case = Case(ID, inp, [ln], None, tuple(tags + ["raised"]), 0, pre)

        def judge_exc(outs):
            o = outs[0]
            if o.get("err") == res[1]:
                return []
            if "err" in o:
                return [Issue("DISAGREE", "error", f"{desc} raised {res[1]} ({res[2]}), model raises {o['err']}", sig + "/error")]
            return [Issue("PROPFAIL", "raises", f"{desc} raised {res[1]}: {res[2]}", sig + "/raises")]

        case.judge = judge_exc
        return case

    c = res[1]
    # the returned curve is the caller's: its threshold array handed to a later roc() call as the only support (a common
    # way to evaluate a second object on the same grid) must come back unchanged, and so must the curve
    kept = [np.array(getattr(c, a_), copy=True) for a_ in ("thresholds", "fnr", "fpr")]
    common.call(roc, s, thresholds=c.thresholds, x_axis="fnr" if xaxis != "fnr" else "fpr")
    if any(not np.array_equal(np.asarray(getattr(c, a_)), k_, equal_nan=True) for a_, k_ in zip(("thresholds", "fnr", "fpr"), kept)):
        pre.append(Issue("PROPFAIL", "rates", f"{desc}: after roc(scores, thresholds=curve.thresholds) the earlier curve changed: thresholds "
                         f"{kept[0].tolist()[:6]} -> {np.asarray(c.thresholds).tolist()[:6]} while fnr/fpr stayed: its rates are no longer "
                         f"the rates at its thresholds", sig + "/kept-curve"))
    othr, ofnr, ofpr = _flat(kept[0]), _flat(kept[1]), _flat(kept[2])
    for name, v in (("thresholds", c.thresholds), ("fnr", c.fnr), ("fpr", c.fpr)):
        if np.asarray(v).ndim != 1:
            pre.append(Issue("PROPFAIL", "length", f"{desc}: {name} has shape {np.asarray(v).shape}", sig + "/shape"))
    tarr = np.array(othr, dtype=float)
    # rates exactly the object's rates at the returned thresholds
    for name, got, fn in (("fnr", ofnr, s.fnr), ("fpr", ofpr, s.fpr)):
        want = _flat(fn(tarr))
        if not (len(want) == len(got) and np.array_equal(np.array(got), np.array(want), equal_nan=True)):
            pre.append(Issue("PROPFAIL", "rates", f"{desc}: curve.{name}={got} but scores.{name}(curve.thresholds)={want} "
                             f"thresholds={othr}", sig + f"/rates/{name}"))
    ocm = cells(s.cm(tarr))
    # required thresholds (exact: same code path as the implementation must have used)
    req = list(inp["thr"] or [])
    if inp["fnr"] is not None:
        req += _flat(s.threshold_at_fnr(np.array(inp["fnr"], dtype=float)))
    if inp["fpr"] is not None:
        req += _flat(s.threshold_at_fpr(np.array(inp["fpr"], dtype=float)))
    # views
    views = {}
    for name in AXES:
        r = common.call(getattr, c, name)
        if r[0] == "exc":
            pre.append(Issue("PROPFAIL", "views", f"{desc}: curve.{name} raised {r[1]}: {r[2]}", sig + f"/views/{name}"))
            views[name] = [float("nan")] * len(ofnr)
        else:
            views[name] = _flat(r[1])

    def same(a, b):
        return len(a) == len(b) and np.array_equal(np.array(a), np.array(b), equal_nan=True)

    want_views = {"tpr": _flat(1.0 - np.array(ofnr)), "tnr": _flat(1.0 - np.array(ofpr)), "frr": ofnr, "far": ofpr}
    want_views["tar"], want_views["trr"] = want_views["tpr"], want_views["tnr"]
    for name, want in want_views.items():
        if not same(views[name], want):
            pre.append(Issue("PROPFAIL", "views", f"{desc}: curve.{name}={views[name]} expected {want} "
                             f"(fnr={ofnr}, fpr={ofpr})", sig + f"/views/{name}"))
    if xaxis in AXES:
        ox = views[xaxis]
    else:
        ox = []
    # nb_points is ignored when points are supplied
    if nsup > 0:
        nb2 = 3 if nb != 3 else 5
        r2 = common.call(roc, s, **kwargs(nb2))
        if r2[0] == "exc" or not same(_flat(r2[1].thresholds), othr):
            pre.append(Issue("PROPFAIL", "length", f"{desc}: result depends on nb_points although points are supplied "
                             f"(nb_points={nb2} gives {r2[1] if r2[0] == 'exc' else _flat(r2[1].thresholds)} vs {othr})",
                             sig + "/nb-ignored"))
    ln = line("roc", obs=1, **base, othr=ql(othr), ofnr=ql(ofnr), ofpr=ql(ofpr), ocm=il(ocm), ox=ql(ox),
              otpr=ql(views["tpr"]), otnr=ql(views["tnr"]), req=ql(req), epsr=q(Fraction(1, 2**50)),
              epst=q(Fraction(0) if ex else Fraction(1, 10**9) * Fraction(scale + 1)))
    # --- float-bound lines: the interpolated support thresholds against the exact model's, target by target (no sorting
    # involved: the implementation's own threshold_at_fnr / threshold_at_fpr on the targets roc() uses, the same code path).
    # Supplied targets are exact doubles (op `flbound`); the default path uses np.linspace(0, 1, k), whose entries
    # fl(i * fl(1/(k-1))) are themselves rounded (op `flboundlin`: the target is an expression with its own error bound).
    sbase = dict(pos=ql(pos), neg=ql(neg), ep=inp["ep"], en=inp["en"], sc=inp["sc"], ec=inp["ec"], sorted=0)
    fl_lines, fl_items = [], []
    paired = True
    if nsup > 0:
        for key, fn_ in (("fnr", s.threshold_at_fnr), ("fpr", s.threshold_at_fpr)):
            if inp[key]:
                r_ = common.call(fn_, np.array(inp[key], dtype=float))
                if r_[0] == "ok":
                    fl_items.append((key, list(inp[key]), _flat(r_[1])))
                    fl_lines.append(line("flbound", **sbase, metric=key, rs=ql(inp[key]), u=q(U53)))
    elif nb is not None:
        mine = []
        for key, fn_, k_ in (("fnr", s.threshold_at_fnr, nb // 2), ("fpr", s.threshold_at_fpr, nb - nb // 2)):
            tg = np.linspace(0.0, 1.0, k_, endpoint=True)
            # the float model of linspace (lean/SA/Model/FloatRoc.lean: linspaceE): fl(i * fl(1/(k-1))), last entry 1.0
            want_tg = [0.0] if k_ == 1 else [1.0 if i == k_ - 1 else i * (1.0 / (k_ - 1)) for i in range(k_)]
            if [float(x) for x in tg] != want_tg:
                paired = False
                tags.append("float-bound linspace-differs")
                continue
            r_ = common.call(fn_, tg)
            if r_[0] == "ok":
                mine += _flat(r_[1])
                if k_ > 0:
                    fl_items.append((key, [float(x) for x in tg], _flat(r_[1])))
                    fl_lines.append(line("flboundlin", **sbase, metric=key, k=k_, u=q(U53)))
        # the thresholds judged here are the ones roc() returned (same multiset, bit for bit)
        if paired and sorted(mine) != sorted(othr):
            paired = False
            tags.append("float-bound unpaired")
    if not paired:
        fl_lines, fl_items = [], []
    fl_ok_inputs = fl_in_range(pos) and fl_in_range(neg)
    inp["_evals"] = max(len(othr), 1)
    case = Case(ID, inp, [ln] + fl_lines, None, tuple(tags), 0, pre)

    def judge(outs):
        o = outs[0]
        iss = []
        if "err" in o:
            kind = "bad-axis" if xaxis not in AXES else "error"
            iss.append(Issue("DISAGREE", kind, f"{desc} returned {othr} but the model raises {o['err']}", sig + "/" + kind))
            return iss
        mthr = common.pfracs(o["mthr"])
        mfnr, mfpr = common.pfracs(o["mfnr"]), common.pfracs(o["mfpr"])
        if len(mthr) != len(othr):
            iss.append(Issue("DISAGREE", "thresholds", f"{desc}: {len(othr)} thresholds, model has {len(mthr)}", sig + "/nthr"))
        elif ex:
            if [common.fr(t) for t in othr] != mthr:
                iss.append(Issue("DISAGREE", "thresholds", f"{desc}: thresholds {othr} model {[float(t) for t in mthr]}", sig + "/thr"))
            else:
                for name, got, mod in (("fnr", ofnr, mfnr), ("fpr", ofpr, mfpr)):
                    if len(got) != len(mod) or not all(
                            common.close(g, m, rel=Fraction(1, 2**50), abs_=Fraction(0)) for g, m in zip(got, mod)):
                        iss.append(Issue("DISAGREE", "rates", f"{desc}: curve.{name}={got} model "
                                         f"{[None if m is None else float(m) for m in mod]}", sig + f"/mrates/{name}"))
        else:
            a, b = sorted(othr), sorted(mthr)
            bad = [(x, float(y)) for x, y in zip(a, b)
                   if not common.close(x, y, rel=Fraction(1, 10**9), abs_=Fraction(1, 10**9), scale=scale)]
            if bad:
                iss.append(Issue("DISAGREE", "thresholds", f"{desc}: sorted thresholds differ from the model's at {bad[:3]}", sig + "/thr"))
        # --- float-bound: |impl - model| per target against the bound of SA.thresholdAt_fl_error (supplied targets) /
        # SA.thresholdAtE_fl_error, SA.C15_linspace_fl_error (linspace targets); same neighbours -> eps, else Lipschitz
        worst, nchk = None, 0
        for (key, tgs, got), o2 in zip(fl_items, outs[1:]):
            if "err" in o2 or not fl_ok_inputs:
                continue
            f_ok, f_int, f_same = common.plist(o2["ok"]), common.plist(o2["interior"]), common.plist(o2["same"])
            f_eps, f_lip, f_t = common.pfracs(o2["eps"]), common.pfracs(o2["epslip"]), common.pfracs(o2["t"])
            if not (len(got) == len(tgs) == len(f_ok)):
                continue
            for k, r in enumerate(tgs):
                a_ = common.fr(got[k])
                if f_ok[k] != "1" or f_int[k] != "1" or a_ is None or isinstance(a_, float) or not fl_in_range([r]):
                    continue  # a special case applies (or may apply within rounding): sentinel values, compared above
                bound = f_eps[k] if f_same[k] == "1" else f_lip[k]
                d = abs(a_ - f_t[k])
                ratio = d / bound if bound > 0 else (Fraction(0) if d == 0 else Fraction(10**6))
                worst = ratio if worst is None or ratio > worst else worst
                nchk += 1
                if d > FLBOUND_SLACK * bound:
                    iss.append(Issue("DISAGREE", "float-bound", f"{desc}: support threshold threshold_at_{key}({r}) impl={got[k]} "
                                     f"model={float(f_t[k])} differ by {float(d):.3e} > {FLBOUND_SLACK} x {float(bound):.3e} "
                                     f"(theorem bound, {'same neighbours' if f_same[k] == '1' else 'Lipschitz'}"
                                     f"{', linspace target' if nsup == 0 else ''}; ratio {float(ratio):.2f})",
                                     sig + "/float-bound"))
        case.tags = case.tags + ("float-bound ratio " + fl_bucket(worst),)
        case.flratio, case.flchecked = worst, nchk
        # the model's matrices / rates at the implementation's thresholds
        if common.pints(o["mcm"]) != ocm:
            iss.append(Issue("DISAGREE", "cm", f"{desc}: scores.cm(thresholds) cells {ocm} model {common.pints(o['mcm'])}", sig + "/cm"))
        else:
            for name, got, key in (("fnr", ofnr, "rfnr"), ("fpr", ofpr, "rfpr")):
                mod = common.pfracs(o[key])
                if len(got) == len(mod) and not all(
                        common.close(g, m, rel=Fraction(1, 2**50), abs_=Fraction(0)) for g, m in zip(got, mod)):
                    iss.append(Issue("PROPFAIL", "rates", f"{desc}: curve.{name}={got} but the rates of the matrices at the "
                                     f"returned thresholds are {[None if m is None else float(m) for m in mod]}", sig + f"/rates/{name}"))
        details = {
            "rates": f"thresholds={othr} fnr={ofnr} fpr={ofpr} cm cells at thresholds={ocm}",
            "monotone": f"curve.{xaxis}={ox} is not non-decreasing; thresholds={othr}",
            "contains": f"thresholds={othr} lack one of the required {req}",
            "containsmodel": f"thresholds={othr} lack (to 1e-9) one of the model's supplied points {o.get('msup')}",
            "length": f"{len(othr)} points; supplied={nsup} nb_points={nb} |pos|+|neg|={len(pos) + len(neg)}",
            "views": f"tpr={views['tpr']} tnr={views['tnr']} fnr={ofnr} fpr={ofpr}",
        }
        for cl_, det in details.items():
            if o.get("spec." + cl_) != "1":
                clause = "contains" if cl_ == "containsmodel" else cl_
                iss.append(Issue("PROPFAIL", clause, f"{desc}: {det}", sig + "/" + cl_))
        return iss

    case.judge = judge
    return case


def shrink_candidates(inp):
    for key in ("pos", "neg"):
        xs = inp[key]
        if len(xs) > 1:
            for i in range(len(xs)):
                c = dict(inp); c[key] = xs[:i] + xs[i + 1:]; yield c
    for key in ("fnr", "fpr", "thr"):
        xs = inp[key]
        if xs is not None:
            c = dict(inp); c[key] = None; yield c
            if len(xs) > 1:
                for i in range(len(xs)):
                    c = dict(inp); c[key] = xs[:i] + xs[i + 1:]; yield c
    for key in ("ep", "en"):
        if inp[key] > 0:
            c = dict(inp); c[key] = 0; yield c
            c = dict(inp); c[key] = 1; yield c
    if inp["nb"] not in (None, 0, 1, 2):
        for v in (2, 3, 4):
            if v < inp["nb"]:
                c = dict(inp); c["nb"] = v; yield c
    if inp.get("aslist"):
        c = dict(inp); c["aslist"] = False; yield c
    for key in ("pos", "neg"):
        xs = inp[key]
        for i, x in enumerate(xs):
            if x != round(x):
                c = dict(inp); c[key] = xs[:i] + [float(round(x))] + xs[i + 1:]; yield c


# --------------------------------------------------------------------------------------
# second tie: the decision tables of this property regenerated from the source on every run
# (harness/dectables.py -> generated Lean file checked by the kernel; bridge: SA/Theorems/DecTables.lean)
# --------------------------------------------------------------------------------------
def extra_gate_start():
    """start the translator + Lean check in a child process; the cases run meanwhile"""
    import common
    import dectables
    return dectables.start(common.REPO)


def extra_gate_finish(handle):
    """-> {problems, theorems, obligations, discharged, notes, evidence}; a definite mismatch of a table row is a
    broken proof obligation, `unknown` rows are evidence only"""
    import dectables
    return dectables.gate_result(dectables.finish(handle), ID)
