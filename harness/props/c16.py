"""C16 — ROC confidence bands are well-formed envelopes of pointwise rectangles."""
from __future__ import annotations

import copy
import math
import random
from fractions import Fraction

import numpy as np

import common
import gen
import rng_script
from common import Case, Issue, q, ql, il, line
from rng_script import ScriptedRNG, adversarial
from thr_common import cells

ID = "C16"
LEVEL = "proof"
RULE = ("the first 3200 (quick) / 48000 (thorough) case indices cycle through 10 slots: roc_with_ci with the identity sampler (x2), roc_with_ci with a built-in sampler "
        "(replacement / single_pass / proportion x stratified None / by_label, nb_samples 10-20, np.random.seed) (x3), "
        "pointwise_band_ci, simultaneous_joint_region_ci, fixed_width_band_ci (nb_points None or >= 3, no supplied points), "
        "direct _aggregate_rectangles calls (incl. NaN entries, inverted and degenerate rectangles), direct "
        "_apply_rule_of_three calls (rates k/(n+easy), k = 0..n). Scores: both classes non-empty, sizes 2-30, dyadic / "
        "generic / tie-free / shared-pool values, 4 configurations, easy samples in ~15% of the cases; all 16 combinations of "
        "fnr / fpr / thresholds / nb_points (None or supplied; supplied thresholds include every scored value and its float "
        "neighbours so that rates 0, 1/n, (n-1)/n, 1 occur), 8 x_axis names, alpha in {0.01, 0.05, 0.3, 0.9}, bootstrap "
        "methods quantile / bc / bca; non-trivial = distinct input with ties or easy samples or a non-default configuration "
        "or supplied points or NaN entries. The following 240 (quick) / 3600 (thorough) indices are the scripted kind 'rwcs': "
        "roc_with_ci (3 of 4) / pointwise_band_ci under ScriptedRNG (np.random.binomial/poisson/choice patched, requests and "
        "answers recorded; half of the scripts realistic, half adversarial: all-zero / all-one multiplicities, extreme class "
        "splits, first / last index), built-in samplers replacement / single_pass / dynamic / proportion x stratified None / "
        "by_label, nb_samples 3-8, sources of 2-9 scores per class (65% without cross-class ties), easy samples in 20%, the 16 "
        "combinations of supplied points, 8 x_axis names, 4 alphas, quantile / bc / bca")
EXPLANATION = ("Theorems in SA/Theorems/C16.lean prove for the model (SA/Model/RocCI.lean) and ALL inputs: the band of "
               "_aggregate_rectangles at x_j is the min / max over rectangle j and the rectangles whose x-interval covers x_j "
               "(C16_aggregate_envelope), ordered if the rectangles are (C16_ordered), inside [0,1] if they are "
               "(C16_unit_interval), total on NaN-free input with NumPy's / Python's NaN semantics (C16_no_nan); the rule of "
               "three replaces a row exactly when p < 1/n resp. p > (n-1)/n (C16_rule_of_three), which for a rate k/n is "
               "exactly rate = 0 resp. 1 (C16_rule_of_three_exact / _zero_one); roc_with_ci's thresholds are a permutation of "
               "plain support + extra points + four sentinels (C16_support_perm / _contains / _length / C16_monotone / "
               "C16_total), its rates are the object's rates and never NaN (C16_rates_match), its bands are the closed form "
               "aggregate(rule-of-three(bootstrap intervals)) (C16_closed_form, C16_length, C16_roc_wellformed), under the "
               "identity sampler every interval is (estimate, estimate) for all three methods (C16_identity_interval) and the "
               "bands equal the explicit closed form (C16_identity_closed_form); simultaneous_joint_region_ci and "
               "pointwise_band_ci are compositions of the same pieces (C16_sjr_ordered, C16_pointwise_band). The correspondence "
               "run calls the real functions, records the real _apply_rule_of_three / _aggregate_rectangles / "
               "Scores.bootstrap_ci calls, recomputes the joint bootstrap interval with the documented metric under the same "
               "seed, and evaluates the Lean predicates (shape, NaN-free, ordered, [0,1], rates, monotone, sentinels, length, "
               "rule of three, envelope, closed form) on the implementation's own outputs; the model's thresholds are compared "
               "as sorted multisets to 1e-9. fixed_width_band_ci: theorems in SA/Theorems/C16Fwb.lean prove for the model "
               "(SA/Model/FixedWidth.lean: _displace_curve, np.interp on monotone tables, _is_contained, _find_tube_radius, "
               "the quantile of the radii, the band assembly) and ALL inputs: the band is total exactly on curves with "
               "len(fnr) = len(fpr) >= 1 (C16_fwb_total), has one row per point (C16_fwb_shape), is ordered for a monotone "
               "curve, k >= 0, delta >= 0 (C16_fwb_ordered), lies in [0, nextafter(1, inf)] (C16_fwb_range), grows with "
               "delta (C16_fwb_monotone_delta), has zero width at delta = 0 (C16_fwb_zero_width); the tube radius is 0 or a "
               "bisection midpoint (2m+1)/256 in (0, 1) (C16_fwb_radius_grid, C16_fwb_bisect_fuel, C16_fwb_radius_bracket), "
               "containment is monotone in the radius (C16_fwb_contained_monotone), delta is defined and in [0, 1) for every "
               "alpha (C16_fwb_delta), every curve of a Scores object with both classes non-empty is NaN-free and monotone "
               "(C16_fwb_curve_monotone) and its band well formed (C16_fwb_wellformed, C16_fwb_scores_wellformed); "
               "C16_fwb_not_contains_curve is a kernel-checked counterexample to 'the band contains the curve' (delta = 0 "
               "and a vertical segment). The correspondence run records the real _find_tube_radius / _displace_curve / "
               "bootstrap_ci calls of every fixed_width_band_ci call and evaluates the Lean predicates of SA/Spec/C16Fwb.lean "
               "on them: the helpers are called with the returned curve and k = sqrt(len(neg)/len(pos)), every recorded "
               "radius is the model's bisection result and on the grid, delta is the linear quantile of the radii at level "
               "1 - alpha, the final displacement vectors are +-(delta, delta k), sampled _displace_curve calls are the "
               "clipped translate with reset end points and monotone, the bands are the interpolations of the observed "
               "displaced curves and equal the model's closed form, and lie in [0, nextafter(1, inf)]. Scripted kind: theorems in "
               "SA/Theorems/C16Script.lean prove for the end-to-end model rocWithCIScript (SA/Model/RocCIScript.lean: _metric(self), "
               "nb_samples x (bootstrap_sample on the script, _metric(sample)), utils.bootstrap_ci per component, rule of three, "
               "aggregation) that it IS rocWithCI with boot := the script-driven interval (C16_script_refines / _errors), that the RNG "
               "is left in the state after exactly nb_samples consecutive bootstrap_sample calls and the request list is the "
               "concatenation of their requests (C16_script_state / _requests), that on EVERY ok run (in-support answers) of every "
               "runnable built-in sampler on a source with both classes scored the call returns and the bands have one row per "
               "threshold, are NaN-free and inside [0,1] for all three methods, ordered for quantile / bc (C16_script_wellformed, "
               "_quantile, _bc; pointwise_band_ci: C16_script_pointwise_wellformed), that every sample of such a run has a scored "
               "positive and negative, keeps the flags and is sorted (C16_script_samples), and that on the identity script the bands "
               "are those of C16_identity_closed_form (C16_script_identity). The correspondence run (driver op rocciscript) runs "
               "that model on the implementation's thresholds, float rates and recorded RNG answers and compares bands (1e-12), "
               "request sequence (exact) and the replicate matrix of Scores.bootstrap_metric entry by entry.")
TRUSTED_BASE = ["Lean 4.33 kernel", "axioms propext/Classical.choice/Quot.sound only",
                "hand-written model SA/Model/RocCI.lean (+Roc.lean, Threshold.lean, Basic.lean) tied to /repo by this correspondence run",
                "hand-written model SA/Model/FixedWidth.lean (np.interp's compiled search modelled as a linear scan, valid for "
                "non-decreasing tables, which C16_fwb_displace_sorted proves all tables are) tied to /repo by the recorded helper calls",
                "oracles: np.nextafter, np.sqrt(len(neg)/len(pos)), math.pow(alpha, 1/n), scipy.stats.ksone.ppf, the bootstrap "
                "samples of fixed_width_band_ci (their rates are the recorded arguments of _find_tube_radius), the joint bootstrap interval "
                "(Scores.bootstrap_ci of the documented metric; C13/C14 cover it)",
                "np.sort / np.concatenate / np.linspace / np.where / np.min / np.max by documented meaning",
                "harness/dsdefs.py (reading of np.where / boolean-mask assignment / np.select / np.array([[a, b]]) in _apply_rule_of_three) for the regenerated rule-of-three row; values only",
                "harness and driver parsing; tolerance 1e-9 on interpolated thresholds, 1e-12 on band values, 2^-50 on quotients",
                "scripted kind: harness/rng_script.py (ScriptedRNG), the composed model SA/Model/RocCIScript.lean (+Sampling.lean, Rng.lean, "
                "BootMetric.lean, Bootstrap.lean), oracles: normal ppf / cdf and x**1.5 (recorded scipy calls, two-pass protocol), the float "
                "rounding of the curve's rates (the implementation's own curve.fnr / curve.fpr, checked against scores.fnr/fpr(thresholds))"]
ASSUMPTIONS = ["finite float scores of moderate magnitude, both classes non-empty, 1-d array arguments, nb_points >= 1 or None "
               "(roc_with_ci(nb_points=0) raises IndexError on thresholds[[0, -1]]; modelled as an error, not generated)",
               "alpha in (0,1)",
               "fixed_width_band_ci only with a support of at least 3 points spanning the curve (nb_points None or >= 3): with "
               "exactly two support points (nb_points=2) every call raises 'Could not initialise search for displacement'",
               "a recorded _find_tube_radius result that differs from the model's is counted as skipped (not as a failure) only if, "
               "at the radius where the two containment decisions differ, some comparison is within 1e-9 of equality (1e-12 for a "
               "table ordinate, never for the constants 0, 1, nextafter(1, inf)) AND the observed radius is what the opposite decision "
               "at that radius leads to (float rounding of slope * (x - xp) + fp vs exact arithmetic decides a >= test)",
               "at most 10 _find_tube_radius calls (fewer for curves with more than 54 points: the model's interpolation is quadratic "
               "in the number of points) and 6 _displace_curve calls (the two final ones always) of each fixed_width_band_ci call are "
               "sent to the model; all radii enter the delta check",
               "the closed-form comparison is skipped when a returned rate lies within 1e-9 of 1 - pow(alpha, 1/n) without "
               "being equal to it (float subtraction vs exact subtraction decides a covering test)",
               "ordering of roc_with_ci / pointwise_band_ci bands is not claimed in a run whose bootstrap limits are themselves "
               "unordered (BCa beyond its pole, an assumption of C13); such runs are counted as skipped",
               "the number of extra support points is taken from the implementation's own plain support "
               "(_find_support_thresholds(..., None, x_axis), property C15)",
               "scripted kind: an entry of the replicate matrix is 'fragile' when the exact threshold of _metric lies within 1e-9 (relative "
               "to the score scale) of a score of the class whose rate is counted there (float rounding of the interpolation decides the "
               "side; needs cross-class ties); fragile entries are compared after replacing them by the fraction c/den nearest to the "
               "observed replicate, and a band difference that remains is counted as skipped only if the model reports a rectangle end "
               "point within 1e-9 of a point it may cover (cover), the existing 1-pow near miss (disc) or a BCa pole; smoothing is not "
               "generated (noise is not modelled)"]

AXES = ["fnr", "fpr", "tnr", "tpr", "far", "frr", "tar", "trr"]
ALPHAS = [0.01, 0.05, 0.3, 0.9]
BMS = ["quantile", "bc", "bca"]
SAMPLERS = [("replacement", None), ("replacement", "by_label"), ("single_pass", None), ("single_pass", "by_label"),
            ("proportion", None), ("proportion", "by_label")]
KINDS = ["rwc-id", "rwc", "rwc-id", "rwc", "rwc", "pw", "sjr", "fwb", "aggr", "rot"]
EPS = Fraction(1, 10**12)


N_BASE = {"quick": 3200, "thorough": 48000}   # the 10 slots of KINDS, exactly as before the scripted kind was added
N_SCRIPT = {"quick": 240, "thorough": 3600}   # then this many cases of the scripted kind "rwcs"
SCRIPT_SAMPLERS = SAMPLERS + [("dynamic", None), ("dynamic", "by_label")]
SCRIPT_MODES = ["zeros", "zeros+lo", "zeros+hi", "lo", "hi", "lo1", "hi1", "ones", "first", "last", "zeros+first", "zeros+last",
                "hi1+lo", "lo1+hi", "hi+last", "lo+first", "ones+first", "ones+last"]
SCRIPT_TOL = Fraction(1, 10**9)


# --------------------------------------------------------------------------------------
# second tie for the closed forms: regenerated from the source on every run (harness/dsdefs.py -> generated Lean file, the
# translated rows compared with the model's by the kernel; soundness: SA/Theorems/C16Defs.lean + C20Defs.lean)
# --------------------------------------------------------------------------------------
def extra_gate_start():
    """start the translator + Lean check in a child process; the sampled cases run meanwhile"""
    import dsdefs
    return dsdefs.start(ID, common.REPO)


def extra_gate_finish(handle):
    """-> {problems, theorems, obligations, discharged, notes, evidence, evidence_key}; a definite mismatch (an outcome code or a
    named probe under the lawful interpretation separates a translated formula from the model's) is a broken proof obligation,
    unknowns are evidence only"""
    import dsdefs
    return dsdefs.gate_result(dsdefs.finish(handle))


def n_cases(tier):
    t = tier if tier in N_BASE else "quick"
    return N_BASE[t] + N_SCRIPT[t]


def _slot(i, tier):
    """(kind, j): indices below N_BASE keep the slot they always had, the next N_SCRIPT indices are the scripted kind; beyond
    that range (the search runs that start at a large index) every 12th index is scripted, the others cycle through KINDS"""
    t = tier if tier in N_BASE else "quick"
    if i < N_BASE[t]:
        return KINDS[i % len(KINDS)], i // len(KINDS)
    if i < N_BASE[t] + N_SCRIPT[t]:
        return "rwcs", i - N_BASE[t]
    if i % 12 == 11:
        return "rwcs", i // 12
    return KINDS[i % len(KINDS)], i // len(KINDS)


# --------------------------------------------------------------------------------------
# generation
# --------------------------------------------------------------------------------------
def _scores(rng):
    npos, nneg = rng.randint(2, 30), rng.randint(2, 30)
    if rng.random() < 0.25:
        npos, nneg = rng.randint(2, 5), rng.randint(2, 5)
    elif rng.random() < 0.06:
        npos, nneg = rng.randint(31, 250), rng.randint(31, 250)
    style = rng.choice(["dyadic", "generic", "tiefree", "shared", "separated"])
    if style == "dyadic":
        pos = [rng.randint(-16, 24) / 8.0 for _ in range(npos)]
        neg = [rng.randint(-24, 16) / 8.0 for _ in range(nneg)]
    elif style == "generic":
        pos = [rng.gauss(1.0, 1.0) for _ in range(npos)]
        neg = [rng.gauss(0.0, 1.0) for _ in range(nneg)]
    elif style == "tiefree":
        pos, neg = gen.tiefree(rng, npos, nneg, rng.random() < 0.5)
    elif style == "shared":
        pool = [rng.randint(-8, 8) / 4.0 for _ in range(rng.randint(1, 5))]
        pos = [rng.choice(pool) for _ in range(npos)]
        neg = [rng.choice(pool) for _ in range(nneg)]
    else:
        pos = [abs(rng.gauss(0, 1)) + 0.25 for _ in range(npos)]
        neg = [-abs(rng.gauss(0, 1)) - 0.25 for _ in range(nneg)]
    if rng.random() < 0.15:
        ep, en = rng.choice([0, 1, 3, 8, 30]), rng.choice([0, 2, 5, 8, 30])
    else:
        ep, en = 0, 0
    sc, ec = rng.choice(gen.CFGS)
    return [float(x) for x in pos], [float(x) for x in neg], ep, en, sc, ec


def _rates(rng, n_rel, n_all):
    def one():
        c = rng.random()
        if c < 0.25:
            return rng.choice([0.0, 1.0, 0.5, 0.0, 1.0])
        if c < 0.5:
            return rng.randint(0, n_all) / n_all
        if c < 0.65:
            return rng.randint(0, n_rel) / n_rel
        if c < 0.7:
            return rng.choice([-0.25, 1.25])
        return rng.random()
    return [float(one()) for _ in range(rng.randint(1, 5))]


def _thresholds(rng, pos, neg):
    c = rng.random()
    if c < 0.35:
        # every scored value of one class and its float neighbours: rates 0, 1/n, ..., (n-1)/n, 1
        src = sorted(set(pos if rng.random() < 0.5 else neg))
        vals = []
        for v in src:
            vals += [v, gen.up(v), gen.down(v)]
        if len(vals) > 24:
            vals = vals[:9] + vals[-9:]
        return [float(v) for v in vals]
    pool = [t for t in gen.thresholds(rng, pos, neg, k=6) if np.isfinite(t)]
    if c < 0.55:
        return [float(rng.choice(pool))]
    return [float(rng.choice(pool)) for _ in range(rng.randint(2, 7))]


def _gen_aggr(rng):
    n = rng.randint(1, 8)
    grid = [k / 4.0 for k in range(0, 5)] + [rng.random() for _ in range(3)]

    def iv(allow_bad):
        a, b = rng.choice(grid), rng.choice(grid)
        if a > b and not (allow_bad and rng.random() < 0.2):
            a, b = b, a
        return [float(a), float(b)]
    x = [float(rng.choice(grid)) for _ in range(n)]
    dxp = [iv(True) for _ in range(n)]
    dyp = [iv(True) for _ in range(n)]
    if rng.random() < 0.3:  # points coinciding with rectangle ends: <= vs <
        for j in range(n):
            x[j] = rng.choice([dxp[rng.randrange(n)][rng.randrange(2)], x[j]])
    nan = rng.random() < 0.3
    if nan:
        for _ in range(rng.randint(1, 3)):
            w = rng.randrange(3)
            j = rng.randrange(n)
            if w == 0:
                x[j] = math.nan
            elif w == 1:
                dxp[j][rng.randrange(2)] = math.nan
            else:
                dyp[j][rng.randrange(2)] = math.nan
    return {"kind": "aggr", "x": x, "dxp": dxp, "dyp": dyp, "nan": nan}


def _gen_rot(rng):
    # class sizes far beyond the toy range too: whether k/n sits on the 1/n or (n-1)/n boundary is an exact question,
    # and float rewrites of the test (p*n < 1, 1-p < 1/n, ...) go wrong only for particular n (49, 98, 103, ...)
    n = rng.randint(1, 12) if rng.random() < 0.5 else rng.randint(13, 3000)
    e = rng.choice([0, 0, 0, 0, 3, 8, 2 * n, 7 * n])
    ks = sorted(set([0, n, min(1, n), max(n - 1, 0)] + [rng.randint(0, n) for _ in range(4)]))
    if rng.random() < 0.5:
        rng.shuffle(ks)
    ci = []
    for _ in ks:
        a, b = sorted([rng.random(), rng.random()])
        ci.append([float(a), float(b)])
    return {"kind": "rot", "n": n, "easy": e, "ks": ks, "ci": ci, "alpha": rng.choice(ALPHAS + [rng.uniform(0.001, 0.999)]),
            "nanrow": rng.random() < 0.1}


def _scores_small(rng):
    npos, nneg = rng.randint(2, 6), rng.randint(2, 6)
    if rng.random() < 0.25:
        npos, nneg = rng.randint(2, 9), rng.randint(2, 9)
    style = rng.choice(["generic", "generic", "tiefree", "tiefree", "separated", "dyadic", "shared", "tiefree"])
    if style == "dyadic":
        pos = [rng.randint(-8, 12) / 4.0 for _ in range(npos)]
        neg = [rng.randint(-12, 8) / 4.0 for _ in range(nneg)]
    elif style == "generic":
        pos = [rng.gauss(1.0, 1.0) for _ in range(npos)]
        neg = [rng.gauss(0.0, 1.0) for _ in range(nneg)]
        if rng.random() < 0.4:  # ties within a class, none across
            pos[rng.randrange(npos)] = pos[0]
            neg[rng.randrange(nneg)] = neg[0]
    elif style == "tiefree":
        pos, neg = gen.tiefree(rng, npos, nneg, rng.random() < 0.5)
    elif style == "shared":
        pool = [rng.randint(-8, 8) / 4.0 for _ in range(rng.randint(2, 5))]
        pos = [rng.choice(pool) for _ in range(npos)]
        neg = [rng.choice(pool) for _ in range(nneg)]
    else:
        pos = [abs(rng.gauss(0, 1)) + 0.25 for _ in range(npos)]
        neg = [-abs(rng.gauss(0, 1)) - 0.25 for _ in range(nneg)]
    if rng.random() < 0.2:
        ep, en = rng.choice([0, 1, 2, 5]), rng.choice([0, 1, 3, 4])
    else:
        ep, en = 0, 0
    sc, ec = rng.choice(gen.CFGS)
    return [float(x) for x in pos], [float(x) for x in neg], ep, en, sc, ec


def _gen_script(rng, j):
    pos, neg, ep, en, sc, ec = _scores_small(rng)
    combo = j % 16
    sm, st = rng.choice(SCRIPT_SAMPLERS)
    fn = "pw" if rng.random() < 0.25 else "rwc"
    return {"kind": "rwcs", "fn": fn, "pos": pos, "neg": neg, "ep": ep, "en": en, "sc": sc, "ec": ec,
            "fnr": _rates(rng, len(pos), len(pos) + ep)[:3] if combo & 1 else None,
            "fpr": _rates(rng, len(neg), len(neg) + en)[:3] if combo & 2 else None,
            "thr": _thresholds(rng, pos, neg)[:6] if combo & 4 else None,
            "nb": rng.choice([1, 2, 3, 5, 8]) if combo & 8 else None,
            "xaxis": rng.choice(AXES) if fn == "rwc" else "fnr", "alpha": rng.choice(ALPHAS), "bm": rng.choice(BMS),
            "sampler": sm, "strat": st, "ratio": rng.choice([0.6, 0.5, 0.3, 0.9]) if sm == "proportion" else None,
            "nbs": rng.randint(3, 8),
            "script": {"seed": rng.randrange(10**6), "mode": rng.choice(SCRIPT_MODES) if rng.random() < 0.5 else ""}}


def gen_one(rng, i, tier):
    kind, j = _slot(i, tier)
    if kind == "rwcs":
        return _gen_script(rng, j)
    if kind == "aggr":
        return _gen_aggr(rng)
    if kind == "rot":
        return _gen_rot(rng)
    pos, neg, ep, en, sc, ec = _scores(rng)
    combo = j % 16
    inp = {"kind": kind, "pos": pos, "neg": neg, "ep": ep, "en": en, "sc": sc, "ec": ec,
           "fnr": _rates(rng, len(pos), len(pos) + ep) if combo & 1 else None,
           "fpr": _rates(rng, len(neg), len(neg) + en) if combo & 2 else None,
           "thr": _thresholds(rng, pos, neg) if combo & 4 else None,
           "nb": rng.choice([1, 2, 3, 5, 8, 20]) if combo & 8 else None,
           "xaxis": rng.choice(AXES), "alpha": rng.choice(ALPHAS), "bm": rng.choice(BMS),
           "seed": rng.randint(0, 2**31 - 1)}
    if kind == "rwc-id":
        inp["kind"] = "rwc"
        inp.update(sampler="identity", strat=None, nbs=3)
        if rng.random() < 0.04:
            # a support of more than 512 points (all scores of two classes of ~300, or a thousand supplied thresholds on
            # few scores) with rectangles that reach far along the curve (well separated classes: long flat runs and
            # rule-of-three rectangles): the envelope is over ALL rectangles covering a point, however far away their index
            if rng.random() < 0.6:
                npos_, nneg_ = rng.randint(270, 330), rng.randint(270, 330)
                shift = rng.choice([6.0, 4.0, 2.5])
                inp["pos"] = [round(rng.gauss(shift, 1.0), 6) for _ in range(npos_)]
                inp["neg"] = [round(rng.gauss(0.0, 1.0), 6) for _ in range(nneg_)]
                inp.update(ep=0, en=0, fnr=None, fpr=None, thr=None, nb=None)
            else:
                lo_, hi_ = min(pos + neg), max(pos + neg)
                inp.update(fnr=None, fpr=None, nb=None,
                           thr=[lo_ + (hi_ - lo_) * k_ / 700.0 for k_ in range(701)])
    else:
        sm, st = rng.choice(SAMPLERS)
        inp.update(sampler=sm, strat=st, nbs=rng.randint(10, 20))
    if kind == "fwb":
        inp.update(fnr=None, fpr=None, thr=None, nb=rng.choice([None, None, 3, 4, 5, 8, 20]), nbs=rng.randint(5, 10))
    if kind != "rwc" and inp["kind"] != "rwc":
        inp["xaxis"] = "fnr"
    return inp


def supplied(inp):
    return sum(len(inp[k]) for k in ("fnr", "fpr", "thr") if inp.get(k) is not None)


def nontrivial(inp):
    if inp["kind"] == "aggr":
        return True
    if inp["kind"] == "rot":
        return True
    pos, neg = inp["pos"], inp["neg"]
    return (inp["ep"] > 0 or inp["en"] > 0 or (inp["sc"], inp["ec"]) != ("pos", "pos")
            or len(set(pos)) < len(pos) or len(set(neg)) < len(neg) or bool(set(pos) & set(neg))
            or supplied(inp) > 0)


# --------------------------------------------------------------------------------------
# helpers
# --------------------------------------------------------------------------------------
def _identity(s):
    return s


def _flat(x):
    return [float(v) for v in np.asarray(x, dtype=float).reshape(-1)]


def _arr(xs):
    return None if xs is None else np.array(xs, dtype=float)


def _container(xs, kind):
    """the documented ArrayLike forms of a support argument: ndarray, read-only ndarray, list, tuple"""
    if xs is None:
        return None
    a = np.array(xs, dtype=float)
    if kind == "list":
        return a.tolist()
    if kind == "tuple":
        return tuple(a.tolist())
    if kind == "readonly":
        a.flags.writeable = False
    return a


def _opt(xs):
    return "none" if xs is None else ql(xs)


def _band_kw(prefix_lo, prefix_hi, b):
    b = np.asarray(b, dtype=float).reshape(-1, 2)
    return {prefix_lo: ql(b[:, 0]), prefix_hi: ql(b[:, 1])}


def _finite_or_nan(*arrays):
    return all(not np.isinf(np.asarray(a, dtype=float)).any() for a in arrays)


def _mk(inp):
    from score_analysis import BootstrapConfig, Scores

    s = Scores(inp["pos"], inp["neg"], nb_easy_pos=inp["ep"], nb_easy_neg=inp["en"], score_class=inp["sc"],
               equal_class=inp["ec"])
    if inp["sampler"] == "identity":
        cfg = BootstrapConfig(nb_samples=inp["nbs"], bootstrap_method=inp["bm"], sampling_method=_identity)
    else:
        cfg = BootstrapConfig(nb_samples=inp["nbs"], bootstrap_method=inp["bm"], sampling_method=inp["sampler"],
                              stratified_sampling=inp["strat"], ratio=0.6 if inp["sampler"] == "proportion" else None)
    return s, cfg


def _desc(fn, inp):
    smp = "lambda s: s" if inp["sampler"] == "identity" else repr(inp["sampler"])
    ax = f", x_axis={inp['xaxis']!r}" if fn == "roc_with_ci" else ""
    return (f"np.random.seed({inp['seed']}); {fn}(Scores(pos={inp['pos']}, neg={inp['neg']}, nb_easy_pos={inp['ep']}, "
            f"nb_easy_neg={inp['en']}, score_class={inp['sc']!r}, equal_class={inp['ec']!r}), fnr={inp['fnr']}, fpr={inp['fpr']}, "
            f"thresholds={inp['thr']}, nb_points={inp['nb']}{ax}, alpha={inp['alpha']}, config=BootstrapConfig(nb_samples="
            f"{inp['nbs']}, bootstrap_method={inp['bm']!r}, sampling_method={smp}, stratified_sampling={inp['strat']!r}"
            f"{', ratio=0.6' if inp['sampler'] == 'proportion' else ''}))")


def _metric_of(fnr, fpr):
    def _metric(_s):
        return np.stack([_s.fnr(_s.threshold_at_fpr(fpr)), _s.fpr(_s.threshold_at_fnr(fnr))], axis=0)
    return _metric


def _joint(s, fnr, fpr, inp, cfg):
    """the joint bootstrap interval of the documented metric, same seed as the call under test"""
    np.random.seed(inp["seed"])
    return common.call(s.bootstrap_ci, metric=_metric_of(fnr, fpr), alpha=inp["alpha"], config=cfg)


def _exact_rates(ocm):
    """exact FNR / FPR from confusion-matrix cells [tp, fn, fp, tn, ...]; None if undefined"""
    pf, pg = [], []
    for k in range(0, len(ocm), 4):
        tp, fn, fp, tn = ocm[k:k + 4]
        pf.append(None if tp + fn == 0 else Fraction(fn, tp + fn))
        pg.append(None if fp + tn == 0 else Fraction(fp, fp + tn))
    return pf, pg


def _qo(x):
    return "nan" if x is None else q(x)


def _qol(xs):
    return "[" + ",".join(_qo(x) for x in xs) + "]"


def _same(a, b):
    a, b = np.asarray(a, dtype=float), np.asarray(b, dtype=float)
    return a.shape == b.shape and np.array_equal(a, b, equal_nan=True)


def _scores_kw(inp):
    return dict(pos=ql(inp["pos"]), neg=ql(inp["neg"]), ep=inp["ep"], en=inp["en"], sc=inp["sc"], ec=inp["ec"], sorted=0)


def _tags(inp, fn):
    pos, neg = inp["pos"], inp["neg"]
    t = [fn, f"cfg={inp['sc']},{inp['ec']}", f"alpha={inp['alpha']}", f"method={inp['bm']}",
         f"sampler={inp['sampler']}" + ("" if inp["strat"] is None else "/by_label"),
         "supplied:" + "".join(c for c, k in (("f", "fnr"), ("p", "fpr"), ("t", "thr")) if inp[k] is not None) + ("n" if inp["nb"] is not None else "")]
    if fn == "roc_with_ci":
        t.append(f"xaxis={inp['xaxis']}")
    if inp["ep"] or inp["en"]:
        t.append("easy")
    if len(set(pos)) < len(pos) or len(set(neg)) < len(neg) or set(pos) & set(neg):
        t.append("ties")
    return t


def _cmp_thresholds(othr, mthr, scale):
    """sorted multisets equal to 1e-9?  returns a description of the first differences or None"""
    if len(othr) != len(mthr):
        return f"{len(othr)} thresholds, model has {len(mthr)}"
    a, b = sorted(othr), sorted(mthr)
    bad = [(x, float(y)) for x, y in zip(a, b)
           if not common.close(x, y, rel=Fraction(1, 10**9), abs_=Fraction(1, 10**9), scale=scale)]
    return f"sorted thresholds differ from the model's at {bad[:3]}" if bad else None


def _wellformed(o, desc, sig, what, unit):
    iss = []
    names = {"shape": "shape is not (n, 2) with n = len(thresholds)", "nanfree": "contains NaN",
             "ordered": "has lower > upper (or NaN) in some row"}
    if unit:
        names["unit"] = "leaves [0, 1]"
    for cl_, msg in names.items():
        if o.get("spec." + cl_) != "1":
            iss.append(Issue("PROPFAIL", {"nanfree": "nan"}.get(cl_, cl_), f"{desc}: {what} {msg}", f"{sig}/{cl_}"))
    return iss


# --------------------------------------------------------------------------------------
# direct calls of the two helpers
# --------------------------------------------------------------------------------------
def _build_aggr(inp):
    from score_analysis import roc_curve

    x = np.array([common.unjson_num(v) for v in inp["x"]], dtype=float)
    dxp = np.array([[common.unjson_num(v) for v in r] for r in inp["dxp"]], dtype=float).reshape(-1, 2)
    dyp = np.array([[common.unjson_num(v) for v in r] for r in inp["dyp"]], dtype=float).reshape(-1, 2)
    desc = f"_aggregate_rectangles(x={x.tolist()}, dxp={dxp.tolist()}, dyp={dyp.tolist()})"
    sig = "aggregate"
    has_nan = bool(np.isnan(x).any() or np.isnan(dxp).any() or np.isnan(dyp).any())
    tags = ("_aggregate_rectangles", "nan-input" if has_nan else "defined-input")
    before = (x.copy(), dxp.copy(), dyp.copy())
    res = common.call(roc_curve._aggregate_rectangles, x, dxp, dyp)
    pre = []
    if res[0] == "exc":
        pre.append(Issue("PROPFAIL", "raises", f"{desc} raised {res[1]}: {res[2]}", sig + "/raises"))
        return Case(ID, inp, [], lambda outs: [], tags, 0, pre)
    out = np.asarray(res[1], dtype=float)
    if not (_same(x, before[0]) and _same(dxp, before[1]) and _same(dyp, before[2])):
        pre.append(Issue("PROPFAIL", "mutation", f"{desc}: an argument was modified", sig + "/mutation"))
    if out.shape != (len(x), 2):
        pre.append(Issue("PROPFAIL", "shape", f"{desc}: result has shape {out.shape}", sig + "/shape"))
        return Case(ID, inp, [], lambda outs: [], tags, 0, pre)
    ln = line("aggr", x=ql(x), **_band_kw("dxlo", "dxhi", dxp), **_band_kw("dylo", "dyhi", dyp),
              **_band_kw("olo", "ohi", out), eps=q(0))
    inp = dict(inp)
    inp["_evals"] = len(x)

    def judge(outs):
        o = outs[0]
        iss = []
        if o.get("spec.envelope") != "1":
            if has_nan:
                # NaN rectangle entries never reach the helper for the inputs C16 is claimed for (the pointwise intervals
                # of non-empty classes are NaN-free, C16_no_nan): how NaN propagates through min / max is modelled as coded
                # but is nobody's contract - a refactoring that changes it (Python's order-dependent min vs NumPy's
                # propagating one) keeps the property, so a difference here is counted, not reported
                case.skipped += 1
            else:
                iss.append(Issue("PROPFAIL", "envelope", f"{desc} returned {out.tolist()}; the envelope of the covering rectangles "
                                 f"is lower={o.get('mlo')} upper={o.get('mhi')}", sig + "/envelope"))
        if not has_nan:
            ordered_in = bool((dyp[:, 0] <= dyp[:, 1]).all())
            for cl_ in ("shape", "nanfree") + (("ordered",) if ordered_in else ()):
                if o.get("spec." + cl_) != "1":
                    iss.append(Issue("PROPFAIL", {"nanfree": "nan"}.get(cl_, cl_), f"{desc} returned {out.tolist()} ({cl_})",
                                     f"{sig}/{cl_}"))
        return iss

    case = Case(ID, inp, [ln], judge, tags, 0, pre)
    return case


def _build_rot(inp):
    from score_analysis import roc_curve

    n, e, ks, alpha = inp["n"], inp["easy"], inp["ks"], inp["alpha"]
    m = n + e
    p = np.array([k / m for k in ks], dtype=float)
    pex = [Fraction(k, m) for k in ks]
    ci = np.array(inp["ci"], dtype=float).reshape(-1, 2)
    if inp.get("nanrow"):
        p = np.concatenate([p, [np.nan]])
        pex = pex + [None]
        ci = np.concatenate([ci, [[0.25, 0.5]]], axis=0)
    desc = (f"_apply_rule_of_three(p={p.tolist()} (= k/{m} for k in {ks}), ci={ci.tolist()}, alpha={alpha}, n={n})")
    sig = "rule-of-three"
    tags = ("_apply_rule_of_three", "easy" if e else "no-easy")
    before = (p.copy(), ci.copy())
    res = common.call(roc_curve._apply_rule_of_three, p=p, ci=ci, alpha=alpha, n=n)
    pre = []
    if res[0] == "exc":
        pre.append(Issue("PROPFAIL", "raises", f"{desc} raised {res[1]}: {res[2]}", sig + "/raises"))
        return Case(ID, inp, [], lambda outs: [], tags, 0, pre)
    out = np.asarray(res[1], dtype=float)
    if not (_same(p, before[0]) and _same(ci, before[1])):
        pre.append(Issue("PROPFAIL", "mutation", f"{desc}: an argument was modified", sig + "/mutation"))
    if out.shape != (len(p), 2):
        pre.append(Issue("PROPFAIL", "shape", f"{desc}: result has shape {out.shape}", sig + "/shape"))
        return Case(ID, inp, [], lambda outs: [], tags, 0, pre)
    powa = math.pow(alpha, 1 / n)
    ln = line("rot", p=_qol(pex), **_band_kw("cilo", "cihi", ci), n=n, powa=q(powa), **_band_kw("olo", "ohi", out), eps=q(EPS))
    inp = dict(inp)
    inp["_evals"] = len(p)

    def judge(outs):
        o = outs[0]
        if "err" in o:
            return [Issue("DISAGREE", "rule-of-three", f"{desc} returned but the model raises {o['err']}", sig + "/error")]
        iss = []
        if o.get("spec.rot") != "1":
            iss.append(Issue("PROPFAIL", "rule-of-three", f"{desc} returned {out.tolist()}; rows are replaced exactly for "
                             f"p < 1/n -> (0, 1-pow) and p > (n-1)/n -> (pow, 1), pow={powa}: expected lower={o.get('mlo')} "
                             f"upper={o.get('mhi')}", sig + "/rows"))
        return iss

    return Case(ID, inp, [ln], judge, tags, 0, pre)


# --------------------------------------------------------------------------------------
# the band functions
# --------------------------------------------------------------------------------------
def _curve_checks(c, s, desc, sig, pre):
    """shape and rates on the Python side; returns (othr, ofnr, ofpr, fb, gb, ocm) or None"""
    for name in ("thresholds", "fnr", "fpr"):
        if np.asarray(getattr(c, name)).ndim != 1:
            pre.append(Issue("PROPFAIL", "shape", f"{desc}: {name} has shape {np.asarray(getattr(c, name)).shape}", sig + "/shape"))
            return None
    othr, ofnr, ofpr = _flat(c.thresholds), _flat(c.fnr), _flat(c.fpr)
    n = len(othr)
    if len(ofnr) != n or len(ofpr) != n:
        pre.append(Issue("PROPFAIL", "shape", f"{desc}: {n} thresholds, {len(ofnr)} FNR and {len(ofpr)} FPR values", sig + "/shape"))
        return None
    bands = []
    for name in ("fnr_ci", "fpr_ci"):
        b = getattr(c, name)
        if b is None or np.asarray(b).shape != (n, 2):
            pre.append(Issue("PROPFAIL", "shape", f"{desc}: {name} has shape {None if b is None else np.asarray(b).shape}, "
                             f"expected ({n}, 2)", sig + "/shape"))
            return None
        bands.append(np.asarray(b, dtype=float))
    if not _finite_or_nan(othr, ofnr, ofpr, *bands):
        pre.append(Issue("PROPFAIL", "nan", f"{desc}: infinite value in the curve or its bands "
                         f"fnr_ci={bands[0].tolist()} fpr_ci={bands[1].tolist()}", sig + "/inf"))
        return None
    tarr = np.array(othr, dtype=float)
    for name, got, fn in (("fnr", ofnr, s.fnr), ("fpr", ofpr, s.fpr)):
        want = _flat(fn(tarr))
        if not _same(got, want):
            pre.append(Issue("PROPFAIL", "rates", f"{desc}: curve.{name}={got} but scores.{name}(curve.thresholds)={want} "
                             f"thresholds={othr}", sig + f"/rates/{name}"))
    return othr, ofnr, ofpr, bands[0], bands[1], cells(s.cm(tarr))


def _build_rwc(inp):
    from score_analysis import roc_curve
    from score_analysis.scores import Scores

    s, cfg = _mk(inp)
    desc = _desc("roc_with_ci", inp)
    sig = "roc_with_ci"
    tags = tuple(_tags(inp, "roc_with_ci"))
    pre = []
    xaxis, alpha, nb = inp["xaxis"], inp["alpha"], inp["nb"]

    # container of the support arguments (documented as ArrayLike): chosen from the case's seed
    cont = ["array", "list", "array", "tuple", "readonly", "array"][inp["seed"] % 6]

    def kw():
        return dict(fnr=_container(inp["fnr"], cont), fpr=_container(inp["fpr"], cont),
                    thresholds=_container(inp["thr"], cont), nb_points=nb)

    np.random.seed(inp["seed"])
    kw_main = kw()
    with common.Recorder(Scores, "bootstrap_ci") as rb, common.Recorder(roc_curve, "_apply_rule_of_three") as rr, \
            common.Recorder(roc_curve, "_aggregate_rectangles") as ra:
        res = common.call(roc_curve.roc_with_ci, s, x_axis=xaxis, alpha=alpha, config=cfg, **kw_main)
    tags = tags + ("support-args=" + cont,)
    for nm_, key_ in (("fnr", "fnr"), ("fpr", "fpr"), ("thresholds", "thr")):
        if inp[key_] is not None and not np.array_equal(np.asarray(kw_main[nm_], dtype=float), np.array(inp[key_], dtype=float)):
            pre.append(Issue("PROPFAIL", "raises", f"{desc}: the caller's `{nm_}` argument ({cont}) was changed from {inp[key_]} to "
                             f"{np.asarray(kw_main[nm_]).tolist()}", sig + "/argument-mutated"))
    if res[0] == "exc":
        pre.append(Issue("PROPFAIL", "raises", f"{desc} raised {res[1]}: {res[2]}", sig + "/raises"))
        return Case(ID, inp, [], lambda outs: [], tags + ("raised",), 0, pre)
    c = res[1]
    chk = _curve_checks(c, s, desc, sig, pre)
    if chk is None:
        return Case(ID, inp, [], lambda outs: [], tags, 0, pre)
    othr, ofnr, ofpr, fb, gb, ocm = chk
    n = len(othr)
    pf, pg = _exact_rates(ocm)
    npos, nneg = len(inp["pos"]), len(inp["neg"])
    powpos, powneg = math.pow(alpha, 1 / npos), math.pow(alpha, 1 / nneg)

    # the implementation's own plain support and the number of extra points it calls for
    rbase = common.call(roc_curve._find_support_thresholds, s, _arr(inp["fnr"]), _arr(inp["fpr"]), _arr(inp["thr"]), nb, None, xaxis)
    if rbase[0] == "exc" or len(_flat(rbase[1])) == 0:
        pre.append(Issue("PROPFAIL", "raises", f"{desc}: the plain support _find_support_thresholds(..., None, {xaxis!r}) "
                         f"{'raised ' + rbase[1] if rbase[0] == 'exc' else 'is empty'}", sig + "/plain-support"))
        return Case(ID, inp, [], lambda outs: [], tags, 0, pre)
    base = sorted(_flat(rbase[1]))
    ends = np.array([base[0], base[-1]])
    f2, g2 = s.fnr(ends), s.fpr(ends)
    extra = 4 * (int(f2.min() > 0.0) + int(f2.max() < 1.0) + int(g2.min() > 0.0) + int(g2.max() < 1.0))

    # pointwise intervals: the joint bootstrap interval of the documented metric
    farr, garr = np.array(ofnr), np.array(ofpr)
    if inp["sampler"] == "identity":
        est = common.call(_metric_of(farr, garr), s)
        if est[0] == "exc":
            pre.append(Issue("PROPFAIL", "raises", f"{desc}: the point estimate of the band metric raised {est[1]}", sig + "/metric"))
            return Case(ID, inp, [], lambda outs: [], tags, 0, pre)
        joint = np.stack([np.stack([est[1][0], est[1][0]], axis=-1), np.stack([est[1][1], est[1][1]], axis=-1)], axis=0)
    else:
        rj = _joint(s, farr, garr, inp, cfg)
        if rj[0] == "exc":
            pre.append(Issue("PROPFAIL", "raises", f"{desc}: scores.bootstrap_ci of the band metric raised {rj[1]}: {rj[2]}", sig + "/metric"))
            return Case(ID, inp, [], lambda outs: [], tags, 0, pre)
        joint = np.asarray(rj[1], dtype=float)
    if joint.shape != (2, n, 2) or np.isinf(joint).any():
        pre.append(Issue("PROPFAIL", "shape", f"{desc}: joint bootstrap interval has shape {joint.shape}", sig + "/joint-shape"))
        return Case(ID, inp, [], lambda outs: [], tags, 0, pre)
    if len(rb.calls) == 1:
        rec = np.asarray(rb.calls[0][2], dtype=float)
        if not _same(rec, joint):
            what = ("(estimate, estimate) for the identity sampler" if inp["sampler"] == "identity"
                    else "scores.bootstrap_ci of [fnr(threshold_at_fpr(fpr)), fpr(threshold_at_fnr(fnr))] under the same seed")
            pre.append(Issue("PROPFAIL", "pointwise-interval", f"{desc}: the pointwise intervals used are {rec.tolist()}, "
                             f"expected {what}: {joint.tolist()}", sig + "/pointwise-interval"))
    joint_ordered = bool((joint[..., 0] <= joint[..., 1]).all())
    ox = _flat(getattr(c, xaxis))
    scale = max([abs(x) for x in inp["pos"] + inp["neg"] + (inp["thr"] or [])] + [1.0])
    lines = [line("rocci", **_scores_kw(inp), fnr=_opt(inp["fnr"]), fpr=_opt(inp["fpr"]), thr=_opt(inp["thr"]),
                  nb="none" if nb is None else nb, xaxis=xaxis, powpos=q(powpos), pownegv=q(powneg),
                  **_band_kw("bflo", "bfhi", joint[0]), **_band_kw("bglo", "bghi", joint[1]),
                  othr=ql(othr), ofnr=ql(ofnr), ofpr=ql(ofpr), ocm=il(ocm), **_band_kw("fblo", "fbhi", fb),
                  **_band_kw("gblo", "gbhi", gb), extra=extra, base=ql(base), ox=ql(ox), eps=q(EPS), epsr=q(Fraction(1, 2**50)))]
    # the recorded helper calls
    roles = []
    for a_, k_, r_ in rr.calls:
        p_ = np.asarray(k_.get("p", a_[0] if a_ else None), dtype=float)
        ci_ = np.asarray(k_.get("ci", a_[1] if len(a_) > 1 else None), dtype=float)
        n_ = k_.get("n", a_[3] if len(a_) > 3 else None)
        al_ = k_.get("alpha", a_[2] if len(a_) > 2 else None)
        ex = pf if _same(p_, farr) else pg if _same(p_, garr) else None
        out_ = np.asarray(r_, dtype=float)
        if ex is None or ci_.shape != (n, 2) or out_.shape != (n, 2) or not isinstance(n_, (int, np.integer)) or n_ <= 0 \
                or not _finite_or_nan(ci_, out_):
            continue
        pw = math.pow(al_, 1 / int(n_))
        lines.append(line("rot", p=_qol(ex), **_band_kw("cilo", "cihi", ci_), n=int(n_), powa=q(pw),
                          **_band_kw("olo", "ohi", out_), eps=q(EPS)))
        roles.append(("rot", f"_apply_rule_of_three(p={p_.tolist()}, ci={ci_.tolist()}, alpha={al_}, n={n_}) -> {out_.tolist()}"))
    for a_, k_, r_ in ra.calls:
        if len(a_) != 3:
            continue
        x_, dx_, dy_, out_ = (np.asarray(v, dtype=float) for v in (a_[0], a_[1], a_[2], r_))
        if x_.shape != (n,) or dx_.shape != (n, 2) or dy_.shape != (n, 2) or out_.shape != (n, 2) \
                or not _finite_or_nan(x_, dx_, dy_, out_):
            continue
        lines.append(line("aggr", x=ql(x_), **_band_kw("dxlo", "dxhi", dx_), **_band_kw("dylo", "dyhi", dy_),
                          **_band_kw("olo", "ohi", out_), eps=q(0)))
        roles.append(("aggr", f"_aggregate_rectangles(x={x_.tolist()}, dxp={dx_.tolist()}, dyp={dy_.tolist()}) -> {out_.tolist()}"))
    inp = dict(inp)
    inp["_evals"] = 2 * n
    case = Case(ID, inp, lines, None, tags + (("recorded-helpers",) if roles else ()), 0, pre)

    def judge(outs):
        o = outs[0]
        iss = []
        # correspondence of the support computation
        if "err" in o:
            iss.append(Issue("DISAGREE", "support", f"{desc} returned but the model's plain support raises {o['err']}", sig + "/support-error"))
        else:
            d = _cmp_thresholds(base, common.pfracs(o["mbase"]), scale)
            if d:
                iss.append(Issue("DISAGREE", "support", f"{desc}: plain support: {d}", sig + "/support-base"))
        if "exterr" in o:
            iss.append(Issue("DISAGREE", "support", f"{desc} returned but the model's extension raises {o['exterr']}", sig + "/support-error"))
        else:
            d = _cmp_thresholds(othr, common.pfracs(o["mthr"]), scale)
            if d:
                iss.append(Issue("DISAGREE", "support", f"{desc}: thresholds {othr}: {d}", sig + "/support-ext"))
        if common.pints(o["mcm"]) != ocm:
            iss.append(Issue("DISAGREE", "cm", f"{desc}: scores.cm(thresholds) cells {ocm} model {common.pints(o['mcm'])}", sig + "/cm"))
            return iss
        wf = _wellformed(o, desc, sig, f"bands fnr_ci={fb.tolist()} fpr_ci={gb.tolist()}", True)
        if not joint_ordered and any(i.clause == "ordered" for i in wf):
            case.skipped += 1  # the bootstrap limits themselves are unordered (BCa beyond its pole, see C13)
            wf = [i for i in wf if i.clause != "ordered"]
        iss += wf
        details = {
            "rates": f"thresholds={othr} fnr={ofnr} fpr={ofpr} cm cells at thresholds={ocm}",
            "monotone": f"curve.{xaxis}={ox} is not non-decreasing; thresholds={othr}",
            "sentinels": f"thresholds={othr} lack one of the four thresholds just outside the score ranges {o.get('sentinels')}",
            "length": f"{n} points; the plain support has {len(base)} points and calls for {extra} extra points, plus 4 sentinels",
        }
        for cl_, det in details.items():
            if o.get("spec." + cl_) != "1":
                iss.append(Issue("PROPFAIL", {"sentinels": "support", "length": "support"}.get(cl_, cl_), f"{desc}: {det}", f"{sig}/{cl_}"))
        if o.get("spec.closedform") != "1":
            if o.get("disc") == "1":
                case.skipped += 1
            else:
                what = "closed-form" if inp["sampler"] == "identity" else "envelope"
                iss.append(Issue("PROPFAIL", what, f"{desc}: bands fnr_ci={fb.tolist()} fpr_ci={gb.tolist()} are not the envelope of "
                                 f"the pointwise rectangles (rule of three with n_pos={npos}, n_neg={nneg} on the intervals "
                                 f"fnr:{joint[0].tolist()} fpr:{joint[1].tolist()}; rates fnr={ofnr} fpr={ofpr}): expected fnr_ci "
                                 f"lower={o.get('mflo')} upper={o.get('mfhi')}, fpr_ci lower={o.get('mglo')} upper={o.get('mghi')}",
                                 f"{sig}/{what}"))
        for (role, text), oo in zip(roles, outs[1:]):
            if role == "rot":
                if "err" in oo:
                    iss.append(Issue("DISAGREE", "rule-of-three", f"{desc}: {text}: model raises {oo['err']}", sig + "/rot-error"))
                elif oo.get("spec.rot") != "1":
                    iss.append(Issue("PROPFAIL", "rule-of-three", f"{desc}: recorded call {text}; expected lower={oo.get('mlo')} "
                                     f"upper={oo.get('mhi')}", sig + "/rule-of-three"))
            else:
                if oo.get("spec.envelope") != "1":
                    iss.append(Issue("PROPFAIL", "envelope", f"{desc}: recorded call {text}; the envelope is lower={oo.get('mlo')} "
                                     f"upper={oo.get('mhi')}", sig + "/aggregate"))
        return iss

    case.judge = judge
    return case


class _CopyRecorder(common.Recorder):
    """common.Recorder that stores copies, so that later in-place changes cannot alter what was observed"""

    clock = [0]  # shared by all recorders: completion order of the recorded calls

    def __enter__(self):
        self.seqs = []
        self.missing = not hasattr(self.obj, self.name)
        if self.missing:  # the module no longer has this name (e.g. an import was dropped): nothing to record
            return self
        self.orig = getattr(self.obj, self.name)
        orig = self.orig

        def wrapped(*a, **k):
            a0, k0 = copy.deepcopy(a), copy.deepcopy(k)
            r = orig(*a, **k)
            self.calls.append((a0, k0, copy.deepcopy(r)))
            _CopyRecorder.clock[0] += 1
            self.seqs.append(_CopyRecorder.clock[0])
            return r

        setattr(self.obj, self.name, wrapped)
        return self

    def __exit__(self, *exc):
        if getattr(self, "missing", False):
            return False
        return super().__exit__(*exc)


def _bind(names, a, k):
    """positional / keyword arguments of a recorded call by parameter name; None if they do not fit"""
    if len(a) > len(names) or any(key not in names for key in k):
        return None
    d = dict(zip(names, a))
    d.update(k)
    return d if all(nm in d for nm in names) else None


def _vec1(v, n=None):
    """a recorded 1-d float array as a list of floats, or None"""
    try:
        arr = np.asarray(v, dtype=float)
    except Exception:  # noqa: BLE001
        return None
    if arr.ndim != 1 or (n is not None and arr.shape[0] != n):
        return None
    return [float(t) for t in arr]


FWB_EPS = Fraction(1, 10**9)
FWB_TOP = float(np.nextafter(1.0, np.inf))
FWB_MAX_RADIUS_LINES = 10
FWB_MAX_DISPLACE_LINES = 6


# NOTE on issue kinds in the two functions below: C16 claims for fixed_width_band_ci only that it accepts its documented
# arguments, that the rates match the thresholds and that the bands have shape (n, 2), are NaN-free and ordered.  Those clauses
# are PROPFAILs (raised by _curve_checks and the `band` driver lines).  Everything here ties the INTERNALS of the real call to
# the model (how the helpers are called, tube radii, delta, displaced curves, closed form): a difference means the model no
# longer describes the code - a broken correspondence (DISAGREE), not by itself a violation of C16.
def _fwb_lines(inp, desc, sig, pre, rec, ofnr, ofpr, fb, gb):
    """driver lines tying one real fixed_width_band_ci call to the model (SA/Model/FixedWidth.lean).

    rec = (recorded _find_tube_radius calls, recorded _displace_curve calls, recorded bootstrap_ci calls).
    Returns (lines, roles); roles[i] describes lines[i] for the judge.  Problems that are visible on the Python side alone
    (helpers not called as documented) are appended to `pre`."""
    (rt, rt_seq), (rd, rd_seq), rq = rec
    n = len(ofnr)
    npos, nneg = len(inp["pos"]), len(inp["neg"])
    alpha = inp["alpha"]
    kor = float(np.sqrt(nneg / npos))  # the slope oracle
    lines, roles = [], []

    def finite(*vs):
        return all(v is not None and all(math.isfinite(t) for t in v) for v in vs)

    # --- the tube radii -----------------------------------------------------------------------
    tcalls = []
    prev_seq = 0
    for (a_, k_, r_), seq_ in zip(rt, rt_seq):
        lo_seq, prev_seq = prev_seq, seq_
        b = _bind(("x", "y", "xs", "ys", "k"), a_, k_)
        if b is None:
            continue
        # the radii at which this call evaluated _is_contained: its _displace_curve calls come in pairs (+d v, -d v)
        inner = [_vec1(_bind(("x", "y", "v"), da_, dk_)["v"], 2) if _bind(("x", "y", "v"), da_, dk_) else None
                 for (da_, dk_, _), ds_ in zip(rd, rd_seq) if lo_seq < ds_ < seq_]
        ovis = [v_[0] for v_ in inner[0::2] if v_ is not None and math.isfinite(v_[0])]
        x_, y_, xs_, ys_ = (_vec1(b[nm]) for nm in ("x", "y", "xs", "ys"))
        try:
            kk, rr = float(b["k"]), float(r_)
        except Exception:  # noqa: BLE001
            continue
        tcalls.append((x_, y_, xs_, ys_, kk, rr, ovis))
    if len(tcalls) != inp["nbs"]:
        pre.append(Issue("DISAGREE", "tube-radius", f"{desc}: {len(tcalls)} _find_tube_radius calls were observed for "
                         f"nb_samples={inp['nbs']}", sig + "/tube-calls"))
    for x_, y_, xs_, ys_, kk, rr, _ in tcalls:
        if x_ != ofnr or y_ != ofpr or kk != kor:
            pre.append(Issue("DISAGREE", "tube-radius", f"{desc}: _find_tube_radius was called with x={x_} y={y_} k={kk}; expected "
                             f"the curve fnr={ofnr} fpr={ofpr} and k=sqrt({nneg}/{npos})={kor}", sig + "/tube-args"))
            break
    radii = [c_[5] for c_ in tcalls]
    # --- delta ----------------------------------------------------------------------------------
    odelta, theta = None, None
    for a_, k_, r_ in rq:
        b = _bind(("theta", "theta_hat", "alpha"), a_, {kk_: vv for kk_, vv in k_.items() if kk_ != "method"})
        th = k_.get("theta", a_[0] if a_ else None)
        theta = _vec1(th)
        al_ = k_.get("alpha", a_[2] if len(a_) > 2 else None)
        res_ = _vec1(r_, 2)
        if theta is None or res_ is None or k_.get("method", "quantile") != "quantile" or al_ is None \
                or float(al_) != 2 * alpha:
            pre.append(Issue("DISAGREE", "delta", f"{desc}: bootstrap_ci was called with theta={th} alpha={al_} "
                             f"method={k_.get('method')!r}; expected the {inp['nbs']} radii, alpha=2*{alpha}, method='quantile'",
                             sig + "/quantile-args"))
        else:
            odelta = res_[1]
        break
    if theta is not None and theta != radii:
        pre.append(Issue("DISAGREE", "delta", f"{desc}: bootstrap_ci got theta={theta}, the observed tube radii are {radii}",
                         sig + "/quantile-theta"))
    # --- the displaced curves ----------------------------------------------------------------------
    dcalls = []
    for a_, k_, r_ in rd:
        b = _bind(("x", "y", "v"), a_, k_)
        if b is None:
            continue
        x_, y_, v_ = _vec1(b["x"]), _vec1(b["y"]), _vec1(b["v"], 2)
        try:
            ox_, oy_ = _vec1(r_[0]), _vec1(r_[1])
        except Exception:  # noqa: BLE001
            ox_, oy_ = None, None
        dcalls.append((x_, y_, v_, ox_, oy_))
    final = dcalls[-2:] if len(dcalls) >= 2 else []
    ok_final = (len(final) == 2 and all(c_[0] == ofnr and c_[1] == ofpr and finite(c_[2]) for c_ in final)
                and all(c_[3] is not None and c_[4] is not None and len(c_[3]) == n and len(c_[4]) == n for c_ in final))
    if not ok_final:
        pre.append(Issue("DISAGREE", "displaced-curves", f"{desc}: the last two _displace_curve calls are not displacements of "
                         f"the returned curve: {[(c_[0], c_[1], c_[2]) for c_ in final]}", sig + "/final-displace"))
    if odelta is None and ok_final:
        odelta = final[0][2][0]  # bootstrap_ci not observed: delta as used
    if ok_final and radii and finite(radii) and finite(ofnr, ofpr):
        (_, _, vp, fP, gP), (_, _, vm, fM, gM) = final
        lines.append(line("fwband", top=q(FWB_TOP), n=n, f=ql(ofnr), g=ql(ofpr), k=q(kor), npos=npos, nneg=nneg,
                          radii=ql(radii), alpha=q(alpha), odelta=q(odelta), vp0=q(vp[0]), vp1=q(vp[1]), vm0=q(vm[0]),
                          vm1=q(vm[1]), fP=ql(fP), gP=ql(gP), fM=ql(fM), gM=ql(gM), **_band_kw("fblo", "fbhi", fb),
                          **_band_kw("gblo", "gbhi", gb), eps=q(FWB_EPS)))
        roles.append(("fwband", {"radii": radii, "odelta": odelta, "k": kor, "vp": vp, "vm": vm, "fP": fP, "gP": gP,
                                 "fM": fM, "gM": gM, "f": list(ofnr), "g": list(ofpr),
                                 "fb": np.asarray(fb, dtype=float).reshape(-1, 2).tolist(),
                                 "gb": np.asarray(gb, dtype=float).reshape(-1, 2).tolist()}))
    # --- the recorded _find_tube_radius calls ---------------------------------------------------------
    # the model's np.interp scans the table once per query: the cost of a line is quadratic in n
    budget = max(1, min(FWB_MAX_RADIUS_LINES, 30000 // max(1, n * n)))
    for x_, y_, xs_, ys_, kk, rr, ovis in tcalls[:budget]:
        if not finite(x_, y_, xs_, ys_) or not math.isfinite(kk) or len(x_) != len(y_) or len(xs_) != len(ys_):
            continue
        lines.append(line("tuberadius", top=q(FWB_TOP), x=ql(x_), y=ql(y_), xs=ql(xs_), ys=ql(ys_), k=q(kk), obs=q(rr),
                          ovis=ql(ovis), eps=q(FWB_EPS)))
        roles.append(("tuberadius", {"text": f"_find_tube_radius(x={x_}, y={y_}, xs={xs_}, ys={ys_}, k={kk}) -> {rr}", "r": rr}))
    # --- a sample of the recorded _displace_curve calls: the two final ones, the first two, two more ---------
    idx = list(range(max(0, len(dcalls) - 2), len(dcalls))) + [i for i in (0, 1) if i < len(dcalls) - 2]
    rest = [i for i in range(2, len(dcalls) - 2)]
    random.Random(inp["seed"]).shuffle(rest)
    idx += rest[:max(0, FWB_MAX_DISPLACE_LINES - len(idx))]
    for i in idx:
        x_, y_, v_, ox_, oy_ = dcalls[i]
        if not finite(x_, y_, v_) or ox_ is None or oy_ is None or len(x_) != len(y_) or len(x_) == 0:
            continue
        mono = all(a <= b for a, b in zip(x_, x_[1:])) and all(a >= b for a, b in zip(y_, y_[1:]))
        lines.append(line("displace", top=q(FWB_TOP), x=ql(x_), y=ql(y_), v0=q(v_[0]), v1=q(v_[1]), ox=ql(ox_), oy=ql(oy_),
                          eps=q(FWB_EPS)))
        roles.append(("displace", {"text": f"_displace_curve(x={x_}, y={y_}, v={v_}) -> ({ox_}, {oy_})", "mono": mono,
                                   "ox": ox_, "oy": oy_}))
    return lines, roles


def _fwb_abscissa_ties(info, o):
    """True iff every band entry that differs from the model's closed form by more than 1e-9 is evaluated within 1e-9 of a
    knot of the (observed or exact) displaced curves"""
    try:
        f, g = np.asarray(info["f"], dtype=float), np.asarray(info["g"], dtype=float)
        fb, gb = np.asarray(info["fb"], dtype=float), np.asarray(info["gb"], dtype=float)
        d = float(info["odelta"])
        k = float(info["k"])

        def arr(key):
            return np.array([float(Fraction(x)) for x in o[key].strip("[]").split(",") if x])
        mflo, mfhi, mglo, mghi = arr("mflo"), arr("mfhi"), arr("mglo"), arr("mghi")
        if not (len(mflo) == len(fb) == len(f) and len(mglo) == len(gb)):
            return False
        any_diff = False
        for obs, mod, at, shifts in ((fb[:, 0], mflo, g, (g - d * k, g + d * k)), (fb[:, 1], mfhi, g, (g - d * k, g + d * k)),
                                     (gb[:, 0], mglo, f, (f - d, f + d)), (gb[:, 1], mghi, f, (f - d, f + d))):
            knots = np.concatenate(list(shifts) + [np.asarray(info[kk], dtype=float) for kk in ("fP", "fM", "gP", "gM")])
            for i in np.nonzero(np.abs(obs - mod) > 1e-9)[0]:
                any_diff = True
                if float(np.min(np.abs(knots - at[i]))) > 1e-9:
                    return False
        return any_diff
    except Exception:  # noqa: BLE001
        return False


def _fwb_judge(case, desc, sig, roles, outs):
    """issues from the fwband / tuberadius / displace lines"""
    iss = []
    tiny = Fraction(1, 10**9)
    for (role, info), o in zip(roles, outs):
        if role == "fwband":
            if o.get("nanrates") == "1":
                continue  # NaN in the curve: already a PROPFAIL of _curve_checks / the band lines
            names = {
                "range": ("range", f"a band entry lies outside [0, nextafter(1, inf)]"),
                "slope": ("slope", f"k={info['k']} is not sqrt(len(neg)/len(pos))"),
                "radii": ("tube-radius", f"an observed tube radius is neither 0.0 nor a bisection midpoint (2m+1)/256 in (0, 1): "
                                         f"{info['radii']}"),
                "delta": ("delta", f"delta={info['odelta']} is not the linear quantile of the radii {info['radii']} at level "
                                   f"1 - alpha; expected {o.get('mdelta')}"),
                "vectors": ("displacement", f"the final displacement vectors {info['vp']} / {info['vm']} are not +-(delta, delta*k) "
                                            f"with delta={info['odelta']} >= 0, k={info['k']}"),
                "sortedp": ("displaced-curves", f"the curve displaced by +v is not monotone from (0, top) to (top, 0): "
                                                f"{info['fP']} / {info['gP']}"),
                "sortedm": ("displaced-curves", f"the curve displaced by -v is not monotone from (0, top) to (top, 0): "
                                                f"{info['fM']} / {info['gM']}"),
                "bandrel": ("band-relation", f"the bands are not the interpolations of the observed displaced curves (minus = "
                                             f"lower, plus = upper): plus {info['fP']} / {info['gP']} minus {info['fM']} / {info['gM']}"),
                "closedform": ("closed-form", f"the bands are not the model's closed form for delta={info['odelta']}, k={info['k']}: "
                                              f"expected fnr_ci lower={o.get('mflo')} upper={o.get('mfhi')}, fpr_ci "
                                              f"lower={o.get('mglo')} upper={o.get('mghi')}"),
            }
            if o.get("nancurves") == "1":
                iss.append(Issue("DISAGREE", "nan", f"{desc}: a displaced curve contains NaN", sig + "/fwb/nan-curves"))
            if o.get("nandelta") == "1":
                iss.append(Issue("DISAGREE", "nan", f"{desc}: delta is NaN", sig + "/fwb/nan-delta"))
            if "err" in o:
                iss.append(Issue("DISAGREE", "closed-form", f"{desc} returned but the model's band assembly raises {o['err']}",
                                 sig + "/fwb/model-error"))
            for cl_, (clause, msg) in names.items():
                if ("spec." + cl_) in o and o["spec." + cl_] != "1":
                    if cl_ == "closedform" and o.get("spec.bandrel") == "1" and _fwb_abscissa_ties(info, o):
                        # every entry where the model's band differs is evaluated at an abscissa that coincides (to 1e-9)
                        # with a knot of the displaced curve where it jumps: in exact arithmetic `x_j + delta` EQUALS the
                        # evaluation point, in floating point it is rounded to one side - np.interp then reads the other
                        # end of the jump.  The bands are the interpolations of the implementation's own displaced curves
                        # (spec.bandrel holds); not a disagreement about the function
                        case.skipped += 1
                        continue
                    iss.append(Issue("DISAGREE", clause, f"{desc}: {msg}", f"{sig}/fwb/{cl_}"))
            md = common.pfrac(o["mdelta"]) if "mdelta" in o else None
            if "mdelta" in o and not common.close(info["odelta"], md, rel=tiny, abs_=tiny):
                iss.append(Issue("DISAGREE", "delta", f"{desc}: delta={info['odelta']}, model {o['mdelta']}", sig + "/fwb/delta"))
        elif role == "tuberadius":
            # excused only if, at the radius where the two containment decisions differ, a comparison is within rounding
            # distance of equality AND the observed radius is what the opposite decision there leads to
            near_tie = int(o.get("nearties", "0")) > 0 and o.get("flipok") == "1"
            if o.get("spec.grid") != "1":
                iss.append(Issue("DISAGREE", "tube-radius", f"{desc}: recorded call {info['text']}: the radius is neither 0.0 nor a "
                                 f"bisection midpoint (2m+1)/256 in (0, 1)", sig + "/fwb/radius-grid"))
            if "err" in o:
                if near_tie:
                    case.skipped += 1
                else:
                    iss.append(Issue("DISAGREE", "tube-radius", f"{desc}: recorded call {info['text']}: the model raises {o['err']}",
                                     sig + "/fwb/radius-error"))
                continue
            agree = common.close(info["r"], common.pfrac(o["mr"]), rel=tiny, abs_=tiny)
            if agree and o.get("spec.radius") == "1":
                continue
            if near_tie:
                case.skipped += 1  # at the radius where the decisions differ a comparison is within 1e-9 of equality
                continue
            if o.get("spec.radius") != "1":
                iss.append(Issue("DISAGREE", "tube-radius", f"{desc}: recorded call {info['text']}: the radius is not the bisection "
                                 f"result {o['mr']} (radii evaluated by the model: {o.get('mvis')}; the containment decisions differ "
                                 f"at radius {o.get('div')}, smallest comparison margin there {o.get('margin')})", sig + "/fwb/radius"))
            if not agree:
                iss.append(Issue("DISAGREE", "tube-radius", f"{desc}: recorded call {info['text']}: model {o['mr']}",
                                 sig + "/fwb/radius-model"))
        else:
            if "err" in o:
                iss.append(Issue("DISAGREE", "displace", f"{desc}: recorded call {info['text']}: the model raises {o['err']}",
                                 sig + "/fwb/displace-error"))
                continue
            if o.get("spec.displace") != "1":
                iss.append(Issue("DISAGREE", "displace", f"{desc}: recorded call {info['text']}: expected the clipped translate with "
                                 f"end points (0, top), (top, 0): x={o.get('mx')} y={o.get('my')}", sig + "/fwb/displace"))
            mx, my = common.pfracs(o["mx"]), common.pfracs(o["my"])
            if len(mx) != len(info["ox"]) or len(my) != len(info["oy"]) or not all(
                    common.close(a, b, rel=tiny, abs_=tiny) for a, b in zip(info["ox"] + info["oy"], mx + my)):
                iss.append(Issue("DISAGREE", "displace", f"{desc}: recorded call {info['text']}: model x={o.get('mx')} y={o.get('my')}",
                                 sig + "/fwb/displace-model"))
            if info["mono"] and o.get("spec.sorted") != "1":
                iss.append(Issue("DISAGREE", "displaced-curves", f"{desc}: recorded call {info['text']}: the displaced curve is not "
                                 f"monotone from (0, top) to (top, 0)", sig + "/fwb/displace-sorted"))
    return iss


def _build_exp(inp):
    """pointwise_band_ci / simultaneous_joint_region_ci / fixed_width_band_ci"""
    import scipy.stats
    from score_analysis.experimental import roc_ci

    kind = inp["kind"]
    fname = {"pw": "pointwise_band_ci", "sjr": "simultaneous_joint_region_ci", "fwb": "fixed_width_band_ci"}[kind]
    s, cfg = _mk(inp)
    desc = _desc(fname, inp)
    sig = fname
    tags = tuple(_tags(inp, fname))
    pre = []
    alpha, nb = inp["alpha"], inp["nb"]
    np.random.seed(inp["seed"])
    with _CopyRecorder(roc_ci, "_find_tube_radius") as rt, _CopyRecorder(roc_ci, "_displace_curve") as rd, \
            _CopyRecorder(roc_ci, "bootstrap_ci") as rq:
        res = common.call(getattr(roc_ci, fname), s, fnr=_arr(inp["fnr"]), fpr=_arr(inp["fpr"]), thresholds=_arr(inp["thr"]),
                          nb_points=nb, alpha=alpha, config=cfg)
    if res[0] == "exc":
        pre.append(Issue("PROPFAIL", "raises", f"{desc} raised {res[1]}: {res[2]}", sig + "/raises"))
        return Case(ID, inp, [], lambda outs: [], tags + ("raised",), 0, pre)
    c = res[1]
    chk = _curve_checks(c, s, desc, sig, pre)
    if chk is None:
        return Case(ID, inp, [], lambda outs: [], tags, 0, pre)
    othr, ofnr, ofpr, fb, gb, ocm = chk
    n = len(othr)
    pf, pg = _exact_rates(ocm)
    farr, garr = np.array(ofnr), np.array(ofpr)
    npos, nneg = len(inp["pos"]), len(inp["neg"])
    scale = max([abs(x) for x in inp["pos"] + inp["neg"] + (inp["thr"] or [])] + [1.0])
    lines = [line("roc", obs=0, **_scores_kw(inp), fnr=_opt(inp["fnr"]), fpr=_opt(inp["fpr"]), thr=_opt(inp["thr"]),
                  nb="none" if nb is None else nb, xaxis="fnr")]
    notes = {}
    if kind == "pw":
        rj = _joint(s, farr, garr, inp, cfg)
        if rj[0] == "exc" or np.asarray(rj[1]).shape != (2, n, 2) or np.isinf(np.asarray(rj[1], dtype=float)).any():
            pre.append(Issue("PROPFAIL", "raises", f"{desc}: scores.bootstrap_ci of the band metric failed: {rj[1:]}", sig + "/metric"))
            return Case(ID, inp, [], lambda outs: [], tags, 0, pre)
        joint = np.asarray(rj[1], dtype=float)
        notes["joint"] = joint
        for ex, ci_, n_, out_ in ((pf, joint[0], npos, fb), (pg, joint[1], nneg, gb)):
            lines.append(line("rot", p=_qol(ex), **_band_kw("cilo", "cihi", ci_), n=n_, powa=q(math.pow(alpha, 1 / n_)),
                              **_band_kw("olo", "ohi", out_), eps=q(EPS)))
    elif kind == "sjr":
        dpos = float(scipy.stats.ksone.ppf(1.0 - alpha / 2.0, s.nb_all_pos))
        dneg = float(scipy.stats.ksone.ppf(1.0 - alpha / 2.0, s.nb_all_neg))
        fci = np.stack([farr - dpos, farr + dpos], axis=-1)
        gci = np.stack([garr - dneg, garr + dneg], axis=-1)
        notes.update(dpos=dpos, dneg=dneg, fci=fci, gci=gci)
        for x_, dx_, dy_, out_ in ((garr, gci, fci, fb), (farr, fci, gci, gb)):
            lines.append(line("aggr", x=ql(x_), **_band_kw("dxlo", "dxhi", dx_), **_band_kw("dylo", "dyhi", dy_),
                              **_band_kw("olo", "ohi", out_), eps=q(0)))
    else:
        for out_ in (fb, gb):
            lines.append(line("band", n=n, **_band_kw("lo", "hi", out_), eps=q(EPS)))
    fwb_roles = []
    if kind == "fwb":
        more, fwb_roles = _fwb_lines(inp, desc, sig, pre, ((rt.calls, rt.seqs), (rd.calls, rd.seqs), rq.calls), ofnr, ofpr, fb, gb)
        lines += more
    inp = dict(inp)
    inp["_evals"] = 2 * n + len(fwb_roles)
    case = Case(ID, inp, lines, None, tags + (("recorded-helpers",) if fwb_roles else ()), 0, pre)

    def judge(outs):
        o = outs[0]
        iss = []
        if "err" in o:
            iss.append(Issue("DISAGREE", "support", f"{desc} returned but the model of its support raises {o['err']}", sig + "/support-error"))
        else:
            d = _cmp_thresholds(othr, common.pfracs(o["mthr"]), scale)
            if d:
                iss.append(Issue("DISAGREE", "support", f"{desc}: thresholds {othr}: {d}", sig + "/support"))
        for name, band, oo in (("fnr_ci", fb, outs[1]), ("fpr_ci", gb, outs[2])):
            if "err" in oo:
                iss.append(Issue("DISAGREE", "rule-of-three", f"{desc}: model raises {oo['err']}", sig + "/rot-error"))
                continue
            wf = _wellformed(oo, desc, f"{sig}/{name}", f"{name}={band.tolist()}", False)
            if kind == "pw" and not bool((notes["joint"][..., 0] <= notes["joint"][..., 1]).all()) \
                    and any(i.clause == "ordered" for i in wf):
                case.skipped += 1  # the bootstrap limits themselves are unordered (BCa beyond its pole, see C13)
                wf = [i for i in wf if i.clause != "ordered"]
            iss += wf
            if kind == "pw" and oo.get("spec.rot") != "1":
                iss.append(Issue("PROPFAIL", "pointwise", f"{desc}: {name}={band.tolist()} is not the bootstrap interval with the "
                                 f"rule-of-three rows (n_pos={npos}, n_neg={nneg}; intervals {notes['joint'].tolist()}; rates "
                                 f"fnr={ofnr} fpr={ofpr}): expected lower={oo.get('mlo')} upper={oo.get('mhi')}", f"{sig}/{name}/pointwise"))
            if kind == "sjr" and oo.get("spec.envelope") != "1":
                iss.append(Issue("PROPFAIL", "envelope", f"{desc}: {name}={band.tolist()} is not the envelope of the rectangles "
                                 f"(fnr -+ {notes['dpos']}) x (fpr -+ {notes['dneg']}); rates fnr={ofnr} fpr={ofpr}: expected "
                                 f"lower={oo.get('mlo')} upper={oo.get('mhi')}", f"{sig}/{name}/envelope"))
        if fwb_roles:
            iss += _fwb_judge(case, desc, sig, fwb_roles, outs[3:])
        return iss

    case.judge = judge
    return case


# --------------------------------------------------------------------------------------
# roc_with_ci / pointwise_band_ci end to end on the scripted RNG (driver op rocciscript)
# --------------------------------------------------------------------------------------
def _erat_list(xs):
    return "[" + ",".join(q(x) for x in xs if not (isinstance(x, float) and math.isnan(x))) + "]"


def _tofloat(fr_):
    try:
        return float(fr_)
    except OverflowError:
        return math.inf if fr_ > 0 else -math.inf


def _build_script(inp):
    import scipy.stats
    from score_analysis import BootstrapConfig, Scores, roc_curve
    from score_analysis.experimental import roc_ci

    pw = inp["fn"] == "pw"
    fname = "pointwise_band_ci" if pw else "roc_with_ci"
    s = Scores(inp["pos"], inp["neg"], nb_easy_pos=inp["ep"], nb_easy_neg=inp["en"], score_class=inp["sc"],
               equal_class=inp["ec"])
    cfg = BootstrapConfig(nb_samples=inp["nbs"], bootstrap_method=inp["bm"], sampling_method=inp["sampler"],
                          stratified_sampling=inp["strat"], ratio=inp["ratio"])
    sc_ = inp["script"]
    xaxis, alpha, nb, nbs, bm = inp["xaxis"], inp["alpha"], inp["nb"], inp["nbs"], inp["bm"]
    ax = "" if pw else f", x_axis={xaxis!r}"
    desc = (f"ScriptedRNG(seed={sc_['seed']}, policy={sc_['mode']!r}): {fname}(Scores(pos={inp['pos']}, neg={inp['neg']}, "
            f"nb_easy_pos={inp['ep']}, nb_easy_neg={inp['en']}, score_class={inp['sc']!r}, equal_class={inp['ec']!r}), fnr={inp['fnr']}, "
            f"fpr={inp['fpr']}, thresholds={inp['thr']}, nb_points={nb}{ax}, alpha={alpha}, config=BootstrapConfig(nb_samples={nbs}, "
            f"bootstrap_method={bm!r}, sampling_method={inp['sampler']!r}, stratified_sampling={inp['strat']!r}"
            f"{'' if inp['ratio'] is None else ', ratio=' + repr(inp['ratio'])}))")
    sig = fname + "/scripted"
    tags = tuple(_tags(inp, fname)) + ("scripted", "script=" + ("adversarial" if sc_["mode"] else "realistic"))
    pre = []
    kw = dict(fnr=_arr(inp["fnr"]), fpr=_arr(inp["fpr"]), thresholds=_arr(inp["thr"]), nb_points=nb, alpha=alpha, config=cfg)
    if not pw:
        kw["x_axis"] = xaxis
    gstate = np.random.get_state()[1].copy()
    with ScriptedRNG(seed=sc_["seed"], policy=adversarial(sc_["mode"]) if sc_["mode"] else None) as rr, \
            common.Recorder(scipy.stats.norm, "ppf") as rp, common.Recorder(scipy.stats.norm, "cdf") as rc, \
            _CopyRecorder(Scores, "bootstrap_metric") as rm, _CopyRecorder(Scores, "bootstrap_ci") as rb:
        res = common.call(roc_ci.pointwise_band_ci if pw else roc_curve.roc_with_ci, s, **kw)
    if not (np.random.get_state()[1] == gstate).all():
        pre.append(Issue("ERR", "script", f"{desc}: the global RandomState was used (a primitive that is not scripted)", "script"))
    trace = rr.trace
    bad = [e for e in trace if e["raised"] is None and not rng_script.in_range(e, e["resp"])]
    if bad:
        pre.append(Issue("ERR", "script", f"harness produced an out-of-support answer: {bad[0]}", "script"))
    if res[0] == "exc":
        pre.append(Issue("PROPFAIL", "raises", f"{desc} raised {res[1]}: {res[2]} (requests so far: {rng_script.brief(trace)[:300]})",
                         sig + "/raises"))
        return Case(ID, inp, [], lambda outs: [], tags + ("raised",), 0, pre)
    c = res[1]
    chk = _curve_checks(c, s, desc, sig, pre)
    if chk is None:
        return Case(ID, inp, [], lambda outs: [], tags, 0, pre)
    othr, ofnr, ofpr, fb, gb, ocm = chk
    n = len(othr)
    npos, nneg = len(inp["pos"]), len(inp["neg"])
    powpos, powneg = math.pow(alpha, 1 / npos), math.pow(alpha, 1 / nneg)
    farr, garr = np.array(ofnr), np.array(ofpr)
    # the replicate matrix the implementation computed, and the point estimate of the documented metric
    hasrep, oest, orep = 0, [], []
    est = common.call(_metric_of(farr, garr), s)
    if len(rm.calls) == 1 and est[0] == "ok":
        m_ = np.asarray(rm.calls[0][2], dtype=float)
        e_ = np.asarray(est[1], dtype=float)
        if m_.shape == (nbs, 2, n) and e_.shape == (2, n) and not np.isinf(m_).any() and not np.isinf(e_).any():
            hasrep, oest, orep = 1, _flat(e_), _flat(m_)
    joint_ordered = True
    if len(rb.calls) == 1:
        jt = np.asarray(rb.calls[0][2], dtype=float)
        if jt.shape == (2, n, 2):
            joint_ordered = bool((jt[..., 0] <= jt[..., 1]).all())
    # oracle tables from the recorded scipy calls
    tables = {"ppf_in": [], "ppf_out": [], "cdf_in": [], "cdf_out": [], "p15_in": [], "p15_out": []}
    for calls, kind_ in ((rp.calls, "ppf"), (rc.calls, "cdf")):
        for a_, k_, r_ in calls:
            if not a_:
                continue
            xi, xo = np.asarray(a_[0], dtype=float).reshape(-1), np.asarray(r_, dtype=float).reshape(-1)
            if len(xi) != len(xo):
                continue
            for u_, v_ in zip(xi, xo):
                if not math.isnan(u_) and not math.isnan(v_) and float(u_) not in tables[kind_ + "_in"]:
                    tables[kind_ + "_in"].append(float(u_)); tables[kind_ + "_out"].append(float(v_))
    ratio = inp["ratio"]
    scale = max([abs(x) for x in inp["pos"] + inp["neg"]] + [1.0])
    conf = dict(method=inp["sampler"], strat=int(inp["strat"] == "by_label"), smooth=0,
                ratio="none" if ratio is None else q(float(ratio)),
                prods="[]" if ratio is None else ql([ratio * npos, ratio * nneg, ratio * inp["ep"], ratio * inp["en"]]))
    script_kw = rng_script.encode_script(trace)
    script_kw.pop("oh")
    req_kw = rng_script.encode_requests(trace, "q")

    def mkline():
        return line("rocciscript", **_scores_kw(inp), fn="pw" if pw else "rwc", fnr=_opt(inp["fnr"]), fpr=_opt(inp["fpr"]),
                    thr=_opt(inp["thr"]), nb="none" if nb is None else nb, xaxis=xaxis, alpha=q(alpha), bm=bm, **conf, nbs=nbs,
                    **script_kw, **req_kw, **{k_: _erat_list(v_) for k_, v_ in tables.items()},
                    powpos=q(powpos), pownegv=q(powneg), othr=ql(othr), ofnr=ql(ofnr), ofpr=ql(ofpr),
                    **_band_kw("fblo", "fbhi", fb), **_band_kw("gblo", "gbhi", gb), hasrep=hasrep, oest=ql(oest), orep=ql(orep),
                    eps=q(EPS), tol=q(SCRIPT_TOL * Fraction(scale)))

    inp = dict(inp)
    inp["_evals"] = 2 * n * (nbs + 2) + len(trace)
    case = Case(ID, inp, [mkline()], None, tags, 0, pre)

    def judge(outs):
        o = outs[0]
        iss = []
        misses = common.plist(o["miss"])
        rounds = 0
        while misses and rounds < 5:
            rounds += 1
            for m_ in misses:
                kind_, arg = m_.split(":", 1)
                x = math.inf if arg == "inf" else (-math.inf if arg == "-inf" else _tofloat(Fraction(arg)))
                if kind_ == "p15":
                    tables["p15_in"].append(x); tables["p15_out"].append(float(np.float64(x) ** 1.5))
                else:  # the real scipy functions ARE the oracle
                    tables[kind_ + "_in"].append(x); tables[kind_ + "_out"].append(float(getattr(scipy.stats.norm, kind_)(x)))
            o = common.run_driver([mkline()])[0]
            if "ERR" in o:
                return [Issue("ERR", "driver", o["ERR"], "driver-error")]
            misses = common.plist(o["miss"])
        if misses:
            return [Issue("ORACLE-MISS", "oracle", f"{desc}: model query not answered: {misses[:4]}", sig + "/oracle-miss")]
        # ---- the C16 clauses on the implementation's own output
        wf = _wellformed(o, desc, sig, f"bands fnr_ci={fb.tolist()} fpr_ci={gb.tolist()}", not pw)
        if not joint_ordered and any(i.clause == "ordered" for i in wf):
            case.skipped += 1  # the bootstrap limits themselves are unordered (BCa beyond its pole, see C13)
            wf = [i for i in wf if i.clause != "ordered"]
        iss += wf
        # ---- the request sequence: exactly nb_samples consecutive bootstrap_sample calls, as the model issues them
        if o["tracediff"] != "-1":
            mt = rng_script.decode_requests(o, "m") if "mk" in o else []
            iss.append(Issue("DISAGREE", "requests", f"{desc}: RNG request #{o['tracediff']} differs; implementation ({len(trace)} requests): "
                             f"{rng_script.brief(trace)[:400]}; model ({o['nreq']} requests): "
                             f"{[(e['prim'], e['n'], e['size'], e['replace'], float(e['p'])) for e in mt][:12]}", sig + "/requests"))
            return iss
        if o["spec.requests"] != "1":
            iss.append(Issue("DISAGREE", "requests", f"{desc}: the model's run on the recorded answers is not ok / leaves answers "
                             f"unread (ok={o['mok']}, unread={o['left']}, model result {o['mres']})", sig + "/requests-ok"))
            return iss
        if o["mres"] != "ok":
            iss.append(Issue("DISAGREE", "raises", f"{desc} returned but the model raises {o['mres']}", sig + "/model-raises"))
            return iss
        # ---- the closed form on the implementation's own replicates: bands = aggregate(rule of three(bootstrap interval of the
        # observed replicate matrix at the requested alpha / method)) -- a clause of C16 itself
        pole = common.pfrac(o["pole"])
        near_pole = pole is not None and pole < Fraction(1, 10**6)
        if hasrep and o["spec.closedform"] != "1":
            if near_pole or o["coverobs"] == "1" or o["disc"] == "1":
                case.skipped += 1
            else:
                what = "pointwise" if pw else "envelope"
                iss.append(Issue("PROPFAIL", what, f"{desc}: bands fnr_ci={fb.tolist()} fpr_ci={gb.tolist()} are not "
                                 f"{'the' if pw else 'the envelope of the'} pointwise rectangles = {bm} bootstrap intervals (alpha={alpha}) "
                                 f"of the {nbs} replicates that Scores.bootstrap_metric returned for the band metric, with the "
                                 f"rule-of-three rows (n_pos={npos}, n_neg={nneg}); rates fnr={ofnr} fpr={ofpr}; replicates {orep[:16]}...: "
                                 f"expected fnr_ci lower={o.get('cflo')} upper={o.get('cfhi')}, fpr_ci lower={o.get('cglo')} "
                                 f"upper={o.get('cghi')}", f"{sig}/{what}"))
        # ---- replicates, entry by entry (fragile entries after patching)
        if hasrep and o["spec.replicates"] != "1":
            iss.append(Issue("DISAGREE", "replicates", f"{desc}: the replicate matrix of Scores.bootstrap_metric (or the point estimate) "
                             f"differs from _metric on the model's samples in an entry that is not within 1e-9 of a jump "
                             f"(fragile entries: {o['nfrag']}); observed estimate {oest[:8]} replicates {orep[:12]}",
                             sig + "/replicates"))
        # ---- bands
        nfrag = int(o["nfrag"])
        if o["spec.bands"] == "1":
            pass
        elif nfrag > 0 and hasrep and o["spec.bands_patched"] == "1":
            pass  # equal once the fragile replicate entries take the side the floats took
        elif near_pole:
            case.skipped += 1
        elif o["cover"] == "1" or o["disc"] == "1" or (nfrag > 0 and not hasrep):
            case.skipped += 1
        else:
            which = ("p", "patched ") if (nfrag > 0 and hasrep) else ("m", "")
            iss.append(Issue("DISAGREE", "bands", f"{desc}: bands fnr_ci={fb.tolist()} fpr_ci={gb.tolist()}; the {which[1]}model on the "
                             f"recorded RNG answers gives fnr_ci lower={o.get(which[0] + 'flo')} upper={o.get(which[0] + 'fhi')}, fpr_ci "
                             f"lower={o.get(which[0] + 'glo')} upper={o.get(which[0] + 'ghi')} (fragile entries: {nfrag})", sig + "/bands"))
        return iss

    case.judge = judge
    return case


def build(inp) -> Case:
    inp = dict(inp)
    kind = inp["kind"]
    if kind == "aggr":
        return _build_aggr(inp)
    if kind == "rot":
        return _build_rot(inp)
    for k in ("fnr", "fpr", "thr"):
        if inp.get(k) is not None:
            inp[k] = [float(common.unjson_num(x)) for x in inp[k]]
    if kind == "rwc":
        return _build_rwc(inp)
    if kind == "rwcs":
        return _build_script(inp)
    return _build_exp(inp)


def shrink_candidates(inp):
    if inp["kind"] == "aggr":
        n = len(inp["x"])
        if n > 1:
            for i in range(n):
                c = dict(inp)
                for k in ("x", "dxp", "dyp"):
                    c[k] = inp[k][:i] + inp[k][i + 1:]
                yield c
        return
    if inp["kind"] == "rot":
        n = len(inp["ks"])
        if n > 1:
            for i in range(n):
                c = dict(inp); c["ks"] = inp["ks"][:i] + inp["ks"][i + 1:]; c["ci"] = inp["ci"][:i] + inp["ci"][i + 1:]; yield c
        if inp.get("nanrow"):
            c = dict(inp); c["nanrow"] = False; yield c
        return
    for key in ("pos", "neg"):
        xs = inp[key]
        if len(xs) > 2:
            for i in range(len(xs)):
                c = dict(inp); c[key] = xs[:i] + xs[i + 1:]; yield c
    for key in ("fnr", "fpr", "thr"):
        xs = inp[key]
        if xs is not None and inp["kind"] != "fwb":
            if supplied(inp) > len(xs) or inp["nb"] != 2:
                c = dict(inp); c[key] = None; yield c
            if len(xs) > 1:
                for i in range(len(xs)):
                    c = dict(inp); c[key] = xs[:i] + xs[i + 1:]; yield c
    for key in ("ep", "en"):
        if inp[key] > 0:
            c = dict(inp); c[key] = 0; yield c
    if inp["sampler"] != "identity" and inp["nbs"] > 3:
        c = dict(inp); c["nbs"] = max(3, inp["nbs"] // 2); yield c
    if inp["bm"] != "quantile":
        c = dict(inp); c["bm"] = "quantile"; yield c
    for key in ("pos", "neg"):
        xs = inp[key]
        for i, x in enumerate(xs):
            if x != round(x, 1):
                c = dict(inp); c[key] = xs[:i] + [float(round(x, 1))] + xs[i + 1:]; yield c
