"""C17 — general threshold search returns true solutions of the interpolated metric."""
from __future__ import annotations

import math
from fractions import Fraction

import numpy as np

import common
import gen
import thr_common
from common import Case, Issue, q, ql, il, line

ID = "C17"
LEVEL = "proof"
RULE = ("cases = (a) curves: non-decreasing x (int / dyadic / float, duplicates carrying equal y, n = 0..40) x "
        "y (integer-valued with many exact touches and plateaus, dyadic, float) x 6 targets (sample values, "
        "value of the last sample, adjacent midpoints, inside, outside), scalar or array call; (b) Scores objects "
        "(exact and generic streams, 4 configurations, easy samples, empty class) x metric by name / alias / "
        "callable x points None / int / array x targets, incl. the ValueError branches; non-trivial = distinct "
        "input with an exact touch, a duplicate x, several crossings, a fallback, or points != None")
EXPLANATION = ("Theorems C17_* prove for ALL non-decreasing x with duplicates carrying equal y, all y and targets: "
               "crossing points solve the interpolation equation on their segment and lie in [x_j, x_{j+1}), the "
               "result is strictly increasing and inside [x_0, x_{n-1}], without a crossing exactly one sample "
               "with minimal |y - t| (first index) is returned, cross-or-touch implies every returned point is a "
               "genuine solution, no-cross-no-touch implies all samples lie strictly on one side; the spec "
               "predicates hold on the model with eps = 0; threshold_at_metric is the inversion on all scores / "
               "linspace / given points. The correspondence run calls utils.invert_pl_function and "
               "Scores.threshold_at_metric of /repo, compares number and position of solutions with the model and "
               "evaluates the Lean spec predicates on the implementation's own output; every interpolated point is also compared "
               "with the exact inversion of the SAME float inputs within 4 x plEps (theorem segPoint_fl_error under the standard "
               "model of floating-point arithmetic, driver op plbound, u = 2^-53), and the number of points must agree exactly.")
TRUSTED_BASE = ["Lean 4.33 kernel", "axioms propext/Classical.choice/Quot.sound only",
                "hand-written model SA/Model/InvertPL.lean tied to /repo by this correspondence run",
                "np.nonzero / np.argmin / np.linspace / np.sort by documented meaning",
                "harness and driver parsing; tolerance 1e-9 (scaled) on interpolated positions against the model on exact metric "
                "values, 4 x the theorem bound plEps against the model on the float metric values",
                "IEEE 754 double arithmetic satisfies the standard model |fl x - x| <= 2^-53 |x| (inputs in [2^-200, 2^200])"]
ASSUMPTIONS = ["x non-decreasing, duplicates carry equal y, finite values (the documented precondition)",
               "exact rationals in place of doubles: rounding of (1-la)*x[j]+la*x[j+1] is bounded by segPoint_fl_error (at most about 9 u max|x|, u = 2^-53, i.e. 4 to 5 ulp "
               "of the segment's larger end point); that it does not move a point onto the next segment is observed, not proved",
               "for threshold_at_metric the six rate metrics are modelled; a callable is one of them wrapped in a lambda"]

NAMES = {"tpr": ["tpr", "tar"], "fnr": ["fnr", "frr"], "tnr": ["tnr", "trr"], "fpr": ["fpr", "far"],
         "topr": ["topr", "acceptance_rate"], "tonr": ["tonr", "rejection_rate"]}


def n_cases(tier):
    return 3200 if tier == "quick" else 20000


# --------------------------------------------------------------------------------------
# generation
# --------------------------------------------------------------------------------------
def _gen_curve(rng):
    r = rng.random()
    n = 0 if r < 0.01 else 1 if r < 0.04 else 2 if r < 0.1 else rng.randint(3, 12) if r < 0.7 else rng.randint(13, 40)
    xk = rng.choice(["int", "dyadic", "float"])
    yk = rng.choice(["int", "int", "dyadic", "float"])
    pdup = rng.choice([0.0, 0.15, 0.4])
    x, y = [], []
    cur = {"int": float(rng.randint(-5, 5)), "dyadic": rng.randint(-40, 40) / 8.0, "float": rng.uniform(-5, 5)}[xk]
    walk = rng.random() < 0.5
    lvl = 0.0
    for j in range(n):
        dup = j > 0 and rng.random() < pdup
        if j > 0 and not dup:
            cur += {"int": float(rng.randint(1, 3)), "dyadic": rng.randint(1, 16) / 8.0,
                    "float": rng.uniform(0.05, 2.0)}[xk]
        if dup:
            v = y[-1]
        elif yk == "int":
            lvl = lvl + rng.randint(-1, 1) if walk else rng.randint(-3, 3)
            v = float(lvl)
        elif yk == "dyadic":
            lvl = lvl + rng.randint(-4, 4) / 8.0 if walk else rng.randint(-24, 24) / 8.0
            v = float(lvl)
        else:
            lvl = lvl + rng.gauss(0, 1) if walk else rng.gauss(0, 2)
            v = float(lvl)
        x.append(cur)
        y.append(v)
    return xk, yk, x, y


def _gen_targets(rng, y, yk, k=6):
    ts = []
    if not y:
        return [0.0, 1.0][:rng.randint(1, 2)]
    lo, hi = min(y), max(y)
    for _ in range(k):
        c = rng.random()
        if c < 0.25:
            ts.append(rng.choice(y))
        elif c < 0.33:
            ts.append(y[-1])
        elif c < 0.38:
            ts.append(y[0])
        elif c < 0.55 and len(y) > 1:
            j = rng.randrange(len(y) - 1)
            ts.append((y[j] + y[j + 1]) / 2)
        elif c < 0.8:
            ts.append({"int": float(rng.randint(int(lo) - 1, int(hi) + 1)) + rng.choice([0, 0, 0.5, 0.25]),
                       "dyadic": rng.randint(int(lo * 8) - 4, int(hi * 8) + 4) / 8.0}.get(yk, rng.uniform(lo, hi)))
        else:
            ts.append(rng.choice([lo - 1.0, hi + 1.0, lo - 0.125, hi + 0.125, hi + 1e6, lo - 1e6, lo, hi]))
    return [float(t) for t in ts]


def _gen_scores_case(rng, i):
    stream = "exact" if rng.random() < 0.5 else "generic"
    r = rng.random()
    if r < 0.06:  # error branches / degenerate
        v = rng.choice([0.0, 1.5, -2.25])
        pos, neg = rng.choice([([v], []), ([], [v]), ([], []), ([v, v], [v]), ([v], [v]), ([v, v], [])])
    else:
        pos, neg = gen.score_sets(rng, stream, nmin=1, nmax=20, allow_empty=False)
        if len(pos) + len(neg) > 60:
            pos, neg = pos[:30], neg[:30]
        if rng.random() < 0.05:
            if rng.random() < 0.5:
                pos = []
            else:
                neg = []
    mixdt = None
    if rng.random() < 0.15 and pos and neg:
        # the two classes held in arrays of different dtypes (integer-valued / float32 scores in one class only):
        # "all scores" must still be the exact score values of both classes
        mixdt = rng.choice(["posint", "negint", "posf4", "negf4", "i1", "i1"])
        if mixdt == "i1":
            # int8 scores spread over the whole range of the dtype (neighbouring evaluation points further apart than 127)
            pos = [float(rng.choice([-127, -120, -100, 100, 110, 127, rng.randint(-127, 127)])) for _ in pos][:8]
            neg = [float(rng.choice([-127, -110, -90, 90, 120, 127, rng.randint(-127, 127)])) for _ in neg][:8]
        elif mixdt == "posint":
            pos = [float(round(x)) for x in pos]
        elif mixdt == "negint":
            neg = [float(round(x)) for x in neg]
        elif mixdt == "posf4":
            pos = [float(np.float32(x)) for x in pos]
        else:
            neg = [float(np.float32(x)) for x in neg]
    ep, en = gen.easy_counts(rng, stream, len(pos), len(neg))
    sc, ec = rng.choice(gen.CFGS)
    metric = rng.choice(gen.METRICS)
    via = rng.choice(["name", "name", "alias", "callable", "callable"])
    allv = sorted(pos + neg)
    pk = rng.choice(["none", "int", "int", "arr"])
    if pk == "int" and mixdt in ("posf4", "negf4", "i1"):
        pk = "none"  # np.linspace between float32 end points is computed in float32: grid rounding, not semantics
    k, parr, ptype = 0, [], "array"
    if pk == "int":
        k = rng.choice([2, 3, 5, 9, 17, 33, rng.randint(2, 40), rng.randint(2, 12)])
        if rng.random() < 0.04:
            k = rng.choice([0, 1])
    elif pk == "arr":
        lo, hi = (allv[0], allv[-1]) if allv else (0.0, 1.0)
        m = rng.randint(2, 25)
        if rng.random() < 0.04:
            m = rng.choice([0, 1])
        span = max(hi - lo, 1.0)
        for _ in range(m):
            c = rng.random()
            if c < 0.35 and allv:
                parr.append(rng.choice(allv))
            elif c < 0.5 and allv:
                v = rng.choice(allv)
                parr.append(rng.choice([gen.up(v), gen.down(v)]) if stream == "generic" else v + rng.choice([-0.125, 0.125]))
            elif stream == "exact":
                parr.append(math.floor(rng.uniform(lo - 0.3 * span, hi + 0.3 * span) * 8) / 8.0)
            else:
                parr.append(rng.uniform(lo - 0.3 * span, hi + 0.3 * span))
        parr.sort()
        ptype = rng.choice(["array", "array", "list"])
    # targets
    n_all = {"tpr": len(pos) + ep, "fnr": len(pos) + ep, "tnr": len(neg) + en, "fpr": len(neg) + en}.get(
        metric, len(pos) + len(neg) + ep + en)
    ts = []
    for _ in range(rng.randint(1, 6)):
        c = rng.random()
        if c < 0.4 and n_all > 0:
            ts.append(rng.randint(0, n_all) / n_all)
        elif c < 0.75:
            ts.append(rng.randint(0, 64) / 64.0 if stream == "exact" else rng.random())
        else:
            ts.append(rng.choice([0.0, 1.0, -0.5, 1.5, 0.5]))
    # the same query on a GroupScores object (a Scores subclass that sorts its arrays itself, after the parent constructor)
    grouped = mixdt is None and ep == 0 and en == 0 and bool(pos) and bool(neg) and rng.random() < 0.15
    return {"op": "thrmetric", "stream": stream, "pos": pos, "neg": neg, "ep": ep, "en": en, "sc": sc, "ec": ec,
            "metric": metric, "via": via, "pk": pk, "k": k, "parr": parr, "ptype": ptype,
            "ts": [float(t) for t in ts], "scalar": rng.random() < 0.3, "mixdt": mixdt, "grouped": grouped,
            # also asked of a user subclass of Scores that redefines the named metric and adds a metric of its own
            "subclass": via == "name" and not grouped and rng.random() < 0.3}


def gen_one(rng, i, tier):
    if i % 4 == 3:
        return _gen_scores_case(rng, i)
    r_ = rng.random()
    if r_ < 0.012:
        # thousands of sample points with ONE crossing, placed in the segment that straddles a block boundary (blocks of
        # 512 ... 8192 samples): anything that works through the samples in blocks must not lose that segment
        m_ = rng.choice([512, 1000, 1024, 2048, 4096, 4096, 4096, 5000, 8192]) + rng.choice([0, 0, 1])
        n_ = m_ + rng.randint(2, 40)
        x = [float(j) * 0.5 for j in range(n_)]
        # one step between samples m_-1 and m_ (the segment straddling a block boundary of that size), flat elsewhere
        y = [0.0 if j < m_ else 1.0 for j in range(n_)]
        return {"op": "invpl", "xk": "dyadic", "yk": "dyadic", "x": x, "y": y, "ts": [0.5, rng.choice([0.75, 0.25, 2.0])],
                "dtype": "float", "scalar": False, "aslist": False, "long": True}
    if r_ < 0.08:
        # sample points / function values held in a narrow signed integer dtype, neighbours further apart than the dtype's
        # maximum: every difference has to be taken after conversion to floating point
        dt = rng.choice(["i1", "i1", "i2"])
        top = 127 if dt == "i1" else 32767
        n_ = rng.randint(2, 8)
        x = sorted(rng.sample(range(-top, top + 1), n_))
        if rng.random() < 0.7 and n_ >= 3:
            x[0], x[-1] = -top + rng.randint(0, 9), top - rng.randint(0, 9)
            x = sorted(set(x))
            n_ = len(x)
        y = [rng.choice([-top + rng.randint(0, 20), top - rng.randint(0, 20), rng.randint(-top, top)]) for _ in range(n_)]
        ts = [float(t) for t in _gen_targets(rng, [float(v) for v in y], "int")]
        return {"op": "invpl", "xk": "int", "yk": "int", "x": [float(v) for v in x], "y": [float(v) for v in y],
                "ts": [float(math.floor(t)) for t in ts] if rng.random() < 0.5 else ts, "dtype": dt,
                "dtype_y": rng.choice([dt, dt, "float"]), "scalar": rng.random() < 0.3, "aslist": False}
    xk, yk, x, y = _gen_curve(rng)
    ts = _gen_targets(rng, y, yk)
    dtype = "int" if (xk == "int" and yk == "int" and rng.random() < 0.3) else "float"
    if dtype == "int":
        ts = [float(math.floor(t)) for t in ts]
    elif rng.random() < 0.06:
        # function values and targets of tiny (or huge) magnitude, e.g. likelihoods ~1e-170: the solutions do not depend on
        # the scale of y (power-of-two factor: exact), products of two differences underflow
        k_ = rng.choice([2.0 ** -600, 2.0 ** -560, 2.0 ** 300])
        y, ts = [v * k_ for v in y], [t * k_ for t in ts]
    return {"op": "invpl", "xk": xk, "yk": yk, "x": x, "y": y, "ts": ts, "dtype": dtype,
            "scalar": rng.random() < 0.3, "aslist": rng.random() < 0.2}


def _touch(y, ts):
    return any(t in y for t in ts)


def nontrivial(inp):
    if inp["op"] == "thrmetric":
        return True
    x, y = inp["x"], inp["y"]
    return len(x) >= 2 and (_touch(y, inp["ts"]) or len(set(x)) < len(x) or len(y) >= 4)


# --------------------------------------------------------------------------------------
# shared judging of one inversion (x, y, ts) -> observed per-target arrays
# --------------------------------------------------------------------------------------
def _flatten_result(res, ts, scalar_calls, pre, sig):
    """res: list (one per target) of implementation entries; returns list of float lists"""
    out = []
    for k, e in enumerate(res):
        a = np.asarray(e)
        if a.dtype == object:
            pre.append(Issue("PROPFAIL", "type", f"target {ts[k]}: entry is not a numeric array: {e!r}"[:200], sig + "/type"))
            out.append([])
            continue
        out.append([float(v) for v in a.reshape(-1)])
    return out


def _spec_issues(o, ts, obs, what, sig, skip=None):
    iss = []
    for cl in ("nonempty", "incr", "range", "complete", "solves", "fallback"):
        vals = common.plist(o["spec." + cl])
        for k, b in enumerate(vals):
            if cl == "complete" and skip is not None and skip[k]:
                continue  # which segments cross depends on the rounding of a metric value
            if b != "1":
                iss.append(Issue("PROPFAIL", cl, f"{what} target={ts[k]} returned {obs[k]}", f"{sig}/{cl}"))
    return iss


def _compare(o, key_res, key_lens, ts, obs, scale, what, sig, case, skip_count):
    """model result (flattened under key_res/key_lens) vs observed"""
    iss = []
    flat = common.pfracs(o[key_res])
    lens = common.pints(o[key_lens])
    if len(lens) != len(obs):
        iss.append(Issue("DISAGREE", "length", f"{what}: model has {len(lens)} entries, impl {len(obs)}", sig + "/length"))
        return iss
    pos = 0
    for k, n in enumerate(lens):
        mz = flat[pos:pos + n]
        pos += n
        if skip_count[k]:
            case.skipped += 1
            continue
        if len(obs[k]) != n:
            iss.append(Issue("DISAGREE", "count", f"{what} target={ts[k]}: impl {obs[k]} model {[float(v) for v in mz]}",
                             sig + "/count"))
            continue
        for a, b in zip(obs[k], mz):
            if not common.close(a, b, rel=Fraction(1, 10**9), abs_=Fraction(1, 10**9), scale=scale):
                iss.append(Issue("DISAGREE", "position", f"{what} target={ts[k]}: impl {obs[k]} model {[float(v) for v in mz]}",
                                 sig + "/position"))
                break
    return iss


def _float_bound(o2, ts, obs, what, sig, skip):
    """theorem-derived comparison (SA.segPoint_fl_error): the exact model on the SAME float inputs the implementation
    inverted returns the same number of points (the crossing tests are exact float comparisons) and every interpolated
    point is within `plEps` (x FLBOUND_SLACK) of the model's; a fallback sample is returned unchanged (bound 0)"""
    iss = []
    worst = None
    if "err" in o2 or "ERR" in o2:
        return iss, worst
    flat, eps, lens = common.pfracs(o2["res"]), common.pfracs(o2["eps"]), common.pints(o2["mlens"])
    if len(lens) != len(obs):
        return iss, worst
    pos = 0
    for k, n in enumerate(lens):
        mz, me = flat[pos:pos + n], eps[pos:pos + n]
        pos += n
        if skip[k]:
            continue
        if len(obs[k]) != n:
            iss.append(Issue("DISAGREE", "float-bound", f"{what} target={ts[k]}: impl returns {len(obs[k])} points {obs[k]}, the "
                             f"exact model on the same float inputs {n}: {[float(v) for v in mz]}", sig + "/float-bound/count"))
            continue
        for a, b, e in zip(obs[k], mz, me):
            fa = common.fr(a)
            if fa is None or isinstance(fa, float):
                continue
            d = abs(fa - b)
            ratio = d / e if e > 0 else (Fraction(0) if d == 0 else Fraction(10**6))
            worst = ratio if worst is None or ratio > worst else worst
            if d > thr_common.FLBOUND_SLACK * e:
                iss.append(Issue("DISAGREE", "float-bound", f"{what} target={ts[k]}: impl {a} model {float(b)} differ by "
                                 f"{float(d):.3e} > {thr_common.FLBOUND_SLACK} x {float(e):.3e} (theorem bound plEps; ratio "
                                 f"{float(ratio):.2f})", sig + "/float-bound"))
                break
    return iss, worst


# --------------------------------------------------------------------------------------
# invert_pl_function
# --------------------------------------------------------------------------------------
def _build_invpl(inp) -> Case:
    from score_analysis import utils

    inp = dict(inp)
    x, y, ts = list(inp["x"]), list(inp["y"]), [float(t) for t in inp["ts"]]
    NPDT = {"int": int, "i1": np.int8, "i2": np.int16}
    npdt = NPDT.get(inp["dtype"], float)
    if inp["aslist"] and inp["dtype"] == "float":
        xa, ya = list(x), list(y)
    else:
        xa, ya = np.array(x, dtype=npdt), np.array(y, dtype=NPDT.get(inp.get("dtype_y", inp["dtype"]), float))
    if inp["dtype"] in ("i1", "i2"):
        npdt = float  # targets stay floating point
    xb, yb = np.array(xa, copy=True), np.array(ya, copy=True)
    pre = []
    sig = "invpl"
    raised = None
    res = []
    if inp["scalar"]:
        for t in ts:
            tt = npdt(t) if inp["dtype"] == "int" else t
            r = common.call(utils.invert_pl_function, xa, ya, tt)
            if r[0] == "exc":
                raised = r
                break
            if isinstance(r[1], (list, tuple)) or not isinstance(r[1], np.ndarray):
                pre.append(Issue("PROPFAIL", "scalar", f"scalar target {t} returned {type(r[1]).__name__}, not a bare array",
                                 sig + "/scalar"))
                res.append(r[1][0] if isinstance(r[1], (list, tuple)) and len(r[1]) else np.array([]))
            else:
                res.append(r[1])
    else:
        r = common.call(utils.invert_pl_function, xa, ya, np.array(ts, dtype=npdt))
        if r[0] == "exc":
            raised = r
        else:
            v = r[1]
            if not isinstance(v, list) or len(v) != len(ts):
                pre.append(Issue("PROPFAIL", "length", f"array of {len(ts)} targets returned {type(v).__name__} of "
                                 f"length {len(v) if hasattr(v, '__len__') else '?'}", sig + "/length"))
                v = list(v)[:len(ts)] if hasattr(v, "__len__") else []
                v = v + [np.array([])] * (len(ts) - len(v))
            res = list(v)
    if not (np.array_equal(np.asarray(xa), xb) and np.array_equal(np.asarray(ya), yb)):
        pre.append(Issue("PROPFAIL", "mutation", "input arrays mutated", sig + "/mutation"))
    if raised is None and len(x) >= 1:
        # no targets (a target list filtered down to nothing): one entry per target means NO entry
        for empty in (np.array([], dtype=float), []):
            r0 = common.call(utils.invert_pl_function, xa, ya, empty)
            if r0[0] == "ok" and (not hasattr(r0[1], "__len__") or len(r0[1]) != 0):
                pre.append(Issue("PROPFAIL", "length", f"an EMPTY array of targets returned {len(r0[1]) if hasattr(r0[1], '__len__') else r0[1]!r} "
                                 f"entries ({r0[1]!r})", sig + "/length/empty-targets"))
    obs = _flatten_result(res, ts, inp["scalar"], pre, sig) if raised is None else [[] for _ in ts]
    odd_shape = any(np.asarray(e).ndim != 1 for e in res)
    scale = max([1.0] + [abs(v) for v in x + y if math.isfinite(v)])
    tscale = max([1.0] + [abs(t) for t in ts])
    eps = Fraction(1, 10**9) * Fraction(scale)
    ln = line("invpl", x=ql(x), y=ql(y), ts=ql(ts), eps=q(eps), obs=ql([v for z in obs for v in z]),
              lens=il([len(z) for z in obs]))
    # second line: exact model + theorem-derived bound per returned point, on the same float inputs
    ln2 = line("plbound", x=ql(x), y=ql(y), ts=ql(ts), u=q(thr_common.U53))
    fl_ok_inputs = thr_common.fl_in_range(x) and thr_common.fl_in_range(y) and thr_common.fl_in_range(ts)
    inp["_evals"] = max(1, len(ts))
    case = Case(ID, inp, [ln, ln2], None, (), 0, pre)
    tags = ["invpl", f"x={inp['xk']}", f"y={inp['yk']}", "scalar-target" if inp["scalar"] else "array-target",
            f"n={'0' if not x else '1' if len(x) == 1 else '2-12' if len(x) <= 12 else '13-40'}"]
    if len(set(x)) < len(x):
        tags.append("duplicate-x")
    if _touch(y, ts):
        tags.append("exact-touch")
    if y and any(t == y[-1] for t in ts):
        tags.append("touch-last-sample")
    if odd_shape:
        tags.append("entry-not-1d(fallback-shape-(1,1))")
    case.tags = tuple(tags)

    def judge(outs):
        o = outs[0]
        iss = []
        if "err" in o:
            if raised is None:
                iss.append(Issue("DISAGREE", "error", f"model raises {o['err']}, implementation returned", sig + "/error"))
            elif raised[1] != o["err"]:
                iss.append(Issue("DISAGREE", "error", f"model raises {o['err']}, implementation {raised[1]}", sig + "/error"))
            return iss
        if raised is not None:
            iss.append(Issue("PROPFAIL", "raises", f"invert_pl_function(x={x}, y={y}, t={ts}) raised {raised[1]}: {raised[2]}",
                             sig + "/raises/" + raised[1]))
            return iss
        if o["pre"] != "1":
            iss.append(Issue("ERR", "generator", "generated input violates the precondition", "generator"))
            return iss
        what = f"invert_pl_function(x={x}, y={y})"
        iss += _spec_issues(o, ts, obs, what, sig)
        cot = common.plist(o["cot"])
        # comparisons on floats are exact, so the number of solutions must agree exactly; the
        # fallback index only when float rounding of |y - t| cannot reorder near-ties
        skip = []
        for k, t in enumerate(ts):
            sk = False
            if cot[k] == "0" and inp["yk"] == "float":
                d = sorted({abs(Fraction(v) - Fraction(t)) for v in y})
                sk = len(d) > 1 and (d[1] - d[0]) <= Fraction(1, 10**9) * Fraction(tscale + scale)
            skip.append(sk)
        iss += _compare(o, "res", "mlens", ts, obs, scale, what, sig, case, skip)
        worst = None
        if fl_ok_inputs:
            # float-bound: the fallback index is decided by float |y - t| (near-ties may reorder): skipped as above
            fb, worst = _float_bound(outs[1], ts, obs, what, sig, skip)
            iss += fb
        case.tags = case.tags + ("float-bound ratio " + thr_common.fl_bucket(worst),)
        return iss

    case.judge = judge
    return case


# --------------------------------------------------------------------------------------
# threshold_at_metric
# --------------------------------------------------------------------------------------
def _build_thrmetric(inp) -> Case:
    import score_analysis
    from score_analysis import Scores
    from score_analysis import utils

    inp = dict(inp)
    pos, neg, ts = list(inp["pos"]), list(inp["neg"]), [float(t) for t in inp["ts"]]
    metric = inp["metric"]
    dts = {"posint": (int, float), "negint": (float, int), "posf4": (np.float32, float), "negf4": (float, np.float32),
           "i1": (np.int8, np.int8)}.get(
        inp.get("mixdt"), (float, float))
    if inp.get("grouped"):
        from score_analysis import GroupScores
        s = GroupScores(np.array(pos, dtype=float), np.array(neg, dtype=float),
                        pos_groups=["g%d" % (j % 3) for j in range(len(pos))], neg_groups=["g%d" % (j % 2) for j in range(len(neg))],
                        score_class=inp["sc"], equal_class=inp["ec"])
    else:
        s = Scores(np.array(pos, dtype=dts[0]), np.array(neg, dtype=dts[1]), nb_easy_pos=inp["ep"], nb_easy_neg=inp["en"],
                   score_class=inp["sc"], equal_class=inp["ec"])
    pre = []
    sig = f"thrmetric/{inp['pk']}"
    seen = []
    if inp["via"] == "callable":
        def marg(sample, thr, _m=metric):
            seen.append(np.array(thr, dtype=float, copy=True))
            return getattr(sample, _m)(thr)
    else:
        marg = NAMES[metric][1 if inp["via"] == "alias" else 0]
    if inp["pk"] == "none":
        parg = None
    elif inp["pk"] == "int":
        parg = int(inp["k"])
    else:
        parg = np.array(inp["parr"], dtype=float) if inp["ptype"] == "array" else list(inp["parr"])
    raised = None
    res = []
    calls = []
    with common.Recorder(utils, "invert_pl_function") as rec:
        if inp["scalar"]:
            for t in ts:
                r = common.call(s.threshold_at_metric, t, marg, parg)
                if r[0] == "exc":
                    raised = r
                    break
                if not isinstance(r[1], np.ndarray):
                    pre.append(Issue("PROPFAIL", "scalar", f"scalar target {t} returned {type(r[1]).__name__}, not a bare array",
                                     sig + "/scalar"))
                    res.append(r[1][0] if isinstance(r[1], (list, tuple)) and len(r[1]) else np.array([]))
                else:
                    res.append(r[1])
        else:
            r = common.call(s.threshold_at_metric, np.array(ts), marg, parg)
            if r[0] == "exc":
                raised = r
            else:
                v = r[1]
                if not isinstance(v, list) or len(v) != len(ts):
                    pre.append(Issue("PROPFAIL", "length", f"array of {len(ts)} targets returned {type(v).__name__}",
                                     sig + "/length"))
                    v = list(v)[:len(ts)] if hasattr(v, "__len__") else []
                    v = v + [np.array([])] * (len(ts) - len(v))
                res = list(v)
        calls = list(rec.calls)
    # the evaluation points / values the implementation handed to invert_pl_function
    opts = oys = None
    if calls:
        a, kw, rr = calls[-1]
        cx = kw.get("x", a[0] if len(a) > 0 else None)
        cy = kw.get("y", a[1] if len(a) > 1 else None)
        opts = [float(v) for v in np.asarray(cx, dtype=float).reshape(-1)]
        oys = [float(v) for v in np.asarray(cy, dtype=float).reshape(-1)]
        # "exactly this inversion": what the method returns is what the inversion returned
        if raised is None and res:
            ret = rr if not inp["scalar"] else [rr]
            last = res if not inp["scalar"] else [res[-1]]
            same = len(ret) == len(last) and all(np.array_equal(np.asarray(u), np.asarray(w)) for u, w in zip(ret, last))
            if not same:
                pre.append(Issue("PROPFAIL", "passthrough", "threshold_at_metric does not return the inversion's result",
                                 sig + "/passthrough"))
        # "... applied to the metric evaluated at ...": the values inverted are the object's own metric there
        yref = common.call(lambda: np.asarray(getattr(s, metric)(np.asarray(cx)), dtype=float).reshape(-1))
        if yref[0] == "ok" and not np.array_equal(yref[1], np.asarray(oys), equal_nan=True):
            pre.append(Issue("PROPFAIL", "metric-values", f"the values inverted are not {metric} at the evaluation points: "
                             f"points={opts[:8]} inverted y={oys[:8]} {metric}={yref[1][:8].tolist()}", sig + "/metric-values"))
        if inp["via"] == "callable" and seen and not np.array_equal(seen[-1], np.asarray(opts)):
            pre.append(Issue("PROPFAIL", "points", "the metric was evaluated at other points than were inverted",
                             sig + "/points"))
    elif raised is None:
        # no observed call: reconstruct the documented points
        allv = sorted(pos + neg)
        if inp["pk"] == "none":
            opts = allv
        elif inp["pk"] == "int":
            opts = [float(v) for v in np.linspace(allv[0], allv[-1], int(inp["k"]))] if allv else []
        else:
            opts = list(inp["parr"])
        oys = [float(v) for v in np.asarray(getattr(s, metric)(np.array(opts, dtype=float)), dtype=float).reshape(-1)]
    if raised is None and inp["pk"] == "arr" and isinstance(parg, np.ndarray) and len(parg) >= 2 and not inp.get("grouped"):
        # the caller's grid object is refilled IN PLACE (a sweep buffer) and the same object is passed again: the metric is
        # evaluated at the points the grid holds NOW - identical to passing a fresh copy of it
        step_ = (max(pos + neg) - min(pos + neg) + 1.0) / 7.0 if pos and neg else 0.25
        parg += step_
        fresh = np.array(parg, copy=True)
        r_same = common.call(s.threshold_at_metric, np.array(ts), marg, parg)
        r_new = common.call(s.threshold_at_metric, np.array(ts), marg, fresh)
        parg -= step_
        okp = r_same[0] == r_new[0] and (r_same[0] == "exc" or (len(r_same[1]) == len(r_new[1]) and all(
            np.array_equal(np.asarray(u), np.asarray(w), equal_nan=True) for u, w in zip(r_same[1], r_new[1]))))
        if not okp:
            pre.append(Issue("PROPFAIL", "points", f"second call with the SAME grid object after it was shifted in place by {step_}: "
                             f"{[np.asarray(u).tolist() for u in r_same[1]][:3] if r_same[0] == 'ok' else r_same[:2]} but a fresh copy of the "
                             f"shifted grid gives {[np.asarray(u).tolist() for u in r_new[1]][:3] if r_new[0] == 'ok' else r_new[:2]}",
                             sig + "/points/grid-reused-in-place"))
    if inp.get("subclass") and raised is None and pos and neg:
        # "metric by name" means the OBJECT's metric of that name: on a user subclass that redefines the metric (rates under
        # a deployment prior) or adds one, the name gives exactly what passing the bound behaviour as a callable gives
        def redefined(self_, threshold, _m=metric):
            return 0.25 * np.asarray(getattr(Scores, _m)(self_, threshold)) + 0.75 * np.asarray(Scores.topr(self_, threshold))

        Deployed = type("Deployed", (Scores,), {metric: redefined, "blend": redefined})
        sd = Deployed(np.array(pos, dtype=dts[0]), np.array(neg, dtype=dts[1]), nb_easy_pos=inp["ep"], nb_easy_neg=inp["en"],
                      score_class=inp["sc"], equal_class=inp["ec"])
        for nm_ in (metric, "blend"):
            rn = common.call(sd.threshold_at_metric, np.array(ts), nm_, parg)
            rc = common.call(sd.threshold_at_metric, np.array(ts), lambda smp, thr, _n=nm_: getattr(smp, _n)(thr), parg)
            if rn[0] != rc[0] or (rn[0] == "exc" and rn[1] != rc[1]):
                pre.append(Issue("PROPFAIL", "metric-values", f"on a subclass of Scores defining {nm_}: by name -> {rn[:2] if rn[0] == 'exc' else 'ok'}, "
                                 f"as a callable -> {rc[:2] if rc[0] == 'exc' else 'ok'}", sig + "/subclass-metric"))
            elif rn[0] == "ok" and not (len(rn[1]) == len(rc[1]) and all(
                    np.array_equal(np.asarray(u), np.asarray(w)) for u, w in zip(rn[1], rc[1]))):
                pre.append(Issue("PROPFAIL", "metric-values", f"on a subclass of Scores that redefines {nm_}: threshold_at_metric({ts}, '{nm_}', "
                                 f"{inp['pk']}) = {[np.asarray(u).tolist() for u in rn[1]][:4]} but with the object's {nm_} passed as a "
                                 f"callable {[np.asarray(u).tolist() for u in rc[1]][:4]}", sig + "/subclass-metric"))
    obs = _flatten_result(res, ts, inp["scalar"], pre, sig) if raised is None else [[] for _ in ts]
    allabs = [abs(v) for v in pos + neg + list(inp["parr"])]
    scale = max([1.0] + allabs)
    eps = Fraction(1, 10**9) * Fraction(scale)
    epsp = Fraction(0) if inp["pk"] != "int" else Fraction(1, 10**12) * Fraction(scale)
    ln = line("thrmetric", pos=ql(pos), neg=ql(neg), ep=inp["ep"], en=inp["en"], sc=inp["sc"], ec=inp["ec"],
              sorted=0, metric=metric, pk=inp["pk"], k=int(inp["k"]), parr=ql(inp["parr"]), ts=ql(ts),
              eps=q(eps), epsp=q(epsp), opts=ql(opts or []), obs=ql([v for z in obs for v in z]),
              lens=il([len(z) for z in obs]))
    # second line (when the call into invert_pl_function was observed and the metric values are NaN-free): the exact
    # inversion of the SAME float points / float metric values the implementation inverted, with the theorem's bound
    lines_ = [ln]
    fl_line = bool(calls) and raised is None and opts is not None and oys is not None and len(opts) == len(oys) \
        and all(math.isfinite(v) for v in opts + oys) and thr_common.fl_in_range(opts) and thr_common.fl_in_range(oys) \
        and thr_common.fl_in_range(ts)
    if fl_line:
        lines_.append(line("plbound", x=ql(opts), y=ql(oys), ts=ql(ts), u=q(thr_common.U53)))
    inp["_evals"] = max(1, len(ts))
    case = Case(ID, inp, lines_, None, (), 0, pre)
    tags = ["thrmetric", f"points={inp['pk']}", f"via={inp['via']}", f"metric={metric}", inp["stream"],
            f"cfg={inp['sc']},{inp['ec']}", "scalar-target" if inp["scalar"] else "array-target"]
    if raised is not None:
        tags.append("raises-" + raised[1])
    if not pos or not neg:
        tags.append("empty-class")
    case.tags = tuple(tags)

    def judge(outs):
        o = outs[0]
        iss = []
        call_desc = (f"Scores(pos={pos}, neg={neg}, ep={inp['ep']}, en={inp['en']}, {inp['sc']},{inp['ec']})"
                     f".threshold_at_metric({ts}, {metric} via {inp['via']}, points="
                     f"{None if inp['pk'] == 'none' else inp['k'] if inp['pk'] == 'int' else inp['parr']})")
        if fl_line and "err" not in outs[1] and "ERR" not in outs[1]:
            # no skip list here: both sides see the same float metric values, so the crossing tests agree exactly; only
            # the fallback index (argmin of rounded |y - t|) may differ on near-ties -> skip targets without a crossing
            # whose two smallest |y - t| are within rounding of each other
            sk2 = []
            for t in ts:
                dd = sorted({abs(Fraction(v) - Fraction(t)) for v in oys})
                sk2.append(len(dd) > 1 and (dd[1] - dd[0]) <= Fraction(1, 2**40) * (abs(Fraction(t)) + 1))
            fb, worst = _float_bound(outs[1], ts, obs, call_desc, sig, sk2)
            iss += fb
            case.tags = case.tags + ("float-bound ratio " + thr_common.fl_bucket(worst),)
        if "err" in o:
            if raised is None:
                iss.append(Issue("DISAGREE", "error", f"model raises {o['err']}, implementation returned: {call_desc}", sig + "/error"))
            elif raised[1] != o["err"]:
                iss.append(Issue("DISAGREE", "error", f"model raises {o['err']}, implementation {raised[1]}: {call_desc}", sig + "/error"))
            return iss
        if raised is not None:
            iss.append(Issue("PROPFAIL", "raises", f"{call_desc} raised {raised[1]}: {raised[2]}", sig + "/raises/" + raised[1]))
            return iss
        if o["spec.points"] != "1":
            iss.append(Issue("PROPFAIL", "points", f"{call_desc} evaluated the metric at {opts}, expected "
                             f"{[float(v) for v in common.pfracs(o['mpts'])]}", sig + "/points"))
            return iss
        mys = common.pfracs(o["mys"])
        for j, (a, b) in enumerate(zip(oys, mys)):
            if not common.close(a, b, rel=Fraction(1, 10**12), abs_=Fraction(1, 10**12)):
                iss.append(Issue("DISAGREE", "metric-values", f"{call_desc}: {metric}({opts[j]}) impl={a} model={b}",
                                 sig + "/metric-values"))
                return iss
        if o["nan"] == "1":
            skip = [False] * len(ts)
        else:
            if o["pre"] != "1":
                iss.append(Issue("ERR", "generator", "evaluation points violate the precondition", "generator"))
                return iss
            # the implementation compares float metric values with the target; skip the count where
            # rounding of a metric value changes its order relation with the target
            skip = []
            for t in ts:
                ft = Fraction(t)
                sk = False
                for a, b in zip(oys, mys):
                    fa = Fraction(a)
                    if (fa < ft) != (b < ft) or (fa > ft) != (b > ft):
                        sk = True
                        break
                skip.append(sk)
            iss += _spec_issues(o, ts, obs, call_desc, sig, skip)
        iss += _compare(o, "res2", "mlens2", ts, obs, scale, call_desc, sig, case, skip)
        # exact arithmetic throughout: the pure model (its own points) must agree as well
        if inp["stream"] == "exact" and inp["pk"] != "int" and not any(skip):
            iss += _compare(o, "res", "mlens", ts, obs, scale, call_desc + " [model points]", sig, case, skip)
        return iss

    case.judge = judge
    return case


def build(inp) -> Case:
    if inp["op"] == "invpl":
        return _build_invpl(inp)
    return _build_thrmetric(inp)


# --------------------------------------------------------------------------------------
# shrinking
# --------------------------------------------------------------------------------------
def shrink_candidates(inp):
    if len(inp["ts"]) > 1:
        for i in range(len(inp["ts"])):
            c = dict(inp); c["ts"] = inp["ts"][:i] + inp["ts"][i + 1:]; yield c
    if inp["op"] == "invpl":
        n = len(inp["x"])
        if n > 2:
            for i in range(n):
                c = dict(inp)
                c["x"] = inp["x"][:i] + inp["x"][i + 1:]
                c["y"] = inp["y"][:i] + inp["y"][i + 1:]
                yield c
        if inp["scalar"]:
            c = dict(inp); c["scalar"] = False; yield c
        if inp.get("aslist"):
            c = dict(inp); c["aslist"] = False; yield c
        for key in ("x", "y", "ts"):
            for i, v in enumerate(inp[key]):
                if v != round(v):
                    c = dict(inp); c[key] = inp[key][:i] + [float(round(v))] + inp[key][i + 1:]
                    if key == "x" and sorted(c["x"]) != c["x"]:
                        continue
                    if key in ("x", "y") and any(c["x"][j] == c["x"][j + 1] and c["y"][j] != c["y"][j + 1]
                                                 for j in range(len(c["x"]) - 1)):
                        continue
                    yield c
        return
    for key in ("pos", "neg"):
        xs = inp[key]
        if len(xs) > 1:
            for i in range(len(xs)):
                c = dict(inp); c[key] = xs[:i] + xs[i + 1:]; yield c
    for key in ("ep", "en"):
        if inp[key] > 0:
            c = dict(inp); c[key] = 0; yield c
    if inp["via"] != "name":
        c = dict(inp); c["via"] = "name"; yield c
    if inp["scalar"]:
        c = dict(inp); c["scalar"] = False; yield c
    if inp["pk"] == "arr" and len(inp["parr"]) > 2:
        for i in range(len(inp["parr"])):
            c = dict(inp); c["parr"] = inp["parr"][:i] + inp["parr"][i + 1:]; yield c
    if inp["pk"] == "int" and inp["k"] > 2:
        c = dict(inp); c["k"] = inp["k"] - 1; yield c
        c = dict(inp); c["k"] = 2; yield c
