"""C18 — showbias: row/column labels, entries by counting, normalisation, bootstrap intervals."""
from __future__ import annotations

import json

import math
from fractions import Fraction

import numpy as np

import common
from common import Case, Issue, q, line

ID = "C18"
LEVEL = "proof"
RULE = ("cases = one data frame (1-4 group-value combinations in 1-3 group columns with arbitrary names; values with '_', "
        "spaces, empty strings, unicode and '_'-join collisions; labels 0/1 or 'x'/'y' + foreign labels, any pos_label; "
        "finite scores tied with the thresholds; arbitrary frame index) x 5 queries (quick) of metric (all 29 ConfusionMatrix "
        "metric names) x threshold scalar/list/tuple/ndarray/0-d x 4 configurations x normalize None/by_overall/by_min x "
        "bootstrap off / quantile,bc,bca with identity, leave-one-out and built-in replacement sampling (None/by_label/"
        "by_group, seeded); plus invalid-input cases; plus (every 12th case) kind 'script': ONE showbias(..., bootstrap_ci=True) "
        "call on a small frame (1-4 groups in 1-2 columns, grid scores, occasionally >= 100 rows per class) with a built-in sampler "
        "(replacement / single_pass / dynamic x None / by_label / by_group), nb_samples 3-8, quantile / bc / bca, None / by_overall / "
        "by_min, under the scripted RNG with realistic or adversarial in-support answers; non-trivial = >= 2 groups, or tricky "
        "values, or a normalised / bootstrapped query")
EXPLANATION = ("Theorems C18_* prove for ALL data rows that the model's frame has exactly the sorted distinct keys as rows, that "
               "each entry is the metric of the matrix counted from the rows carrying that key (C01), that the group matrices add "
               "up to the overall matrix, the by_overall / by_min algebra (smallest row = 1), and for by_overall/None that the "
               "interval is the raw interval divided by the same divisor (C13_affine) and ordered (C13_ordered_*). The run "
               "calls the real showbias, decodes index/columns, sends data + observed frame to the Lean driver (model table "
               "compared: DISAGREE; labelsOK/entryOK/normOK/minRowOK/ciOrderedOK evaluated on the observed frame: PROPFAIL), "
               "recomputes every entry independently with numpy from the rows carrying the observed label, and recomputes the "
               "interval from the recorded bootstrap samples normalised like the reported value. Kind 'script' (theorems "
               "C18_script_*): the recorded RNG answers are replayed through the Lean model showbiasScript (op showbiasscript), started "
               "from the tie order the implementation's GroupScores actually holds (checked admissible: spec.held; immaterial by "
               "C12_tie_order_irrelevant), scipy's ppf / cdf recorded and completed in a second pass; request trace, replicate array, "
               "values and interval frames compared (DISAGREE), and labels / shape / normalised entries / ordering / same-quantity "
               "(C13 formula on the implementation's own replicates around the reported value) / NaN pattern evaluated on the "
               "implementation's frames (PROPFAIL).")
TRUSTED_BASE = ["Lean 4.33 kernel", "axioms propext/Classical.choice/Quot.sound only",
                "hand-written model SA/Model/Showbias.lean tied to /repo by this correspondence run",
                "string <-> code bijection per group column (rank among the sorted distinct values; checked per case)",
                "scipy.stats.norm.ppf/cdf and np.quantile(linear) inside the harness's own interval formula (C13 ties "
                "utils.bootstrap_ci to the same formula)", "pandas indexing; harness and driver parsing; tolerance 1e-12 / 1e-9",
                "kind 'script': harness/rng_script.py (ScriptedRNG patches np.random.binomial/poisson/choice), SA/Model/Rng.lean, "
                "SA/Model/Group.lean, SA/Model/ShowbiasScript.lean; scipy.stats.norm.ppf/cdf and x ** 1.5 as recorded oracles"]
ASSUMPTIONS = ["string group values without NUL characters (numpy/pandas truncate at NUL: reported separately)",
               "finite scores and thresholds (+-inf thresholds included)", "the *_ci methods are not metrics",
               "by_min + bootstrap interval-vs-value clauses are a known finding (signature showbias/by_min/bootstrap/...)",
               "BCa ordering is evaluated only away from the pole |a (z0 + z_alpha)| < 1; BCa same-quantity comparisons within "
               "1e-6 of the pole are skipped",
               "kind 'script': score_analysis draws randomness only through np.random.binomial/poisson/choice; by_min is compared "
               "with the model AS CODED (minimum over the bootstrap axis); its corner 'NaN value with finite replicates under "
               "bc/bca' is outside the model and skipped"]

RATE = ["tpr", "fnr", "tnr", "fpr", "ppv", "npv", "fdr", "for_", "topr", "tonr", "accuracy", "error_rate"]
ALIAS = {"tar": "tpr", "frr": "fnr", "trr": "tnr", "far": "fpr", "acceptance_rate": "topr",
         "rejection_rate": "tonr", "class_accuracy": "accuracy", "class_error_rate": "error_rate"}
COUNT = ["tp", "fn", "fp", "tn", "p", "n", "top", "ton", "pop"]
ALL_METRICS = RATE + list(ALIAS) + COUNT
CFGS = [("pos", "pos"), ("pos", "neg"), ("neg", "pos"), ("neg", "neg")]
VALUE_POOL = ["a", "b", "c", "a_b", "b_c", "a_", "_a", "_", "", " ", "a b", " a", "a ", "é", "ß", "日本", "A", "B",
              "a_b_c", "x_y", "0", "1", "10", "2", "None", "nan", "a\tb", "a\nb", "Ω_", "ab", "a__b", "0_1"]
COL_NAMES = ["group", "g", "g1", "g_2", "grp 3", "", "группа", "a_b", "label ", "threshold", "0", "values", "index", "Γ"]


def n_cases(tier):
    return 960 if tier == "quick" else 6000


# --------------------------------------------------------------------------------------
# generation
# --------------------------------------------------------------------------------------
def _gen_keys(rng, ncols):
    ng = rng.choice([1, 2, 2, 3, 3, 4])
    r = rng.random()
    if r > 0.94:
        # many groups (11-14 combinations): integer group codes have two digits, so any ordering of codes "as text" differs
        # from the numeric order
        ng = rng.randint(11, 14)
        pools = [rng.sample(VALUE_POOL, min(len(VALUE_POOL), 5 if ncols > 1 else 14)) for _ in range(ncols)]
        keys = set()
        for _ in range(400):
            keys.add(tuple(rng.choice(p) for p in pools))
            if len(keys) >= ng:
                break
        return sorted(keys, key=lambda k: rng.random())
    if ncols == 2 and r < 0.25:
        base = [("a_b", "c"), ("a", "b_c"), ("a", "b"), ("a_b", "b_c"), ("", "a_b_c"), ("a_b_c", "")]
        rng.shuffle(base)
        return base[:max(2, ng)]
    if ncols == 3 and r < 0.25:
        base = [("a", "b", "c_d"), ("a", "b_c", "d"), ("a_b", "c", "d"), ("a", "b", "c"), ("", "a_b", "c_d")]
        rng.shuffle(base)
        return base[:max(2, ng)]
    if ncols == 1 and r < 0.2:
        base = [("a_b",), ("a",), ("b",), ("a_",), ("_a",), ("",), ("a b",), ("10",), ("2",)]
        rng.shuffle(base)
        return base[:ng]
    pools = [rng.sample(VALUE_POOL, rng.randint(1, 4)) for _ in range(ncols)]
    keys = set()
    for _ in range(40):
        keys.add(tuple(rng.choice(p) for p in pools))
        if len(keys) >= ng:
            break
    return sorted(keys, key=lambda k: rng.random())


def _gen_query(rng, thr_pool):
    metric = rng.choice(RATE + RATE + list(ALIAS) + COUNT)
    nt = rng.choice([1, 1, 2, 3])
    ts = [rng.choice(thr_pool) for _ in range(nt)]
    if rng.random() < 0.04:
        ts[rng.randrange(nt)] = rng.choice(["inf", "-inf"])
    tform = rng.choice(["scalar", "npscalar", "zerod", "list", "list", "tuple", "array", "array"])
    if tform in ("scalar", "npscalar", "zerod"):
        ts = ts[:1]
    sc, ec = rng.choice(CFGS)
    norm = rng.choice([None, None, "by_overall", "by_overall", "by_min", "by_min"])
    boot = None
    if rng.random() < 0.55:
        sampler = rng.choice(["identity", "loo", "loo", "replacement", "replacement", "replacement", "single_pass", "single_pass",
                              "dynamic"])
        boot = {"method": rng.choice(["quantile", "bc", "bca"]), "sampler": sampler,
                "strat": rng.choice([None, "by_label", "by_group"]) if sampler in ("replacement", "single_pass", "dynamic") else None,
                "nb": 3 if sampler == "identity" else (rng.choice([4, 7]) if sampler == "loo" else 20),
                "seed": rng.randint(0, 2**31 - 1), "alpha": rng.choice([0.05, 0.05, 0.1, 0.32, 0.5])}
    return {"metric": metric, "ts": ts, "tform": tform, "sc": sc, "ec": ec, "cfg_default": rng.random() < 0.3,
            "enum_cls": rng.random() < 0.2, "norm": norm, "boot": boot}


SCRIPT_ADV = ["zeros", "zeros+lo", "zeros+hi", "lo", "hi", "lo1", "hi1", "ones", "first", "last", "zeros+first",
              "zeros+last", "hi1+lo", "lo1+hi"]


def _gen_script(rng):
    """one showbias(..., bootstrap_ci=True) call with a built-in sampler under the scripted RNG (kind `script`)"""
    ncols = rng.choice([1, 1, 2])
    pools = [rng.sample(["a", "b", "c", "a_b", "", "é", "10", "2"], rng.randint(1, 3)) for _ in range(ncols)]
    ng = rng.choice([1, 2, 2, 3, 3, 4])
    keys = set()
    for _ in range(40):
        keys.add(tuple(rng.choice(p_) for p_ in pools))
        if len(keys) >= ng:
            break
    keys = sorted(keys, key=lambda k: rng.random())
    grid = rng.choice([4, 8])
    rows = []
    for k in keys:
        whole = rng.random() < 0.15  # whole group in one class
        for _ in range(rng.choice([1, 2, 2, 3, 4, 5])):
            rows.append([list(k), rng.choice([0, 0]) if whole else rng.choice([0, 1]), rng.randint(0, grid) / grid])
    rng.shuffle(rows)
    big = rng.random() < 0.06  # both classes >= 100: "dynamic" resolves to single-pass
    if big:
        for _ in range(200):
            rows.append([list(rng.choice(keys)), len(rows) % 2, rng.randint(0, grid) / grid])
    metric = rng.choice(RATE + RATE + list(ALIAS) + COUNT)
    nt = rng.choice([1, 1, 2, 3])
    pool = [j / grid for j in range(0, grid + 1)] + [rng.random(), -0.5, 1.5]
    ts = [rng.choice(pool) for _ in range(nt)]
    if rng.random() < 0.05:
        ts[rng.randrange(nt)] = rng.choice(["inf", "-inf"])
    sc, ec = rng.choice(CFGS)
    sampler = rng.choice(["replacement", "replacement", "single_pass", "dynamic"])
    return {"kind": "script", "gcols": ["g%d" % j for j in range(ncols)], "lcol": "label", "scol": "score",
            "as_list": ncols > 1 or rng.random() < 0.4, "rows": rows, "pos_label": rng.choice([1, 1, 0]),
            "metric": metric, "ts": ts, "sc": sc, "ec": ec, "norm": rng.choice([None, None, "by_overall", "by_overall", "by_min"]),
            "boot": {"method": rng.choice(["quantile", "bc", "bca"]), "sampler": sampler,
                     "strat": rng.choice([None, "by_label", "by_group"]), "nb": rng.randint(3, 8),
                     "alpha": rng.choice([0.05, 0.1, 0.32, 0.5])},
            "script": {"seed": rng.randint(0, 2**31 - 1), "mode": rng.choice([None] * 10 + SCRIPT_ADV)}}


def gen_one(rng, i, tier):
    if i % 12 == 5:  # chosen by index: the other cases are generated exactly as before
        return _gen_script(rng)
    if rng.random() < 0.06:
        return {"kind": "invalid", "which": rng.choice(["no_group", "no_group_list", "no_label", "no_score", "not_frame",
                                                         "bad_normalize", "bad_normalize_boot", "bad_group_type"])}
    ncols = rng.choice([1, 1, 2, 2, 3])
    names = rng.sample(COL_NAMES, ncols + 2)
    gcols, lcol, scol = names[:ncols], names[ncols], names[ncols + 1]
    keys = _gen_keys(rng, ncols)
    grid = rng.choice([4, 8])
    skind = rng.choice(["grid", "grid", "float", "int", "f4"])

    def score():
        if skind == "f4":  # two-decimal scores held in a float32 column (values exactly representable as doubles)
            return float(np.float32(rng.randint(0, 10) / 10))
        if skind == "grid":
            return rng.randint(0, grid) / grid
        if skind == "int":
            return rng.randint(-2, 3)
        return rng.choice([rng.random(), rng.gauss(0, 1), rng.randint(0, grid) / grid])

    lkind = rng.choice(["int", "int", "str", "int_foreign", "str_foreign"])
    if lkind.startswith("int"):
        labs = [0, 1] + ([2, -1] if lkind.endswith("foreign") else [])
        pos_label = rng.choice([1, 1, 0])
    else:
        labs = ["x", "y"] + (["z", ""] if lkind.endswith("foreign") else [])
        pos_label = rng.choice(["x", "y"])
    rows = []
    for k in keys:
        for _ in range(rng.choice([1, 1, 2, 3, 4, 6])):
            lab = rng.choice(labs)
            if rng.random() < 0.1:  # whole group in one class
                lab = labs[0]
            rows.append([list(k), lab, score()])
    rng.shuffle(rows)
    thr_pool = [j / grid for j in range(0, grid + 1)] + [rng.random(), -0.5, 1.5]
    if skind == "int":
        thr_pool = [-2, -1, 0, 0.5, 1, 2, 3]
    if skind == "f4":  # float64 thresholds next to the float32 score values: j/10 and its float32 rounding
        thr_pool = [j / 10 for j in range(0, 11)] + [float(np.float32(j / 10)) for j in range(0, 11)] + [-0.5, 1.5]
    nq = 5 if tier == "quick" else 6
    return {"kind": "frame", "gcols": gcols, "lcol": lcol, "scol": scol,
            "as_list": ncols > 1 or rng.random() < 0.4, "rows": rows, "pos_label": pos_label,
            "pos_default": pos_label == 1 and rng.random() < 0.5,
            "index": rng.choice(["range", "range", "shuffled", "dup", "str"]),
            "extra_col": rng.random() < 0.3, "sdtype": "f4" if skind == "f4" else None,
            "queries": [_gen_query(rng, thr_pool) for _ in range(nq)]}


def nontrivial(inp):
    if inp.get("kind") == "script":
        return len({tuple(r[0]) for r in inp["rows"]}) >= 2 or inp["norm"] is not None
    if inp.get("kind") != "frame":
        return True
    keys = {tuple(r[0]) for r in inp["rows"]}
    tricky = any(("_" in v or v == "" or " " in v or not v.isascii()) for k in keys for v in k)
    return len(keys) >= 2 or tricky or any(qq["norm"] or qq["boot"] for qq in inp["queries"])


# --------------------------------------------------------------------------------------
# independent oracle (numpy only)
# --------------------------------------------------------------------------------------
def _num(x):
    return common.unjson_num(x) if isinstance(x, str) else x


def _accept(scores, t, sc, ec):
    if sc == "pos":
        return scores >= t if ec == "pos" else scores > t
    return scores <= t if ec == "pos" else scores < t


def _div(a, b):
    return a / b if b != 0 else math.nan


def _metric(name, tp, fn, fp, tn):
    """metric of one integer matrix, formulas as documented in metrics.py"""
    name = ALIAS.get(name, name)
    p, n, top, ton, pop = tp + fn, fp + tn, tp + fp, fn + tn, tp + fn + fp + tn
    if name in COUNT:
        return float({"tp": tp, "fn": fn, "fp": fp, "tn": tn, "p": p, "n": n, "top": top, "ton": ton, "pop": pop}[name])
    if name == "tpr":
        return _div(tp, p)
    if name == "fnr":
        return _div(fn, p)
    if name == "tnr":
        return _div(tn, n)
    if name == "fpr":
        return _div(fp, n)
    if name == "ppv":
        return _div(tp, top)
    if name == "npv":
        return _div(tn, ton)
    if name == "fdr":
        return 1 - _div(tp, top)
    if name == "for_":
        return 1 - _div(tn, ton)
    if name == "topr":
        return _div(top, pop)
    if name == "tonr":
        return _div(ton, pop)
    if name == "accuracy":
        return _div(tp + tn, pop)
    if name == "error_rate":
        return 1 - _div(tp + tn, pop)
    raise KeyError(name)


def _cells(scores, ispos, t, sc, ec):
    acc = _accept(scores, t, sc, ec)
    return (int(np.sum(acc & ispos)), int(np.sum(~acc & ispos)), int(np.sum(acc & ~ispos)), int(np.sum(~acc & ~ispos)))


def _norm(v, den):
    """np.where(den != 0, v / den, v) with NaN semantics, scalars"""
    if den != 0:  # True for NaN
        return v / den if not math.isnan(den) else math.nan
    return v


def _nanmin(xs):
    return math.nan if any(math.isnan(x) for x in xs) else min(xs)


def _boot_ci(theta, theta_hat, alpha, method):
    """The documented quantile / BC / BCa interval per component.  theta (N, G, T), theta_hat (G, T).
    Returns lower, upper, near_pole (bool arrays of shape (G, T))."""
    from scipy.stats import norm as N01

    lo = np.full(theta_hat.shape, np.nan)
    hi = np.full(theta_hat.shape, np.nan)
    pole = np.zeros(theta_hat.shape, dtype=bool)
    wild = np.zeros(theta_hat.shape, dtype=bool)  # beyond the pole: ordering not claimed
    for idx in np.ndindex(*theta_hat.shape):
        col = theta[(slice(None),) + idx].astype(float)
        fin = col[~np.isnan(col)]
        if len(fin) == 0:
            continue
        if method == "quantile":
            ql, qu = alpha / 2, 1 - alpha / 2
        else:
            th = float(theta_hat[idx])
            p0 = np.sum(col <= th) / len(fin)
            z0 = N01.ppf(p0)
            zl, zu = N01.ppf(alpha / 2), N01.ppf(1 - alpha / 2)
            if method == "bc":
                z1, z2 = 2 * z0 + zl, 2 * z0 + zu
            elif np.isfinite(z0):
                d = fin - th
                a_den = 6 * np.sum(d ** 2) ** 1.5
                a = np.sum(d ** 3) / a_den if a_den != 0 else 0.0
                sl, su = z0 + zl, z0 + zu
                if min(abs(1 - a * sl), abs(1 - a * su)) < 1e-6:
                    pole[idx] = True
                    continue
                if abs(a * sl) >= 1 - 1e-6 or abs(a * su) >= 1 - 1e-6:
                    wild[idx] = True
                z1, z2 = z0 + sl / (1 - a * sl), z0 + su / (1 - a * su)
            else:
                z1 = z2 = z0
            ql, qu = float(N01.cdf(z1)), float(N01.cdf(z2))
        lo[idx], hi[idx] = np.quantile(fin, [ql, qu])
    return lo, hi, pole, wild


def _replicates(samples, G, ts, metric, sc, ec):
    """replicates (N, G, T) of the un-normalised group metric, computed from the recorded bootstrap
    samples (arrays pos / neg / pos_groups / neg_groups), group by group BY LABEL: the reference group list is that of
    the first sample listing G groups; a sample in which a group has no row contributes NaN for it (whatever group
    list the sample itself carries); None if no sample lists G groups"""
    ref = next((list(s_.groups) for s_ in samples if len(getattr(s_, "groups", [])) == G), None)
    if ref is None:
        return None
    R = np.full((len(samples), G, len(ts)), np.nan)
    for a_, s_ in enumerate(samples):
        for g_, gid in enumerate(ref):
            pm = np.asarray(s_.pos_groups == gid, dtype=bool).reshape(-1) if len(s_.pos) else np.zeros(0, dtype=bool)
            nm_ = np.asarray(s_.neg_groups == gid, dtype=bool).reshape(-1) if len(s_.neg) else np.zeros(0, dtype=bool)
            sp = np.asarray(s_.pos, dtype=float)[pm]
            sn = np.asarray(s_.neg, dtype=float)[nm_]
            ss = np.concatenate([sp, sn])
            ip = np.concatenate([np.ones(len(sp), dtype=bool), np.zeros(len(sn), dtype=bool)])
            for j, t in enumerate(ts):
                R[a_, g_, j] = _metric(metric, *_cells(ss, ip, t, sc, ec))
    return R


def _close(a, b, rel=1e-9):
    a, b = float(a), float(b)
    if math.isnan(a) or math.isnan(b):
        return math.isnan(a) and math.isnan(b)
    if math.isinf(a) or math.isinf(b):
        return a == b
    return abs(a - b) <= rel * (1 + abs(b))


def _orat(x):
    x = float(x)
    return "nan" if math.isnan(x) else q(x)


# --------------------------------------------------------------------------------------
# build
# --------------------------------------------------------------------------------------
def _threshold_arg(ts, tform):
    ts = [float(_num(t)) for t in ts]
    if tform == "scalar":
        return ts[0]
    if tform == "npscalar":
        return np.float64(ts[0])
    if tform == "zerod":
        return np.array(ts[0])
    if tform == "list":
        return list(ts)
    if tform == "tuple":
        return tuple(ts)
    return np.array(ts, dtype=float)


def _build_invalid(inp):
    import pandas as pd
    from score_analysis import showbias

    df = pd.DataFrame({"g": ["a", "a", "b"], "h": ["x", "y", "x"], "l": [1, 0, 1], "s": [0.1, 0.6, 0.9]})
    w = inp["which"]
    kw = dict(group_columns="g", label_column="l", score_column="s", metric="tpr", threshold=[0.5])
    data = df
    expect = "AssertionError"
    if w == "no_group":
        kw["group_columns"] = "nope"
    elif w == "no_group_list":
        kw["group_columns"] = ["g", "nope"]
    elif w == "no_label":
        kw["label_column"] = "nope"
    elif w == "no_score":
        kw["score_column"] = "nope"
    elif w == "not_frame":
        data = {"g": ["a"], "l": [1], "s": [0.5]}
    elif w == "bad_normalize":
        kw["normalize"] = "by_max"
        expect = "ValueError"
    elif w == "bad_normalize_boot":
        from score_analysis import BootstrapConfig
        kw["normalize"] = "overall"
        kw["bootstrap_ci"] = True
        kw["bootstrap_config"] = BootstrapConfig(nb_samples=3, sampling_method=lambda s: s)
        expect = "ValueError"
    elif w == "bad_group_type":
        data = df.rename(columns={"g": 5})
        kw["group_columns"] = 5
        expect = "TypeError"
    r = common.call(showbias, data, **kw)
    pre = []
    if r[0] != "exc" or r[1] != expect:
        got = "no exception" if r[0] == "ok" else f"{r[1]}: {r[2]}"
        pre.append(Issue("PROPFAIL", "invalid-input", f"{w}: expected {expect}, got {got}", f"showbias/invalid/{w}"))
    lines = []
    if w == "bad_normalize":
        lines.append(line("showbias", nk=1, keys="[0,0,1]", pos="[1,0,1]", scores="[1/10,3/5,9/10]", sc="pos", ec="pos",
                          metric="tpr", ts="[1/2]", norm="by_max", eps="0", og=0, oidx="[]", ocols="[]", ovals="[]"))

    def judge(outs):
        iss = []
        for o in outs:
            if o.get("err") != "ValueError":
                iss.append(Issue("DISAGREE", "invalid-input", f"model did not raise ValueError for normalize='by_max': {o}",
                                 "showbias/invalid/model"))
        return iss

    inp = dict(inp)
    inp["_evals"] = 1
    return Case(ID, inp, lines, judge, ("invalid", w), 0, pre)


def _erat_list(xs):
    return "[" + ",".join(q(x) for x in xs if not (isinstance(x, float) and math.isnan(x))) + "]"


def _tofloat(fr_):
    try:
        return float(fr_)
    except OverflowError:
        return math.inf if fr_ > 0 else -math.inf


def _build_script(inp):
    """kind `script`: the real showbias(..., bootstrap_ci=True) with a built-in sampler under ScriptedRNG; the recorded
    answers are replayed through the Lean model `showbiasScript` (op `showbiasscript`), scipy's ppf / cdf are recorded and
    completed in a second pass (two-pass oracle protocol).  PROPFAIL: a C18 clause fails on the implementation's own
    frames; DISAGREE: only model and implementation differ."""
    import pandas as pd
    import scipy.stats
    import rng_script
    from rng_script import ScriptedRNG, adversarial
    from score_analysis import BootstrapConfig, GroupScores, Scores, showbias

    inp = dict(inp)
    gcols, lcol, scol = list(inp["gcols"]), inp["lcol"], inp["scol"]
    rows = inp["rows"]
    nk, n = len(gcols), len(rows)
    keys = [tuple(r[0]) for r in rows]
    labels = [r[1] for r in rows]
    scores = [float(_num(r[2])) for r in rows]
    pos_label = inp["pos_label"]
    metric, sc, ec, norm, boot, sc_ = inp["metric"], inp["sc"], inp["ec"], inp["norm"], inp["boot"], inp["script"]
    ts = [float(_num(t)) for t in inp["ts"]]
    nt, nbs, bm, alpha = len(ts), boot["nb"], boot["method"], boot["alpha"]
    codemaps = []
    for j in range(nk):
        vals = sorted({k[j] for k in keys})
        codemaps.append({v: c for c, v in enumerate(vals)})
    UNKNOWN = 10**6
    cols = {c: [k[j] for k in keys] for j, c in enumerate(gcols)}
    cols[lcol] = labels
    cols[scol] = scores
    df = pd.DataFrame(cols)
    distinct = sorted(set(keys))
    ispos = [lab == pos_label for lab in labels]
    cfgb = BootstrapConfig(sampling_method=boot["sampler"], nb_samples=nbs, bootstrap_method=bm,
                           stratified_sampling=boot["strat"])
    kw = dict(group_columns=gcols if inp["as_list"] else gcols[0], label_column=lcol, score_column=scol, metric=metric,
              threshold=list(ts), normalize=norm, bootstrap_ci=True, bootstrap_config=cfgb, alpha=alpha, pos_label=pos_label,
              score_class=sc, equal_class=ec)
    desc = (f"ScriptedRNG(seed={sc_['seed']}, policy={sc_['mode']!r}): showbias(rows={rows if n <= 24 else str(rows[:24]) + '...'}, "
            f"metric={metric!r}, threshold={ts}, normalize={norm!r}, cfg=({sc},{ec}), pos_label={pos_label}, bootstrap_ci=True, "
            f"alpha={alpha}, BootstrapConfig(nb_samples={nbs}, bootstrap_method={bm!r}, sampling_method={boot['sampler']!r}, "
            f"stratified_sampling={boot['strat']!r}))")
    known = norm == "by_min"
    sig = f"showbias/scripted/{norm or 'none'}/boot-{bm}"
    # the interval-vs-value clauses under by_min belong to the known finding (minimum over the bootstrap axis)
    ksig = "showbias/by_min/bootstrap/scripted" if known else sig
    tags = ("scripted", f"norm={norm}", f"boot={boot['sampler']}/{bm}", f"strat={boot['strat']}",
            "script=" + ("adversarial" if sc_["mode"] else "realistic"), f"groups={len(distinct)}")
    pre = []
    gstate = np.random.get_state()[1].copy()
    with ScriptedRNG(seed=sc_["seed"], policy=adversarial(sc_["mode"]) if sc_["mode"] else None) as rr, \
            common.Recorder(scipy.stats.norm, "ppf") as rp, common.Recorder(scipy.stats.norm, "cdf") as rc, \
            common.Recorder(Scores, "bootstrap_metric") as rm, common.Recorder(GroupScores, "bootstrap_sample") as rs, \
            common.Recorder(GroupScores, "from_labels") as rf:
        res = common.call(showbias, df, **kw)
    if not (np.random.get_state()[1] == gstate).all():
        pre.append(Issue("ERR", "script", f"{desc}: the global RandomState was used (a primitive that is not scripted)", "script"))
    trace = rr.trace
    bad = [e for e in trace if e["raised"] is None and not rng_script.in_range(e, e["resp"])]
    if bad:
        pre.append(Issue("ERR", "script", f"harness produced an out-of-support answer: {bad[0]}", "script"))
    inp["_evals"] = 1 + len(trace)
    if res[0] == "exc":
        pre.append(Issue("PROPFAIL", "raises", f"{desc} raised {res[1]}: {res[2]} (requests so far: "
                         f"{rng_script.brief(trace)[:300]})", sig + "/raises"))
        return Case(ID, inp, [], lambda outs: [], tags + ("raised",), 0, pre)
    r = res[1]
    fr_ = {"values": r.values, "lower": r.lower, "upper": r.upper}
    if any(not isinstance(f, pd.DataFrame) for f in fr_.values()):
        pre.append(Issue("PROPFAIL", "ci-missing", f"{desc}: values / lower / upper are not all frames", sig + "/ci-missing"))
        return Case(ID, inp, [], lambda outs: [], tags, 0, pre)
    G = len(r.values.index)
    shapes = {k_: f.shape for k_, f in fr_.items()}
    if any(sh != (G, nt) for sh in shapes.values()) or G != len(distinct):
        pre.append(Issue("PROPFAIL", "shape", f"{desc}: frames have shapes {shapes}; the data has {len(distinct)} groups and "
                         f"{nt} thresholds", sig + "/shape"))
        return Case(ID, inp, [], lambda outs: [], tags, 0, pre)
    for nm in ("lower", "upper"):
        f = fr_[nm]
        if not (f.index.equals(r.values.index) and list(f.columns) == list(r.values.columns)):
            pre.append(Issue("PROPFAIL", "ci-labels", f"{desc}: {nm} is labelled differently from values", sig + "/ci-labels"))
    if r.alpha != alpha:
        pre.append(Issue("PROPFAIL", "alpha", f"{desc}: alpha {r.alpha}", sig + "/alpha"))
    obs_labels = [tuple(lab) if isinstance(lab, tuple) else (lab,) for lab in list(r.values.index)]
    if any(len(t_) != nk for t_ in obs_labels):
        pre.append(Issue("PROPFAIL", "labels", f"{desc}: row labels {obs_labels} are not {nk}-tuples", sig + "/labels/arity"))
        return Case(ID, inp, [], lambda outs: [], tags, 0, pre)
    try:
        obs_cols = [float(c) for c in r.values.columns]
    except (TypeError, ValueError):
        pre.append(Issue("PROPFAIL", "columns", f"{desc}: columns {list(r.values.columns)}", sig + "/labels/columns"))
        return Case(ID, inp, [], lambda outs: [], tags, 0, pre)
    V = np.asarray(r.values.values, dtype=float).reshape(G, nt)
    lo = np.asarray(r.lower.values, dtype=float).reshape(G, nt)
    hi = np.asarray(r.upper.values, dtype=float).reshape(G, nt)
    if len(rs.calls) != nbs:
        pre.append(Issue("PROPFAIL", "ci-samples", f"{desc}: {len(rs.calls)} bootstrap samples drawn for nb_samples={nbs}",
                         sig + "/ci-samples"))
    hasrep, orep = 0, []
    if len(rm.calls) == 1:
        m_ = np.asarray(rm.calls[0][2], dtype=float)
        if m_.shape == (nbs, G, nt) and not np.isinf(m_).any():
            hasrep, orep = 1, [float(v) for v in m_.reshape(-1)]
    tables = {"ppf_in": [], "ppf_out": [], "cdf_in": [], "cdf_out": [], "p15_in": [], "p15_out": []}
    for calls, kind_ in ((rp.calls, "ppf"), (rc.calls, "cdf")):
        for a_, k_, r_ in calls:
            if not a_:
                continue
            xi, xo = np.asarray(a_[0], dtype=float).reshape(-1), np.asarray(r_, dtype=float).reshape(-1)
            if len(xi) != len(xo):
                continue
            for u_, v_ in zip(xi, xo):
                if not math.isnan(u_) and not math.isnan(v_) and float(u_) not in tables[kind_ + "_in"]:
                    tables[kind_ + "_in"].append(float(u_)); tables[kind_ + "_out"].append(float(v_))
    oidx = [codemaps[j].get(v, UNKNOWN + j) for t_ in obs_labels for j, v in enumerate(t_)]
    # the arrays the implementation's score_object holds: np.argsort is not stable, so inside a block of tied scores the
    # labels may stand in any order; under one script the labels a sample carries depend on that order, so the model
    # samples from the implementation's own (admissible, checked by the driver: spec.held) order
    held_kw = dict(hasheld=0)
    if len(rf.calls) == 1 and isinstance(rf.calls[0][2], GroupScores):
        ob = rf.calls[0][2]

        def gcode(v):
            # a list of group columns: the id is the position among the sorted distinct keys; one column given by
            # name: the raw value, coded by its rank
            if isinstance(v, (int, np.integer)):
                return int(v)
            return codemaps[0].get(v.item() if hasattr(v, "item") else v, UNKNOWN) if nk == 1 else UNKNOWN

        try:
            hp, hn = [float(x) for x in ob.pos], [float(x) for x in ob.neg]
            hpg, hng = [gcode(v) for v in ob.pos_groups], [gcode(v) for v in ob.neg_groups]
            if len(hp) == len(hpg) and len(hn) == len(hng):
                held_kw = dict(hasheld=1, hpos=common.ql(hp), hpg=common.il(hpg), hneg=common.ql(hn), hng=common.il(hng))
        except (TypeError, ValueError):
            pass
    script_kw = rng_script.encode_script(trace)
    script_kw.pop("oh")
    req_kw = rng_script.encode_requests(trace, "q")
    EPS = Fraction(1, 10**9)

    def mkline():
        return line("showbiasscript", nk=nk, keys=common.il([codemaps[j][k[j]] for k in keys for j in range(nk)]),
                    pos=common.il([1 if b else 0 for b in ispos]), scores=common.ql(scores), sc=sc, ec=ec, metric=metric,
                    ts=common.ql(ts), norm=norm or "none", eps=q(EPS), alpha=q(alpha), bm=bm, method=boot["sampler"],
                    strat=boot["strat"] or "none", nbs=nbs, **script_kw, **req_kw,
                    **{k_: _erat_list(v_) for k_, v_ in tables.items()}, og=G, oidx=common.il(oidx), ocols=common.ql(obs_cols),
                    ovals="[" + ",".join(_orat(x) for x in V.reshape(-1)) + "]",
                    lower="[" + ",".join(_orat(x) for x in lo.reshape(-1)) + "]",
                    upper="[" + ",".join(_orat(x) for x in hi.reshape(-1)) + "]", **held_kw, hasrep=hasrep,
                    orep="[" + ",".join(_orat(x) for x in orep) + "]")

    case = Case(ID, inp, [mkline()], None, tags, 0, pre)

    def judge(outs):
        o = outs[0]
        if "ERR" in o:
            return [Issue("ERR", "driver", o["ERR"], "driver-error")]
        iss = []
        if "miss" not in o:  # the model rejects the normalisation (cannot happen for generated cases)
            return [Issue("DISAGREE", "raises", f"{desc} returned but the model raises {o.get('mres')}", sig + "/model-raises")]
        misses = common.plist(o["miss"])
        rounds = 0
        while misses and rounds < 5:
            rounds += 1
            for m_ in misses:
                kind_, arg = m_.split(":", 1)
                x = math.inf if arg == "inf" else (-math.inf if arg == "-inf" else _tofloat(Fraction(arg)))
                if kind_ == "p15":
                    tables["p15_in"].append(x); tables["p15_out"].append(float(np.float64(x) ** 1.5))
                else:  # the real scipy functions ARE the oracle
                    tables[kind_ + "_in"].append(x); tables[kind_ + "_out"].append(float(getattr(scipy.stats.norm, kind_)(x)))
            o = common.run_driver([mkline()])[0]
            if "ERR" in o:
                return [Issue("ERR", "driver", o["ERR"], "driver-error")]
            misses = common.plist(o["miss"])
        if misses:
            return [Issue("ORACLE-MISS", "oracle", f"{desc}: model query not answered: {misses[:4]}", sig + "/oracle-miss")]
        pole = common.pfrac(o["pole"])
        near_pole = pole is not None and pole < Fraction(1, 10**6)
        frames = f"values {V.tolist()} lower {lo.tolist()} upper {hi.tolist()}"
        # ---- the C18 clauses on the implementation's own frames
        if o["spec.held"] == "0":
            iss.append(Issue("PROPFAIL", "attached", f"{desc}: the arrays held by the GroupScores object showbias built are not a "
                             f"permutation of the data's (score, group) pairs sorted by score: {held_kw}", sig + "/attached"))
        if o["spec.labels"] != "1":
            iss.append(Issue("PROPFAIL", "labels", f"{desc}: row labels {obs_labels} columns {obs_cols}; the sorted distinct group "
                             f"value combinations are {distinct}", sig + "/labels"))
        if o["spec.shape"] != "1":
            iss.append(Issue("PROPFAIL", "shape", f"{desc}: {frames}: not one row per group and one column per threshold in all "
                             f"three frames", sig + "/shape"))
        if o["spec.norm"] != "1":
            iss.append(Issue("PROPFAIL", "norm" if norm else "entry", f"{desc}: the value frame {V.tolist()} is not the "
                             f"{'normalised ' if norm else ''}groupwise metric of the data (model: {o.get('mvals')})",
                             sig + ("/norm" if norm else "/entry")))
        if o["spec.samequantity"] == "0":
            if near_pole:
                case.skipped += 1
            else:
                iss.append(Issue("PROPFAIL", "ci-same-quantity", f"{desc}: {frames}: the interval frames are not the {bm} interval "
                                 f"(alpha={alpha}) of the replicates Scores.bootstrap_metric returned, normalised like the reported "
                                 f"value ({norm}), around the reported value; replicates {orep[:12]}...", ksig + "/ci-same-quantity"))
        if o["spec.nan"] == "0":
            iss.append(Issue("PROPFAIL", "ci-nan", f"{desc}: {frames}: a limit is NaN although the component has a finite "
                             f"(normalised) replicate, or finite although it has none, or only one of lower / upper is NaN; "
                             f"replicates {orep[:12]}...", ksig + "/ci-nan"))
        if o["spec.ciordered"] != "1":
            if bm == "bca" and (near_pole or o["spec.ci"] == "1" or o["spec.samequantity"] == "1"):
                case.skipped += 1  # BCa beyond its pole: the formula itself is unordered there (C13), not claimed
            else:
                iss.append(Issue("PROPFAIL", "ci-ordered", f"{desc}: lower > upper somewhere: {frames}", ksig + "/ci-ordered"))
        # ---- model vs implementation
        if o["tracediff"] != "-1":
            mt = rng_script.decode_requests(o, "m") if "mk" in o else []
            iss.append(Issue("DISAGREE", "requests", f"{desc}: RNG request #{o['tracediff']} differs; implementation ({len(trace)} "
                             f"requests): {rng_script.brief(trace)[:400]}; model ({o['nreq']} requests): "
                             f"{[(e['prim'], e['n'], e['size'], e['replace'], float(e['p'])) for e in mt][:12]}", sig + "/requests"))
            return iss
        if o["spec.requests"] != "1":
            iss.append(Issue("DISAGREE", "requests", f"{desc}: the model's run on the recorded answers is not ok / leaves answers "
                             f"unread (ok={o['mok']}, unread={o['left']}, model result {o['mres']})", sig + "/requests-ok"))
            return iss
        if o["mres"] != "ok":
            iss.append(Issue("DISAGREE", "raises", f"{desc} returned but the model raises {o['mres']}", sig + "/model-raises"))
            return iss
        if o["spec.values"] != "1":
            iss.append(Issue("DISAGREE", "values", f"{desc}: values {V.tolist()}; model {o.get('mvals')}", sig + "/model-values"))
        if o["spec.replicates"] != "1":
            iss.append(Issue("DISAGREE", "replicates", f"{desc}: the replicate array of Scores.bootstrap_metric differs from the group "
                             f"metric of the model's samples: observed {orep[:12]}..., model {o.get('mrep', '')[:200]}",
                             sig + "/model-replicates"))
        if o["spec.ci"] != "1":
            if near_pole or o.get("corner") == "1":
                case.skipped += 1
            else:
                iss.append(Issue("DISAGREE", "ci", f"{desc}: lower {lo.tolist()} upper {hi.tolist()}; the model on the recorded RNG "
                                 f"answers gives lower {o.get('mlo')} upper {o.get('mhi')}", sig + "/model-ci"))
        return iss

    case.judge = judge
    return case


def build(inp) -> Case:
    if inp.get("kind") == "invalid":
        return _build_invalid(inp)
    if inp.get("kind") == "script":
        return _build_script(inp)
    import pandas as pd
    from score_analysis import BootstrapConfig, GroupScores, showbias
    from score_analysis.scores import BinaryLabel
    from score_analysis.showbias import BiasFrame

    inp = dict(inp)
    gcols, lcol, scol = list(inp["gcols"]), inp["lcol"], inp["scol"]
    rows = inp["rows"]
    nk = len(gcols)
    n = len(rows)
    keys = [tuple(r[0]) for r in rows]
    labels = [r[1] for r in rows]
    scores = [_num(r[2]) for r in rows]
    pos_label = inp["pos_label"]
    pre = []

    # string <-> code bijection per group column (rank among the sorted distinct values)
    codemaps = []
    for j in range(nk):
        vals = sorted({k[j] for k in keys})
        cm = {v: c for c, v in enumerate(vals)}
        assert len(cm) == len(vals) and sorted(cm.values()) == list(range(len(vals)))
        codemaps.append(cm)
    UNKNOWN = 10**6

    cols = {}
    for j, c in enumerate(gcols):
        cols[c] = [k[j] for k in keys]
    if inp.get("extra_col"):
        cols["unrelated"] = list(range(n))
    cols[lcol] = labels
    cols[scol] = np.array(scores, dtype=np.float32) if inp.get("sdtype") == "f4" else scores
    if inp["index"] == "range":
        index = None
    elif inp["index"] == "shuffled":
        index = [(7 * i + 3) % max(n, 1) + 100 * (i % 2) for i in range(n)]
    elif inp["index"] == "dup":
        index = [i // 2 for i in range(n)]
    else:
        index = [f"r{(5 * i) % 7}" for i in range(n)]
    df = pd.DataFrame(cols, index=index)
    if nk == 1 and (len(rows) * 7 + len(gcols[0])) % 5 == 0 and all(isinstance(k[0], str) for k in keys):
        # a categorical group column whose category order is not the lexical one (pd.cut(..., labels=[...]), an ordered
        # survey scale): rows must still be labelled with the value of the rows they were computed from
        cats = sorted({k[0] for k in keys})
        cats = cats[1:] + cats[:1] if len(cats) > 1 else cats
        df[gcols[0]] = pd.Categorical(df[gcols[0]], categories=cats[::-1], ordered=(len(rows) % 2 == 0))
    df_before = df.copy(deep=True)
    sarr = np.array(scores, dtype=float)
    ispos = np.array([lab == pos_label for lab in labels], dtype=bool)
    distinct = sorted(set(keys))
    group_arg = gcols if inp["as_list"] else gcols[0]

    lines, metas = [], []
    skipped = 0
    tags = [f"ncols={nk}", f"groups={len(distinct)}"]
    evals = 0

    for qi, qq in enumerate(inp["queries"]):
        metric, sc, ec, norm, boot = qq["metric"], qq["sc"], qq["ec"], qq["norm"], qq["boot"]
        ts = [float(_num(t)) for t in qq["ts"]]
        targ = _threshold_arg(qq["ts"], qq["tform"])
        nt = len(ts)
        kw = dict(group_columns=group_arg, label_column=lcol, score_column=scol, metric=metric, threshold=targ)
        if norm is not None or qi % 2 == 0:
            kw["normalize"] = norm
        if not (inp["pos_default"] and pos_label == 1):
            kw["pos_label"] = pos_label
        if not (qq["cfg_default"] and sc == "pos" and ec == "pos"):
            kw["score_class"] = sc
            kw["equal_class"] = BinaryLabel(ec) if qq["enum_cls"] else ec
        where = f"query {qi}: metric={metric} thr={qq['ts']}({qq['tform']}) cfg=({sc},{ec}) normalize={norm} boot={boot}"
        sig0 = f"showbias/{norm or 'none'}/{'boot-' + boot['method'] if boot else 'plain'}"
        known = norm == "by_min" and boot is not None
        tags += [f"norm={norm}", f"boot={boot['sampler'] + '/' + boot['method'] if boot else None}"]

        samples = []
        if boot:
            kw["bootstrap_ci"] = True
            kw["alpha"] = boot["alpha"]
            calls = [0]

            def loo(s, calls=calls):
                """leave-one-out: the k-th call drops the k-th score (positives first)"""
                k = calls[0]
                calls[0] += 1
                npos, nneg = len(s.pos), len(s.neg)
                if npos + nneg <= 1:
                    return s
                k = k % (npos + nneg)
                pm = np.ones(npos, dtype=bool)
                nm = np.ones(nneg, dtype=bool)
                if k < npos:
                    pm[k] = False
                else:
                    nm[k - npos] = False
                return GroupScores(pos=s.pos[pm], neg=s.neg[nm], pos_groups=s.pos_groups[pm], neg_groups=s.neg_groups[nm],
                                   score_class=s.score_class, equal_class=s.equal_class, group_names=s.groups,
                                   is_sorted=True)

            if boot["sampler"] == "identity":
                cfgb = BootstrapConfig(sampling_method=lambda s: s, nb_samples=boot["nb"], bootstrap_method=boot["method"])
            elif boot["sampler"] == "loo":
                cfgb = BootstrapConfig(sampling_method=loo, nb_samples=boot["nb"], bootstrap_method=boot["method"])
            else:
                cfgb = BootstrapConfig(sampling_method=boot["sampler"], nb_samples=boot["nb"],
                                       bootstrap_method=boot["method"], stratified_sampling=boot["strat"])
            kw["bootstrap_config"] = cfgb
            np.random.seed(boot["seed"])
            with common.Recorder(GroupScores, "bootstrap_sample") as rec:
                r = common.call(showbias, df, **kw)
            samples = [c[2] for c in rec.calls]
        else:
            r = common.call(showbias, df, **kw)
            if r[0] == "ok" and norm is not None:
                # the same table under the caller's strict floating-point error state: a zero divisor leaves the metric
                # un-normalised - it is not divided by and then discarded
                with np.errstate(divide="raise", invalid="raise"):
                    r_strict = common.call(showbias, df, **kw)
                if r_strict[0] == "exc":
                    pre.append(Issue("PROPFAIL", "raises", f"{where}: under np.errstate(divide='raise', invalid='raise') showbias raised "
                                     f"{r_strict[1]}: {r_strict[2]}; without it the table is returned", f"{sig0}/raises/strict-errstate"))
                elif not r_strict[1].values.equals(r[1].values):
                    pre.append(Issue("PROPFAIL", "norm", f"{where}: the table depends on the ambient NumPy error state", f"{sig0}/ambient"))
        evals += 1
        if r[0] == "exc":
            sig = f"{sig0}/raises/{r[1]}"
            if boot and samples:
                R = _replicates(samples, len(samples[0].groups), ts, metric, sc, ec)
                if (R is not None and boot["method"] in ("bc", "bca") and r[1] == "ValueError"
                        and "Quantiles must be" in r[2]):
                    if np.isnan(R).all(axis=0).any():
                        # utils.bootstrap_ci (bc/bca), component without any finite replicate: p0 = 0/0 -> level NaN
                        sig = "showbias/bootstrap/all-nan-component/raises"
                    elif norm == "by_min" and np.isnan(R).any():
                        # known finding: min over the bootstrap axis is NaN as soon as one replicate is, which
                        # turns the whole component into NaN
                        sig = "showbias/by_min/bootstrap/raises"
                if (boot["method"] == "bca" and norm is None and ALIAS.get(metric, metric) in COUNT
                        and r[1] == "UFuncTypeError"):
                    # utils.bootstrap_ci (bca) divides integer replicates into an integer `out` array
                    sig = "showbias/bootstrap/int-metric-bca/raises"
            pre.append(Issue("PROPFAIL", "raises", f"{where}: showbias raised {r[1]}: {r[2]}", sig))
            continue
        res = r[1]
        if not isinstance(res, BiasFrame) or not isinstance(res.values, pd.DataFrame):
            pre.append(Issue("PROPFAIL", "type", f"{where}: returned {type(res).__name__}", f"{sig0}/type"))
            continue
        if not df.equals(df_before) or list(df.columns) != list(df_before.columns):
            pre.append(Issue("PROPFAIL", "mutation", f"{where}: the input frame was modified", f"{sig0}/mutation"))
        frames = {"values": res.values}
        if boot:
            if not isinstance(res.lower, pd.DataFrame) or not isinstance(res.upper, pd.DataFrame):
                pre.append(Issue("PROPFAIL", "ci-missing", f"{where}: lower/upper not set", f"{sig0}/ci-missing"))
                continue
            frames["lower"], frames["upper"] = res.lower, res.upper
            if res.alpha != boot["alpha"]:
                pre.append(Issue("PROPFAIL", "alpha", f"{where}: alpha {res.alpha}", f"{sig0}/alpha"))
        elif res.lower is not None or res.upper is not None:
            pre.append(Issue("PROPFAIL", "ci-unrequested", f"{where}: interval returned without bootstrap_ci", f"{sig0}/ci-unrequested"))

        # ---- labels: decode index and columns of every frame
        vals_f = res.values
        G = len(vals_f.index)
        bad_shape = False
        for nm, fr in frames.items():
            if fr.shape != (G, nt) or len(fr.index) != G:
                pre.append(Issue("PROPFAIL", "shape", f"{where}: {nm} has shape {fr.shape}, thresholds {nt}", f"{sig0}/shape"))
                bad_shape = True
            if nm != "values" and not (fr.index.equals(vals_f.index) and list(fr.index.names) == list(vals_f.index.names)
                                       and list(fr.columns) == list(vals_f.columns)):
                pre.append(Issue("PROPFAIL", "ci-labels", f"{where}: {nm} is labelled differently from values: "
                                 f"{list(fr.index)} / {list(fr.columns)} vs {list(vals_f.index)} / {list(vals_f.columns)}",
                                 f"{sig0}/ci-labels"))
        if bad_shape:
            continue
        obs_labels = []
        for lab in list(vals_f.index):
            tup = tuple(lab) if isinstance(lab, tuple) else (lab,)
            obs_labels.append(tup)
        if list(vals_f.index.names) != list(gcols):
            pre.append(Issue("PROPFAIL", "labels", f"{where}: index names {list(vals_f.index.names)} for group columns {gcols}",
                             f"{sig0}/labels/names"))
        if any(len(t_) != nk or not all(isinstance(v, str) for v in t_) for t_ in obs_labels):
            pre.append(Issue("PROPFAIL", "labels", f"{where}: row labels {obs_labels} are not {nk}-tuples of group values",
                             f"{sig0}/labels/arity"))
            continue
        # A categorical group column has an order of its own and the frame's rows may follow it; the property fixes the
        # labelling of the rows, not their order.  Such a frame is judged by the independent oracle below (every entry
        # from the rows carrying the observed label) and not sent to the driver, whose row order is the sorted one.
        perm_rows = (nk == 1 and isinstance(df[gcols[0]].dtype, pd.CategoricalDtype) and obs_labels != distinct
                     and sorted(obs_labels) == distinct)
        if obs_labels != distinct and not perm_rows:
            pre.append(Issue("PROPFAIL", "labels", f"{where}: row labels {obs_labels}; the distinct group value "
                             f"combinations of the data, sorted, are {distinct}", f"{sig0}/labels/rows"))
        obs_cols = []
        cols_ok = True
        for c in list(vals_f.columns):
            try:
                obs_cols.append(float(c))
            except (TypeError, ValueError):
                cols_ok = False
        if not cols_ok or obs_cols != ts or any(isinstance(c, (bool, str)) for c in vals_f.columns):
            pre.append(Issue("PROPFAIL", "columns", f"{where}: columns {list(vals_f.columns)} for thresholds {ts}",
                             f"{sig0}/labels/columns"))
            if not cols_ok or len(obs_cols) != nt:
                continue
        V = np.asarray(vals_f.values, dtype=float).reshape(G, nt)

        # ---- independent oracle: every entry from the rows carrying the observed label
        def raw_of(label, t):
            m = np.array([k == label for k in keys], dtype=bool)
            return _metric(metric, *_cells(sarr[m], ispos[m], t, sc, ec))

        raw_by_group = {k: [raw_of(k, t) for t in ts] for k in set(distinct) | set(obs_labels)}
        overall = [_metric(metric, *_cells(sarr, ispos, t, sc, ec)) for t in ts]
        gmin = [_nanmin([raw_by_group[k][j] for k in distinct]) for j in range(nt)]
        den = overall if norm == "by_overall" else (gmin if norm == "by_min" else None)

        def expect_of(label, j):
            v = raw_by_group[label][j]
            return v if den is None else _norm(v, den[j])

        E = np.array([[expect_of(lab, j) for j in range(nt)] for lab in obs_labels], dtype=float).reshape(G, nt)
        bad = [(obs_labels[i], ts[j], float(V[i, j]), float(E[i, j])) for i in range(G) for j in range(nt)
               if not _close(V[i, j], E[i, j], 1e-12)]
        if bad:
            cl = "oracle-entry" if norm is None else "oracle-norm"
            pre.append(Issue("PROPFAIL", cl, f"{where}: (row label, threshold, frame value, value computed directly from the "
                             f"rows with that label{'' if norm is None else ' and normalised ' + norm}): {bad[:4]}",
                             f"{sig0}/{cl}"))
        if perm_rows:
            skipped += 1
            tags.append("categorical-row-order")
            continue
        if norm == "by_min":
            for j in range(nt):
                col = [raw_by_group[k][j] for k in distinct]
                if not any(math.isnan(x) for x in col) and min(col) > 0:
                    mn = float(np.min(V[:, j])) if G else math.nan
                    if not _close(mn, 1.0, 1e-12):
                        pre.append(Issue("PROPFAIL", "oracle-minrow", f"{where}: smallest value of column {ts[j]} is {mn}, "
                                         f"not 1 (entries {col})", f"{sig0}/oracle-minrow"))

        # ---- bootstrap
        lo = hi = None
        if boot:
            lo = np.asarray(frames["lower"].values, dtype=float).reshape(G, nt)
            hi = np.asarray(frames["upper"].values, dtype=float).reshape(G, nt)
            ksig = f"showbias/by_min/bootstrap" if known else f"{sig0}"
            if len(samples) != boot["nb"]:
                pre.append(Issue("PROPFAIL", "ci-samples", f"{where}: {len(samples)} bootstrap samples drawn for nb_samples="
                                 f"{boot['nb']}", f"{sig0}/ci-samples"))
            elif G == len(distinct) and obs_labels == distinct:
                R = _replicates(samples, G, ts, metric, sc, ec)
                decodable = R is not None
                if decodable:
                    Rn = R.copy()
                    if den is not None:
                        for j in range(nt):
                            d_ = den[j]
                            if d_ != 0:
                                Rn[:, :, j] = R[:, :, j] / d_ if not math.isnan(d_) else math.nan
                    elo, ehi, pole, wild = _boot_ci(Rn, E, boot["alpha"], boot["method"])
                    skipped += int(pole.sum())
                    badci = [(obs_labels[i], ts[j], float(V[i, j]), (float(lo[i, j]), float(hi[i, j])),
                              (float(elo[i, j]), float(ehi[i, j]))) for i in range(G) for j in range(nt)
                             if not pole[i, j] and not (_close(lo[i, j], elo[i, j]) and _close(hi[i, j], ehi[i, j]))]
                    if badci:
                        pre.append(Issue("PROPFAIL", "ci-same-quantity", f"{where}: (row, threshold, reported value, reported "
                                         f"interval, {boot['method']} interval of the recorded bootstrap samples' group metric "
                                         f"normalised like the reported value): {badci[:3]}", f"{ksig}/ci-same-quantity"))
                    if boot["method"] == "bca" and wild.any():
                        lo = np.where(wild, np.nan, lo)  # ordering is not claimed beyond the BCa pole
            if boot["sampler"] == "identity":
                badc = [(obs_labels[i], ts[j], float(V[i, j]), float(lo[i, j]), float(hi[i, j])) for i in range(G)
                        for j in range(nt) if not (_close(lo[i, j], V[i, j]) and _close(hi[i, j], V[i, j]))]
                if badc:
                    pre.append(Issue("PROPFAIL", "ci-collapse", f"{where}: every bootstrap sample is the data itself, yet "
                                     f"(row, threshold, value, lower, upper) = {badc[:3]}", f"{ksig}/ci-collapse"))
            # a finite value with an undefined interval although finite replicates exist is covered by ci-same-quantity

        # ---- Lean: model table + spec predicates on the observed frame
        oidx = []
        for t_ in obs_labels:
            for j, v in enumerate(t_):
                oidx.append(codemaps[j].get(v, UNKNOWN + j))
        kwl = dict(nk=nk, keys=common.il([codemaps[j][k[j]] for k in keys for j in range(nk)]),
                   pos=common.il([1 if b else 0 for b in ispos]), scores=common.ql(scores), sc=sc, ec=ec, metric=metric,
                   ts=common.ql(ts), norm=norm or "none", eps=q(Fraction(1, 10**12)), og=G, oidx=common.il(oidx),
                   ocols=common.ql(obs_cols), ovals="[" + ",".join(_orat(x) for x in V.reshape(-1)) + "]")
        if boot:
            kwl["lower"] = "[" + ",".join(_orat(x) for x in lo.reshape(-1)) + "]"
            kwl["upper"] = "[" + ",".join(_orat(x) for x in hi.reshape(-1)) + "]"
        lines.append(line("showbias", **kwl))
        metas.append({"where": where, "sig0": sig0, "V": V, "G": G, "nt": nt, "norm": norm, "boot": boot,
                      "obs_labels": obs_labels, "ts": ts, "E": E, "metric": metric, "sc": sc, "ec": ec})

    # ---- the same frame object over time: its contents are changed in place (same shape), then the first query without
    # bootstrap is asked again; the answer must be the one a freshly built frame with the new contents gets
    plain = [qq for qq in inp["queries"] if not qq["boot"]]
    if plain and n >= 2:
        qq = plain[0]
        kw = dict(group_columns=group_arg, label_column=lcol, score_column=scol, metric=qq["metric"],
                  threshold=_threshold_arg(qq["ts"], qq["tform"]), normalize=qq["norm"], pos_label=pos_label,
                  score_class=qq["sc"], equal_class=qq["ec"])
        first = common.call(showbias, df, **kw)
        new_scores = list(reversed(scores))
        new_col = np.array(new_scores, dtype=np.float32) if inp.get("sdtype") == "f4" else new_scores
        cols2 = dict(cols)
        cols2[scol] = new_col
        fresh_df = pd.DataFrame(cols2, index=index)
        if isinstance(df[gcols[0]].dtype, pd.CategoricalDtype):
            fresh_df[gcols[0]] = df[gcols[0]].values
        df[scol] = new_col  # in place: same object, same shape
        again, fresh = common.call(showbias, df, **kw), common.call(showbias, fresh_df, **kw)
        evals += 2
        if first[0] == "ok" and fresh[0] == "ok":
            same_ = (again[0] == "ok" and again[1].values.shape == fresh[1].values.shape
                     and list(again[1].values.index) == list(fresh[1].values.index)
                     and np.array_equal(again[1].values.to_numpy(dtype=float), fresh[1].values.to_numpy(dtype=float), equal_nan=True))
            if not same_:
                pre.append(Issue("PROPFAIL", "entry", f"after the score column of the SAME frame object was replaced in place, showbias("
                                 f"metric={qq['metric']}, thr={qq['ts']}, normalize={qq['norm']}) returned "
                                 f"{again[1].values.to_numpy().tolist() if again[0] == 'ok' else again[1:]} but a fresh frame with the "
                                 f"same contents gives {fresh[1].values.to_numpy().tolist()}", "showbias/history/in-place-update"))
        df[scol] = cols[scol]

    inp["_evals"] = max(1, evals)

    def judge(outs):
        iss = []
        for o, m in zip(outs, metas):
            where, sig0 = m["where"], m["sig0"]
            if "err" in o:
                iss.append(Issue("DISAGREE", "raises", f"{where}: model raises {o['err']}, implementation returned a frame",
                                 f"{sig0}/model-raises"))
                continue
            mg = int(o["g"])
            mkeys = common.pints(o["keys"])
            mtab = common.pfracs(o["table"])
            V = m["V"]
            if mg != m["G"] or len(mtab) != V.size:
                iss.append(Issue("DISAGREE", "shape", f"{where}: model frame has {mg} rows, implementation {m['G']}",
                                 f"{sig0}/model-shape"))
            else:
                flat = V.reshape(-1)
                bad = [(k, float(flat[k]), mtab[k]) for k in range(len(flat))
                       if not common.close(float(flat[k]), mtab[k], rel=Fraction(1, 10**12), abs_=Fraction(1, 10**12))]
                if bad:
                    iss.append(Issue("DISAGREE", "table", f"{where}: (flat position, implementation, model) {bad[:4]}",
                                     f"{sig0}/model-table"))
                # model vs the harness's own oracle (three-way agreement)
                if m["obs_labels"] == sorted(set(m["obs_labels"])):
                    E = m["E"].reshape(-1)
                    bad2 = [(k, float(E[k]), mtab[k]) for k in range(len(E))
                            if not common.close(float(E[k]), mtab[k], rel=Fraction(1, 10**12), abs_=Fraction(1, 10**12))]
                    if bad2 and not bad:
                        iss.append(Issue("DISAGREE", "oracle-vs-model", f"{where}: (position, harness oracle, model) {bad2[:4]}",
                                         f"{sig0}/oracle-vs-model"))
            detail = (f"{where}: observed index {m['obs_labels']} columns {m['ts']} values {V.tolist()}; model keys (codes) "
                      f"{mkeys} table {[None if x is None else float(x) for x in mtab]}")
            if o["spec.labels"] != "1":
                iss.append(Issue("PROPFAIL", "labels", detail, f"{sig0}/labels"))
            if o["spec.entry"] == "0":
                iss.append(Issue("PROPFAIL", "entry", detail, f"{sig0}/entry"))
            if o["spec.norm"] != "1" and m["norm"] is not None:
                iss.append(Issue("PROPFAIL", "norm", detail, f"{sig0}/norm"))
            if o["spec.minrow"] == "0":
                iss.append(Issue("PROPFAIL", "minrow", detail, f"{sig0}/minrow"))
            if o["spec.ciordered"] == "0":
                iss.append(Issue("PROPFAIL", "ci-ordered", f"{where}: lower > upper somewhere (or interval frames of another "
                                 f"shape); values {V.tolist()}", f"{sig0}/ci-ordered"))
        return iss

    case = Case(ID, inp, lines, judge, tuple(sorted(set(tags))), skipped, pre)
    if "\\u0000" in json.dumps(inp):
        # group values containing NUL characters: recorded open finding (numpy strips trailing NULs,
        # pandas merges such keys); every issue of such a case gets the finding's own signature
        for i_ in case.pre_issues:
            i_.signature = "showbias/nul-group-value/" + i_.clause
        inner = case.judge

        def judge_nul(outs):
            iss = inner(outs)
            for i_ in iss:
                i_.signature = "showbias/nul-group-value/" + i_.clause
            return iss

        case.judge = judge_nul
    return case


# --------------------------------------------------------------------------------------
# shrinking
# --------------------------------------------------------------------------------------
def _shrink_script(inp):
    rows = inp["rows"]
    if len(rows) > 1:
        for i in range(len(rows)):
            c = dict(inp); c["rows"] = rows[:i] + rows[i + 1:]; yield c
    if len(inp["ts"]) > 1:
        for j in range(len(inp["ts"])):
            c = dict(inp); c["ts"] = inp["ts"][:j] + inp["ts"][j + 1:]; yield c
    b = inp["boot"]
    if b["nb"] > 3:
        c = dict(inp); c["boot"] = dict(b, nb=b["nb"] - 1); yield c
    if b["method"] != "quantile":
        c = dict(inp); c["boot"] = dict(b, method="quantile"); yield c
    if inp["script"]["mode"]:
        c = dict(inp); c["script"] = dict(inp["script"], mode=None); yield c


def shrink_candidates(inp):
    if inp.get("kind") == "script":
        yield from _shrink_script(inp)
        return
    if inp.get("kind") != "frame":
        return
    qs = inp["queries"]
    if len(qs) > 1:
        for i in range(len(qs)):
            c = dict(inp); c["queries"] = [qs[i]]; yield c
    rows = inp["rows"]
    if len(rows) > 1:
        for i in range(len(rows)):
            c = dict(inp); c["rows"] = rows[:i] + rows[i + 1:]; yield c
    for i, qq in enumerate(qs):
        if len(qq["ts"]) > 1 and qq["tform"] not in ("scalar", "npscalar", "zerod"):
            for j in range(len(qq["ts"])):
                c = dict(inp); q2 = dict(qq); q2["ts"] = qq["ts"][:j] + qq["ts"][j + 1:]
                c["queries"] = qs[:i] + [q2] + qs[i + 1:]; yield c
    if inp["index"] != "range":
        c = dict(inp); c["index"] = "range"; yield c
    if inp.get("extra_col"):
        c = dict(inp); c["extra_col"] = False; yield c


# --------------------------------------------------------------------------------------
# second tie: the decision tables of this property regenerated from the source on every run
# (harness/dectables2.py -> generated Lean file checked by the kernel; bridge: SA/Theorems/DecTables2.lean)
# --------------------------------------------------------------------------------------
def extra_gate_start():
    """start the translator + Lean check in a child process; the cases run meanwhile"""
    import common
    import dectables2
    return dectables2.start(common.REPO)


def extra_gate_finish(handle):
    """-> {problems, theorems, obligations, discharged, notes, evidence}; a definite mismatch of a table row is a
    broken proof obligation, `unknown` rows are evidence only"""
    import dectables2
    return dectables2.gate_result(dectables2.finish(handle), ID)
