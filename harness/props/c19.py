"""C19 — FraudScores is Scores(pos=genuines, neg=frauds, translated score_class, equal_class='pos')
guarded by a [0,1] range validation; aliases, from_labels and label translations."""
from __future__ import annotations

import math

import numpy as np

import common
import gen
from common import Case, Issue, q, ql, il, line

ID = "C19"
LEVEL = "proof"
RULE = ("cases = (genuine, fraud) score arrays (dyadic stream: k/16, k/1024 with heavy ties; generic stream: "
        "arbitrary floats in [0,1]; boundary values 0, 1, -0.0 and their float neighbours inside; ~40% with values "
        "outside [0,1] incl. exactly one ulp outside; empty classes) x easy counts x score_class x constructor route "
        "(keyword constructor / from_labels with int, bool, str, object label encodings and several fraud labels) x "
        "threshold array (scores, float neighbours, midpoints, 0, 1, +-inf) x target array (0, 1, grid and interior "
        "targets); non-trivial = distinct input with an out-of-range or boundary value, or easy samples, or "
        "score_class=fraud, or from_labels, or a cross-class tie")
EXPLANATION = ("Theorems C19_* prove for all lists, easy counts and both score classes that the model's FraudScores.make "
               "either fails with ValueError (iff some score is <0 or >1) or returns exactly the object Scores.make "
               "builds with pos=genuines, neg=frauds, the translated score class and equal_class=pos (hence identical "
               "cm / thresholdAt / swap), that the aliases are the sorted held arrays, that from_labels is the "
               "constructor on the split lists and that the label translations are mutually inverse. The "
               "correspondence run constructs the real FraudScores (both routes), checks ValueError against the Lean "
               "predicate, compares every query with a real Scores object built by the harness (pos/neg/genuines/"
               "frauds, flags, cm, six rates, six threshold_at_* x three methods, eer, auc, swap, ==; exact equality, "
               "same exception types) and with the Lean model (held arrays, flags, matrices, boundary-target "
               "thresholds, swap), and evaluates the Lean spec predicates on the implementation's own outputs.")
TRUSTED_BASE = ["Lean 4.33 kernel", "axioms propext/Classical.choice/Quot.sound only",
                "hand-written model SA/Model/Fraud.lean (+ Basic/Threshold) tied to /repo by this correspondence run",
                "np.sort / np.any / boolean-mask indexing by documented meaning",
                "np.nextafter as the driver's exact float64 neighbour (boundary-target thresholds)",
                "harness (harness/common.py, props/c19.py) and driver parsing"]
ASSUMPTIONS = ["scores are finite floats or integers (NaN / inf scores are outside the model: rationals)",
               "the median-heuristic warning is not modelled and is ignored (it only warns)",
               "eer() / auc() / interior-target thresholds are compared against a real Scores object only "
               "(they are not part of the Lean model of this property)"]

IN_SPECIALS = [0.0, 1.0, -0.0, float(np.nextafter(0.0, 1.0)), float(np.nextafter(1.0, 0.0)), 0.5]
OUT_SPECIALS = [float(np.nextafter(0.0, -1.0)), float(np.nextafter(1.0, 2.0))] * 3 + [-0.5, 1.5, -1e-9, 1.0 + 1e-9,
                2.0, -1.0, 1e6, -3.25, 1.0625, -0.0625]
LABEL_SCHEMES = [
    {"g": 1, "others": [0], "kind": "int"},
    {"g": 1, "others": [0, 2, -1], "kind": "int"},
    {"g": 0, "others": [1], "kind": "int"},
    {"g": 7, "others": [1, 0, 8], "kind": "int"},
    {"g": True, "others": [False], "kind": "bool"},
    {"g": "genuine", "others": ["fraud"], "kind": "str"},
    {"g": "g", "others": ["f", "x", "fraud"], "kind": "str"},
    {"g": "pos", "others": ["neg", "genuine"], "kind": "object"},
    {"g": 1, "others": [0, 3], "kind": "list"},
]


def n_cases(tier):
    return 2000 if tier == "quick" else 8000


def _unit_values(rng, n, stream):
    if n == 0:
        return []
    if stream == "dyadic":
        if rng.random() < 0.5:
            pool = [rng.randint(0, 16) / 16.0 for _ in range(rng.randint(1, 5))]
            return [rng.choice(pool) for _ in range(n)]
        return [rng.randint(0, 1024) / 1024.0 for _ in range(n)]
    mode = rng.choice(["uniform", "beta-hi", "beta-lo", "tied", "tiny"])
    if mode == "uniform":
        return [rng.random() for _ in range(n)]
    if mode == "beta-hi":
        return [rng.betavariate(5, 1.5) for _ in range(n)]
    if mode == "beta-lo":
        return [rng.betavariate(1.5, 5) for _ in range(n)]
    if mode == "tied":
        pool = [round(rng.random(), 2) for _ in range(rng.randint(1, 4))]
        return [rng.choice(pool) for _ in range(n)]
    return [rng.random() * 1e-300 for _ in range(n)]


def _size(rng):
    r = rng.random()
    if r < 0.10:
        return 0
    if r < 0.2:
        return 1
    if r < 0.93:
        return rng.randint(2, 14)
    return rng.randint(60, 110)


def _inject(rng, xs, specials, k):
    xs = list(xs)
    for _ in range(k):
        v = rng.choice(specials)
        if xs and rng.random() < 0.5:
            xs[rng.randrange(len(xs))] = v
        else:
            xs.insert(rng.randint(0, len(xs)), v)
    return xs


def gen_one(rng, i, tier):
    stream = "dyadic" if i % 2 == 0 else "generic"
    ng, nf = _size(rng), _size(rng)
    g, f = _unit_values(rng, ng, stream), _unit_values(rng, nf, stream)
    shape = rng.random()
    if shape < 0.25 and g and f:  # cross-class ties
        pool = list(set(g[:3] + f[:3]))
        g = [rng.choice(pool) if rng.random() < 0.5 else x for x in g]
        f = [rng.choice(pool) if rng.random() < 0.5 else x for x in f]
    elif shape < 0.4:  # genuine high, fraud low (the usual orientation)
        g = [0.5 + x / 2 for x in g]
        f = [x / 2 for x in f]
    elif shape < 0.5:  # inverted
        g = [x / 2 for x in g]
        f = [0.5 + x / 2 for x in f]
    if rng.random() < 0.55:  # boundary values that must be accepted
        if rng.random() < 0.7:
            g = _inject(rng, g, IN_SPECIALS, rng.randint(1, 2))
        if rng.random() < 0.7:
            f = _inject(rng, f, IN_SPECIALS, rng.randint(1, 2))
    out = "none"
    if rng.random() < 0.4:  # values that must be rejected
        out = rng.choice(["g", "f", "f", "both"])
        if out in ("g", "both"):
            g = _inject(rng, g, OUT_SPECIALS, rng.randint(1, 2))
        if out in ("f", "both"):
            f = _inject(rng, f, OUT_SPECIALS, rng.randint(1, 2))
    dtype = "float"
    if rng.random() < 0.06:  # integer score arrays: only 0 / 1 are legal
        dtype = "int"
        g = [float(rng.choice([0, 1, 1, 1])) for _ in g]
        f = [float(rng.choice([0, 0, 0, 1])) for _ in f]
        if rng.random() < 0.4:
            tgt = g if rng.random() < 0.5 else f
            tgt.append(float(rng.choice([2, -1, 3])))
    eg, ef = rng.choice([(0, 0), (0, 0), (3, 0), (0, 5), (2, 7), (30, 1), (len(g), 3 * len(f))])
    sc = rng.choice(["genuine", "fraud"])
    ts = gen.thresholds(rng, g, f, k=rng.randint(3, 10)) + [1.0, 0.0]
    rs = sorted(set([0.0, 1.0] + [rng.choice([rng.random(), rng.randint(0, 16) / 16.0, 0.5, -0.25, 1.5,
                                              (rng.randint(0, max(len(g), 1))) / max(len(g), 1),
                                              (rng.randint(0, max(len(f), 1))) / max(len(f), 1)])
                                  for _ in range(rng.randint(2, 5))]))
    return {"stream": stream, "g": g, "f": f, "eg": eg, "ef": ef, "sc": sc,
            "sc_enum": rng.random() < 0.4, "defaults": rng.random() < 0.5,
            "via": rng.choice(["ctor", "ctor", "from_labels"]),
            "scheme": rng.randrange(len(LABEL_SCHEMES)), "perm_seed": rng.randint(0, 10**6),
            "dtype": dtype, "container": rng.choice(["array", "array", "list"]),
            "ts": ts, "rs": rs,
            # a second construction with NaN scores mixed in (a NaN sorts last and compares False with everything, so a
            # range check that looks at the ends of the sorted array, or at min/max, is blinded by it)
            "nanvar": rng.choice(["g", "f", "both"]) if rng.random() < 0.3 else None,
            "presorted": rng.random() < 0.4}


def _outside(inp):
    return any(x < 0 or x > 1 for x in inp["g"] + inp["f"])


def nontrivial(inp):
    vals = inp["g"] + inp["f"]
    return (_outside(inp) or any(x in (0.0, 1.0) for x in vals) or inp["eg"] > 0 or inp["ef"] > 0
            or inp["sc"] == "fraud" or inp["via"] == "from_labels" or bool(set(inp["g"]) & set(inp["f"])))


def _tags(inp):
    t = [inp["stream"], f"sc={inp['sc']}", f"via={inp['via']}", f"dtype={inp['dtype']}"]
    vals = inp["g"] + inp["f"]
    if _outside(inp):
        t.append("out-of-range")
        ulp_out = set(OUT_SPECIALS[:2])
        if all((0 <= x <= 1) or x in ulp_out for x in vals):
            t.append("one-ulp-outside-only")
    if any(x == 0.0 or x == 1.0 for x in vals):
        t.append("boundary-value")
    if any(x == 0.0 and math.copysign(1, x) < 0 for x in vals):
        t.append("negative-zero")
    if inp["eg"] or inp["ef"]:
        t.append("easy")
    if not inp["g"] or not inp["f"]:
        t.append("empty-class")
    if set(inp["g"]) & set(inp["f"]):
        t.append("cross-class-tie")
    if inp["via"] == "from_labels":
        t.append("labels=" + LABEL_SCHEMES[inp["scheme"]]["kind"])
    return tuple(t)


def _same(a, b):
    """exact equality of two results of the same code path (floats, arrays, tuples)"""
    if isinstance(a, tuple) or isinstance(b, tuple):
        return (isinstance(a, tuple) and isinstance(b, tuple) and len(a) == len(b)
                and all(_same(x, y) for x, y in zip(a, b)))
    a, b = np.asarray(a), np.asarray(b)
    if a.shape != b.shape:
        return False
    try:
        return bool(np.array_equal(a, b, equal_nan=True))
    except TypeError:
        return bool(np.array_equal(a, b))


def _label_name(x):
    """'pos'/'neg' or 'genuine'/'fraud' of an enum member (by value), '?' otherwise"""
    v = getattr(x, "value", None)
    return v if isinstance(v, str) else "?"


def _cells(cm):
    m = np.asarray(cm.matrix).reshape(-1, 2, 2)
    return [int(v) for x in m for v in (x[0, 0], x[0, 1], x[1, 0], x[1, 1])]


def _exact_list(arr):
    return [common.fr(x) for x in np.asarray(arr).reshape(-1).tolist()]


def _scores_state(s):
    return (np.asarray(s.pos), np.asarray(s.neg), int(s.nb_easy_pos), int(s.nb_easy_neg),
            _label_name(s.score_class), _label_name(s.equal_class))


def _state_equal(a, b):
    return (a[0].dtype == b[0].dtype and a[1].dtype == b[1].dtype and _same(a[0], b[0]) and _same(a[1], b[1])
            and a[2:] == b[2:])


def build(inp) -> Case:
    from score_analysis import Scores
    from score_analysis.applications import doc_fraud as df

    FraudScores = df.FraudScores
    inp = dict(inp)
    inp["ts"] = [float(common.unjson_num(x)) for x in inp["ts"]]
    inp["rs"] = [float(common.unjson_num(x)) for x in inp["rs"]]
    g = [float(common.unjson_num(x)) for x in inp["g"]]
    f = [float(common.unjson_num(x)) for x in inp["f"]]
    inp["g"], inp["f"] = g, f
    eg, ef, sc = int(inp["eg"]), int(inp["ef"]), inp["sc"]
    npdt = np.int64 if inp["dtype"] == "int" else np.float64
    pre = []
    lines = []

    # ---------------------------------------------------------------- label translations
    def tr(fn, arg):
        r = common.call(fn, arg)
        return _label_name(r[1]) if r[0] == "ok" else f"exc:{r[1]}"

    d2b = {}
    for name, member in (("genuine", getattr(df.DocLabel, "pos", None)), ("fraud", getattr(df.DocLabel, "neg", None))):
        a, b = tr(df.doc_to_binary_label, name), tr(df.doc_to_binary_label, member)
        if a != b:
            pre.append(Issue("PROPFAIL", "labels", f"doc_to_binary_label('{name}')={a} but on the enum member {b}",
                             "labels/d2b-enum"))
        d2b[name] = a
    b2d = {}
    from score_analysis.scores import BinaryLabel
    for name, member in (("pos", BinaryLabel.pos), ("neg", BinaryLabel.neg)):
        a, b = tr(df.binary_to_doc_label, name), tr(df.binary_to_doc_label, member)
        if a != b:
            pre.append(Issue("PROPFAIL", "labels", f"binary_to_doc_label('{name}')={a} but on the enum member {b}",
                             "labels/b2d-enum"))
        b2d[name] = a
    # round trips through the real functions, on strings and members
    for start in ("genuine", "fraud", getattr(df.DocLabel, "pos", None), getattr(df.DocLabel, "neg", None)):
        r = common.call(lambda x: df.binary_to_doc_label(df.doc_to_binary_label(x)), start)
        want = start if isinstance(start, str) else _label_name(start)
        got = _label_name(r[1]) if r[0] == "ok" else f"exc:{r[1]}"
        if got != want:
            pre.append(Issue("PROPFAIL", "labels", f"binary_to_doc_label(doc_to_binary_label({start!r})) = {got}",
                             "labels/roundtrip-doc"))
    for start in ("pos", "neg", BinaryLabel.pos, BinaryLabel.neg):
        r = common.call(lambda x: df.doc_to_binary_label(df.binary_to_doc_label(x)), start)
        want = start if isinstance(start, str) else _label_name(start)
        got = _label_name(r[1]) if r[0] == "ok" else f"exc:{r[1]}"
        if got != want:
            pre.append(Issue("PROPFAIL", "labels", f"doc_to_binary_label(binary_to_doc_label({start!r})) = {got}",
                             "labels/roundtrip-binary"))
    lab_sendable = (set(d2b.values()) <= {"pos", "neg"}) and (set(b2d.values()) <= {"genuine", "fraud"})
    if lab_sendable:
        lines.append(line("fraudlab", dg=d2b["genuine"], df=d2b["fraud"], bp=b2d["pos"], bn=b2d["neg"]))
    else:
        pre.append(Issue("PROPFAIL", "labels", f"translation tables {d2b} {b2d}", "labels/table"))

    # ---------------------------------------------------------------- construction
    kw = {}
    # the easy counts in the forms callers have them: Python int, or a NumPy integer scalar (`mask.sum()`, `len`-like counts
    # read from an array) - chosen from the case's own seed
    npform = {0: int, 1: np.int64, 2: np.int32, 3: np.int64, 4: int, 5: int}[inp.get("perm_seed", 0) % 6]

    def cnt(v):
        return npform(v)
    if not (inp["defaults"] and eg == 0):
        kw["nb_easy_genuines"] = cnt(eg)
    if not (inp["defaults"] and ef == 0):
        kw["nb_easy_frauds"] = cnt(ef)
    if not (inp["defaults"] and sc == "genuine"):
        kw["score_class"] = (df.DocLabel.pos if sc == "genuine" else df.DocLabel.neg) if inp["sc_enum"] else sc

    def container(xs, dt):
        arr = np.array(xs, dtype=dt)
        return arr if inp["container"] == "array" or len(xs) == 0 else arr.tolist()

    if inp["via"] == "from_labels":
        sch = LABEL_SCHEMES[inp["scheme"]]
        prng = np.random.RandomState(inp["perm_seed"] % (2**31))
        n = len(g) + len(f)
        order = prng.permutation(n).tolist()
        is_g = [True] * len(g) + [False] * len(f)
        allsc = g + f
        others = sch["others"]
        labs, scos, flags = [], [], []
        for k, idx in enumerate(order):
            flags.append(is_g[idx])
            scos.append(allsc[idx])
            labs.append(sch["g"] if is_g[idx] else others[(idx + k) % len(others)])
        if sch["kind"] == "object":
            lab_arr = np.array(labs, dtype=object)
        elif sch["kind"] == "list":
            lab_arr = list(labs)
        elif sch["kind"] == "bool":
            lab_arr = np.array(labs, dtype=bool)
        elif sch["kind"] == "str":
            lab_arr = np.array(labs, dtype=str) if labs else np.array([], dtype=str)
        else:
            lab_arr = np.array(labs, dtype=np.int64)
        sco_arr = container(scos, npdt)
        if not (inp["defaults"] and sch["g"] == 1 and sch["kind"] in ("int", "list")):
            kw["genuine_label"] = sch["g"]
        res = common.call(FraudScores.from_labels, lab_arr, sco_arr, **kw)
        mg = [x for x, b in zip(scos, flags) if b]
        mf = [x for x, b in zip(scos, flags) if not b]
        ctor_line = dict(via="labels", lab=il([1 if b else 0 for b in flags]), sco=ql(scos))
        how = f"FraudScores.from_labels(genuine_label={sch['g']!r}, labels kind={sch['kind']})"
    else:
        g_arg, f_arg = container(g, npdt), container(f, npdt)
        if inp.get("presorted") and isinstance(g_arg, np.ndarray):
            g_arg, f_arg = np.sort(g_arg), np.sort(f_arg)  # already ascending input (the object must still hold its own copies)
        res = common.call(FraudScores, genuines=g_arg, frauds=f_arg, **kw)
        # the caller's arrays stay the caller's: scrambling them in place after construction must not reach the object
        for a_ in (g_arg, f_arg):
            if isinstance(a_, np.ndarray) and a_.size > 1 and a_.flags.writeable:
                a_[:] = a_[::-1].copy()
        mg, mf = g, f
        ctor_line = dict(via="ctor", g=ql(g), f=ql(f))
        how = "FraudScores(genuines=..., frauds=...)"

    raised = False
    fs = None
    msg = ""
    if res[0] == "exc":
        if res[1] == "ValueError":
            raised = True
            msg = res[2]
        else:
            pre.append(Issue("PROPFAIL", "raises", f"{how} raised {res[1]}: {res[2]}", f"ctor/raises/{res[1]}"))
            inp["_evals"] = 1
            return Case(ID, inp, lines, lambda outs: [], _tags(inp), 0, pre)
    else:
        fs = res[1]

    desc = f"{how} g={mg[:6]}{'...' if len(mg) > 6 else ''} f={mf[:6]}{'...' if len(mf) > 6 else ''} eg={eg} ef={ef} sc={sc}"
    evals = 1
    obs = {}
    if fs is not None:
        translated = "pos" if sc == "genuine" else "neg"  # the harness's own translation
        ref = Scores(pos=np.array(mg, dtype=npdt), neg=np.array(mf, dtype=npdt), nb_easy_pos=cnt(eg), nb_easy_neg=cnt(ef),
                     score_class=translated, equal_class="pos")

        def fail(clause, detail, sig=None):
            pre.append(Issue("PROPFAIL", clause, f"{detail} | {desc}", sig or f"fraud/{clause}"))

        # held arrays, aliases, flags
        for attr_f, attr_r in (("pos", "pos"), ("neg", "neg"), ("genuines", "pos"), ("frauds", "neg")):
            a = common.call(getattr, fs, attr_f)
            if a[0] == "exc":
                fail("alias", f".{attr_f} raised {a[1]}")
                continue
            b = getattr(ref, attr_r)
            if not (np.asarray(a[1]).dtype == np.asarray(b).dtype and _same(a[1], b)):
                fail("alias", f".{attr_f}={np.asarray(a[1]).tolist()[:8]} but Scores.{attr_r}={np.asarray(b).tolist()[:8]}",
                     f"fraud/alias/{attr_f}")
        if _scores_state(fs)[2:] != _scores_state(ref)[2:]:
            st = _scores_state(fs)
            fail("flags", f"state (easy_pos, easy_neg, score_class, equal_class)={st[2:]} expected {(_scores_state(ref))[2:]}")
        eqr = common.call(lambda: bool(fs == ref) and bool(ref == fs))
        if eqr != ("ok", True):
            fail("equal", f"FraudScores == Scores gives {eqr}")
        if not isinstance(fs, Scores):
            fail("type", "FraudScores object is not a Scores")

        # queries: identical results (or identical exception types)
        def both(clause, name, *a, **k):
            nonlocal evals
            evals += 1
            ra = common.call(getattr(fs, name), *a, **k)
            rb = common.call(getattr(ref, name), *a, **k)
            if ra[0] != rb[0]:
                fail(clause, f"{name}{a}{k}: FraudScores -> {ra[:2]} but Scores -> {rb[:2]}", f"fraud/{clause}/{name}")
            elif ra[0] == "exc":
                if ra[1] != rb[1]:
                    fail(clause, f"{name}{a}{k}: raises {ra[1]} but Scores raises {rb[1]}", f"fraud/{clause}/{name}")
            else:
                va, vb = ra[1], rb[1]
                if hasattr(va, "matrix"):
                    va, vb = va.matrix, vb.matrix
                if isinstance(va, Scores):
                    ok = _state_equal(_scores_state(va), _scores_state(vb))
                else:
                    ok = _same(va, vb)
                if not ok:
                    fail(clause, f"{name}{a if len(str(a)) < 120 else '(...)'}{k}: {np.asarray(va).tolist() if not isinstance(va, (tuple, Scores)) else va} "
                         f"but Scores gives {np.asarray(vb).tolist() if not isinstance(vb, (tuple, Scores)) else vb}"[:500],
                         f"fraud/{clause}/{name}")
            return ra

        tarr = np.array(inp["ts"], dtype=float)
        rcm = both("cm", "cm", tarr)
        for name in gen.METRICS:
            both("rate", name, tarr)
        rarr = np.array(inp["rs"], dtype=float)
        for metric in gen.METRICS:
            for meth in gen.METHODS:
                both("threshold", "threshold_at_" + metric, rarr, method=meth)
        both("threshold", "threshold_at_far", 0.25)
        both("threshold", "threshold_at_frr", 0.25)
        both("eer", "eer")
        both("auc", "auc")
        both("auc", "auc", 0.0, 0.5, x_axis="fnr", y_axis="tnr")
        rsw = both("swap", "swap")
        # the resampling queries (inherited): same draws from the same RNG state, so identical samples / replicates /
        # intervals - in particular a smoothed sample may leave [0, 1] and is still returned
        if len(fs.neg) > 0 and len(fs.pos) > 0:
            from score_analysis import BootstrapConfig
            rstate = np.random.get_state()
            bseed = int(inp.get("perm_seed", 0)) % (2 ** 31)
            cfgs = [BootstrapConfig(nb_samples=4, sampling_method="replacement", smoothing=True),
                    BootstrapConfig(nb_samples=4, sampling_method="dynamic", smoothing=True, stratified_sampling="by_label"),
                    BootstrapConfig(nb_samples=4, sampling_method="single_pass"),
                    BootstrapConfig(nb_samples=4, sampling_method="proportion", ratio=0.6)]

            def seeded(clause, name, *a, **k):
                # `both` calls the FraudScores object first, then the reference: seed before each
                nonlocal evals
                evals += 1
                np.random.seed(bseed)
                ra = common.call(getattr(fs, name), *a, **k)
                np.random.seed(bseed)
                rb = common.call(getattr(ref, name), *a, **k)
                if ra[0] != rb[0] or (ra[0] == "exc" and ra[1] != rb[1]):
                    fail(clause, f"{name}({k.get('config')}): FraudScores -> {ra[:2] if ra[0] == 'exc' else 'ok'} but Scores -> "
                         f"{rb[:2] if rb[0] == 'exc' else 'ok'} from the same RNG state", f"fraud/{clause}/{name}")
                elif ra[0] == "ok":
                    va, vb = ra[1], rb[1]
                    ok = _state_equal(_scores_state(va), _scores_state(vb)) if isinstance(va, Scores) else _same(va, vb)
                    if not ok:
                        fail(clause, f"{name}({k.get('config')}) differs from Scores from the same RNG state", f"fraud/{clause}/{name}")

            try:
                for cfg_ in cfgs:
                    seeded("bootstrap", "bootstrap_sample", config=cfg_)
                seeded("bootstrap", "bootstrap_metric", "fnr", threshold=tarr, config=cfgs[0])
                seeded("bootstrap", "bootstrap_ci", "tpr", threshold=tarr, config=cfgs[1])
            finally:
                np.random.set_state(rstate)

        # boundary-target thresholds for the model comparison (scalar calls)
        thr_obs = {0: [], 1: []}
        for r in (0, 1):
            for metric in gen.METRICS:
                for meth in gen.METHODS:
                    x = common.call(getattr(fs, "threshold_at_" + metric), float(r), method=meth)
                    thr_obs[r].append(x)
        obs = {"cm": _cells(rcm[1]) if rcm[0] == "ok" else None, "thr": thr_obs,
               "hg": _exact_list(fs.genuines), "hf": _exact_list(fs.frauds),
               "hp": _exact_list(fs.pos), "hn": _exact_list(fs.neg),
               "state": _scores_state(fs), "swap": _scores_state(rsw[1]) if rsw[0] == "ok" and isinstance(rsw[1], Scores) else None}
        isc, iec = obs["state"][4], obs["state"][5]
        sendable = obs["cm"] is not None and isc in ("pos", "neg") and iec in ("pos", "neg")
        if obs["cm"] is None:
            fail("cm", f"cm raised {rcm[1]}: {rcm[2]}", "fraud/cm/raises")

        # alias setters write through to pos / neg (done last: mutates the object)
        new_g, new_f = np.array([0.25, 0.75]), np.array([0.125])
        sg = common.call(setattr, fs, "genuines", new_g)
        sf = common.call(setattr, fs, "frauds", new_f)
        if sg[0] == "exc" or sf[0] == "exc" or fs.pos is not new_g or fs.neg is not new_f \
                or fs.genuines is not new_g or fs.frauds is not new_f:
            fail("alias", "assigning .genuines / .frauds does not set .pos / .neg", "fraud/alias/setter")
        if sendable:
            lines.append(line("fraud", **ctor_line, eg=eg, ef=ef, sc=sc, raised=0, ts=ql(inp["ts"]),
                              icms=il(obs["cm"]), hg=ql(obs["hg"]), hf=ql(obs["hf"]), hp=ql(obs["hp"]),
                              hn=ql(obs["hn"]), isc=isc, iec=iec))
        else:
            fs = None  # nothing comparable can be sent; the pre-issues carry the failure
            lines.append(line("fraud", **ctor_line, eg=eg, ef=ef, sc=sc, raised=1))
            raised = None
    else:
        lines.append(line("fraud", **ctor_line, eg=eg, ef=ef, sc=sc, raised=1))

    nan_case = None
    if inp.get("nanvar"):
        nrng = np.random.RandomState((inp["perm_seed"] + 17) % (2**31))

        def with_nans(xs):
            xs = list(xs)
            for _ in range(int(nrng.randint(1, 3))):
                xs.insert(int(nrng.randint(0, len(xs) + 1)), math.nan)
            return xs
        g2 = with_nans(g) if inp["nanvar"] in ("g", "both") else list(g)
        f2 = with_nans(f) if inp["nanvar"] in ("f", "both") else list(f)
        r2 = common.call(FraudScores, genuines=np.array(g2, dtype=float), frauds=np.array(f2, dtype=float))
        if r2[0] == "exc" and r2[1] != "ValueError":
            pre.append(Issue("PROPFAIL", "raises", f"FraudScores with NaN scores raised {r2[1]}: {r2[2]}", f"ctor/raises/{r2[1]}"))
        else:
            nan_case = (g2, f2, r2[0] == "exc")
            lines.append(line("fraudvalid", g=ql([x for x in g2 if not math.isnan(x)]),
                              f=ql([x for x in f2 if not math.isnan(x)]), raised=int(nan_case[2])))
            evals += 1

    inp["_evals"] = evals
    n_lab = 1 if lab_sendable else 0
    accepted = fs is not None

    def judge(outs):
        iss = []
        if n_lab:
            o = outs[0]
            if o["spec.labels"] != "1":
                iss.append(Issue("PROPFAIL", "labels", f"translations genuine->{d2b['genuine']} fraud->{d2b['fraud']} "
                                 f"pos->{b2d['pos']} neg->{b2d['neg']} are not the mutually inverse genuine<->pos, "
                                 f"fraud<->neg", "labels/table"))
            if (o["mdg"], o["mdf"], o["mbp"], o["mbn"]) != (d2b["genuine"], d2b["fraud"], b2d["pos"], b2d["neg"]):
                iss.append(Issue("DISAGREE", "labels", f"model tables {o} impl {d2b} {b2d}", "labels/table"))
        if nan_case is not None:
            o2 = outs[n_lab + 1]
            # only the unambiguous direction is judged: a non-NaN score outside [0,1] must be rejected whatever
            # else the arrays contain (whether a NaN alone counts as "outside" is left open by the property)
            if o2["outside"] == "1" and not nan_case[2]:
                bad = [x for x in nan_case[0] + nan_case[1] if x < 0 or x > 1]
                iss.append(Issue("PROPFAIL", "valid", f"accepted out-of-range scores {bad[:5]} when NaN scores are present: "
                                 f"FraudScores(genuines={nan_case[0][:8]}, frauds={nan_case[1][:8]})",
                                 "fraud/valid/accepts-out-of-range-with-nan"))
            if o2["outside"] == "1" and o2["res"] == "ok":
                iss.append(Issue("DISAGREE", "valid", "model accepts although a score is outside", "fraud/valid/model"))
        o = outs[n_lab]
        if raised is None:
            return iss
        model_ok = o["res"] == "ok"
        if o["spec.valid"] != "1":
            if raised:
                iss.append(Issue("PROPFAIL", "valid", f"ValueError ({msg}) although every score is in [0,1] | {desc}",
                                 "fraud/valid/rejects-in-range"))
            else:
                bad = [x for x in mg + mf if x < 0 or x > 1]
                iss.append(Issue("PROPFAIL", "valid", f"accepted out-of-range scores {bad[:5]} | {desc}",
                                 "fraud/valid/accepts-out-of-range"))
        if model_ok == bool(raised):
            iss.append(Issue("DISAGREE", "valid", f"model {o['res']} but implementation "
                             f"{'raised ValueError' if raised else 'constructed'} | {desc}", "fraud/valid/model"))
        if raised and not model_ok:
            want = {"genuine": "Genuine", "fraud": "Fraud"}[o["which"]]
            if not msg.startswith(want):
                iss.append(Issue("DISAGREE", "message", f"model: the {o['which']} check fires first, message: {msg}",
                                 "fraud/valid/message"))
        if not accepted:
            return iss
        for k, b in enumerate(common.plist(o["spec.cm"])):
            if b != "1":
                iss.append(Issue("PROPFAIL", "cm", f"cm({inp['ts'][k]}) = {obs['cm'][4*k:4*k+4]} is not the matrix of "
                                 f"Scores(pos=genuines, neg=frauds, score_class translated, equal_class=pos) | {desc}",
                                 "fraud/cm/spec"))
        if o["spec.ncm"] != "1":
            iss.append(Issue("PROPFAIL", "cm", f"{len(obs['cm']) // 4} matrices for {len(inp['ts'])} thresholds", "fraud/cm/count"))
        if o["spec.alias"] != "1":
            iss.append(Issue("PROPFAIL", "alias", f".genuines/.frauds/.pos/.neg are not the sorted genuine / fraud scores: "
                             f"genuines={[float(x) for x in obs['hg'][:8]]} frauds={[float(x) for x in obs['hf'][:8]]} | {desc}",
                             "fraud/alias/spec"))
        if o["spec.flags"] != "1":
            iss.append(Issue("PROPFAIL", "flags", f"score_class={obs['state'][4]} equal_class={obs['state'][5]} | {desc}",
                             "fraud/flags/spec"))
        if not model_ok:
            return iss
        # model vs implementation
        if common.pfracs(o["spos"]) != obs["hg"] or common.pfracs(o["sneg"]) != obs["hf"]:
            iss.append(Issue("DISAGREE", "held-arrays", f"model genuines={o['spos'][:200]} impl={obs['hg'][:8]}", "fraud/held"))
        if (int(o["ep"]), int(o["en"]), o["msc"], o["mec"]) != obs["state"][2:]:
            iss.append(Issue("DISAGREE", "flags", f"model {(o['ep'], o['en'], o['msc'], o['mec'])} impl {obs['state'][2:]}", "fraud/flags"))
        if common.pints(o["ms"]) != obs["cm"]:
            iss.append(Issue("DISAGREE", "cm", f"model={o['ms'][:200]} impl={obs['cm'][:40]} | {desc}", "fraud/cm"))
        for r in (0, 1):
            mod = common.plist(o[f"thr{r}"])
            k = 0
            for metric in gen.METRICS:
                for meth in gen.METHODS:
                    x, m_ = obs["thr"][r][k], mod[k]
                    k += 1
                    if x[0] == "exc":
                        if m_ != x[1]:
                            iss.append(Issue("DISAGREE", "threshold", f"threshold_at_{metric}({r},{meth}) raised {x[1]}, model {m_[:40]} | {desc}",
                                             f"fraud/thr/{metric}"))
                    elif "Error" in m_ or common.fr(float(x[1])) != common.pfrac(m_):
                        iss.append(Issue("DISAGREE", "threshold", f"threshold_at_{metric}({r},{meth}) = {x[1]!r}, model {m_[:60]} | {desc}",
                                         f"fraud/thr/{metric}"))
        sw = obs["swap"]
        if sw is not None:
            msw = (common.pfracs(o["swpos"]), common.pfracs(o["swneg"]), int(o["swep"]), int(o["swen"]), o["swsc"], o["swec"])
            isw = (_exact_list(sw[0]), _exact_list(sw[1])) + sw[2:]
            if msw != isw:
                iss.append(Issue("DISAGREE", "swap", f"model swap {msw[2:]} impl {isw[2:]} | {desc}", "fraud/swap"))
        return iss

    return Case(ID, inp, lines, judge, _tags(inp), 0, pre)


def shrink_candidates(inp):
    for key in ("g", "f", "ts", "rs"):
        xs = inp[key]
        if len(xs) > (0 if key in ("g", "f") else 1):
            for i in range(len(xs)):
                c = dict(inp)
                c[key] = xs[:i] + xs[i + 1:]
                yield c
    for key in ("eg", "ef"):
        if inp[key] > 0:
            c = dict(inp); c[key] = 0; yield c
            c = dict(inp); c[key] = 1; yield c
    if inp["via"] != "ctor":
        c = dict(inp); c["via"] = "ctor"; yield c
    if inp["sc_enum"]:
        c = dict(inp); c["sc_enum"] = False; yield c
    if inp["container"] != "array":
        c = dict(inp); c["container"] = "array"; yield c
    for key in ("g", "f"):
        xs = inp[key]
        for i, x in enumerate(xs):
            if isinstance(x, float) and math.isfinite(x) and x not in (0.0, 1.0, 0.5, 0.25):
                for v in (0.25, 0.5):
                    if 0 <= x <= 1:
                        c = dict(inp); c[key] = xs[:i] + [v] + xs[i + 1:]; yield c


# --------------------------------------------------------------------------------------
# second tie: the decision tables of this property regenerated from the source on every run
# (harness/dectables2.py -> generated Lean file checked by the kernel; bridge: SA/Theorems/DecTables2.lean)
# --------------------------------------------------------------------------------------
def extra_gate_start():
    """start the translator + Lean check in a child process; the cases run meanwhile"""
    import common
    import dectables2
    return dectables2.start(common.REPO)


def extra_gate_finish(handle):
    """-> {problems, theorems, obligations, discharged, notes, evidence}; a definite mismatch of a table row is a
    broken proof obligation, `unknown` rows are evidence only"""
    import dectables2
    return dectables2.gate_result(dectables2.finish(handle), ID)
