"""C20 — synthetic datasets hit their specified operating points and proportions."""
from __future__ import annotations

import math
from fractions import Fraction

import numpy as np

import common
from common import Case, Issue, q, ql, il, line

ID = "C20"
LEVEL = "proof"
RULE = ("cases cycle over six kinds: normal (mu/sigma sweep x thresholds x rates in [1e-6,1-1e-6], scalar / 1-d / 2-d "
        "arguments), roc (fnr / fpr points, both, neither, end points 0 and 1), frommetrics (rates x supports x sigmas incl. "
        "integer-valued quotients and a zero rate), nsample (n / p_pos from call or dataset, both score classes, seeded "
        "generator wrapped by a recorder, and rng=None), bernoulli (n x p incl. n*p integer / near-integer, n from call or "
        "dataset or missing, random and non-random), corrbern (p1, p2, rho inside / at / outside the valid range, "
        "random and non-random); non-trivial = rates != 1/2, 0<p<1 with n>1, rho != 0")
EXPLANATION = ("Theorems C20_* prove over exact rationals, for any inverse pair Phi/PhiInv, any sqrt and any lawful generator: "
               "rates and thresholds are mutually inverse, roc is consistent with its thresholds, from_metrics hits FNR(0), "
               "FPR(0), n and p_pos, sample splits n scores k / n-k and keeps the score class, the non-random Bernoulli "
               "sample has floor(n p) ones, the joint probabilities sum to 1, ValueError iff one is negative, and the "
               "non-random pair has exactly n columns of 0/1 with 0 <= ones - n p_i < 2. The correspondence run calls the "
               "real classes, feeds the model the real scipy standard-normal cdf/ppf values at the standardised arguments "
               "(from_metrics' own ppf calls and np.sqrt are recorded) and the recorded generator responses, compares "
               "outputs, and evaluates the Lean spec predicates on the implementation's own outputs (round trips use only "
               "implementation outputs).")
TRUSTED_BASE = ["Lean 4.33 kernel", "axioms propext/Classical.choice/Quot.sound only",
                "hand-written model SA/Model/Datasets.lean tied to /repo by this correspondence run",
                "scipy.stats.norm cdf/ppf (standard form) and np.sqrt as oracles; scipy's loc/scale, sf and isf forms are "
                "modelled as (x-loc)/scale, 1-cdf, ppf(1-p)",
                "np.random.Generator as an oracle (responses recorded by a delegating wrapper; lawfulness is a theorem hypothesis)",
                "harness/dsdefs.py (reading of the Python / scipy idioms of datasets.py: loc= / scale= / **dict / frozen forms, `is None` / `or`, ROCCurve(...) / NormalDataset(...) keywords) for the regenerated closed forms; values only",
                "harness and driver parsing; tolerance 1e-9 on float-valued quantities"]
ASSUMPTIONS = ["finite mu, sigma > 0, rates in [1e-6, 1-1e-6] (tails outside are skipped for the inverse relations)",
               "np.floor(n*p) / int(support/rate) are float computations: counts are judged with floorOK(eps=1e-9); the exact "
               "model count is compared only when the quotient/product is >= 1e-9(1+|x|) away from an integer or exactly "
               "representable (else the comparison is counted as skipped)",
               "the ValueError-iff-negative clause is skipped when a joint probability is within 1e-12 of 0"]

KINDS = ["normal", "corrbern", "bernoulli", "frommetrics", "normal", "corrbern", "nsample", "roc", "bernoulli",
         "corrbern"]
EPS = Fraction(1, 10**9)
LO, HI = 1e-6, 1 - 1e-6


# --------------------------------------------------------------------------------------
# second tie for the closed forms: regenerated from the source on every run (harness/dsdefs.py -> generated Lean file, the
# translated rows compared with the model's by the kernel; soundness: SA/Theorems/C20Defs.lean)
# --------------------------------------------------------------------------------------
def extra_gate_start():
    """start the translator + Lean check in a child process; the sampled cases run meanwhile"""
    import dsdefs
    return dsdefs.start(ID, common.REPO)


def extra_gate_finish(handle):
    """-> {problems, theorems, obligations, discharged, notes, evidence, evidence_key}; a definite mismatch (an outcome code or a
    named probe under the lawful interpretation separates a translated formula from the model's) is a broken proof obligation,
    unknowns are evidence only"""
    import dsdefs
    return dsdefs.gate_result(dsdefs.finish(handle))


def n_cases(tier):
    return 2400 if tier == "quick" else 9000


# --------------------------------------------------------------------------------------
# generation
# --------------------------------------------------------------------------------------
def _rate(rng):
    r = rng.random()
    if r < 0.15:
        return rng.choice([LO, HI, 0.5, 0.3, 0.4, 0.01, 0.99])
    if r < 0.35:
        return 10 ** (-rng.uniform(0, 6))
    if r < 0.5:
        return 1 - 10 ** (-rng.uniform(0, 6))
    return rng.uniform(0.001, 0.999)


def _clip(r):
    return min(max(r, LO), HI)


def _dataset(rng):
    mu_pos = rng.choice([0.0, 1.0, -2.5, 3.0, rng.uniform(-10, 10)])
    d = {"mu_pos": mu_pos}
    if rng.random() < 0.6:
        d["mu_neg"] = rng.choice([0.0, -1.0, mu_pos, rng.uniform(-10, 10)])
    if rng.random() < 0.7:
        d["sigma_pos"] = rng.choice([1.0, 0.05, 20.0, 3.75, rng.uniform(0.1, 10)])
    if rng.random() < 0.7:
        d["sigma_neg"] = rng.choice([1.0, 0.05, 20.0, 3.0, rng.uniform(0.1, 10)])
    return d


def _dparams(d):
    mu_pos = float(d["mu_pos"])
    mu_neg = float(d["mu_neg"]) if d.get("mu_neg") is not None else -mu_pos
    return (mu_pos, mu_neg, float(d.get("sigma_pos", 3.75)), float(d.get("sigma_neg", 3.0)),
            float(d.get("p_pos", 0.5)), d.get("n"), d.get("score_class", "pos"))


def _rho_for(rng, p1, p2):
    c = (1 - p1) * (1 - p2)
    s = math.sqrt(p1 * p2 * c)
    if s == 0:
        return rng.choice([0.0, 0.5, -1.0, 1.0, rng.uniform(-2, 2)])
    lo = (max(0.0, 1 - p1 - p2) - c) / s
    hi = (min(1 - p1, 1 - p2) - c) / s
    r = rng.random()
    if r < 0.1:
        return 0.0
    if r < 0.4:
        return rng.uniform(lo, hi)
    if r < 0.5:
        return rng.choice([lo, hi])
    if r < 0.75:
        d = rng.choice([1e-3, 0.02, 0.05, 0.2])
        return rng.choice([hi + d, lo - d, hi - d, lo + d])
    if r < 0.85:
        return rng.choice([1.0, -1.0, 0.99, 0.3, -0.3])
    return rng.uniform(-1.5, 1.5)


def gen_one(rng, i, tier):
    kind = KINDS[i % len(KINDS)]
    inp = {"kind": kind}
    if kind == "normal":
        inp["ds"] = _dataset(rng)
        mu_pos, mu_neg, sp, sn, *_ = _dparams(inp["ds"])
        k = rng.randint(1, 5)
        thr = []
        for _ in range(k):
            for _try in range(6):  # prefer thresholds at which both rates are inside the tail cut-off
                if rng.random() < 0.5:
                    t = mu_pos + sp * rng.uniform(-4.5, 4.5)
                else:
                    t = mu_neg + sn * rng.uniform(-4.5, 4.5)
                if abs(t - mu_pos) <= 4.7 * sp and abs(t - mu_neg) <= 4.7 * sn:
                    break
            thr.append(t)
        if rng.random() < 0.3:
            thr[0] = rng.choice([0.0, mu_pos, mu_neg, 0.3])
        inp["thr"] = thr
        inp["rates"] = [_clip(_rate(rng)) for _ in range(rng.randint(1, 5))]
        inp["arg"] = rng.choice(["scalar", "array", "array", "array2d"])
        # deep, well-conditioned tails: FPR far above the negative mean, FNR far below the positive mean (rates
        # down to 1e-150; a survival function written as 1 - cdf has lost every digit there)
        inp["tail_z"] = [rng.choice([rng.uniform(4.7, 9.0), rng.uniform(6.0, 12.0), rng.uniform(9.0, 30.0)])
                         for _ in range(rng.randint(1, 3))]
        inp["tail_r"] = [10 ** (-rng.choice([rng.uniform(6, 12), rng.uniform(9, 20), rng.uniform(15, 150)]))
                         for _ in range(rng.randint(1, 3))]
    elif kind == "roc":
        inp["ds"] = _dataset(rng)
        inp["mode"] = rng.choice(["fnr", "fpr", "fnr", "fpr", "fnr", "fpr", "both", "neither"])
        inp["pts"] = sorted(_clip(_rate(rng)) for _ in range(rng.randint(1, 8)))
    elif kind == "frommetrics":
        def rate():
            r = rng.random()
            if r < 0.15:
                return rng.choice([0.3, 0.4, 0.1, 0.01, 1e-3, 0.5, 0.25, 0.2, 0.05, 0.999, 1e-6])
            if r < 0.25:
                return 1.0 / rng.randint(2, 200)
            return _clip(_rate(rng))
        inp["fnr"] = rate()
        inp["fpr"] = rate()
        if rng.random() < 0.04:
            inp[rng.choice(["fnr", "fpr"])] = 0.0
        inp["s1"] = rng.choice([1, 2, 5, 10, 40, 100, 1000, rng.randint(1, 500)])
        inp["s2"] = rng.choice([1, 2, 5, 10, 40, 100, 1000, rng.randint(1, 500)])
        if rng.random() < 0.35:
            # decimal rates with supports that make support / rate a whole number (the documented use: "10 false
            # negatives at FNR 0.1 = 100 positives"); most decimal rates are not exact doubles
            for rk, sk in (("fnr", "s1"), ("fpr", "s2")):
                if rng.random() < 0.7:
                    dec = rng.choice([0.1, 0.01, 0.001, 0.05, 0.2, 0.4, 0.02, 0.3, 0.6, 0.7, 0.07, 0.15, 0.35, 0.003])
                    inp[rk] = dec
                    inp[sk] = max(1, int(round(dec * rng.choice([10, 20, 100, 200, 1000, 3000]))))
        if rng.random() < 0.6:
            inp["sigma_pos"] = rng.choice([1.0, 0.05, 20.0, 3.75, rng.uniform(0.1, 10)])
        if rng.random() < 0.6:
            inp["sigma_neg"] = rng.choice([1.0, 0.05, 20.0, 3.0, rng.uniform(0.1, 10)])
    elif kind == "nsample":
        ds = _dataset(rng)
        if rng.random() < 0.5:
            ds["p_pos"] = rng.choice([0.0, 1.0, 0.3, rng.random()])
        if rng.random() < 0.5:
            ds["n"] = rng.choice([0, 1, 7, 50])
        ds["score_class"] = rng.choice(["pos", "neg"])
        inp["ds"] = ds
        inp["n"] = rng.choice([None, None, 0, 1, 2, 10, 100, rng.randint(1, 300)])
        inp["p"] = rng.choice([None, None, 0.0, 1.0, 0.4, rng.random()])
        inp["rng"] = rng.choice(["seeded", "seeded", "seeded", "none"])
        inp["seed"] = rng.randint(0, 2**31)
    elif kind == "bernoulli":
        n = rng.choice([1, 2, 3, 7, 10, 100, 1000, rng.randint(1, 500)])
        r = rng.random()
        if r < 0.25:
            p = rng.choice([0.0, 1.0, 0.5, 0.6, 0.29, 0.1, 0.7, 1 / 3, 0.9, 0.57])
        elif r < 0.5:
            p = rng.randint(0, n) / n  # n*p integer up to rounding
        else:
            p = rng.random()
        inp.update(p=p, random=rng.random() < 0.25, seed=rng.randint(0, 2**31),
                   rng=rng.choice(["seeded", "seeded", "seeded", "none"]))
        r = rng.random()
        if r < 0.6:
            inp.update(n=n, n_self=None)
        elif r < 0.8:
            inp.update(n=None, n_self=n)
        elif r < 0.88:
            inp.update(n=0, n_self=n)
        elif r < 0.94:
            inp.update(n=n, n_self=rng.randint(1, 50))
        else:
            inp.update(n=rng.choice([None, 0]), n_self=None)
    else:  # corrbern
        def prob():
            r = rng.random()
            if r < 0.3:
                return rng.choice([0.9, 0.8, 0.5, 0.2, 0.1, 0.3, 0.7])
            if r < 0.36:
                return rng.choice([0.0, 1.0])
            return rng.random()
        p1, p2 = prob(), prob()
        if rng.random() < 0.1:
            p2 = p1
        n = rng.choice([1, 2, 5, 10, 100, 1000, rng.randint(1, 300), rng.randint(20, 300)])
        inp.update(p1=p1, p2=p2, rho=_rho_for(rng, p1, p2), random=rng.random() < 0.25,
                   seed=rng.randint(0, 2**31), rng=rng.choice(["seeded", "seeded", "seeded", "none"]))
        r = rng.random()
        if r < 0.7:
            inp.update(n=n, n_self=None)
        elif r < 0.9:
            inp.update(n=None, n_self=n)
        elif r < 0.95:
            inp.update(n=0, n_self=n)
        else:
            inp.update(n=None, n_self=None)
    return inp


def nontrivial(inp):
    k = inp["kind"]
    if k == "normal":
        return any(r != 0.5 for r in inp["rates"])
    if k == "bernoulli":
        return 0 < inp["p"] < 1 and (inp["n"] or inp["n_self"] or 0) > 1
    if k == "corrbern":
        return inp["rho"] != 0
    return True


# --------------------------------------------------------------------------------------
# helpers
# --------------------------------------------------------------------------------------
class RecRng:
    """Delegates to a seeded numpy Generator and records every response (the model's RNG script)."""

    def __init__(self, seed):
        self.g = np.random.default_rng(seed)
        self.calls = []

    def _rec(self, name, a, k, r):
        self.calls.append((name, a, k, np.copy(r)))
        return r

    def binomial(self, *a, **k):
        return self._rec("binomial", a, k, self.g.binomial(*a, **k))

    def normal(self, *a, **k):
        return self._rec("normal", a, k, self.g.normal(*a, **k))

    def choice(self, *a, **k):
        return self._rec("choice", a, k, self.g.choice(*a, **k))

    def shuffle(self, x, *a, **k):
        self.g.shuffle(x, *a, **k)
        self._rec("shuffle", (), {}, x)

    def of(self, name):
        return [c for c in self.calls if c[0] == name]


def _opt(x):
    return "none" if x is None else (str(int(x)) if isinstance(x, (int, np.integer)) and not isinstance(x, bool) else q(x))


def _finite(xs):
    return all(isinstance(x, (int, float, np.integer, np.floating)) and math.isfinite(float(x)) for x in xs)


def _std(x, loc, scale):
    return float((Fraction(x) - Fraction(loc)) / Fraction(scale))


def _tables(zs, ps):
    """standard normal cdf at zs, ppf at ps: the REAL scipy functions are the oracle"""
    import scipy.stats
    zs = sorted(set(float(z) for z in zs if math.isfinite(z)))
    ps = sorted(set(float(p) for p in ps if math.isfinite(p)))
    phi = [(z, float(scipy.stats.norm.cdf(z))) for z in zs]
    pinv = [(p, float(scipy.stats.norm.ppf(p))) for p in ps]
    pinv = [(p, v) for p, v in pinv if math.isfinite(v)]
    return {"phi_in": ql([z for z, _ in phi]), "phi_out": ql([v for _, v in phi]),
            "pinv_in": ql([p for p, _ in pinv]), "pinv_out": ql([v for _, v in pinv])}


def _ds_args(d):
    mu_pos, mu_neg, sp, sn, p_pos, n, sc = _dparams(d)
    return dict(mu_pos=q(mu_pos), mu_neg=q(mu_neg), sigma_pos=q(sp), sigma_neg=q(sn), p_pos=q(p_pos),
                n_self=_opt(n), sc=sc)


def _make_ds(d):
    from score_analysis.experimental import NormalDataset
    return NormalDataset(**d)


def _check_fields(obj, d, pre):
    """dataclass defaults / __post_init__ (mu_neg = -mu_pos)"""
    mu_pos, mu_neg, sp, sn, p_pos, n, sc = _dparams(d)
    got = (obj.mu_pos, obj.mu_neg, obj.sigma_pos, obj.sigma_neg, obj.p_pos, obj.n)
    if got != (mu_pos, mu_neg, sp, sn, p_pos, n):
        pre.append(Issue("DISAGREE", "fields", f"NormalDataset({d}) holds {got}, model {(mu_pos, mu_neg, sp, sn, p_pos, n)}",
                         "normal/fields"))


def _comparable(exact: Fraction, computed_float) -> bool:
    """may the float floor be compared with the exact floor?"""
    if Fraction(float(computed_float)) == exact:
        return True
    dist = abs(exact - round(exact))
    return dist >= Fraction(1, 10**9) * (1 + abs(exact))


def _far(exact: Fraction) -> bool:
    """is the exact product far enough from an integer for the float floor to be the exact floor?"""
    return abs(exact - round(exact)) >= Fraction(1, 10**9) * (1 + abs(exact))


def _exc_issue(r, expected, clause, sig, what):
    if r[0] == "exc" and r[1] != expected:
        return [Issue("PROPFAIL", clause, f"{what}: raised {r[1]} ({r[2]}), expected {expected}", sig)]
    return []


def _empty(inp, pre, tags):
    return Case(ID, inp, [], lambda outs: [], tuple(tags), 0, pre)


# --------------------------------------------------------------------------------------
# build
# --------------------------------------------------------------------------------------
def build(inp) -> Case:
    inp = dict(inp)
    return {"normal": _build_normal, "roc": _build_roc, "frommetrics": _build_frommetrics,
            "nsample": _build_nsample, "bernoulli": _build_bernoulli, "corrbern": _build_corrbern}[inp["kind"]](inp)


def _apply(fn, xs, arg, pre, what):
    """call fn on xs as scalars / 1-d / 2-d array; returns flat list of floats or None"""
    if arg == "scalar":
        out = []
        for x in xs:
            r = common.call(fn, float(x))
            if r[0] == "exc":
                pre.append(Issue("PROPFAIL", "raises", f"{what}({x}) raised {r[1]}: {r[2]}", f"normal/{what}/raises"))
                return None
            if type(r[1]) is not float:
                pre.append(Issue("PROPFAIL", "scalar", f"{what}(python float) returned {type(r[1]).__name__}, not a python float",
                                 f"normal/{what}/scalar"))
                return None
            out.append(r[1])
        return out
    a = np.array(xs, dtype=float)
    if arg == "array2d":
        a = a.reshape(len(xs), 1)
    r = common.call(fn, a)
    if r[0] == "exc":
        pre.append(Issue("PROPFAIL", "raises", f"{what}(array) raised {r[1]}: {r[2]}", f"normal/{what}/raises"))
        return None
    if not isinstance(r[1], np.ndarray) or r[1].shape != a.shape:
        pre.append(Issue("PROPFAIL", "shape", f"{what}(array of shape {a.shape}) returned {type(r[1]).__name__} "
                         f"{getattr(r[1], 'shape', None)}", f"normal/{what}/shape"))
        return None
    return [float(x) for x in r[1].reshape(-1)]


def _build_normal(inp):
    pre = []
    dsd = inp["ds"]
    tags = ["normal", "arg=" + inp["arg"]]
    r = common.call(_make_ds, dsd)
    if r[0] == "exc":
        pre.append(Issue("PROPFAIL", "raises", f"NormalDataset({dsd}) raised {r[1]}", "normal/ctor"))
        return _empty(inp, pre, tags)
    d = r[1]
    _check_fields(d, dsd, pre)
    mu_pos, mu_neg, sp, sn, *_ = _dparams(dsd)
    thr, rates, arg = [float(t) for t in inp["thr"]], [float(x) for x in inp["rates"]], inp["arg"]
    o_fnr = _apply(d.fnr, thr, arg, pre, "fnr")
    o_fpr = _apply(d.fpr, thr, arg, pre, "fpr")
    o_tfnr = _apply(d.threshold_at_fnr, rates, arg, pre, "threshold_at_fnr")
    o_tfpr = _apply(d.threshold_at_fpr, rates, arg, pre, "threshold_at_fpr")
    if None in (o_fnr, o_fpr, o_tfnr, o_tfpr):
        return _empty(inp, pre, tags)
    if not _finite(o_fnr + o_fpr + o_tfnr + o_tfpr):
        pre.append(Issue("PROPFAIL", "finite", f"non-finite output for thresholds {thr} rates {rates}: "
                         f"{o_fnr} {o_fpr} {o_tfnr} {o_tfpr}", "normal/finite"))
        return _empty(inp, pre, tags)
    # round trips on the implementation's own outputs
    rt_fnr = _apply(d.fnr, o_tfnr, arg, pre, "fnr")
    rt_fpr = _apply(d.fpr, o_tfpr, arg, pre, "fpr")
    ia = [i for i, v in enumerate(o_fnr) if LO <= v <= HI]
    ib = [i for i, v in enumerate(o_fpr) if LO <= v <= HI]
    thrA, thrB = [thr[i] for i in ia], [thr[i] for i in ib]
    rt_thrA = _apply(d.threshold_at_fnr, [o_fnr[i] for i in ia], arg, pre, "threshold_at_fnr") if ia else []
    rt_thrB = _apply(d.threshold_at_fpr, [o_fpr[i] for i in ib], arg, pre, "threshold_at_fpr") if ib else []
    if None in (rt_fnr, rt_fpr, rt_thrA, rt_thrB):
        return _empty(inp, pre, tags)
    if not _finite(rt_fnr + rt_fpr + rt_thrA + rt_thrB):
        pre.append(Issue("PROPFAIL", "inverse", f"non-finite round trip: rates {rates} -> {rt_fnr} {rt_fpr}; "
                         f"thresholds {thrA} -> {rt_thrA}, {thrB} -> {rt_thrB}", "normal/inverse/finite"))
        return _empty(inp, pre, tags)
    inp["_skipped"] = (len(thr) - len(ia)) + (len(thr) - len(ib))
    tb = _tables([_std(t, mu_pos, sp) for t in thr] + [_std(t, mu_neg, sn) for t in thr],
                 rates + [float(1 - Fraction(x)) for x in rates])
    ln = line("normal", **_ds_args(dsd), eps=q(EPS), **tb, thr=ql(thr), rates=ql(rates),
              o_fnr=ql(o_fnr), o_fpr=ql(o_fpr), o_tfnr=ql(o_tfnr), o_tfpr=ql(o_tfpr),
              rt_fnr=ql(rt_fnr), rt_fpr=ql(rt_fpr), thrA=ql(thrA), thrB=ql(thrB),
              rt_thrA=ql(rt_thrA), rt_thrB=ql(rt_thrB))
    inp["_evals"] = 4 * len(thr) + 4 * len(rates)
    ctx = f"NormalDataset({dsd}) arg={arg}"
    tail_lines = []
    tz, tr = [float(z) for z in inp.get("tail_z", [])], [float(x) for x in inp.get("tail_r", [])]
    if tz or tr:
        ta, tb_ = [mu_pos - sp * z for z in tz], [mu_neg + sn * z for z in tz]
        fa, fb = _apply(d.fnr, ta, arg, pre, "fnr"), _apply(d.fpr, tb_, arg, pre, "fpr")
        xa, xb = _apply(d.threshold_at_fnr, tr, arg, pre, "threshold_at_fnr"), _apply(d.threshold_at_fpr, tr, arg, pre, "threshold_at_fpr")
        if None in (fa, fb, xa, xb):
            return _empty(inp, pre, tags)
        bad = [(w, z_, v) for w, zs_, vs in (("fnr", ta, fa), ("fpr", tb_, fb)) for z_, v in zip(zs_, vs)
               if not (math.isfinite(v) and 0 < v < 1)]
        if bad or not _finite(xa + xb):
            pre.append(Issue("PROPFAIL", "inverse", f"{ctx}: a rate 4.7 to 30 sigma out in its tail is not a number in (0,1) "
                             f"(so it cannot be inverted): {bad[:3]}; thresholds for {tr}: {xa} {xb}", "normal/tail/range"))
            return _empty(inp, pre, tags)
        rt_ta, rt_tb = _apply(d.threshold_at_fnr, fa, arg, pre, "threshold_at_fnr"), _apply(d.threshold_at_fpr, fb, arg, pre, "threshold_at_fpr")
        rt_ra, rt_rb = _apply(d.fnr, xa, arg, pre, "fnr"), _apply(d.fpr, xb, arg, pre, "fpr")
        if None in (rt_ta, rt_tb, rt_ra, rt_rb):
            return _empty(inp, pre, tags)
        if not _finite(rt_ta + rt_tb + rt_ra + rt_rb):
            pre.append(Issue("PROPFAIL", "inverse", f"{ctx}: non-finite round trip in the tail: thresholds {ta} -> {rt_ta}, "
                             f"{tb_} -> {rt_tb}; rates {tr} -> {rt_ra}, {rt_rb}", "normal/tail/finite"))
            return _empty(inp, pre, tags)
        tail_lines.append(line("tailinv", eps=q(EPS), ra=ql(tr), rt_ra=ql(rt_ra), rb=ql(tr), rt_rb=ql(rt_rb),
                               ta=ql(ta), rt_ta=ql(rt_ta), tb=ql(tb_), rt_tb=ql(rt_tb)))
        tail_ctx = [("inv_fnr", "fnr(threshold_at_fnr(r)) = r (relative)", tr, rt_ra),
                    ("inv_fpr", "fpr(threshold_at_fpr(r)) = r (relative)", tr, rt_rb),
                    ("inv_thr_fnr", "threshold_at_fnr(fnr(t)) = t", ta, rt_ta),
                    ("inv_thr_fpr", "threshold_at_fpr(fpr(t)) = t", tb_, rt_tb)]
        inp["_evals"] += 2 * len(tz) + 2 * len(tr)
        tags.append("deep-tail")

    def judge(outs):
        o = outs[0]
        iss = []
        miss = common.plist(o["miss"])
        if miss:
            return [Issue("ORACLE-MISS", "oracle", f"model query not in the oracle tables: {miss}", "normal/oracle-miss")]
        for key, what, a, b in [("inv_fnr", "fnr(threshold_at_fnr(r)) = r", rates, rt_fnr),
                                ("inv_fpr", "fpr(threshold_at_fpr(r)) = r", rates, rt_fpr),
                                ("inv_thr_fnr", "threshold_at_fnr(fnr(t)) = t", thrA, rt_thrA),
                                ("inv_thr_fpr", "threshold_at_fpr(fpr(t)) = t", thrB, rt_thrB)]:
            if o["spec." + key] != "1":
                iss.append(Issue("PROPFAIL", "inverse", f"{ctx}: {what} fails: inputs {a} round trip {b}", f"normal/{key}"))
        for key, obs, mk in [("formula_fnr", o_fnr, "m_fnr"), ("formula_fpr", o_fpr, "m_fpr"),
                             ("formula_tfnr", o_tfnr, "m_tfnr"), ("formula_tfpr", o_tfpr, "m_tfpr")]:
            if o["spec." + key] != "1":
                iss.append(Issue("DISAGREE", key, f"{ctx}: impl {obs} model {[float(x) for x in common.pfracs(o[mk])]} "
                                 f"(thresholds {thr}, rates {rates})", f"normal/{key}"))
        if tail_lines:
            o2 = outs[1]
            for key, what, a, b in tail_ctx:
                if o2["spec." + key] != "1":
                    iss.append(Issue("PROPFAIL", "inverse", f"{ctx}: deep in the tail {what} fails: inputs {a} round trip {b}",
                                     f"normal/tail/{key}"))
        return iss

    # one model object over time: a field reassigned after rates have been computed (fitting sigma, sweeping mu): every later
    # answer must be the one a freshly built model with the new fields gives - rates and thresholds stay mutually inverse
    try:
        new = dict(dsd)
        new.update(mu_pos=float(mu_pos) + 1.5, mu_neg=float(d.mu_neg), sigma_pos=float(d.sigma_pos), sigma_neg=float(sn) * 2.0)
        d.mu_pos, d.sigma_neg = new["mu_pos"], new["sigma_neg"]
        fresh_ds = _make_ds(new)
        for fn_ in ("fnr", "fpr", "threshold_at_fnr", "threshold_at_fpr"):
            xs_ = thr[:3] if fn_ in ("fnr", "fpr") else rates[:3]
            a_, b_ = _apply(getattr(d, fn_), xs_, arg, [], fn_), _apply(getattr(fresh_ds, fn_), xs_, arg, [], fn_)
            if a_ is not None and b_ is not None and not np.allclose(a_, b_, rtol=1e-12, atol=1e-12, equal_nan=True):
                pre.append(Issue("PROPFAIL", "inverse", f"{ctx}: after mu_pos / sigma_neg were reassigned on the object, {fn_}({xs_}) = "
                                 f"{a_} but a freshly built model with the same fields gives {b_}", "normal/history/reassigned-field"))
                break
    except Exception:
        pass
    case = Case(ID, inp, [ln] + tail_lines, judge, tuple(tags), inp["_skipped"], pre)
    return case


def _build_roc(inp):
    from score_analysis import ROCCurve
    pre = []
    dsd, mode = inp["ds"], inp["mode"]
    tags = ["roc", "mode=" + mode]
    d = _make_ds(dsd)
    mu_pos, mu_neg, sp, sn, *_ = _dparams(dsd)
    pts = [float(x) for x in inp["pts"]]
    kw = {}
    if mode in ("fnr", "both"):
        kw["fnr"] = np.array(pts)
    if mode in ("fpr", "both"):
        kw["fpr"] = np.array(pts)
    r = common.call(d.roc, **kw)
    pre += _exc_issue(r, "ValueError", "roc-raise", "roc/exception-type", f"roc({mode})")
    args = dict(_ds_args(dsd), eps=q(EPS), mode=mode, pts=ql(pts), raised=q(r[0] == "exc"))
    zs, o = [], None
    if r[0] == "ok":
        R = r[1]
        if not isinstance(R, ROCCurve):
            pre.append(Issue("PROPFAIL", "roc-type", f"roc returned {type(R).__name__}", "roc/type"))
            return _empty(inp, pre, tags)
        o = [np.asarray(R.fnr, dtype=float).reshape(-1).tolist(), np.asarray(R.fpr, dtype=float).reshape(-1).tolist(),
             np.asarray(R.thresholds, dtype=float).reshape(-1).tolist()]
        if not _finite(o[0] + o[1] + o[2]):
            pre.append(Issue("PROPFAIL", "roc-finite", f"roc({mode}={pts}) non-finite: {o}", "roc/finite"))
            return _empty(inp, pre, tags)
        # the caller refills its grid buffer for the next curve while this one is still in use: the curve owns its arrays
        for a_ in kw.values():
            a_[:] = 0.5 * a_[::-1].copy() + 0.01
        o_after = [np.asarray(R.fnr, dtype=float).reshape(-1).tolist(), np.asarray(R.fpr, dtype=float).reshape(-1).tolist(),
                   np.asarray(R.thresholds, dtype=float).reshape(-1).tolist()]
        if o_after != o:
            pre.append(Issue("PROPFAIL", "roc-consistent", f"roc({mode}=grid): after the caller overwrote its grid array in place the curve "
                             f"changed from fnr {o[0][:4]} fpr {o[1][:4]} to fnr {o_after[0][:4]} fpr {o_after[1][:4]} (thresholds "
                             f"{o_after[2][:4]}): the rates are no longer those of its thresholds", "roc/kept-caller-array"))
        args.update(o_fnr=ql(o[0]), o_fpr=ql(o[1]), o_thr=ql(o[2]))
        zs = [_std(t, mu_pos, sp) for t in o[2]] + [_std(t, mu_neg, sn) for t in o[2]]
        # end points (outside the rational model): rates 0 and 1 come back exactly
        if mode in ("fnr", "fpr"):
            e = common.call(d.roc, **{mode: np.array([0.0, 0.5, 1.0])})
            ok = e[0] == "ok" and np.array_equal(np.asarray(getattr(e[1], mode)), [0.0, 0.5, 1.0]) and \
                np.all(np.isinf(np.asarray(e[1].thresholds)[[0, 2]]))
            if not ok:
                pre.append(Issue("PROPFAIL", "roc-endpoints", f"roc({mode}=[0,.5,1]) -> "
                                 f"{e[1] if e[0] == 'exc' else (getattr(e[1], mode), e[1].thresholds)}", "roc/endpoints"))
    # the same request on a badly scaled twin (means of the order of 1e6 standard deviations: calibrated scores with an offset):
    # the thresholds mu + sigma z are rounded to the float spacing at mu, so the rates AT THE STORED THRESHOLDS differ visibly
    # from the requested grid - the curve must report the former (Python-side relation between two real calls)
    if r[0] == "ok" and mode in ("fnr", "fpr", "both"):
        k_ = 10.0 ** (6 + len(pts) % 4)
        twin = dict(dsd)
        twin["mu_pos"] = (abs(mu_pos) + 1.0) * k_
        twin["mu_neg"] = (abs(mu_neg) + 0.5) * k_ * (-1.0 if len(pts) % 2 else 1.0)
        twin["sigma_pos"], twin["sigma_neg"] = sp / k_, sn / k_
        dt_ = common.call(_make_ds, twin)
        if dt_[0] == "ok":
            rt = common.call(dt_[1].roc, **{k2: np.array(pts) for k2 in kw})
            if rt[0] == "ok":
                thr_t = np.asarray(rt[1].thresholds, dtype=float)
                for nm_ in ("fnr", "fpr"):
                    got = np.asarray(getattr(rt[1], nm_), dtype=float).reshape(-1)
                    want = np.asarray(getattr(dt_[1], nm_)(thr_t), dtype=float).reshape(-1)
                    if got.shape != want.shape or not np.allclose(got, want, rtol=0.0, atol=1e-9, equal_nan=True):
                        pre.append(Issue("PROPFAIL", "roc-consistent", f"NormalDataset({twin}).roc({mode}={pts[:4]}): curve.{nm_} = {got.tolist()[:4]} "
                                         f"but {nm_}(curve.thresholds) = {want.tolist()[:4]} (thresholds {thr_t.tolist()[:4]})",
                                         "roc/consistent/badly-scaled"))
                        break
    tb = _tables(zs, pts + [float(1 - Fraction(x)) for x in pts])
    ln = line("dsroc", **args, **tb)
    inp["_evals"] = 3 * len(pts) + 1
    ctx = f"NormalDataset({dsd}).roc({mode}={pts})"

    def judge(outs):
        o_ = outs[0]
        iss = []
        if o_["spec.raise"] != "1":
            iss.append(Issue("PROPFAIL", "roc-raise", f"{ctx}: impl {'raised ' + r[1] if r[0] == 'exc' else 'returned'}, "
                             f"model {o_['res']}", "roc/raise"))
            return iss
        if r[0] == "exc":
            return iss
        miss = common.plist(o_["miss"])
        if miss:
            return [Issue("ORACLE-MISS", "oracle", f"model query not in the oracle tables: {miss}", "roc/oracle-miss")]
        if o_["spec.len"] != "1":
            iss.append(Issue("PROPFAIL", "roc-len", f"{ctx}: lengths {[len(x) for x in o]}", "roc/len"))
        if o_["spec.roc"] != "1":
            iss.append(Issue("PROPFAIL", "roc-consistent", f"{ctx}: rates are not fnr/fpr of the thresholds: fnr {o[0]} fpr {o[1]} "
                             f"thresholds {o[2]}", "roc/consistent"))
        if o_["spec.points"] != "1":
            iss.append(Issue("PROPFAIL", "roc-points", f"{ctx}: {mode} of the curve {o[0] if mode == 'fnr' else o[1]} != requested",
                             "roc/points"))
        if o_["spec.formula_thr"] != "1":
            iss.append(Issue("DISAGREE", "roc-thresholds", f"{ctx}: thresholds {o[2]} model "
                             f"{[float(x) for x in common.pfracs(o_['m_thr'])]}", "roc/formula"))
        return iss

    return Case(ID, inp, [ln], judge, tuple(tags), 0, pre)


def _build_frommetrics(inp):
    import scipy.stats
    from score_analysis import BinaryLabel
    from score_analysis.experimental import NormalDataset
    pre = []
    fnr, fpr, s1, s2 = float(inp["fnr"]), float(inp["fpr"]), int(inp["s1"]), int(inp["s2"])
    kw = {k: float(inp[k]) for k in ("sigma_pos", "sigma_neg") if k in inp}
    sp, sn = kw.get("sigma_pos", 1.0), kw.get("sigma_neg", 1.0)
    tags = ["frommetrics"] + (["zero-rate"] if fnr == 0 or fpr == 0 else [])
    with common.Recorder(scipy.stats.norm, "ppf") as rp:
        r = common.call(NormalDataset.from_metrics, fnr, fpr, s1, s2, **kw)
    pre += _exc_issue(r, "ZeroDivisionError", "frommetrics-raise", "frommetrics/exception-type", "from_metrics")
    ctx = f"from_metrics(fnr={fnr}, fpr={fpr}, fnr_support={s1}, fpr_support={s2}, {kw})"
    ps = [fnr, float(1 - Fraction(fpr))]
    rec = []
    for a_, k_, res in rp.calls:  # the implementation's own standard-form ppf calls (recorded)
        if len(a_) == 1 and not k_ and np.isscalar(a_[0]) and math.isfinite(float(res)):
            rec.append((float(a_[0]), float(res)))
    args = dict(eps=q(EPS), fnr=q(fnr), fpr=q(fpr), s1=s1, s2=s2, sigma_pos=q(sp), sigma_neg=q(sn),
                raised=q(r[0] == "exc"))
    obs = None
    if r[0] == "ok":
        d = r[1]
        f0, p0 = common.call(d.fnr, 0.0), common.call(d.fpr, 0.0)
        if f0[0] == "exc" or p0[0] == "exc":
            pre.append(Issue("PROPFAIL", "raises", f"{ctx}: fnr(0)/fpr(0) raised", "frommetrics/raises"))
            return _empty(inp, pre, tags)
        n_ = d.n
        obs = dict(mu_pos=d.mu_pos, mu_neg=d.mu_neg, n=n_, p_pos=d.p_pos, fnr0=f0[1], fpr0=p0[1])
        if not isinstance(n_, (int, np.integer)) or not _finite([d.mu_pos, d.mu_neg, d.p_pos, f0[1], p0[1], d.sigma_pos, d.sigma_neg]):
            pre.append(Issue("PROPFAIL", "frommetrics", f"{ctx}: non-finite / non-integer fields {obs}", "frommetrics/finite"))
            return _empty(inp, pre, tags)
        nbpos = int(round(d.p_pos * n_))
        obs["nbpos"] = nbpos
        try:
            sc = BinaryLabel(d.score_class).value
        except Exception:
            sc = "neg"
        args.update(o_mu_pos=q(d.mu_pos), o_mu_neg=q(d.mu_neg), o_sigma_pos=q(d.sigma_pos), o_sigma_neg=q(d.sigma_neg),
                    o_n=int(n_), o_nbpos=nbpos, o_ppos=q(d.p_pos), o_fnr0=q(f0[1]), o_fpr0=q(p0[1]), o_sc=sc)
    # Phi is needed at the model's standardised thresholds -mu/sigma = PhiInv(fnr), PhiInv(1-fpr)
    tb_p = _tables([], ps)
    pin = [float(Fraction(x)) for x in common.plist(tb_p["pinv_in"])]
    pout = [float(Fraction(x)) for x in common.plist(tb_p["pinv_out"])]
    for a_, v in rec:
        if a_ not in pin:
            pin.append(a_); pout.append(v)
    tb = _tables(pout, [])
    tb["pinv_in"], tb["pinv_out"] = ql(pin), ql(pout)
    ln = line("frommetrics", **args, **tb)
    inp["_evals"] = 6
    # Implied sample sizes without a rounding question: when the rate, read as the decimal the caller wrote
    # (repr), divides the support exactly (10 / 0.1 = 100) and the correctly rounded double quotient is that same
    # whole number, the class size must be exactly that number (a floor taken on the exact binary quotient,
    # 10 // 0.1 == 99.0, is one sample short).
    exact_lines, exact_what = [], []
    if obs is not None:
        for nm, rate_, s_, k_ in (("positives", fnr, s1, obs["nbpos"]), ("negatives", fpr, s2, obs["n"] - obs["nbpos"])):
            if rate_ > 0:
                dec = Fraction(repr(rate_))
                kq = Fraction(s_) / dec
                if kq.denominator == 1 and float(Fraction(s_) / Fraction(rate_)) == float(kq) and kq < 2**52:
                    exact_lines.append(line("implied", s=s_, r=q(dec), k=int(k_)))
                    exact_what.append((nm, rate_, s_, int(k_), int(kq)))
    if exact_lines:
        tags.append("frommetrics-exact-quotient")

    def judge(outs):
        o = outs[0]
        iss = []
        if o["spec.raise"] != "1":
            iss.append(Issue("PROPFAIL", "frommetrics-raise", f"{ctx}: impl {'raised ' + r[1] if r[0] == 'exc' else 'returned'}, "
                             f"model {o['res']}", "frommetrics/raise"))
            return iss
        if r[0] == "exc":
            return iss
        miss = common.plist(o["miss"])
        if miss:
            return [Issue("ORACLE-MISS", "oracle", f"model query not in the oracle tables: {miss}", "frommetrics/oracle-miss")]
        if o["spec.rate0"] != "1":
            iss.append(Issue("PROPFAIL", "frommetrics-rates", f"{ctx}: FNR(0)={obs['fnr0']} FPR(0)={obs['fpr0']}", "frommetrics/rate0"))
        elif o["spec.frommetrics"] != "1":
            iss.append(Issue("PROPFAIL", "frommetrics-sizes", f"{ctx}: n={obs['n']} p_pos={obs['p_pos']} (positives {obs['nbpos']}); "
                             f"floor quotients {math.floor(Fraction(o['q1']))}, {math.floor(Fraction(o['q2']))}", "frommetrics/sizes"))
        if o["spec.formula_mu"] != "1":
            iss.append(Issue("DISAGREE", "frommetrics-mu", f"{ctx}: mu_pos={obs['mu_pos']} mu_neg={obs['mu_neg']} model "
                             f"{float(Fraction(o['m_mu_pos']))}, {float(Fraction(o['m_mu_neg']))}", "frommetrics/mu"))
        if o["spec.fields"] != "1":
            iss.append(Issue("DISAGREE", "frommetrics-fields", f"{ctx}: sigmas / score_class not as requested", "frommetrics/fields"))
        q1, q2 = Fraction(o["q1"]), Fraction(o["q2"])
        c1, c2 = _comparable(q1, s1 / fnr), _comparable(q2, s2 / fpr)
        case.skipped += (not c1) + (not c2)
        m_pos, m_neg = int(o["m_nbpos"]), int(o["m_n"]) - int(o["m_nbpos"])
        if (c1 and m_pos != obs["nbpos"]) or (c2 and m_neg != obs["n"] - obs["nbpos"]):
            iss.append(Issue("DISAGREE", "frommetrics-n", f"{ctx}: positives={obs['nbpos']} negatives={obs['n'] - obs['nbpos']} model "
                             f"{m_pos}, {m_neg}", "frommetrics/n"))
        elif c1 and c2 and not common.close(obs["p_pos"], Fraction(o["m_ppos"])):
            iss.append(Issue("DISAGREE", "frommetrics-ppos", f"{ctx}: p_pos={obs['p_pos']} model {o['m_ppos']}", "frommetrics/ppos"))
        for o2, (nm, rate_, s_, k_, kq) in zip(outs[1:], exact_what):
            if o2["spec.implied"] != "1":
                iss.append(Issue("PROPFAIL", "frommetrics-sizes", f"{ctx}: {k_} {nm} for support {s_} at rate {rate_!r}: the implied "
                                 f"sample size is {kq}", "frommetrics/sizes-exact"))
        return iss

    case = Case(ID, inp, [ln] + exact_lines, judge, tuple(tags), 0, pre)
    return case


def _build_nsample(inp):
    from score_analysis import BinaryLabel, Scores
    pre = []
    dsd = inp["ds"]
    n, p, mode, seed = inp["n"], inp["p"], inp["rng"], inp["seed"]
    tags = ["nsample", "rng=" + mode, "sc=" + dsd.get("score_class", "pos")]
    d = _make_ds(dsd)
    _check_fields(d, dsd, pre)
    mu_pos, mu_neg, sp, sn, p_self, n_self, sc = _dparams(dsd)
    n_eff = n if n is not None else n_self
    p_eff = p if p is not None else p_self
    ctx = f"NormalDataset({dsd}).sample(n={n}, p_pos={p}, rng={mode}:{seed})"
    rec = RecRng(seed) if mode == "seeded" else None
    kw = {} if p is None else {"p_pos": p}
    r = common.call(d.sample, n, rng=rec, **kw)
    if n_eff is None:
        if r[0] != "exc":
            pre.append(Issue("PROPFAIL", "sample-raise", f"{ctx}: returned although no n is available", "nsample/raise"))
        return _empty(inp, pre, tags + ["no-n"])
    if r[0] == "exc":
        pre.append(Issue("PROPFAIL", "sample-raise", f"{ctx}: raised {r[1]}: {r[2]}", "nsample/raises"))
        return _empty(inp, pre, tags)
    s = r[1]
    if not isinstance(s, Scores):
        pre.append(Issue("PROPFAIL", "sample-type", f"{ctx}: returned {type(s).__name__}", "nsample/type"))
        return _empty(inp, pre, tags)
    pos, neg = np.array(s.pos, dtype=float, copy=True), np.array(s.neg, dtype=float, copy=True)
    common.call(d.sample, n, rng=np.random.default_rng(seed + 1), **kw)  # a later sample of the same size from the same model
    if not (np.array_equal(np.asarray(s.pos, dtype=float), pos) and np.array_equal(np.asarray(s.neg, dtype=float), neg)):
        pre.append(Issue("PROPFAIL", "sample-total", f"{ctx}: the returned Scores object changed when the model was sampled again",
                         "nsample/retained"))
    if pos.ndim != 1 or neg.ndim != 1 or len(pos) + len(neg) != n_eff or not _finite(pos.tolist() + neg.tolist()):
        pre.append(Issue("PROPFAIL", "sample-total", f"{ctx}: {pos.shape} positive and {neg.shape} negative scores, n={n_eff}",
                         "nsample/total"))
        return _empty(inp, pre, tags)
    if s.score_class != BinaryLabel(sc):
        pre.append(Issue("PROPFAIL", "sample-direction", f"{ctx}: score_class {s.score_class}, dataset {sc}", "nsample/direction"))
    if p_eff == 0.0 and len(pos) != 0 or p_eff == 1.0 and len(neg) != 0:
        pre.append(Issue("PROPFAIL", "sample-split", f"{ctx}: p_pos={p_eff} but {len(pos)} positives / {len(neg)} negatives",
                         "nsample/degenerate"))
    inp["_evals"] = 4
    if mode != "seeded":
        return _empty(inp, pre, tags)
    # the RNG script: recorded responses; the binomial draw is also re-derived from the same seed
    bn, nm = rec.of("binomial"), rec.of("normal")
    k2 = int(np.random.default_rng(seed).binomial(n_eff, p_eff))
    if len(bn) != 1 or len(nm) != 2 or int(bn[0][3]) != k2:
        pre.append(Issue("DISAGREE", "sample-script", f"{ctx}: generator calls {[c[0] for c in rec.calls]}, binomial "
                         f"{[int(c[3]) for c in bn]} vs re-run {k2}", "nsample/script"))
        return _empty(inp, pre, tags)
    k = k2
    dp, dn = np.asarray(nm[0][3], dtype=float).reshape(-1), np.asarray(nm[1][3], dtype=float).reshape(-1)
    for c, (loc, scale, size) in zip(nm, [(mu_pos, sp, k), (mu_neg, sn, n_eff - k)]):
        kk = c[2]
        if (kk.get("loc"), kk.get("scale"), kk.get("size")) != (loc, scale, size) or c[1]:
            pre.append(Issue("DISAGREE", "sample-script", f"{ctx}: rng.normal called with {c[1]} {kk}, model loc={loc} "
                             f"scale={scale} size={size}", "nsample/normal-args"))
    ln = line("nsample", **_ds_args(dsd), n=_opt(n), p=_opt(p), raised=0, k=k, draws_pos=ql(dp), draws_neg=ql(dn),
              o_pos=ql(pos), o_neg=ql(neg), o_sc=BinaryLabel(s.score_class).value, o_ec=BinaryLabel(s.equal_class).value)

    def judge(outs):
        o = outs[0]
        iss = []
        if o["res"] != "ok":
            return [Issue("DISAGREE", "sample-raise", f"{ctx}: model raises {o['res']}, impl returned", "nsample/model-raise")]
        if o["spec.sample"] != "1":
            iss.append(Issue("PROPFAIL", "sample-split", f"{ctx}: binomial draw {k}: {len(pos)} positives, {len(neg)} negatives, "
                             f"score_class {s.score_class}", "nsample/split"))
        if o["script_ok"] != "1":
            iss.append(Issue("DISAGREE", "sample-script", f"{ctx}: normal draws of sizes {len(dp)}, {len(dn)} for k={k}", "nsample/sizes"))
        elif o["same"] != "1":
            iss.append(Issue("DISAGREE", "sample-values", f"{ctx}: scores are not the sorted generator draws", "nsample/values"))
        return iss

    return Case(ID, inp, [ln], judge, tuple(tags), 0, pre)


def _bern_n(inp):
    n, n_self = inp["n"], inp["n_self"]
    return n or n_self


def _build_bernoulli(inp):
    from score_analysis.experimental import BernoulliDataset
    pre = []
    p, n, n_self, random_, mode, seed = float(inp["p"]), inp["n"], inp["n_self"], bool(inp["random"]), inp["rng"], inp["seed"]
    tags = ["bernoulli", "random" if random_ else "non-random", "rng=" + mode]
    ctx = f"BernoulliDataset(p={p}, n={n_self}).sample(n={n}, random={random_}, rng={mode}:{seed})"
    rec = RecRng(seed) if mode == "seeded" else None
    g = BernoulliDataset(p=p, n=n_self)
    r = common.call(g.sample, n, random=random_, rng=rec)
    pre += _exc_issue(r, "ValueError", "bernoulli-raise", "bernoulli/exception-type", ctx)
    m = _bern_n(inp)
    args = dict(eps=q(EPS), p=q(p), n=_opt(n), n_self=_opt(n_self), random=q(random_), raised=q(r[0] == "exc"))
    data, draw, shuffled = None, [], []
    if r[0] == "ok":
        data = np.asarray(r[1])
        if data.ndim != 1 or data.dtype.kind not in "iu" or np.any(data < 0):
            pre.append(Issue("PROPFAIL", "bernoulli-shape", f"{ctx}: returned array of shape {data.shape} dtype {data.dtype}",
                             "bernoulli/shape"))
            return _empty(inp, pre, tags)
        kept = np.array(r[1], copy=True)
        # the returned sample is the caller's: drawing again from the same object (same n, both modes) leaves it alone
        for rnd_ in (True, False):
            common.call(g.sample, n, random=rnd_, rng=np.random.default_rng(seed + 1))
        if not np.array_equal(np.asarray(r[1]), kept):
            pre.append(Issue("PROPFAIL", "bernoulli-count", f"{ctx}: the returned sample changed when the same object was sampled again "
                             f"({int(kept.sum())} ones -> {int(np.asarray(r[1]).sum())})", "bernoulli/retained"))
        data = kept.astype(int).tolist()
        if rec is not None:
            if random_:
                c = rec.of("binomial")
                draw = np.asarray(c[0][3]).reshape(-1).astype(int).tolist() if len(c) == 1 else []
            else:
                c = rec.of("shuffle")
                shuffled = np.asarray(c[0][3]).reshape(-1).astype(int).tolist() if len(c) == 1 else []
            if len(c) != 1:
                pre.append(Issue("DISAGREE", "bernoulli-script", f"{ctx}: generator calls {[x[0] for x in rec.calls]}", "bernoulli/script"))
        else:  # no script: the observed array stands for the generator's response
            draw, shuffled = (data, []) if random_ else ([], data)
        args.update(o_data=il(data))
    ln = line("bernoulli", **args, draw=il(draw), shuffled=il(shuffled))
    inp["_evals"] = 3

    def judge(outs):
        o = outs[0]
        iss = []
        if o["spec.raise"] != "1":
            iss.append(Issue("PROPFAIL", "bernoulli-raise", f"{ctx}: impl {'raised ' + r[1] + ': ' + r[2] if r[0] == 'exc' else 'returned'}, "
                             f"model {o['res']}", "bernoulli/raise"))
            return iss
        if r[0] == "exc":
            return iss
        ones = sum(1 for x in data if x == 1)
        if o["spec.shape"] != "1":
            iss.append(Issue("PROPFAIL", "bernoulli-shape", f"{ctx}: {len(data)} entries, values {sorted(set(data))[:5]}", "bernoulli/shape"))
            return iss
        if random_:
            if o["same"] != "1":
                iss.append(Issue("DISAGREE", "bernoulli-random", f"{ctx}: output is not the generator's binomial(1,p,n) draw", "bernoulli/random"))
            return iss
        if o["spec.bernoulli"] != "1":
            iss.append(Issue("PROPFAIL", "bernoulli-count", f"{ctx}: {ones} ones among {len(data)} entries; n*p = {float(Fraction(o['x']))}, "
                             f"floor {math.floor(Fraction(o['x']))}", "bernoulli/count"))
            return iss
        if _comparable(Fraction(o["x"]), m * p):
            if int(o["m_ones"]) != ones:
                iss.append(Issue("DISAGREE", "bernoulli-exact", f"{ctx}: {ones} ones, model {o['m_ones']}", "bernoulli/exact"))
            elif o["perm"] != "1" or o["same"] != "1":
                iss.append(Issue("DISAGREE", "bernoulli-shuffle", f"{ctx}: output is not the shuffled [0]*{o['m_zeros']}+[1]*{o['m_ones']}",
                                 "bernoulli/shuffle"))
        else:
            case.skipped += 1
        return iss

    case = Case(ID, inp, [ln], judge, tuple(tags), 0, pre)
    return case


def _build_corrbern(inp):
    from score_analysis.experimental import CorrelatedBernoullilDataset
    pre = []
    p1, p2, rho = float(inp["p1"]), float(inp["p2"]), float(inp["rho"])
    n, n_self, random_, mode, seed = inp["n"], inp["n_self"], bool(inp["random"]), inp["rng"], inp["seed"]
    tags = ["corrbern", "random" if random_ else "non-random", "rng=" + mode]
    ctx = f"CorrelatedBernoullilDataset(p1={p1}, p2={p2}, rho={rho}, n={n_self}).sample(n={n}, random={random_}, rng={mode}:{seed})"
    rec = RecRng(seed) if mode == "seeded" else None
    g = CorrelatedBernoullilDataset(p1=p1, p2=p2, rho=rho, n=n_self)
    with common.Recorder(np, "sqrt") as rs:
        r = common.call(g.sample, n, random=random_, rng=rec)
    pre += _exc_issue(r, "ValueError", "corr-raise", "corrbern/exception-type", ctx)
    m = _bern_n(inp)
    # np.sqrt: the recorded call(s), plus the real function at the model's argument
    sq = []
    for a_, k_, res in rs.calls:
        if len(a_) == 1 and np.isscalar(a_[0]) and math.isfinite(float(a_[0])) and math.isfinite(float(res)):
            sq.append((float(a_[0]), float(res)))
    x_model = float(Fraction(p1) * Fraction(p2) * (1 - Fraction(p1)) * (1 - Fraction(p2)))
    recorded_sqrt = bool(sq)
    if not any(abs(x_model - a_) <= 1e-12 * (1 + abs(a_)) for a_, _ in sq):
        sq.append((x_model, float(np.sqrt(x_model))))
    args = dict(eps=q(EPS), p1=q(p1), p2=q(p2), rho=q(rho), n=_opt(n), n_self=_opt(n_self), random=q(random_),
                raised=q(r[0] == "exc"), sqrt_in=ql([a_ for a_, _ in sq]), sqrt_out=ql([v for _, v in sq]))
    data, choice, shuffled, p_arg = None, [], [], None
    if r[0] == "ok":
        data = np.asarray(r[1])
        if data.ndim != 2 or data.shape[0] != 2 or data.dtype.kind not in "iu" or np.any(data < 0):
            pre.append(Issue("PROPFAIL", "corr-shape", f"{ctx}: returned array of shape {data.shape} dtype {data.dtype}", "corrbern/shape"))
            return _empty(inp, pre, tags)
        kept = np.array(r[1], copy=True)
        # the returned sample is the caller's: drawing again from the same object (same n, both modes) leaves it alone
        for rnd_ in (True, False):
            common.call(g.sample, n, random=rnd_, rng=np.random.default_rng(seed + 1))
        if not np.array_equal(np.asarray(r[1]), kept):
            pre.append(Issue("PROPFAIL", "corr-marginals", f"{ctx}: the returned sample changed when the same object was sampled "
                             f"again (row sums {kept.sum(axis=1).tolist()} -> {np.asarray(r[1]).sum(axis=1).tolist()})",
                             "corrbern/retained"))
        data = kept.astype(int)
        joint_obs = (data[0] + 2 * data[1]).tolist()
        if rec is not None:
            c = rec.of("choice" if random_ else "shuffle")
            if len(c) != 1:
                pre.append(Issue("DISAGREE", "corr-script", f"{ctx}: generator calls {[x[0] for x in rec.calls]}", "corrbern/script"))
                resp = joint_obs
            else:
                resp = np.asarray(c[0][3]).reshape(-1).astype(int).tolist()
                if random_:
                    p_arg = c[0][2].get("p")
        else:
            resp = joint_obs
        choice, shuffled = (resp, []) if random_ else ([], resp)
        args.update(o_r0=il(data[0].tolist()), o_r1=il(data[1].tolist()))
    ln = line("corrbern", **args, choice=il(choice), shuffled=il(shuffled))
    inp["_evals"] = 6

    def judge(outs):
        o = outs[0]
        iss = []
        miss = common.plist(o["miss"])
        if miss:
            return [Issue("ORACLE-MISS", "oracle", f"model query not in the oracle tables: {miss}", "corrbern/oracle-miss")]
        probs = common.pfracs(o["probs"])
        fl = [float(x) for x in probs]
        if o["spec.sum"] != "1":
            iss.append(Issue("DISAGREE", "corr-sum", f"{ctx}: model probabilities {fl} do not sum to 1", "corrbern/sum"))
        boundary = m is not None and min(abs(x) for x in probs) < Fraction(1, 10**12)
        degenerate = p1 in (0.0, 1.0) or p2 in (0.0, 1.0)
        if boundary and degenerate and m is not None and o["res"] == "ok" and r[0] == "exc":
            # a marginal of exactly 0 or 1: sqrt(p1 p2 (1-p1)(1-p2)) = 0 exactly, every joint probability is one of 0, p, 1-p
            # - nothing to round, the (degenerate but valid) distribution has to be sampled
            iss.append(Issue("PROPFAIL", "corr-valid", f"{ctx}: raised {r[1]}: {r[2]} although the joint probabilities {fl} are a valid "
                             f"distribution (a marginal of exactly 0 or 1 involves no rounding)", "corrbern/valid/degenerate-marginal"))
            return iss
        if boundary:
            case.skipped += 1
        elif o["spec.valid"] != "1":
            iss.append(Issue("PROPFAIL", "corr-valid", f"{ctx}: impl {'raised ' + r[1] + ': ' + r[2] if r[0] == 'exc' else 'returned'}; "
                             f"joint probabilities {fl}" + ("" if m is not None else " (no n given: ValueError expected)"),
                             "corrbern/valid"))
            return iss
        if r[0] == "exc":
            return iss
        if m is not None and not recorded_sqrt:
            iss.append(Issue("DISAGREE", "corr-sqrt", f"{ctx}: np.sqrt was not called", "corrbern/sqrt"))
        if o["spec.shape"] != "1":
            iss.append(Issue("PROPFAIL", "corr-shape", f"{ctx}: shape {data.shape} values {sorted(set(data.reshape(-1).tolist()))[:5]}, n={m}",
                             "corrbern/shape"))
            return iss
        if boundary and o["res"] != "ok":
            return iss
        if random_:
            if p_arg is not None and not all(common.close(float(a_), b_, abs_=Fraction(1, 10**12)) for a_, b_ in zip(np.asarray(p_arg).tolist(), probs)):
                iss.append(Issue("DISAGREE", "corr-probs", f"{ctx}: rng.choice got p={np.asarray(p_arg).tolist()}, model {fl}", "corrbern/probs"))
            if o["same"] != "1":
                iss.append(Issue("DISAGREE", "corr-random", f"{ctx}: rows are not joint%2, joint//2 of the generator's choice", "corrbern/random"))
            return iss
        ones = (int(o["ones0"]), int(o["ones1"]))
        if o["spec.marg0"] != "1" or o["spec.marg1"] != "1":
            iss.append(Issue("PROPFAIL", "corr-marginals", f"{ctx}: ones per row {ones}, n*p1={m * p1}, n*p2={m * p2} (more than 3 draws off)",
                             "corrbern/marginals"))
            return iss
        if o["spec.tight0"] != "1" or o["spec.tight1"] != "1":
            iss.append(Issue("DISAGREE", "corr-tight", f"{ctx}: ones per row {ones}, n*p1={m * p1}, n*p2={m * p2}: not in [n p, n p + 2)",
                             "corrbern/tight"))
        if o["spec.cells"] != "1":
            iss.append(Issue("DISAGREE", "corr-cells", f"{ctx}: cell counts {[int(np.sum(data[0] + 2 * data[1] == i)) for i in range(4)]}, "
                             f"n*p = {[m * x for x in fl]}", "corrbern/cells"))
        if all(_far(m * x) for x in probs[:3]):
            if o["perm"] != "1" or o["same"] != "1":
                iss.append(Issue("DISAGREE", "corr-exact", f"{ctx}: cell counts {[int(np.sum(data[0] + 2 * data[1] == i)) for i in range(4)]}, "
                                 f"model {o['counts']}", "corrbern/exact"))
        else:
            case.skipped += 1
        return iss

    case = Case(ID, inp, [ln], judge, tuple(tags), 0, pre)
    return case


# --------------------------------------------------------------------------------------
# shrinking
# --------------------------------------------------------------------------------------
def shrink_candidates(inp):
    k = inp["kind"]
    for key in ("thr", "rates", "pts"):
        if key in inp and len(inp[key]) > 1:
            for i in range(len(inp[key])):
                c = dict(inp); c[key] = inp[key][:i] + inp[key][i + 1:]; yield c
    if k == "normal" and inp.get("arg") != "array":
        c = dict(inp); c["arg"] = "array"; yield c
    if k in ("bernoulli", "corrbern"):
        for key in ("n", "n_self"):
            v = inp.get(key)
            if isinstance(v, int) and v > 1:
                for w in (v // 2, v - 1):
                    c = dict(inp); c[key] = w; yield c
        if inp.get("rng") != "seeded":
            c = dict(inp); c["rng"] = "seeded"; yield c
    if k == "nsample":
        v = inp.get("n")
        if isinstance(v, int) and v > 1:
            c = dict(inp); c["n"] = v // 2; yield c
    if "ds" in inp:
        for key in ("mu_neg", "sigma_pos", "sigma_neg"):
            if key in inp["ds"]:
                c = dict(inp); c["ds"] = {a: b for a, b in inp["ds"].items() if a != key}; yield c
