"""
Scripted RNG: run code that calls the module-level NumPy random functions
(`np.random.binomial`, `np.random.poisson`, `np.random.choice`, `np.random.normal` -- the only
ones score_analysis.scores uses) against a *script* and record what was asked.

Shared by the bootstrap properties (C11, C12, C14, C16, C18).  The Lean counterpart is
lean/SA/Model/Rng.lean (`Req`, `RngState`, `draw`, `Req.inRange`) and the wire format is parsed by
lean/SA/Driver/OpsC11.lean (`getReqs`, `getScript`).

    with ScriptedRNG(seed=3) as rng:            # realistic answers from a private RandomState(3)
        sample = scores.bootstrap_sample(cfg)
    rng.trace                                   # list of dict entries, one per call, in call order

    with ScriptedRNG(seed=3, policy=adversarial("zeros+lo")) as rng: ...   # adversarial answers
    with ScriptedRNG(responses=[[3], [0], [1], [0, 0, 2]], strict=True) as rng: ...  # replay

Trace entry (JSON-able):
    {"prim": "binomial", "n": int, "p": float, "size": None|int, "resp": [int, ...]}
    {"prim": "poisson",  "lam": float, "size": None|int, "resp": [int, ...]}
    {"prim": "choice",   "a": int, "a_array": bool, "a_values": None|[float, ...],
                         "size": None|int, "replace": bool, "resp": [int, ...]}   # resp = INDICES
    {"prim": "normal",   "loc": float, "scale": float, "size": None|int, "resp": [float, ...]}
  plus "raised": None | exception type name  (NumPy rejected the request; then "resp" is None and
  no answer is consumed from a replayed script).

Answer selection, per call: (1) the next entry of `responses` while there are any (a misfit --
wrong length, or `strict` and out of range -- raises ScriptError when `strict`, else the entry is
dropped and (2)/(3) apply), (2) `policy(entry, realistic)` if it returns a list, (3) the realistic
draw from the private `RandomState(seed)`.  The realistic draw is always made first, so NumPy's own
argument validation (ValueError for an empty population etc.) is preserved and the private stream
does not depend on the policy.

The global NumPy RandomState is never touched.  Patching uses `unittest.mock.patch.object` on the
`np.random` module object, so `from numpy import random`-style references are covered as long as
they go through the module attribute at call time (score_analysis does `np.random.<fn>(...)`).
"""
from __future__ import annotations

from fractions import Fraction
from typing import Any, Callable, Dict, List, Optional
from unittest import mock

import numpy as np

KIND = {"binomial": 0, "poisson": 1, "choice": 2, "choice_from": 3, "normal": 4}


class ScriptError(Exception):
    """A replayed script does not fit the requests (wrong length / out of range / exhausted)."""


def _size_int(size) -> Optional[int]:
    if size is None:
        return None
    if isinstance(size, (tuple, list)):
        k = 1
        for d in size:
            k *= int(d)
        return k
    return int(size)


def in_range(e: Dict[str, Any], resp: List[int]) -> bool:
    """Python mirror of Lean `Req.inRange`: the answer lies in the support of the requested
    distribution and has the requested length."""
    k = 1 if e["size"] is None else e["size"]
    if e["prim"] == "normal":
        return True
    if len(resp) != k or any((not float(x).is_integer()) or x < 0 for x in resp):
        return False
    if e["prim"] == "binomial":
        n, p = e["n"], e["p"]
        return all(x <= n and (p > 0 or x == 0) and (p < 1 or x == n) for x in resp)
    if e["prim"] == "poisson":
        return all(e["lam"] > 0 or x == 0 for x in resp)
    if e["prim"] == "choice":
        return all(x < e["a"] for x in resp) and (e["replace"] or len(set(resp)) == len(resp))
    raise ValueError(e["prim"])


class ScriptedRNG:
    def __init__(self, seed: int = 0, responses: Optional[List[List[int]]] = None,
                 policy: Optional[Callable[[Dict[str, Any], List[int]], Optional[List[int]]]] = None,
                 strict: bool = False):
        self.seed = seed
        self.rs = np.random.RandomState(seed)
        self.queue: Optional[List[List[int]]] = None if responses is None else [list(r) for r in responses]
        self.policy = policy
        self.strict = strict
        self.trace: List[Dict[str, Any]] = []
        self.overridden = 0  # number of answers that did not come from the realistic draw
        self._patches: List[Any] = []

    # ---------------------------------------------------------------- context manager
    def __enter__(self):
        for name in ("binomial", "poisson", "choice", "normal"):
            p = mock.patch.object(np.random, name, getattr(self, "_" + name))
            p.start()
            self._patches.append(p)
        return self

    def __exit__(self, *exc):
        for p in reversed(self._patches):
            p.stop()
        self._patches = []
        return False

    # ---------------------------------------------------------------- answer selection
    def _answer(self, e: Dict[str, Any], realistic: List[int]) -> List[int]:
        k = 1 if e["size"] is None else e["size"]
        if self.queue is not None:
            if self.queue:
                r = [int(x) for x in self.queue.pop(0)]
                fits = len(r) == k and (not self.strict or in_range(e, r))
                if fits:
                    self.overridden += 1
                    return r
                if self.strict:
                    raise ScriptError(f"answer {r} does not fit request {e}")
            elif self.strict:
                raise ScriptError(f"script exhausted at request {e}")
        if self.policy is not None:
            r = self.policy(e, list(realistic))
            if r is not None:
                r = [int(x) for x in r]
                if len(r) != k:
                    raise ScriptError(f"policy answer {r} has the wrong length for {e}")
                self.overridden += 1
                return r
        return list(realistic)

    def _finish(self, e, realistic_arr, scalar: bool):
        realistic = [int(x) for x in np.asarray(realistic_arr).reshape(-1).tolist()]
        resp = self._answer(e, realistic)
        e["resp"] = resp
        self.trace.append(e)
        if scalar:
            return int(resp[0])
        arr = np.asarray(realistic_arr)
        return np.asarray(resp, dtype=arr.dtype).reshape(arr.shape)

    def _raised(self, e, exc):
        e["resp"] = None
        e["raised"] = type(exc).__name__
        self.trace.append(e)

    # ---------------------------------------------------------------- the four primitives
    def _binomial(self, n, p, size=None):
        e = {"prim": "binomial", "n": int(n), "p": float(p), "size": _size_int(size), "raised": None}
        try:
            real = self.rs.binomial(n, p, size)
        except Exception as exc:  # noqa: BLE001
            self._raised(e, exc)
            raise
        return self._finish(e, real, size is None)

    def _poisson(self, lam=1.0, size=None):
        e = {"prim": "poisson", "lam": float(lam), "size": _size_int(size), "raised": None}
        try:
            real = self.rs.poisson(lam, size)
        except Exception as exc:  # noqa: BLE001
            self._raised(e, exc)
            raise
        return self._finish(e, real, size is None)

    def _choice(self, a, size=None, replace=True, p=None):
        if p is not None:
            raise NotImplementedError("ScriptedRNG: choice with probabilities is not scripted")
        is_arr = not isinstance(a, (int, np.integer))
        arr = np.asarray(a) if is_arr else None
        pop = int(arr.shape[0]) if is_arr else int(a)
        e = {"prim": "choice", "a": pop, "a_array": bool(is_arr),
             "a_values": None if not is_arr else [float(x) for x in arr.tolist()],
             "size": _size_int(size), "replace": bool(replace), "raised": None}
        try:
            if is_arr and pop == 0:
                self.rs.choice(arr, size, replace)  # NumPy's own error for an empty array
            real = self.rs.choice(pop, size, replace)
        except Exception as exc:  # noqa: BLE001
            self._raised(e, exc)
            raise
        idx = self._finish(e, real, size is None)
        return arr[idx] if is_arr else idx

    def _normal(self, loc=0.0, scale=1.0, size=None):
        e = {"prim": "normal", "loc": float(loc), "scale": float(scale), "size": _size_int(size),
             "raised": None}
        try:
            real = self.rs.normal(loc, scale, size)
        except Exception as exc:  # noqa: BLE001
            self._raised(e, exc)
            raise
        e["resp"] = [float(x) for x in np.asarray(real).reshape(-1).tolist()]
        self.trace.append(e)
        return real

    # ---------------------------------------------------------------- views of the trace
    def responses(self) -> List[List[int]]:
        """The script that reproduces this run (answers of the integer primitives; `[]` for
        `normal`, whose noise is not scripted; nothing for calls that raised)."""
        return script_of(self.trace)


def script_of(trace) -> List[List[int]]:
    return [([] if e["prim"] == "normal" else list(e["resp"])) for e in trace if e["raised"] is None]


# -------------------------------------------------------------------------------------
# adversarial answer policies
# -------------------------------------------------------------------------------------
def adversarial(mode: str):
    """Policy built from '+'-joined atoms (answers stay inside the supports):
      zeros   multiplicity arrays (binomial/poisson with a size) are all zero (triggers the
              single-pass at-least-one correction); `Bin(n, 1)` stays `n`
      ones    multiplicity arrays are all one (identity resample)
      lo / hi scalar binomials answer 0 / n (class split and easy split at their extremes)
      lo1/hi1 only the FIRST scalar binomial (the class split) answers 0 / n
      first / last   every `choice` with replacement answers index 0 / a-1
    """
    atoms = set(mode.split("+")) if mode else set()
    state = {"scalars": 0}

    def policy(e, realistic):
        if e["prim"] in ("binomial", "poisson") and e["size"] is not None:
            if e["prim"] == "binomial":
                n, p = e["n"], e["p"]
                if "zeros" in atoms:
                    return [n if p >= 1 else 0] * e["size"]
                if "ones" in atoms:
                    return [n if p >= 1 else (0 if p <= 0 else min(1, n))] * e["size"]
            else:
                if "zeros" in atoms:
                    return [0] * e["size"]
                if "ones" in atoms:
                    return [1 if e["lam"] > 0 else 0] * e["size"]
            return None
        if e["prim"] == "binomial" and e["size"] is None:
            state["scalars"] += 1
            n, p = e["n"], e["p"]
            lo = "lo" in atoms or ("lo1" in atoms and state["scalars"] == 1)
            hi = "hi" in atoms or ("hi1" in atoms and state["scalars"] == 1)
            if lo:
                return [n if p >= 1 else 0]
            if hi:
                return [0 if p <= 0 else n]
            return None
        if e["prim"] == "choice" and e["replace"] and e["a"] > 0:
            k = 1 if e["size"] is None else e["size"]
            if "first" in atoms:
                return [0] * k
            if "last" in atoms:
                return [e["a"] - 1] * k
        return None

    return policy


# -------------------------------------------------------------------------------------
# wire encoding for the Lean driver (lean/SA/Driver/OpsC11.lean: getReqs / getScript)
# -------------------------------------------------------------------------------------
def _q(x) -> str:
    if isinstance(x, int):
        return str(x)
    fr = Fraction(float(x))
    return str(fr.numerator) if fr.denominator == 1 else f"{fr.numerator}/{fr.denominator}"


def _l(xs) -> str:
    return "[" + ",".join(xs) + "]"


def encode_requests(trace, prefix: str = "q") -> Dict[str, str]:
    """Five parallel lists `<prefix>k/n/s/r/p` (kind, integer parameter, size or -1, replace,
    p or lam as an exact rational)."""
    ks, ns, ss, rs, ps = [], [], [], [], []
    for e in trace:
        prim = e["prim"]
        if prim == "choice" and e["a_array"]:
            prim = "choice_from"
        ks.append(str(KIND[prim]))
        if prim == "binomial":
            ns.append(str(e["n"])); ps.append(_q(e["p"])); rs.append("0")
        elif prim == "poisson":
            ns.append("0"); ps.append(_q(e["lam"])); rs.append("0")
        elif prim in ("choice", "choice_from"):
            ns.append(str(e["a"])); ps.append("0"); rs.append("1" if e["replace"] else "0")
        else:  # normal: n carries the size
            ns.append(str(e["size"] if e["size"] is not None else 1)); ps.append("0"); rs.append("0")
        ss.append("-1" if (e["size"] is None or prim == "normal") else str(e["size"]))
    return {prefix + "k": _l(ks), prefix + "n": _l(ns), prefix + "s": _l(ss), prefix + "r": _l(rs),
            prefix + "p": _l(ps)}


def encode_script(trace) -> Dict[str, str]:
    """`resp` (all answers flattened), `rl` (length of each answer), `oh` (per request: 1 if an
    answer was consumed, 0 if the call raised)."""
    sc = script_of(trace)
    return {"resp": _l([str(x) for r in sc for x in r]), "rl": _l([str(len(r)) for r in sc]),
            "oh": _l(["0" if e["raised"] is not None else "1" for e in trace])}


def decode_requests(o: Dict[str, str], prefix: str = "m") -> List[Dict[str, Any]]:
    """Inverse of `encode_requests` for the model's trace (p/lam stay Fractions)."""
    def pl(s):
        s = s[1:-1]
        return [] if s == "" else s.split(",")
    inv = {v: k for k, v in KIND.items()}
    out = []
    for k, n, s, r, p in zip(pl(o[prefix + "k"]), pl(o[prefix + "n"]), pl(o[prefix + "s"]),
                             pl(o[prefix + "r"]), pl(o[prefix + "p"])):
        out.append({"prim": inv[int(k)], "n": int(n), "size": None if int(s) < 0 else int(s),
                    "replace": r == "1", "p": Fraction(p)})
    return out


def brief(trace) -> str:
    """one-line rendering of a trace for messages"""
    parts = []
    for e in trace:
        if e["prim"] == "binomial":
            parts.append(f"binomial(n={e['n']},p={e['p']:.6g},size={e['size']})")
        elif e["prim"] == "poisson":
            parts.append(f"poisson(lam={e['lam']:.6g},size={e['size']})")
        elif e["prim"] == "choice":
            parts.append(f"choice({'arr' if e['a_array'] else ''}{e['a']},size={e['size']},replace={e['replace']})")
        else:
            parts.append(f"normal(size={e['size']})")
    return "; ".join(parts)


# -------------------------------------------------------------------------------------
# self-test
# -------------------------------------------------------------------------------------
def _selftest():
    def routine():
        a = np.random.binomial(10, 0.3)
        b = np.random.binomial(size=4, n=a, p=0.25)
        c = np.random.poisson(size=3, lam=1.5)
        d = np.random.choice(5)
        e = np.random.choice(5, size=a, replace=True)
        f = np.random.choice(np.array([1.5, 2.5, 3.5, 4.5]), size=2, replace=False)
        g = np.random.normal(loc=0.0, scale=2.0, size=(3,))
        return a, b.tolist(), c.tolist(), d, e.tolist(), f.tolist(), g.tolist()

    before = np.random.get_state()[1].copy()
    orig = np.random.binomial
    with ScriptedRNG(seed=5) as r1:
        out1 = routine()
    assert np.random.binomial is orig, "patch not removed"
    assert (np.random.get_state()[1] == before).all(), "global RandomState was touched"
    assert [e["prim"] for e in r1.trace] == ["binomial", "binomial", "poisson", "choice", "choice",
                                              "choice", "normal"]
    t = r1.trace
    assert t[0]["n"] == 10 and t[0]["p"] == 0.3 and t[0]["size"] is None and len(t[0]["resp"]) == 1
    assert t[1]["size"] == 4 and t[1]["n"] == out1[0] and t[1]["resp"] == out1[1]
    assert t[3]["a"] == 5 and t[3]["size"] is None and t[3]["replace"] is True
    assert t[5]["a_array"] and t[5]["a"] == 4 and not t[5]["replace"] and len(set(t[5]["resp"])) == 2
    assert out1[5] == [t[5]["a_values"][i] for i in t[5]["resp"]]
    assert all(in_range(e, e["resp"]) for e in t)
    assert isinstance(out1[0], int) and isinstance(out1[3], int)
    # same seed, same run; replay of the recorded script, same run (normal comes from the seed)
    with ScriptedRNG(seed=5) as r2:
        assert routine() == out1
    with ScriptedRNG(seed=5, responses=r1.responses(), strict=True) as r3:
        assert routine() == out1
    assert r3.overridden == 6
    # a replayed script that does not fit raises when strict
    try:
        with ScriptedRNG(seed=5, responses=[[11]], strict=True):
            routine()
        raise AssertionError("out-of-range answer accepted")
    except ScriptError:
        pass
    # adversarial policy: answers stay in range
    with ScriptedRNG(seed=5, policy=adversarial("zeros+hi+last")) as r4:
        o4 = routine()
    assert o4[0] == 10 and o4[1] == [0, 0, 0, 0] and o4[2] == [0, 0, 0] and o4[3] == 4
    assert all(in_range(e, e["resp"]) for e in r4.trace)
    # NumPy's validation is kept and recorded
    with ScriptedRNG(seed=1) as r5:
        try:
            np.random.choice(0, size=2, replace=True)
            raise AssertionError("no error")
        except ValueError:
            pass
        try:
            np.random.choice(np.array([1.0]), size=2, replace=False)
            raise AssertionError("no error")
        except ValueError:
            pass
        assert np.random.choice(0, size=0, replace=True).tolist() == []
    assert [e["raised"] for e in r5.trace] == ["ValueError", "ValueError", None]
    enc = encode_requests(r1.trace)
    assert enc["qk"] == "[0,0,1,2,2,3,4]" and enc["qs"].startswith("[-1,4,3,-1,")
    sc = encode_script(r5.trace)
    assert sc["oh"] == "[0,0,1]" and sc["rl"] == "[0]"
    dec = decode_requests({k.replace("q", "m", 1): v for k, v in enc.items()})
    assert dec[0]["p"] == Fraction(0.3) and dec[5]["prim"] == "choice_from"
    print("rng_script self-test OK:", brief(r1.trace))


if __name__ == "__main__":
    _selftest()
