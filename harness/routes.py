"""Alternative routes to the object under test.

The properties quantify over Scores objects, not over constructor calls: an object that reached the caller through
swap().swap(), copy.deepcopy, a pickle round trip or as a bootstrap sample is a Scores object like any other and must
answer like a freshly constructed object holding the same scores.  `apply` turns the object a check has just built
into such a derived object and returns the data the model has to be given for it (the multiset of scores the derived
object holds, its easy counts and flags) - the model sorts, so an object that holds its scores unsorted while believing
them sorted shows up as a wrong answer of the implementation.

`shared_views` builds a second object from reversed views of the caller's arrays: constructors take sorted COPIES, so
neither the caller's arrays nor an object built from them earlier may change.
"""
from __future__ import annotations

import copy
import pickle

import numpy as np

ROUTES = ["swapswap", "deepcopy", "pickle", "subclass", "swap", "proportion1", "sample-replacement", "sample-smooth", "sample-single_pass",
          "sample-proportion", "sample-swap"]


def pick(rng, p=0.12, samples=True):
    """a route name or None (probability p); `samples=False` restricts to the routes that keep the multiset"""
    if rng.random() >= p:
        return None
    pool = ROUTES if samples else ROUTES[:6]
    return rng.choice(pool)


def apply(s, route, seed):
    """-> (object, pos list, neg list, nb_easy_pos, nb_easy_neg, score_class value, equal_class value) or None if the
    route does not apply to this object (e.g. an empty class for a sampler); the global RNG state is restored"""
    from score_analysis import BootstrapConfig

    state = np.random.get_state()
    try:
        np.random.seed(int(seed) % (2 ** 31))
        if route == "swapswap":
            o = s.swap().swap()
        elif route == "deepcopy":
            o = copy.deepcopy(s)
        elif route == "pickle":
            o = pickle.loads(pickle.dumps(s))
        elif route == "subclass":
            # an instance of a user subclass with its own constructor signature (the base class's queries must keep working
            # on it; anything rebuilding "an object like self" has to go through the base constructor)
            from score_analysis import Scores

            class ProjectScores(Scores):
                def __init__(self, bundle):
                    super().__init__(pos=bundle["pos"], neg=bundle["neg"], nb_easy_pos=bundle["ep"], nb_easy_neg=bundle["en"],
                                     score_class=bundle["sc"], equal_class=bundle["ec"], is_sorted=True)

            if type(s) is not Scores:
                return None
            o = ProjectScores({"pos": np.array(s.pos, copy=True), "neg": np.array(s.neg, copy=True), "ep": s.nb_easy_pos,
                               "en": s.nb_easy_neg, "sc": s.score_class, "ec": s.equal_class})
        elif route == "swap":
            o = s.swap()
        elif route == "proportion1":
            o = s.bootstrap_sample(BootstrapConfig(sampling_method="proportion", ratio=1.0))
        elif route == "sample-replacement":
            o = s.bootstrap_sample(BootstrapConfig(sampling_method="replacement"))
        elif route == "sample-smooth":
            o = s.bootstrap_sample(BootstrapConfig(sampling_method="replacement", smoothing=True))
        elif route == "sample-single_pass":
            o = s.bootstrap_sample(BootstrapConfig(sampling_method="single_pass"))
        elif route == "sample-proportion":
            o = s.bootstrap_sample(BootstrapConfig(sampling_method="proportion", ratio=0.7))
        elif route == "sample-swap":
            o = s.bootstrap_sample(BootstrapConfig(sampling_method="replacement", smoothing=True)).swap()
        else:
            return None
    except Exception:
        return None
    finally:
        np.random.set_state(state)
    flip = {"pos": "neg", "neg": "pos"}
    if route in ("swapswap", "deepcopy", "pickle", "subclass"):
        # the derived object must BE the original: the model is given what the ORIGINAL holds, not what the derived object
        # claims to hold (a swap() that forgets to exchange the easy counts yields a self-consistent but wrong object)
        src = (s.pos, s.neg, s.nb_easy_pos, s.nb_easy_neg, s.score_class.value, s.equal_class.value)
    elif route == "swap":
        src = (s.neg, s.pos, s.nb_easy_neg, s.nb_easy_pos, flip[s.score_class.value], flip[s.equal_class.value])
    else:
        src = (o.pos, o.neg, o.nb_easy_pos, o.nb_easy_neg, o.score_class.value, o.equal_class.value)
    pos = [float(x) for x in np.asarray(src[0]).reshape(-1)]
    neg = [float(x) for x in np.asarray(src[1]).reshape(-1)]
    if not all(np.isfinite(pos + neg)):
        return None
    return o, pos, neg, int(src[2]), int(src[3]), src[4], src[5]


def shared_views(Scores, pa, na, **kw):
    """a second object from reversed views of the same buffers (its results are not used); returns copies of the
    buffers taken BEFORE, for the caller to compare with afterwards"""
    before = (np.array(pa, copy=True), np.array(na, copy=True))
    try:
        Scores(pa[::-1], na[::-1], **{k: v for k, v in kw.items() if k != "is_sorted"})
    except Exception:
        pass
    return before


def from_views(Scores, pos, neg, dtype=float, **kw):
    """the object is built from two writeable VIEWS of one caller buffer (slices of one score vector); afterwards further
    objects are built from overlapping regions of that buffer (the whole vector, its reversal, a growing prefix).  The
    constructor sorts copies, so the buffer must be unchanged and the first object must still answer for the scores it was
    given.  -> (object, description of what changed in the caller's buffer or None)"""
    data = np.array(list(pos) + list(neg), dtype=dtype)
    before = data.copy()
    k = len(pos)
    s = Scores(data[:k], data[k:], **kw)
    kw2 = {a: b for a, b in kw.items() if a not in ("is_sorted", "nb_easy_pos", "nb_easy_neg")}
    for a, b in ((data[::-1], data[:1]), (data[1:], data[:1]), (data[: max(1, len(data) // 2)], data)):
        try:
            Scores(a, b, **kw2)
        except Exception:
            pass
    changed = None
    if not np.array_equal(before, data, equal_nan=True):
        changed = f"the caller's score vector changed from {before.tolist()[:8]} to {data.tolist()[:8]}"
    return s, changed
