"""
./check <ID> [--tier quick|thorough] [--replay FILE]

Decides one property: Lean gate (build, grep, axiom audit of the property's theorems), then
the correspondence run of the model against /repo's current working tree, then the verdict:

  exit 0                              property held on everything explored
  exit 1 + "VIOLATION property=<id> replay=<path>[ no-failing-input-found]"
  exit 2                              harness problem (never a VIOLATION line)
"""
from __future__ import annotations

import argparse
import importlib
import json
import multiprocessing as mp
import os
import sys
import time
import traceback
from collections import Counter
from pathlib import Path
from typing import Any, Dict, List, Tuple

sys.path.insert(0, str(Path(__file__).resolve().parent))
import common  # noqa: E402
from common import Case, Issue  # noqa: E402

CHUNK = 40


def load_prop(pid: str):
    return importlib.import_module(f"props.{pid.lower()}")


def process_inputs(pid: str, inputs: List[Tuple[Any, Dict[str, Any]]]) -> Dict[str, Any]:
    """Build the cases (calls the implementation), run the driver, judge."""
    mod = load_prop(pid)
    cases: List[Tuple[Any, Case]] = []
    traced: set = set()
    for k_, (idx, inp) in enumerate(inputs):
        try:
            if k_ < TRACE_PER_CHUNK:
                cases.append((idx, _traced_build(mod, inp, traced)))
            else:
                cases.append((idx, mod.build(inp)))
        except (common.ResourceLimit, MemoryError):
            cases.append((idx, Case(pid, dict(inp), [], lambda outs: [], ("resource-limit(MemoryError): not judged",), 1, [])))
    lines: List[str] = []
    spans = []
    for _, c in cases:
        spans.append((len(lines), len(lines) + len(c.lines)))
        lines += c.lines
    outs = common.run_driver(lines)
    res = {"n": 0, "evals": 0, "issues": [], "tags": Counter(), "skipped": 0, "nontrivial": set(),
           "samples": [], "lines": len(lines), "traced": traced}
    for (idx, c), (a, b) in zip(cases, spans):
        o = outs[a:b]
        issues = list(c.pre_issues)
        for oo in o:
            if "ERR" in oo:
                issues.append(Issue("ERR", "driver", oo["ERR"], "driver-error"))
        if not any(i.kind == "ERR" for i in issues):
            issues += c.judge(o)
        res["n"] += 1
        res["evals"] += c.inp.get("_evals", 1)
        res["skipped"] += c.skipped
        for t in c.tags:
            res["tags"][t] += 1
        if mod.nontrivial(c.inp):
            res["nontrivial"].add(common.hashlib.sha1(common.canon(c.inp).encode()).hexdigest())
        if len(res["samples"]) < 2:
            res["samples"].append({"input": common.jsonable(c.inp), "driver_lines": c.lines[:2],
                                   "model_output": [dict(x) for x in o[:2]]})
        for i in issues:
            res["issues"].append({"idx": idx, "inp": common.jsonable(c.inp), "kind": i.kind,
                                  "clause": i.clause, "detail": i.detail[:600],
                                  "signature": i.signature})
    return res


TRACE_PER_CHUNK = 2
_PKG = str(common.REPO / "score_analysis")


def _traced_build(mod, inp, traced: set):
    """build one case under a line tracer restricted to /repo/score_analysis (anchor coverage)"""
    def tracer(frame, event, arg):
        fn = frame.f_code.co_filename
        if not fn.startswith(_PKG):
            return None
        if event == "line":
            traced.add((fn[len(_PKG) + 1:], frame.f_lineno))
        return tracer

    old = sys.gettrace()
    sys.settrace(tracer)
    try:
        return mod.build(inp)
    finally:
        sys.settrace(old)


def anchor_coverage(pid: str, traced: set) -> Dict[str, Any]:
    """fraction of the executable lines of each anchored range (properties.jsonl) that were executed"""
    import re as _re
    anchors = []
    for ln in (common.VERIF / "properties.jsonl").read_text().splitlines():
        pr = json.loads(ln)
        if pr["id"] == pid:
            anchors = [m_.get("where", "") for m_ in pr["anchors"].get("mechanism", [])]
    out = {}
    exec_lines: Dict[str, set] = {}

    def lines_of(rel):
        if rel not in exec_lines:
            src = (common.REPO / rel).read_text()
            acc = set()

            def walk(co):
                for _, _, l_ in co.co_lines():
                    if l_:
                        acc.add(l_)
                for c_ in co.co_consts:
                    if hasattr(c_, "co_lines"):
                        walk(c_)
            walk(compile(src, rel, "exec"))
            exec_lines[rel] = acc
        return exec_lines[rel]

    for where in anchors:
        m_ = _re.match(r"(\S+?):([\d,\-]+)$", where)
        if not m_:
            continue
        rel, spec = m_.group(1), m_.group(2)
        want = set()
        for part in spec.split(","):
            a_, _, b_ = part.partition("-")
            want |= set(range(int(a_), int(b_ or a_) + 1))
        try:
            ex = lines_of(rel) & want
        except Exception:
            continue
        sub = rel[len("score_analysis/"):] if rel.startswith("score_analysis/") else rel
        hit = {l_ for (f_, l_) in traced if f_ == sub} & ex
        out[where] = {"executable_lines": len(ex), "executed": len(hit),
                      "not_executed": sorted(ex - hit)[:25]}
    return out


def _worker(args):
    pid, seed, tier, idxs = args
    try:
        common.import_repo()
        mod = load_prop(pid)
        inputs = [(i, mod.gen_one(common.rng_for(seed, pid, i), i, tier)) for i in idxs]
        return process_inputs(pid, inputs)
    except Exception:
        return {"crash": traceback.format_exc()}


def merge(acc, r):
    if "crash" in r:
        acc.setdefault("crashes", []).append(r["crash"])
        return
    acc["n"] += r["n"]
    acc["evals"] += r["evals"]
    acc["skipped"] += r["skipped"]
    acc["lines"] += r["lines"]
    acc["issues"] += r["issues"]
    acc["tags"].update(r["tags"])
    acc["nontrivial"] |= r["nontrivial"]
    acc.setdefault("traced", set()).update(r.get("traced", set()))
    if len(acc["samples"]) < 3:
        acc["samples"] += r["samples"][: 3 - len(acc["samples"])]


def run_generated(pid, seed, tier, n, start=0, procs=None):
    acc = {"n": 0, "evals": 0, "issues": [], "tags": Counter(), "skipped": 0, "nontrivial": set(),
           "samples": [], "lines": 0}
    idxs = list(range(start, start + n))
    chunks = [idxs[i:i + CHUNK] for i in range(0, len(idxs), CHUNK)]
    procs = procs or min(16, max(1, len(chunks)))
    if procs == 1 or len(chunks) == 1:
        for ch in chunks:
            merge(acc, _worker((pid, seed, tier, ch)))
    else:
        with mp.get_context("fork").Pool(procs) as pool:
            for r in pool.imap_unordered(_worker, [(pid, seed, tier, ch) for ch in chunks]):
                merge(acc, r)
    return acc


def corpus_inputs(pid) -> List[Tuple[str, Dict[str, Any]]]:
    d = common.VERIF / "corpus" / pid
    out = []
    if d.exists():
        for f in sorted(d.glob("*.json")):
            j = json.loads(f.read_text())
            out.append((f"corpus/{f.name}", j["inp"] if "inp" in j else j))
    return out


def shrink(pid, issue) -> Dict[str, Any]:
    """Greedy shrinking of a failing input while the same clause keeps failing."""
    mod = load_prop(pid)
    cur = issue["inp"]
    if not hasattr(mod, "shrink_candidates"):
        return cur
    budget = 300
    improved = True
    while improved and budget > 0:
        improved = False
        for cand in mod.shrink_candidates(cur):
            budget -= 1
            if budget <= 0:
                break
            try:
                r = process_inputs(pid, [("shrink", cand)])
            except Exception:
                continue
            if any(i["kind"] == issue["kind"] and i["clause"] == issue["clause"]
                   and i["signature"] == issue["signature"] for i in r["issues"]):
                cur = cand
                improved = True
                break
    return cur


def write_replay(pid, issue, extra=None) -> Path:
    d = common.VERIF / "replays" / pid
    d.mkdir(parents=True, exist_ok=True)
    body = {"property": pid, "kind": issue["kind"], "clause": issue["clause"],
            "detail": issue["detail"], "signature": issue["signature"], "inp": issue["inp"],
            "replay_cmd": f"./check {pid} --replay <this file>"}
    if extra:
        body.update(extra)
    h = common.hashlib.sha1(json.dumps(body, sort_keys=True, default=str).encode()).hexdigest()[:12]
    f = d / f"{h}.json"
    f.write_text(json.dumps(body, indent=1, default=str))
    return f


def main():
    ap = argparse.ArgumentParser()
    ap.add_argument("pid")
    ap.add_argument("--tier", default=os.environ.get("VERIF_TIER", "quick"))
    ap.add_argument("--replay", default=None)
    ap.add_argument("--procs", type=int, default=None)
    a = ap.parse_args()
    pid = a.pid.upper()
    tier = a.tier if a.tier in ("quick", "thorough") else "quick"
    seed = int(os.environ.get("VERIF_SEED", "0"))
    t0 = time.time()
    common.WORK.mkdir(exist_ok=True)
    mod = load_prop(pid)

    gate = common.lean_gate(pid)
    if tier == "thorough" and gate["build_ok"] and not a.replay:
        gate["leanchecker"] = common.lean_recheck(pid)
        if not gate["leanchecker"]["ok"]:
            gate["problems"].append(f"leanchecker rejected {gate['leanchecker']['module']}: "
                                    f"{gate['leanchecker'].get('output_tail', '')[-200:]}")
    if not gate["build_ok"] and not common.DRIVER.exists():
        print("HARNESS-ERROR: lake build failed and no driver binary is available")
        print(gate["build_log_tail"])
        sys.exit(2)

    common.import_repo()

    # optional second gate of a property module (C10: effect model regenerated from the source; C04: metric definitions
    # regenerated from the source; C01/C02/C03/C08/C09/C15: decision tables regenerated from the source, harness/dectables.py);
    # it runs in a child process while the cases are generated and judged
    extra_handle = None
    if hasattr(mod, "extra_gate_start") and gate["build_ok"]:
        try:
            extra_handle = mod.extra_gate_start()
        except Exception:  # noqa: BLE001
            extra_handle = None

    def finish_extra():
        if extra_handle is None:
            return None
        try:
            ex = mod.extra_gate_finish(extra_handle)
        except Exception as e:  # noqa: BLE001
            return {"notes": [f"EXTRA-GATE-PROBLEM {type(e).__name__}: {e}"], "evidence": {"status": "not evaluated"}}
        gate["problems"] += ex.get("problems", [])
        gate["theorems"].update(ex.get("theorems", {}))
        gate["obligations"] += ex.get("obligations", 0)
        gate["discharged"] += ex.get("discharged", 0)
        for n_ in ex.get("notes", []):
            print(n_)
        return ex

    if a.replay:
        j = json.loads(Path(a.replay).read_text())
        if j.get("kind") == "PROOF":
            # a broken proof obligation has no input to replay: evaluate the gates again on the current tree
            finish_extra()
            for p_ in gate["problems"][:8]:
                print(f"LEAN-GATE {p_}")
            if gate["problems"]:
                print(f"VIOLATION property={pid} replay={a.replay} no-failing-input-found")
                sys.exit(1)
            print("replay: no issue on the current tree")
            sys.exit(0)
        r = process_inputs(pid, [("replay", j["inp"])])
        bad = [i for i in r["issues"]]
        for i in bad:
            print(f"{i['kind']} clause={i['clause']} signature={i['signature']} {i['detail']}")
        if any(i["kind"] in ("PROPFAIL",) for i in bad):
            print(f"VIOLATION property={pid} replay={a.replay}")
            sys.exit(1)
        if bad:
            print(f"VIOLATION property={pid} replay={a.replay} no-failing-input-found")
            sys.exit(1)
        print("replay: no issue on the current tree")
        sys.exit(0)

    # corpus first
    acc = {"n": 0, "evals": 0, "issues": [], "tags": Counter(), "skipped": 0, "nontrivial": set(),
           "samples": [], "lines": 0}
    corp = corpus_inputs(pid)
    if corp:
        merge(acc, process_inputs(pid, corp))
    n = mod.n_cases(tier)
    merge_from = run_generated(pid, seed, tier, n, procs=a.procs)
    for k in ("n", "evals", "skipped", "lines"):
        acc[k] += merge_from[k]
    acc["issues"] += merge_from["issues"]
    acc["tags"].update(merge_from["tags"])
    acc["nontrivial"] |= merge_from["nontrivial"]
    acc.setdefault("traced", set()).update(merge_from.get("traced", set()))
    acc["samples"] += merge_from["samples"]
    crashes = merge_from.get("crashes", [])
    if crashes:
        print("HARNESS-ERROR: worker crashed")
        print(crashes[0])
        sys.exit(2)

    extra = finish_extra()

    # classify
    known_printed = {}
    viol_prop, viol_dis = [], []
    for i in acc["issues"]:
        k = common.match_known(pid, Issue(i["kind"], i["clause"], i["detail"], i["signature"]))
        if k is not None:
            known_printed.setdefault(k["signature"], (k, 0))
            known_printed[k["signature"]] = (k, known_printed[k["signature"]][1] + 1)
            continue
        (viol_prop if i["kind"] == "PROPFAIL" else viol_dis).append(i)

    search_note = ""
    if not viol_prop and (viol_dis or gate["problems"]):
        # correspondence or proof obligation broken without a failing input in hand: search
        more = run_generated(pid, seed + 7919, "thorough" if tier == "quick" else "thorough",
                             min(mod.n_cases("thorough"), max(4 * n, 400)), start=10**6,
                             procs=a.procs)
        for i in more["issues"]:
            if i["kind"] == "PROPFAIL" and common.match_known(
                    pid, Issue(i["kind"], i["clause"], i["detail"], i["signature"])) is None:
                viol_prop.append(i)
        search_note = f"searched {more['n']} further cases"

    for sig, (k, cnt) in known_printed.items():
        print(f"KNOWN-FINDING: property={pid} {k['what']} (signature {sig}; {cnt} cases this run)")

    replay_path = None
    status = 0
    violations = 0
    if viol_prop:
        first = viol_prop[0]
        first = dict(first)
        first["inp"] = shrink(pid, first)
        replay_path = write_replay(pid, first, {"gate_problems": gate["problems"]} if gate["problems"] else None)
        violations = len(viol_prop)
        for i in viol_prop[:5]:
            print(f"PROPFAIL clause={i['clause']} signature={i['signature']} {i['detail'][:300]}")
        for p in gate["problems"][:5]:      # a broken proof obligation that now has a failing input: still name it
            print(f"LEAN-GATE {p}")
        print(f"VIOLATION property={pid} replay={replay_path}")
        status = 1
    elif viol_dis or gate["problems"]:
        what = viol_dis[0] if viol_dis else {
            "kind": "PROOF", "clause": "lean-gate", "detail": "; ".join(gate["problems"])[:600],
            "signature": "lean-gate", "inp": {}}
        replay_path = write_replay(pid, what, {
            "broken": ("correspondence operation disagrees" if viol_dis else "proof obligation"),
            "theorems_depending": list(gate["theorems"].keys()),
            "gate_problems": gate["problems"], "search": search_note})
        violations = len(viol_dis) + len(gate["problems"])
        for i in viol_dis[:5]:
            print(f"{i['kind']} clause={i['clause']} {i['detail'][:300]}")
        for p in gate["problems"][:5]:
            print(f"LEAN-GATE {p}")
        print(f"VIOLATION property={pid} replay={replay_path} no-failing-input-found")
        status = 1

    wall = time.time() - t0
    ev = {
        "property_id": pid, "tier": tier, "seed": seed, "level": mod.LEVEL,
        "coverage": {
            "obligations": gate["obligations"], "discharged": gate["discharged"],
            "checker_cmd": "cd /verif/lean && lake build && lake env lean ../.work/Audit.lean  "
                           "(#print axioms of every theorem below; run by ./check on every call)",
            "trusted_base": mod.TRUSTED_BASE,
            "theorems": gate["theorems"],
            "leanchecker": gate.get("leanchecker", "quick tier: not run (thorough tier re-checks the theorem module)"),
            "statements_not_proved": gate["statements_only"],
            "partial_note": gate["partial_note"],
            "evaluations": acc["evals"],
            "cases": acc["n"],
            "driver_lines": acc["lines"],
            "distinct_nontrivial": len(acc["nontrivial"]),
            "rule": mod.RULE,
            "traces_validated_against_impl": acc["n"],
            "skipped_near_discontinuity": acc["skipped"],
            "input_distribution": dict(acc["tags"].most_common()),
            "anchor_coverage": anchor_coverage(pid, acc.get("traced", set())),
            "anchor_coverage_note": f"line tracer on {TRACE_PER_CHUNK} cases per chunk of {CHUNK}; anchored ranges from properties.jsonl (line numbers of the pinned commit; fix commits shift some ranges by a few lines)",
            "corpus_cases": len(corp),
            "known_findings_printed": [k["signature"] for k, _ in known_printed.values()],
            "samples": acc["samples"][:3],
            "explanation": mod.EXPLANATION,
        },
        "assumptions": mod.ASSUMPTIONS,
        "wall_s": round(wall, 2),
        "violations": violations,
    }
    if extra is not None and extra.get("evidence") is not None:
        ev["coverage"][extra.get("evidence_key", "effect_model")] = extra["evidence"]
    # evidence/ describes runs against /repo itself; a run against another tree (SA_REPO: seeded / harmless
    # self-validation in a scratch worktree) leaves it alone and writes under .work/
    ev_dir = common.VERIF / "evidence" if common.REPO == Path("/repo").resolve() else common.WORK / "evidence_other_tree"
    ev_dir.mkdir(parents=True, exist_ok=True)
    ev["repo"] = str(common.REPO)
    (ev_dir / f"{pid}.json").write_text(json.dumps(ev, indent=1, default=str))
    print(f"{pid} tier={tier} seed={seed} cases={acc['n']} evals={acc['evals']} "
          f"nontrivial={len(acc['nontrivial'])} skipped={acc['skipped']} "
          f"theorems={gate['discharged']}/{gate['obligations']} wall={wall:.1f}s "
          f"{'OK' if status == 0 else 'VIOLATION'}")
    sys.exit(status)


if __name__ == "__main__":
    try:
        main()
    except SystemExit:
        raise
    except Exception:
        traceback.print_exc()
        print("HARNESS-ERROR: unexpected exception")
        sys.exit(2)
