"""Shared builder for threshold-setting cases (C02, C03, reused by C08/C09)."""
from __future__ import annotations

import math
from fractions import Fraction

import numpy as np

import common
import gen
import routes
from common import Case, Issue, q, ql, il, line


# --------------------------------------------------------------------------------------
# theorem-derived float tolerance (lean/SA/Theorems/FloatBounds.lean)
# --------------------------------------------------------------------------------------
U53 = Fraction(1, 2**53)  # unit roundoff of IEEE double precision, round to nearest
# Slack on top of the theorem's bound.  For the code as written the theorem covers EVERY rounding step from the requested
# target to the returned threshold (rescaling for easy samples, the `1 - r` normalisations, `1.0 / len`, the shift, the
# index target, the weight, the two products, `1 - la`, the sum), so a factor of 1 is what the theorem gives (observed
# maximum 0.54, see DESIGN).  What the factor 4 covers is NOT part of the theorem: algebraically equivalent ways of
# writing the same formulas (e.g. `b + la * (a - b)`, harmless/H2), whose rounding-error constants differ by a small
# factor from the ones proved for the operation order of the pinned code.
FLBOUND_SLACK = 4
_FL_LO, _FL_HI = Fraction(1, 2**200), Fraction(2**200)
FL_BUCKETS = [(Fraction(0), "=0"), (Fraction(1, 16), "<=1/16"), (Fraction(1, 8), "<=1/8"), (Fraction(1, 4), "<=1/4"),
              (Fraction(1, 2), "<=1/2"), (Fraction(5, 8), "<=5/8"), (Fraction(3, 4), "<=3/4"), (Fraction(7, 8), "<=7/8"),
              (Fraction(1), "<=1"), (Fraction(2), "<=2"), (Fraction(4), "<=4")]


def fl_in_range(values) -> bool:
    """the standard model has no underflow / overflow: every non-zero input of moderate binary magnitude"""
    for v in values:
        if v != 0 and not (_FL_LO <= abs(Fraction(v)) <= _FL_HI):
            return False
    return True


def fl_bucket(ratio) -> str:
    """histogram bucket of an observed |impl - model| / bound ratio (for the evidence file)"""
    if ratio is None:
        return "none-checked"
    for hi, name in FL_BUCKETS:
        if ratio <= hi:
            return name
    return ">4"


def is_pow2(n: int) -> bool:
    return n > 0 and (n & (n - 1)) == 0


def exact_case(inp) -> bool:
    """every float operation of the implementation is exact on this input"""
    if inp["stream"] != "exact":
        return False
    npos, nneg, ep, en = len(inp["pos"]), len(inp["neg"]), inp["ep"], inp["en"]
    m = inp["metric"]
    if m in ("tpr", "fnr"):
        return is_pow2(npos) and is_pow2(npos + ep)
    if m in ("tnr", "fpr"):
        return is_pow2(nneg) and is_pow2(nneg + en)
    return is_pow2(npos + nneg) and is_pow2(npos + nneg + ep + en)


def gen_targets(rng, inp_n: int, n_all: int, exact: bool, boundary_heavy=False):
    """ascending targets: grid points k/N, off-grid, boundaries, outside [0,1]"""
    rs = set()
    k = rng.randint(3, 8)
    for _ in range(k):
        c = rng.random()
        if c < 0.3 and n_all > 0:
            rs.add(rng.randint(0, n_all) / n_all)  # on the grid of the whole population
        elif c < 0.5 and inp_n > 0:
            rs.add(rng.randint(0, inp_n) / inp_n)  # grid of the scored samples
        elif c < 0.8:
            rs.add(rng.randint(0, 64) / 64.0 if exact else rng.random())
        else:
            rs.add(rng.choice([0.0, 1.0, -0.5, 1.5, -0.0, 0.5]))
    if boundary_heavy:
        rs |= {0.0, 1.0, -0.5, 1.5}
        # out-of-range targets that are not "nice": the interpolation weight is then fractional even though both
        # neighbours are the same extreme score
        rs |= {-rng.random() for _ in range(5)} | {1.0 + rng.random() for _ in range(3)} | {-rng.choice([0.9, 0.37, 0.1, 1.3])}
        if not exact:
            rs |= {gen.down(0.0), gen.up(1.0)}
    return sorted(float(x) for x in rs)


import itertools as _it

_TMS = [list(c) for k in range(1, 4) for c in _it.combinations_with_replacement([0.0, 1.0, 2.5], k)]
# exhaustive small scope (thorough tier): all non-empty multisets over 3 values with <= 3+3 elements
# x 4 configurations x 6 metrics x easy counts {0,1}^2; targets on the 1/(2N) grid of the relevant
# population plus values outside [0,1]
EXH_THR = [(a, b, c, m, e) for a in range(len(_TMS)) for b in range(len(_TMS)) for c in range(4)
           for m in range(6) for e in range(4)]


def exhaustive_thr_input(i):
    a, b, c, m, e = EXH_THR[i]
    pos, neg = list(_TMS[a]), list(_TMS[b])
    ep, en = e // 2, e % 2
    sc, ec = gen.CFGS[c]
    metric = gen.METRICS[m]
    n_all = {"tpr": len(pos) + ep, "fnr": len(pos) + ep, "tnr": len(neg) + en, "fpr": len(neg) + en}.get(
        metric, len(pos) + len(neg) + ep + en)
    rs = sorted(set([k / (2 * n_all) for k in range(0, 2 * n_all + 1)] + [-0.5, 1.5]))
    return {"stream": "exact", "pos": pos, "neg": neg, "ep": ep, "en": en, "sc": sc, "ec": ec,
            "metric": metric, "alias": False, "scalar": False, "intdt": False, "rs": rs}


def expand_scores(v):
    """score lists may be given compactly as {"range": n, "off": x}: the n values off, off+1, ..., off+n-1"""
    if isinstance(v, dict):
        return [float(v["off"]) + k for k in range(int(v["range"]))]
    return v


def gen_big_input(rng):
    """a population so large that a RELATIVE tolerance around a boundary target spans several samples (np.isclose(r, 1.0)
    accepts |r-1| <= 1e-5: more than one sample from N ~ 2e5 on); tie-free integer-valued scores, targets a few samples from
    either end and off the grid"""
    n = 2 ** 19
    metric = rng.choice(gen.METRICS)
    small = {"range": 8, "off": 0.25}
    if metric in ("tpr", "fnr"):
        pos, neg, N = {"range": n, "off": 0.0}, small, n
    elif metric in ("tnr", "fpr"):
        pos, neg, N = small, {"range": n, "off": 0.0}, n
    else:
        pos, neg, N = {"range": n // 2, "off": 0.0}, {"range": n // 2, "off": 0.5}, n
    sc, ec = rng.choice(gen.CFGS)
    ks = [rng.choice([1.5, 2.5, 3.5, 4.25]), rng.choice([2.0, 3.0, 4.0])]
    rs = sorted(set([k / N for k in ks] + [1 - k / N for k in ks] + [rng.random(), 0.0, 1.0]))
    return {"stream": "generic", "pos": pos, "neg": neg, "ep": 0, "en": 0, "sc": sc, "ec": ec, "metric": metric,
            "alias": False, "scalar": rng.random() < 0.5, "intdt": False, "f4dt": False, "rs": rs, "big": N}


def gen_thr_input(rng, i, boundary_heavy=False):
    if i % 200 == 150:
        return gen_big_input(rng)
    stream = "exact" if i % 2 == 0 else "generic"
    pos, neg = gen.score_sets(rng, stream, nmin=1, allow_empty=False)
    if stream == "generic" and rng.random() < 0.3:
        pos, neg = gen.tiefree(rng, max(len(pos), 1), max(len(neg), 1), False)
    if stream == "exact" and rng.random() < 0.3:
        pos, neg = gen.tiefree(rng, len(pos), len(neg), True)
    if rng.random() < 0.08:
        pos = pos[:1]
    if rng.random() < 0.08:
        neg = neg[:1]
    ep, en = gen.easy_counts(rng, stream, len(pos), len(neg))
    if stream == "exact" and rng.random() < 0.5:
        # make the whole population a power of two as well (exactness for TOPR/TONR)
        n = rng.choice([1, 2, 4, 8])
        pos, neg = pos[:n] + pos[:max(0, n - len(pos))], neg[:n] + neg[:max(0, n - len(neg))]
        pos, neg = (pos * n)[:n], (neg * n)[:n]
        c = rng.choice([0, 1, 3, 7])
        ep = en = c * n
    sc, ec = rng.choice(gen.CFGS)
    metric = rng.choice(gen.METRICS)
    intdt = False
    if rng.random() < 0.2:
        # integer-dtype score arrays (the object then holds int arrays)
        pos, neg = [float(round(x)) for x in pos], [float(round(x)) for x in neg]
        intdt = True
    f4dt = False
    if not intdt and stream == "generic" and rng.random() < 0.12:
        # float32 score arrays (values exactly representable; comparisons with float64 thresholds are exact in NumPy)
        pos, neg = [float(np.float32(x)) for x in pos], [float(np.float32(x)) for x in neg]
        f4dt = True
    dtp = dtn = None
    if not intdt and not f4dt and rng.random() < 0.16:
        # per-class dtypes: unsigned integers (differences wrap, negation is not a mirror image) and MIXED dtypes (integer
        # positives with fractional negatives, float32 with float64): whatever merges the two classes must promote, not cast
        kind = rng.choice(["uu", "uu", "if", "if", "fi", "4f", "f4"])
        if kind == "uu":
            dtp = dtn = rng.choice(["u1", "u2"])
            pos, neg = [float(abs(round(x)) % 250) for x in pos], [float(abs(round(x)) % 250) for x in neg]
        elif kind == "if":
            dtp, dtn = "i8", "f8"
            pos = [float(round(x)) for x in pos]
        elif kind == "fi":
            dtp, dtn = "f8", "i8"
            neg = [float(round(x)) for x in neg]
        elif kind == "4f":
            dtp, dtn = "f4", "f8"
            pos = [float(np.float32(x)) for x in pos]
        else:
            dtp, dtn = "f8", "f4"
            neg = [float(np.float32(x)) for x in neg]
    prior_calls = None
    if rng.random() < 0.3:
        # earlier queries on the SAME object, in a random order (a cache keyed too coarsely shows only for some orders)
        prior_calls = []
        for _ in range(rng.randint(1, 4)):
            m_ = rng.choice(gen.METRICS + ["cm", "rate"])
            if m_ == "cm":
                prior_calls.append(["cm", [0.0, 1.0]])
            elif m_ == "rate":
                prior_calls.append([rng.choice(gen.METRICS), 0.5])
            else:
                prior_calls.append(["threshold_at_" + m_, rng.choice([0.5, 0.25, 0.0, 1.0, rng.random()]),
                                    rng.choice(gen.METHODS)])
    inp = {"stream": stream, "pos": pos, "neg": neg, "ep": ep, "en": en, "sc": sc, "ec": ec,
           "metric": metric, "alias": rng.random() < 0.3, "scalar": rng.random() < 0.3, "intdt": intdt, "f4dt": f4dt,
           "prior": prior_calls is None and rng.random() < 0.1, "prior_calls": prior_calls, "dtp": dtp, "dtn": dtn,
           "route": routes.pick(rng, 0.12) if (dtp is None and not intdt and not f4dt) else None,
           "rseed": rng.randint(0, 2**31 - 1),
           # how the constructor receives the scores: two views of one caller buffer (with further objects built from
           # overlapping regions afterwards), or read-only arrays (what a pandas column hands out)
           "ctor": rng.choice([None] * 8 + ["views", "readonly"]) if (dtp is None and not intdt and not f4dt) else None}
    if (prior_calls or inp["prior"]) and dtp is None and not intdt and not f4dt and not inp["route"] and rng.random() < 0.3:
        # the object's scores are REPLACED after the earlier queries (what FraudScores' genuines= / frauds= setters do: plain
        # assignment of pos / neg) by the same number of scores with a different range: anything remembered from the earlier
        # queries is stale now
        sh_ = rng.choice([-7.0, 5.0, 100.0])
        k_ = rng.choice([0.5, 2.0, 4.0])
        inp["reassign"] = True
        inp["pos0"], inp["neg0"] = pos, neg
        inp["pos"] = [k_ * x + sh_ for x in pos]
        inp["neg"] = [k_ * x + sh_ * rng.choice([1.0, 0.5]) for x in neg]
        pos, neg = inp["pos"], inp["neg"]
    n_rel = {"tpr": len(pos), "fnr": len(pos), "tnr": len(neg), "fpr": len(neg)}.get(metric, len(pos) + len(neg))
    n_all = {"tpr": len(pos) + ep, "fnr": len(pos) + ep, "tnr": len(neg) + en, "fpr": len(neg) + en}.get(
        metric, len(pos) + len(neg) + ep + en)
    inp["rs"] = gen_targets(rng, n_rel, n_all, exact_case(inp), boundary_heavy)
    return inp


def cells(cm) -> list:
    m = np.asarray(cm.matrix).reshape(-1, 2, 2)
    return [int(v) for x in m for v in (x[0, 0], x[0, 1], x[1, 0], x[1, 1])]


def build_thr(pid: str, inp, clauses) -> Case:
    from score_analysis import Scores

    inp = dict(inp)
    pre0_ = []
    rs = [float(common.unjson_num(x)) for x in inp["rs"]]
    inp["rs"] = rs
    pos, neg = expand_scores(inp["pos"]), expand_scores(inp["neg"])
    NPDT = {"f8": np.float64, "i8": np.int64, "f4": np.float32, "u1": np.uint8, "u2": np.uint16}
    if inp.get("dtp") or inp.get("dtn"):
        s = Scores(np.array(pos, dtype=NPDT[inp.get("dtp") or "f8"]), np.array(neg, dtype=NPDT[inp.get("dtn") or "f8"]),
                   nb_easy_pos=inp["ep"], nb_easy_neg=inp["en"], score_class=inp["sc"], equal_class=inp["ec"])
    elif inp.get("intdt"):
        s = Scores(np.array(pos, dtype=int), np.array(neg, dtype=int), nb_easy_pos=inp["ep"],
                   nb_easy_neg=inp["en"], score_class=inp["sc"], equal_class=inp["ec"])
    elif inp.get("f4dt"):
        s = Scores(np.array(pos, dtype=np.float32), np.array(neg, dtype=np.float32), nb_easy_pos=inp["ep"],
                   nb_easy_neg=inp["en"], score_class=inp["sc"], equal_class=inp["ec"])
    elif inp.get("ctor") == "views" and not inp.get("reassign") and not inp.get("big"):
        s, changed_ = routes.from_views(Scores, pos, neg, nb_easy_pos=inp["ep"], nb_easy_neg=inp["en"], score_class=inp["sc"],
                                        equal_class=inp["ec"])
        if changed_:
            pre0_ = [Issue("PROPFAIL", "bracket", "constructing Scores objects from views of one score vector: " + changed_ +
                           " (objects built earlier no longer hold the scores they were given)", "ctor/caller-array-modified")]
    elif inp.get("ctor") == "readonly" and not inp.get("reassign") and not inp.get("big"):
        pa_, na_ = np.array(pos, dtype=float), np.array(neg, dtype=float)
        pa_.flags.writeable = False
        na_.flags.writeable = False
        r_ro = common.call(Scores, pa_, na_, nb_easy_pos=inp["ep"], nb_easy_neg=inp["en"], score_class=inp["sc"], equal_class=inp["ec"])
        if r_ro[0] == "exc":
            return Case(pid, inp, [], lambda outs: [], ("ctor=readonly",), 0,
                        [Issue("PROPFAIL", "raises", f"Scores(read-only arrays) raised {r_ro[1]}: {r_ro[2]}", f"ctor/raises/readonly/{r_ro[1]}")])
        s = r_ro[1]
    elif inp.get("reassign"):
        s = Scores(expand_scores(inp["pos0"]), expand_scores(inp["neg0"]), nb_easy_pos=inp["ep"], nb_easy_neg=inp["en"],
                   score_class=inp["sc"], equal_class=inp["ec"])
    else:
        s = Scores(pos, neg, nb_easy_pos=inp["ep"], nb_easy_neg=inp["en"], score_class=inp["sc"],
                   equal_class=inp["ec"])
    metric = inp["metric"]
    name = "threshold_at_" + (gen.ALIASES[metric] if inp["alias"] else metric)
    ep_, en_, sc_, ec_ = inp["ep"], inp["en"], inp["sc"], inp["ec"]
    routed = False
    if inp.get("route") and not inp.get("big"):
        # the object reaches the queries through an alternative route (harness/routes.py); the model is given the scores,
        # easy counts and flags the derived object holds
        r_ = routes.apply(s, inp["route"], inp.get("rseed", 0))
        if r_ is not None and len(r_[1]) + len(r_[2]) > 0:
            s, pos, neg, ep_, en_, sc_, ec_ = r_
            routed = True
    fn = getattr(s, name)
    if inp.get("prior"):
        # earlier queries on the SAME object: threshold setting is a query, its result must not depend on them
        for nm_, args_ in (("threshold_at_topr", (0.5,)), ("threshold_at_tonr", (0.25,)), ("threshold_at_fnr", (0.75,)),
                           ("threshold_at_fpr", (0.125,)), ("cm", (np.array([0.0, 1.0]),)), ("tpr", (0.5,))):
            common.call(getattr(s, nm_), *args_)
    for pc in inp.get("prior_calls") or []:
        if pc[0] == "cm":
            common.call(s.cm, np.array(pc[1]))
        elif pc[0].startswith("threshold_at_"):
            common.call(getattr(s, pc[0]), pc[1], method=pc[2])
        else:
            common.call(getattr(s, pc[0]), pc[1])
    if inp.get("reassign"):
        s.pos = np.sort(np.asarray(pos, dtype=float))
        s.neg = np.sort(np.asarray(neg, dtype=float))
    pre = list(pre0_)
    ex = exact_case(inp) and not (routed and inp["route"].startswith("sample"))
    scale = max([abs(x) for x in pos + neg] + [1.0]) if not inp.get("big") else 1.0  # integer-valued scores: exact
    th = {}
    # one target array, kept by the caller and used for all three methods (the way a caller compares the methods, and the
    # round trip is judged against the targets the caller holds)
    target_arr = np.array(rs, dtype=float)
    for meth in gen.METHODS:
        if inp["scalar"]:
            vals = []
            for r in rs:
                res = common.call(fn, r, method=meth)
                if res[0] == "exc":
                    pre.append(Issue("PROPFAIL", "raises", f"{name}({r},{meth}) raised {res[1]}: {res[2]}", f"thr/raises/{res[1]}"))
                    vals.append(0.0)
                else:
                    if isinstance(res[1], np.ndarray):
                        pre.append(Issue("PROPFAIL", "scalar", f"{name}(scalar) returned an array", "thr/scalar"))
                    vals.append(float(res[1]))
            th[meth] = vals
        else:
            res = common.call(fn, target_arr, method=meth)
            if not np.array_equal(target_arr, np.array(rs, dtype=float)):
                pre.append(Issue("PROPFAIL", "targets", f"{name}(targets, {meth}) changed the caller's target array from {rs[:6]} to "
                                 f"{target_arr.tolist()[:6]} (ep={inp['ep']} en={inp['en']}): the metric at the returned thresholds is no "
                                 f"longer within one sample of the targets the caller holds", f"thr/{metric}/targets-mutated"))
                target_arr = np.array(rs, dtype=float)
            if res[0] == "exc":
                pre.append(Issue("PROPFAIL", "raises", f"{name}({rs},{meth}) raised {res[1]}: {res[2]}", f"thr/raises/{res[1]}"))
                th[meth] = [0.0] * len(rs)
            else:
                th[meth] = [float(x) for x in np.asarray(res[1]).reshape(-1)]
    tl, tlo, thi = th["linear"], th["lower"], th["higher"]
    cl, clo, chi = cells(s.cm(np.array(tl))), cells(s.cm(np.array(tlo))), cells(s.cm(np.array(thi)))
    # "just below / just above": a few ulp away (C02 allows thresholds to be off by a few ulp,
    # because interpolating between two equal scores may return the score +- one ulp)
    tb = ta = np.array(tl)
    for _ in range(4):
        tb = np.nextafter(tb, -np.inf)
        ta = np.nextafter(ta, np.inf)
    cb = cells(s.cm(tb))
    ca = cells(s.cm(ta))
    # extreme targets handed over in LOW PRECISION (np.float32 / np.float16 scalars and arrays: 0 and 1 are exact in every
    # float format): the threshold must realise the same extreme of the metric as for the float64 target, whose matrices
    # `cl` are judged against the model below
    ext = [(k_, r_) for k_, r_ in enumerate(rs) if r_ in (0.0, 1.0)]
    if ext and not inp.get("big"):
        for ldt in (np.float32, np.float16):
            arr_l = np.array([r_ for _, r_ in ext], dtype=ldt)
            for form, arg in (("array", arr_l), ("scalar", ldt(ext[0][1]))):
                rl = common.call(fn, arg)
                if rl[0] == "exc":
                    pre.append(Issue("PROPFAIL", "raises", f"{name}({ldt.__name__} {form} target {np.asarray(arg).tolist()}) raised {rl[1]}: {rl[2]}",
                                     f"thr/raises/lowprec/{rl[1]}"))
                    continue
                tl_l = np.asarray(rl[1], dtype=float).reshape(-1)
                cells_l = cells(s.cm(tl_l))
                want = [v for k_, _ in (ext if form == "array" else ext[:1]) for v in cl[4 * k_:4 * k_ + 4]]
                if cells_l != want:
                    pre.append(Issue("PROPFAIL", "extreme", f"{name}({ldt.__name__} {form} target {np.asarray(arg).tolist()}) = {tl_l.tolist()}: matrices "
                                     f"{cells_l} there, but the float64 targets give thresholds with matrices {want} (cfg=({sc_},{ec_}) ep={ep_} en={en_})",
                                     f"thr/{metric}/extreme/low-precision-target"))
    eps = Fraction(0) if ex else Fraction(1, 10**9)
    epst = Fraction(0) if ex else Fraction(1, 10**9) * Fraction(scale + 1)
    ln = line("thr", pos=ql(pos), neg=ql(neg), ep=ep_, en=en_, sc=sc_, ec=ec_,
              sorted=0, metric=metric, rs=ql(rs), eps=q(eps), epst=q(epst), tl=ql(tl), tlo=ql(tlo),
              thi=ql(thi), cl=il(cl), clo=il(clo), chi=il(chi), cb=il(cb), ca=il(ca))
    # second line: the theorem-derived bound between the float threshold and the exact model's (op `flbound`)
    ln2 = line("flbound", pos=ql(pos), neg=ql(neg), ep=ep_, en=en_, sc=sc_, ec=ec_,
               sorted=0, metric=metric, rs=ql(rs), u=q(U53))
    fl_ok_inputs = fl_in_range(pos) and fl_in_range(neg)
    inp["_evals"] = 3 * len(rs)
    case = Case(pid, inp, [ln, ln2], None, (), 0, pre)
    tags = [inp["stream"], f"cfg={sc_},{ec_}", f"metric={metric}",
            "exact-arith" if ex else "float-arith"]
    if ep_ or en_:
        tags.append("easy")
    if routed:
        tags.append("route=" + inp["route"])
    if inp.get("intdt"):
        tags.append("int-dtype")
    if inp.get("f4dt"):
        tags.append("float32-dtype")
    if inp.get("big"):
        tags.append("population>=2**19")
    if inp.get("reassign"):
        tags.append("scores-reassigned-after-queries")
    if inp.get("prior") or inp.get("prior_calls"):
        tags.append("prior-calls")
    if inp.get("dtp") or inp.get("dtn"):
        tags.append(f"dtypes={inp.get('dtp')}/{inp.get('dtn')}")
    if len(set(pos)) < len(pos) or len(set(neg)) < len(neg) or set(pos) & set(neg):
        tags.append("ties")
    if any(r <= 0 or r >= 1 for r in rs):
        tags.append("boundary-target")
    case.tags = tuple(tags)

    def judge(outs):
        o = outs[0]
        iss = []
        if "err" in o:
            iss.append(Issue("DISAGREE", "error", f"model raises {o['err']} but implementation returned", "thr/error"))
            return iss
        ml, mlo, mhi = common.pfracs(o["ml"]), common.pfracs(o["mlo"]), common.pfracs(o["mhi"])
        dist = common.pfracs(o["dist"])
        near = [(not ex) and d < Fraction(1, 10**6) and 0 < r < 1 for d, r in zip(dist, rs)]
        for k, r in enumerate(rs):
            if not common.close(tl[k], ml[k], rel=Fraction(1, 10**9), abs_=Fraction(1, 10**9), scale=scale):
                iss.append(Issue("DISAGREE", "linear", f"{name}({r}) impl={tl[k]} model={float(ml[k])}", f"thr/{metric}/linear"))
            if near[k]:
                case.skipped += 2
            else:
                if common.fr(tlo[k]) != mlo[k]:
                    iss.append(Issue("DISAGREE", "lower", f"{name}({r},lower) impl={tlo[k]} model={float(mlo[k])}", f"thr/{metric}/lower"))
                if common.fr(thi[k]) != mhi[k]:
                    iss.append(Issue("DISAGREE", "higher", f"{name}({r},higher) impl={thi[k]} model={float(mhi[k])}", f"thr/{metric}/higher"))
        # --- float-bound: |impl - model| against the bound of SA.thresholdAt_fl_error (same neighbours) or
        # SA.thresholdAt_fl_error_lip (sorted array, any cell), for interior targets; FLBOUND_SLACK on top
        o2 = outs[1]
        worst = None
        if "err" not in o2 and fl_ok_inputs:
            f_ok, f_int, f_same = common.plist(o2["ok"]), common.plist(o2["interior"]), common.plist(o2["same"])
            f_eps, f_lip = common.pfracs(o2["eps"]), common.pfracs(o2["epslip"])
            for k, r in enumerate(rs):
                a_ = common.fr(tl[k])
                if f_ok[k] != "1" or f_int[k] != "1" or a_ is None or isinstance(a_, float) or not fl_in_range([r]):
                    continue  # a special case applies (or may apply within rounding): sentinel values, compared above
                bound = f_eps[k] if f_same[k] == "1" else f_lip[k]
                d = abs(a_ - ml[k])
                ratio = d / bound if bound > 0 else (Fraction(0) if d == 0 else Fraction(10**6))
                worst = ratio if worst is None or ratio > worst else worst
                if d > FLBOUND_SLACK * bound:
                    iss.append(Issue("DISAGREE", "float-bound", f"{name}({r}) impl={tl[k]} model={float(ml[k])} differ by "
                                     f"{float(d):.3e} > {FLBOUND_SLACK} x {float(bound):.3e} (theorem bound, "
                                     f"{'same neighbours' if f_same[k] == '1' else 'Lipschitz'}; ratio {float(ratio):.2f})",
                                     f"thr/{metric}/float-bound"))
        case.tags = case.tags + ("float-bound ratio " + fl_bucket(worst),)
        for cl_ in clauses:
            vals = common.plist(o["spec." + cl_]) if o["spec." + cl_].startswith("[") else [o["spec." + cl_]]
            for k, b in enumerate(vals):
                if b == "1":
                    continue
                if cl_ in ("convex", "member") and k < len(near) and near[k]:
                    case.skipped += 1
                    continue
                r = rs[k] if cl_ != "monotone" else rs
                iss.append(Issue("PROPFAIL", cl_, f"{name} target={r} cfg=({sc_},{ec_}) ep={ep_} en={en_}{' route=' + inp['route'] if routed else ''} "
                                 f"thr lin/lo/hi={tl[k] if cl_!='monotone' else tl}/{tlo[k] if cl_!='monotone' else ''}/{thi[k] if cl_!='monotone' else ''} "
                                 f"cm={cl[4*k:4*k+4] if cl_!='monotone' else ''}", f"thr/{metric}/{cl_}"))
        return iss

    case.judge = judge
    return case


def shrink_thr(inp):
    if inp.get("big"):
        # compact populations: halve the ranges (the failure may need the size), then drop targets
        for key in ("pos", "neg"):
            v = inp[key]
            if isinstance(v, dict) and v["range"] > 16:
                c = dict(inp); c[key] = {"range": v["range"] // 2, "off": v["off"]}; yield c
        if len(inp["rs"]) > 1:
            for i in range(len(inp["rs"])):
                c = dict(inp); c["rs"] = inp["rs"][:i] + inp["rs"][i + 1:]; yield c
        return
    for key in ("pos", "neg"):
        xs = inp[key]
        if len(xs) > 1:
            for i in range(len(xs)):
                c = dict(inp); c[key] = xs[:i] + xs[i + 1:]; yield c
    if len(inp["rs"]) > 1:
        for i in range(len(inp["rs"])):
            c = dict(inp); c["rs"] = inp["rs"][:i] + inp["rs"][i + 1:]; yield c
    for key in ("ep", "en"):
        if inp[key] > 0:
            c = dict(inp); c[key] = 0; yield c
            c = dict(inp); c[key] = 1; yield c
    for key in ("pos", "neg"):
        xs = inp[key]
        for i, x in enumerate(xs):
            if x != round(x):
                c = dict(inp); c[key] = xs[:i] + [float(round(x))] + xs[i + 1:]; yield c
