/-
Model driver: reads one operation per line on stdin, runs the model definitions (the same
ones the theorems are about) and the executable spec predicates, writes one line per input.
-/
import SA.Driver.Wire
import SA.Driver.OpsC01
import SA.Driver.OpsC02
import SA.Driver.OpsC04
import SA.Driver.OpsC05
import SA.Driver.OpsC06
import SA.Driver.OpsC07
import SA.Driver.OpsC08
import SA.Driver.OpsC10
import SA.Driver.OpsC11
import SA.Driver.OpsC12
import SA.Driver.OpsC13
import SA.Driver.OpsC14
import SA.Driver.OpsC15
import SA.Driver.OpsC16
import SA.Driver.OpsC16Fwb
import SA.Driver.OpsC17
import SA.Driver.OpsC18
import SA.Driver.OpsC19
import SA.Driver.OpsC20
import SA.Driver.OpsC11Unbiased
import SA.Driver.OpsC13Vec
import SA.Driver.OpsFloat
import SA.Driver.OpsC16Script
import SA.Driver.OpsC18Script
import SA.Driver.OpsFloat2

open SA SA.Wire

def allOps : List (String × (Args → Except String String)) :=
  SA.Ops.opsC01 ++ SA.Ops.opsC02 ++ SA.Ops.opsC04 ++ SA.Ops.opsC05 ++ SA.Ops.opsC06 ++ SA.Ops.opsC07 ++ SA.Ops.opsC08 ++ SA.Ops.opsC10 ++ SA.Ops.opsC11 ++ SA.Ops.opsC12 ++ SA.Ops.opsC13 ++ SA.Ops.opsC14 ++ SA.Ops.opsC15 ++ SA.Ops.opsC16 ++ SA.Ops.opsC16Fwb ++ SA.Ops.opsC17 ++ SA.Ops.opsC18 ++ SA.Ops.opsC19 ++ SA.Ops.opsC20 ++ SA.Ops.opsC11Unbiased ++ SA.Ops.opsC13Vec ++ SA.Ops.opsFloat ++ SA.Ops.opsC16Script ++ SA.Ops.opsC18Script ++ SA.Ops.opsFloat2

def step (line : String) : String :=
  let (op, args) := parseLine line
  match allOps.lookup op with
  | none => s!"ERR unknown-op {op}"
  | some f =>
    match f args with
    | .ok s => s
    | .error e => "ERR " ++ (e.replace "\n" " ")

partial def loop (h : IO.FS.Stream) (o : IO.FS.Stream) : IO Unit := do
  let line ← h.getLine
  if line.isEmpty then return ()
  o.putStrLn (step line)
  loop h o

def main : IO Unit := do
  loop (← IO.getStdin) (← IO.getStdout)
