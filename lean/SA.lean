import SA.Model.Basic
import SA.Proofs.Bisect
import SA.Theorems.C01
