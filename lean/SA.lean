import SA.Model.Basic
import SA.Model.Threshold
import SA.Spec.C01
import SA.Spec.C02
import SA.Proofs.Bisect
import SA.Proofs.Threshold
import SA.Theorems.C01
import SA.Theorems.C03
