import SA.Driver.Wire
import SA.Spec.C01

namespace SA.Ops
open SA SA.Wire

def chunk4 : List Nat → List CM
  | a :: b :: c :: d :: rest => ⟨a, b, c, d⟩ :: chunk4 rest
  | _ => []

def flatCM (ms : List CM) : List Nat := ms.flatMap fun m => [m.tp, m.fn, m.fp, m.tn]

/-- op `cm`: Scores keys, `ts` thresholds, `icms` implementation matrices (flattened). -/
def opCm (a : Args) : Except String String := do
  let pos ← getRats a "pos"
  let neg ← getRats a "neg"
  let ep ← getNat a "ep"
  let en ← getNat a "en"
  let cfg ← getCfg a
  let srt ← getBool a "sorted"
  let ts ← getERats a "ts"
  let icms := chunk4 (← getNats a "icms")
  let s := Scores.make pos neg ep en cfg srt
  let ms := ts.map s.cm
  let cells := (ts.zip icms).map fun (t, m) => Spec.C01.cellsOK pos neg ep en cfg t m
  let totals := icms.map fun m => Spec.C01.totalsOK pos neg ep en m
  pure (out [("ms", fmtList toString (flatCM ms)),
    ("spos", fmtList fmtRat s.pos), ("sneg", fmtList fmtRat s.neg),
    ("spec.cells", fmtList fmtBool cells), ("spec.totals", fmtList fmtBool totals)])

/-- op `pwcm`: `lab` (1 = positive), `sco`, cfg, `ts`, `icms` sums of the pointwise array. -/
def opPwcm (a : Args) : Except String String := do
  let lab ← getBools a "lab"
  let sco ← getRats a "sco"
  let cfg ← getCfg a
  let ts ← getERats a "ts"
  let icms := chunk4 (← getNats a "icms")
  let samples := lab.zip sco
  let ms := ts.map (pointwiseSum cfg samples)
  let ok := (ts.zip icms).map fun (t, m) => Spec.C01.pointwiseOK cfg samples t m
  pure (out [("ms", fmtList toString (flatCM ms)), ("spec.pointwise", fmtList fmtBool ok)])

def opsC01 : List (String × (Args → Except String String)) :=
  [("cm", opCm), ("pwcm", opPwcm)]

end SA.Ops
