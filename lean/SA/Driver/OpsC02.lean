import SA.Driver.Wire
import SA.Driver.OpsC01
import SA.Spec.C02

namespace SA.Ops
open SA SA.Wire SA.Spec

def fmtErr : Err → String
  | .valueError => "ValueError"
  | .typeError => "TypeError"
  | .zeroDivisionError => "ZeroDivisionError"
  | .other => "Other"
  | .keyError => "KeyError"

def parseMethod (s : String) : Except String Method :=
  match s with
  | "linear" => .ok .linear
  | "lower" => .ok .lower
  | "higher" => .ok .higher
  | _ => .error s!"bad method {s}"

def allB (l : List Bool) : Bool := l.all id

/-- distance of `x` from the nearest integer -/
def distInt (x : Rat) : Rat :=
  let f : Rat := x - (x.floor : Int)
  min f (1 - f)

/-- op `thr`: threshold setting for one metric and a list of ascending targets.
Inputs: Scores keys, `metric`, `rs`, `eps`, `epst`; observed thresholds `tl tlo thi`,
observed matrices at them `cl clo chi`, and just below/above the linear one `cb ca`. -/
def opThr (a : Args) : Except String String := do
  let s ← getScores a
  let metric ← parseMetric (← get a "metric")
  let rs ← getRats a "rs"
  let u := Ulp.float64
  match s.thresholdAt u metric 0 .linear with
  | .error e => pure (out [("err", fmtErr e)])
  | .ok _ =>
    let eps ← getRat a "eps"
    let epst ← getRat a "epst"
    let tl ← getRats a "tl"
    let tlo ← getRats a "tlo"
    let thi ← getRats a "thi"
    let cl := chunk4 (← getNats a "cl")
    let clo := chunk4 (← getNats a "clo")
    let chi := chunk4 (← getNats a "chi")
    let cb := chunk4 (← getNats a "cb")
    let ca := chunk4 (← getNats a "ca")
    let model (m : Method) : List Rat := rs.map fun r =>
      match s.thresholdAt u metric r m with
      | .ok t => t
      | .error _ => 0
    let arr := s.metricArray metric
    let dist := rs.map fun r =>
      let n := normalise s.cfg (s.rescale metric r) metric.increasing metric.ratioClass .linear
      distInt (indexTarget arr n.1 n.2.1)
    let z5 := rs.zip (tl.zip (tlo.zip (thi.zip (cl.zip (clo.zip (chi.zip (cb.zip ca)))))))
    let extreme := z5.map fun (r, _, _, _, ml, mlo, mhi, _, _) =>
      C03.extremeOK s metric r ml && C03.extremeOK s metric r mlo && C03.extremeOK s metric r mhi
    let bracket := z5.map fun (r, _, _, _, _, _, _, mb, ma) => C02.bracketOK s metric r eps mb ma
    let tiefree := z5.map fun (r, _, _, _, ml, _, _, _, _) => C02.tiefreeOK s metric r eps ml
    let member := z5.map fun (_, _, lo, hi, _, _, _, _, _) =>
      C02.memberOK u s metric lo && C02.memberOK u s metric hi
    let order := z5.map fun (_, _, _, _, _, mlo, mhi, _, _) => C02.orderOK metric mlo mhi
    let between := z5.map fun (_, l, lo, hi, _, _, _, _, _) => C02.betweenOK l lo hi epst
    let convex := z5.map fun (r, l, lo, hi, _, _, _, _, _) => C02.convexOK s metric r l lo hi epst
    let mono := C02.monotoneOK s.cfg metric epst tl && C02.monotoneOK s.cfg metric epst tlo
      && C02.monotoneOK s.cfg metric epst thi
    pure (out [("ml", fmtList fmtRat (model .linear)), ("mlo", fmtList fmtRat (model .lower)),
      ("mhi", fmtList fmtRat (model .higher)), ("dist", fmtList fmtRat dist),
      ("spec.extreme", fmtList fmtBool extreme), ("spec.bracket", fmtList fmtBool bracket),
      ("spec.tiefree", fmtList fmtBool tiefree), ("spec.member", fmtList fmtBool member),
      ("spec.order", fmtList fmtBool order), ("spec.between", fmtList fmtBool between),
      ("spec.convex", fmtList fmtBool convex), ("spec.monotone", fmtBool mono)])

/-- op `nextafter`: cross-check of the float64 neighbour function against numpy. -/
def opNextafter (a : Args) : Except String String := do
  let xs ← getRats a "xs"
  pure (out [("up", fmtList fmtRat (xs.map f64Up)), ("down", fmtList fmtRat (xs.map f64Down))])

def opsC02 : List (String × (Args → Except String String)) :=
  [("thr", opThr), ("nextafter", opNextafter)]

end SA.Ops
