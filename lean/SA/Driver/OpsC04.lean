import SA.Driver.Wire
import SA.Spec.C04

namespace SA.Ops
open SA SA.Wire SA.Spec.C04

def getCMq (a : Args) (k : String) : Except String CMq := do
  match ← getRats a k with
  | [w, x, y, z] => pure ⟨w, x, y, z⟩
  | _ => .error s!"bad cmq {k}"

def ratesOfList : List (Option Rat) → Except String Rates
  | [a, b, c, d, e, f, g, h, i, j, k, l] => .ok ⟨a, b, c, d, e, f, g, h, i, j, k, l⟩
  | _ => .error "need 12 rates"

def listOfRates (r : Rates) : List (Option Rat) :=
  [r.tpr, r.fnr, r.tnr, r.fpr, r.ppv, r.fdr, r.npv, r.for_, r.topr, r.tonr, r.acc, r.err]

/-- op `metrics`: one 2x2 matrix, observed counts and rates -/
def opMetrics (a : Args) : Except String String := do
  let m ← getCMq a "m"
  let eps ← getRat a "eps"
  let obs ← ratesOfList (← getORats a "rates")
  let cnt ← getRats a "cnt"
  let countsOk := match cnt with
    | [p, n, top, ton, pop] =>
      countsOK eps p n top ton pop && near eps p m.p && near eps n m.n && near eps top m.top
        && near eps ton m.ton && near eps pop m.pop
    | _ => false
  pure (out [("rates", fmtList fmtORat (listOfRates (modelRates m))),
    ("spec.counts", fmtBool countsOk),
    ("spec.complements", fmtBool (complementsOK eps obs)),
    ("spec.range", fmtBool (rangeOK eps obs)),
    ("spec.nan", fmtBool (nanOK m obs)),
    ("spec.definitions", fmtBool (definitionsOK eps m obs))])

def pairsOf : List (Option Rat) → List (Option (Rat × Rat))
  | some lo :: some hi :: rest => some (lo, hi) :: pairsOf rest
  | _ :: _ :: rest => none :: pairsOf rest
  | _ => []

/-- op `ci`: observed intervals `[tpr, tnr, fpr, fnr]` (each lo,hi) at two alphas -/
def opCi (a : Args) : Except String String := do
  let m ← getCMq a "m"
  let eps ← getRat a "eps"
  let z1 ← getRat a "z1"
  let z2 ← getRat a "z2"
  let ci1 := pairsOf (← getORats a "ci1")
  let ci2 := pairsOf (← getORats a "ci2")
  let cn : List (Rat × Rat) := [(m.tp, m.p), (m.tn, m.n), (m.fp, m.n), (m.fn, m.p)]
  let parts := cn.map fun (c, n) => binomialCIParts c n
  let ciok1 := (cn.zip ci1).map fun ((c, n), o) => ciOK eps z1 c n o
  let ciok2 := (cn.zip ci2).map fun ((c, n), o) => ciOK eps z2 c n o
  let mirror := match ci1 with
    | [t, tn, fp, fn] => [mirrorOK eps t fn, mirrorOK eps tn fp]
    | _ => [false]
  -- z1 ≥ z2 is arranged by the harness (alpha1 ≤ alpha2)
  let nested := (ci1.zip ci2).map fun (x, y) => nestedOK eps x y
  let fmtParts := parts.flatMap fun
    | none => ["nan", "nan"]
    | some (p, v) => [fmtRat p, fmtRat v]
  pure (out [("parts", "[" ++ String.intercalate "," fmtParts ++ "]"),
    ("spec.ci", fmtList fmtBool (ciok1 ++ ciok2)), ("spec.mirror", fmtList fmtBool mirror),
    ("spec.nested", fmtList fmtBool nested)])

def opsC04 : List (String × (Args → Except String String)) :=
  [("metrics", opMetrics), ("ci", opCi)]

end SA.Ops
