import SA.Driver.Wire
import SA.Driver.OpsC02
import SA.Driver.OpsC04
import SA.Spec.C05

namespace SA.Ops
open SA SA.Wire SA.Spec.C04 SA.Spec.C05

def getOptNats (a : Args) (k : String) : Except String (Option (List Nat)) := do
  let v ← get a k
  if v = "none" then pure none else pure (some (← parseList parseNat v))

def getOptRats (a : Args) (k : String) : Except String (Option (List Rat)) := do
  let v ← get a k
  if v = "none" then pure none else pure (some (← parseList parseRat v))

/-- `cnt` consecutive blocks of length `k` -/
def chunks {α} (k : Nat) : Nat → List α → List (List α)
  | 0, _ => []
  | cnt + 1, l => l.take k :: chunks k cnt (l.drop k)

/-- blocks of the given lengths -/
def splitLens {α} : List Nat → List α → List (List α)
  | [], _ => []
  | k :: ks, l => l.take k :: splitLens ks (l.drop k)

def fmtMat (n : Nat) (M : Mat) : String := fmtList fmtRat (Mat.toList n M)

def specOrNa (impl_ok : Bool) (b : Bool) : String := if impl_ok then fmtBool b else "na"

/-- common tail: model result versus the observed matrix / classes -/
def reportCM (res : Except Err CMat) (implOk : Bool) (obs : List Rat) (obsClasses : List Nat)
    (specName : String) (spec : CMat → Mat → Bool) : String :=
  match res with
  | .error e => out [("err", fmtErr e)]
  | .ok cm =>
    let O := Mat.ofList cm.n obs
    out [("err", "none"), ("n", toString cm.n), ("classes", fmtList toString cm.classes),
      ("m", fmtMat cm.n cm.m),
      ("spec." ++ specName, specOrNa implOk (spec cm O)),
      ("spec.classes", specOrNa implOk (obsClasses == cm.classes)),
      ("spec.shape", specOrNa implOk (obs.length == cm.n * cm.n))]

/-- op `cmbuild`: labels / predictions / weights route.
keys: classes (list|none) labels preds weights (list|none) eps exc (none|Name) obs obsclasses -/
def opCmBuild (a : Args) : Except String String := do
  let classes ← getOptNats a "classes"
  let labels ← getNats a "labels"
  let preds ← getNats a "preds"
  let weights ← getOptRats a "weights"
  let eps ← getRat a "eps"
  let implOk := (← get a "exc") == "none"
  let obs ← getRats a "obs"
  let obsClasses ← getNats a "obsclasses"
  let res := fromPredictions classes labels preds weights
  let samples := match mkSamples labels preds weights with
    | .ok s => s
    | .error _ => []
  pure (reportCM res implOk obs obsClasses "entry" fun cm O => entryOK eps cm.classes samples O)

/-- op `cmmatrix`: array / dict / frame routes.
route=array: n vals;  route=dict: keys lens ck vals;  route=frame: rows cols vals.
common keys: classes (list|none) eps exc obs obsclasses -/
def opCmMatrix (a : Args) : Except String String := do
  let route ← get a "route"
  let classes ← getOptNats a "classes"
  let eps ← getRat a "eps"
  let implOk := (← get a "exc") == "none"
  let obs ← getRats a "obs"
  let obsClasses ← getNats a "obsclasses"
  let vals ← getRats a "vals"
  match route with
  | "array" =>
    let n ← getNat a "n"
    let M := Mat.ofList n vals
    pure (reportCM (fromArray n M classes) implOk obs obsClasses "reorder"
      fun cm O => reorderOK eps (byLabel cm.classes M) cm.classes O)
  | "dict" =>
    let keys ← getNats a "keys"
    let lens ← getNats a "lens"
    let ck ← getNats a "ck"
    let rowKeys := splitLens lens ck
    let rowVals := splitLens lens vals
    let d : DictMat := ⟨keys, rowKeys, fun r k => (rowVals.getD r []).getD k 0⟩
    pure (reportCM (fromDict d classes) implOk obs obsClasses "reorder"
      fun cm O => reorderOK eps d.get cm.classes O)
  | "frame" =>
    let rows ← getNats a "rows"
    let cols ← getNats a "cols"
    let M : Mat := fun i j => vals.getD (i * cols.length + j) 0
    pure (reportCM (fromFrame rows cols M classes) implOk obs obsClasses "reorder"
      fun cm O => reorderOK eps (byLabel2 rows cols M) cm.classes O)
  | _ => .error s!"bad route {route}"

/-- op `bylabel`: two observed matrices over reordered class lists agree label by label -/
def opByLabel (a : Args) : Except String String := do
  let c1 ← getNats a "c1"
  let c2 ← getNats a "c2"
  let m1 ← getRats a "m1"
  let m2 ← getRats a "m2"
  let eps ← getRat a "eps"
  let M1 := Mat.ofList c1.length m1
  let M2 := Mat.ofList c2.length m2
  pure (out [("spec.bylabel", fmtBool (sameSet c1 c2 && c1.length == c2.length &&
    m1.length == c1.length * c1.length && m2.length == m1.length &&
    reorderOK eps (byLabel c1 M1) c2 M2))])

def cmqOfList : List Rat → CMq
  | [w, x, y, z] => ⟨w, x, y, z⟩
  | _ => ⟨0, 0, 0, 0⟩

def getO (l : List (Option Rat)) (i : Nat) : Option Rat := l.getD i none

/-- op `ova`: one N x N matrix; observed one-vs-all cells (4 per class: tp fn fp tn), accuracy,
per-class rates (12 per class, C04 order) and counts (8 per class: tp fn fp tn p n top ton). -/
def opOva (a : Args) : Except String String := do
  let n ← getNat a "n"
  let m ← getRats a "m"
  let eps ← getRat a "eps"
  let cellsL ← getRats a "cells"
  let acc ← getORat a "acc"
  let rates ← getORats a "rates"
  let cnt ← getRats a "cnt"
  let M := Mat.ofList n m
  let cellBlocks := chunks 4 n cellsL
  let cells : Nat → CMq := fun j => cmqOfList (cellBlocks.getD j [])
  let rate : Nat → Nat → Option Rat := fun j k => getO rates (j * 12 + k)
  let count : Nat → Nat → Rat := fun j k => cnt.getD (j * 8 + k) 0
  let shapeOk := m.length == n * n && cellsL.length == 4 * n && rates.length == 12 * n &&
    cnt.length == 8 * n
  let modelCells := (List.range n).flatMap fun j =>
    let c := oneVsAll n M j; [c.tp, c.fn, c.fp, c.tn]
  let modelRates := (List.range n).flatMap fun j => listOfRates (modelRates (oneVsAll n M j))
  pure (out [("cells", fmtList fmtRat modelCells), ("acc", fmtORat (accuracy n M)),
    ("rates", fmtList fmtORat modelRates),
    ("spec.shape", fmtBool shapeOk),
    ("spec.conserve", fmtBool (ovaConservesOK eps n M cells)),
    ("spec.cells", fmtBool (ovaCellsOK eps n M cells)),
    ("spec.accuracy", fmtBool (accuracyOK eps n M acc)),
    ("spec.classcounts", fmtBool (classCountsOK eps n M (fun j => count j 0) (fun j => count j 4)
      (fun j => count j 6))),
    ("spec.classrates", fmtBool (classRatesOK eps n M (fun j => rate j 0) (fun j => rate j 4)
      (fun j => rate j 3) (fun j => rate j 10)))])

/-- op `perm`: per-class blocks of length `k` of two runs, the second on the classes permuted
by `p` -/
def opPerm (a : Args) : Except String String := do
  let n ← getNat a "n"
  let k ← getNat a "k"
  let p ← getNats a "p"
  let eps ← getRat a "eps"
  let v ← getORats a "v"
  let w ← getORats a "w"
  let vb := chunks k n v
  let wb := chunks k n w
  let ok := v.length == n * k && w.length == n * k && p.length == n &&
    permOK eps n p (fun j => vb.getD j []) (fun j => wb.getD j [])
  pure (out [("spec.perm", fmtBool ok)])

/-- op `asdict`: array form (per-class blocks of length `k`, class order) against the dict form
(keys `dkeys`, blocks in key order) -/
def opAsDict (a : Args) : Except String String := do
  let classes ← getNats a "classes"
  let k ← getNat a "k"
  let vals ← getORats a "vals"
  let dkeys ← getNats a "dkeys"
  let dvals ← getORats a "dvals"
  let vb := chunks k classes.length vals
  let db := chunks k dkeys.length dvals
  let ok := vals.length == classes.length * k && dvals.length == dkeys.length * k &&
    asDictOK classes vb (dkeys.zip db)
  pure (out [("spec.asdict", fmtBool ok)])

def opsC05 : List (String × (Args → Except String String)) :=
  [("cmbuild", opCmBuild), ("cmmatrix", opCmMatrix), ("bylabel", opByLabel), ("ova", opOva),
   ("perm", opPerm), ("asdict", opAsDict)]

end SA.Ops
