import SA.Driver.Wire
import SA.Driver.OpsC02
import SA.Spec.C06

namespace SA.Ops
open SA SA.Wire SA.Spec.C06

/-- op `eer`: Scores keys, observed `t`, `e`, the implementation's matrix `icm` at `t`, `eps`. -/
def opEer (a : Args) : Except String String := do
  let s ← getScores a
  let t ← getRat a "t"
  let e ← getRat a "e"
  let eps ← getRat a "eps"
  let m ← getCM a "icm"
  let model := s.eer Ulp.float64 64
  let (mt, me, err) := match model with
    | .ok (t', e') => (fmtRat t', fmtRat e', "none")
    | .error er => ("nan", "nan", fmtErr er)
  let _ := t
  pure (out [("t", mt), ("e", me), ("err", err), ("tiefree", fmtBool (tieFree s)),
    ("spec.range", fmtBool (rangeOK eps s e)), ("spec.crossing", fmtBool (crossingOK eps s e m)),
    ("spec.zero", fmtBool (zeroOK e m))])

def opsC06 : List (String × (Args → Except String String)) := [("eer", opEer)]

end SA.Ops
