import SA.Driver.Wire
import SA.Spec.C07

namespace SA.Ops
open SA SA.Wire SA.Spec.C07

/-- op `auc`: Scores keys, `lower`, `upper`, `xm`, `ym` (metric names), `eps`, observed `obs`. -/
def opAuc (a : Args) : Except String String := do
  let s ← getScores a
  let lower ← getRat a "lower"
  let upper ← getRat a "upper"
  let xm ← parseMetric (← get a "xm")
  let ym ← parseMetric (← get a "ym")
  let eps ← getRat a "eps"
  let obs ← getORat a "obs"
  let model := s.auc Ulp.float64 lower upper xm ym
  let isStd := xm == .fpr && ym == .tpr
  let full := decide (lower ≤ 0) && decide (1 ≤ upper)
  pure (out [("auc", fmtORat model),
    ("mw", fmtORat (mannWhitney s)), ("step", fmtORat (stepArea s lower upper)),
    ("xties", fmtBool (!noCrossTies s)),
    ("spec.mw", fmtBool (if isStd && full then mwOK eps s obs else true)),
    ("spec.step", fmtBool (if isStd then stepOK eps s lower upper obs else true)),
    ("spec.bound", fmtBool (boundOK eps lower upper obs))])

def opsC07 : List (String × (Args → Except String String)) := [("auc", opAuc)]

end SA.Ops
