import SA.Driver.Wire
import SA.Driver.OpsC01
import SA.Spec.C08

namespace SA.Ops
open SA SA.Wire

/-- op `rel`: relation between observed matrices of two runs: `kind=swap|same`,
`a`, `b` flattened cell lists of equal length. -/
def opRel (a : Args) : Except String String := do
  let kind ← get a "kind"
  let xs := chunk4 (← getNats a "a")
  let ys := chunk4 (← getNats a "b")
  if xs.length != ys.length then .error "rel: length mismatch" else
  let f : CM → CM → Bool := if kind = "swap" then Spec.C08.swapOK else Spec.C08.sameOK
  pure (out [("spec.rel", fmtList fmtBool ((xs.zip ys).map fun (x, y) => f x y))])

def opsC08 : List (String × (Args → Except String String)) := [("rel", opRel)]

end SA.Ops
