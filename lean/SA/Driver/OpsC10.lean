/-
Driver ops for C10.

op `hist`   Scores keys (`pos neg ep en sc ec sorted`), `qs` the encoded query list of one
            history and `obs` one token per query describing what the implementation returned.
            Runs `runHistory` (the function the C10 theorems are about) and returns the model's
            outputs in call order, the purity flag and the spec predicates evaluated on `obs`.

  query tokens (no spaces, no commas):
    cm:<t>                          t = rational | inf | -inf
    rate:<name>:<t>                 name = tpr … tonr | tar frr trr far acceptance_rate rejection_rate
    thr:<name>:<method>:<r>         method = linear | lower | higher, r rational
    swap
  output tokens:
    c:<tp>:<fn>:<fp>:<tn>
    r:<rational|nan>
    t:<threshold>:<dist>            dist = distance of the index target from the grid
    e:<ErrorName>
    s:<ep>:<en>:<sc>:<ec>:<pos;…>:<neg;…>

op `shapes` `kinds` (m = matrix, r = rate/threshold, p = pointwise), `as`, `xs`, `outs`: shapes
            encoded as `s2x3x2` (`s` alone is the 0-d shape); evaluates the shape predicates.
-/
import SA.Driver.Wire
import SA.Driver.OpsC02
import SA.Spec.C10

namespace SA.Ops
open SA SA.Wire SA.Spec

def parseRateName (s : String) : Except String RateName :=
  match s with
  | "tpr" => .ok .tpr | "fnr" => .ok .fnr | "tnr" => .ok .tnr
  | "fpr" => .ok .fpr | "topr" => .ok .topr | "tonr" => .ok .tonr
  | "tar" => .ok .tar | "frr" => .ok .frr | "trr" => .ok .trr | "far" => .ok .far
  | "acceptance_rate" => .ok .acceptanceRate | "rejection_rate" => .ok .rejectionRate
  | _ => .error s!"bad rate name {s}"

def parseQuery (s : String) : Except String Query :=
  match s.splitOn ":" with
  | ["cm", t] => do pure (.cm (← parseERat t))
  | ["rate", n, t] => do pure (.rate (← parseRateName n) (← parseERat t))
  | ["thr", n, m, r] => do pure (.thresholdAt (← parseRateName n) (← parseRat r) (← parseMethod m))
  | ["swap"] => .ok .swap
  | _ => .error s!"bad query {s}"

def fmtSemi (l : List Rat) : String := String.intercalate ";" (l.map fmtRat)

/-- distance of the (normalised, shifted) index target from the nearest integer: where it is
tiny, `lower`/`higher` of the float implementation may legitimately pick the neighbour -/
def thrDist (s : Scores) (metric : Metric) (r : Rat) : Rat :=
  let arr := s.metricArray metric
  let n := normalise s.cfg (s.rescale metric r) metric.increasing metric.ratioClass .linear
  distInt (indexTarget arr n.1 n.2.1)

def fmtOut (s : Scores) (q : Query) : Out → String
  | .cm m => s!"c:{m.tp}:{m.fn}:{m.fp}:{m.tn}"
  | .rate v => "r:" ++ fmtORat v
  | .thr (.ok t) =>
    let d := match q with
      | .thresholdAt n r _ => thrDist s n.metric r
      | _ => 0
    "t:" ++ fmtRat t ++ ":" ++ fmtRat d
  | .thr (.error e) => "e:" ++ fmtErr e
  | .scores w =>
    s!"s:{w.easyPos}:{w.easyNeg}:{fmtLabel w.cfg.scoreClass}:{fmtLabel w.cfg.equalClass}:" ++
      fmtSemi w.pos ++ ":" ++ fmtSemi w.neg

def sameScores (a b : Scores) : Bool :=
  a.pos == b.pos && a.neg == b.neg && a.easyPos == b.easyPos && a.easyNeg == b.easyNeg
    && decide (a.cfg = b.cfg)

def opHist (a : Args) : Except String String := do
  let s ← getScores a
  let qs ← parseList parseQuery (← get a "qs")
  let obs ← splitList (← get a "obs")
  let r := runHistory Ulp.float64 ⟨s⟩ qs
  let outs := (qs.zip r.2).map fun (q, o) => fmtOut s q o
  pure (out [("outs", "[" ++ String.intercalate "," outs ++ "]"),
    ("pure", fmtBool (sameScores r.1.s s)),
    ("spec.length", fmtBool (C10.lengthOK qs obs)),
    ("spec.repeat", fmtList fmtBool (C10.repeatFlags qs obs))])

def parseShape (s : String) : Except String (List Nat) :=
  if s.startsWith "s" then
    ((s.drop 1).toString.splitOn "x").filter (· ≠ "") |>.mapM parseNat
  else .error s!"bad shape {s}"

def opShapes (a : Args) : Except String String := do
  let kinds ← splitList (← get a "kinds")
  let as_ ← parseList parseShape (← get a "as")
  let xs ← parseList parseShape (← get a "xs")
  let outs ← parseList parseShape (← get a "outs")
  let flags := (kinds.zip (as_.zip (xs.zip outs))).map fun (k, sa, x, o) =>
    if k = "m" then C10.matrixShapeOK x o
    else if k = "p" then C10.pointwiseShapeOK sa x o
    else C10.sameShapeOK x o
  pure (out [("spec.shape", fmtList fmtBool flags),
    ("n", toString (min kinds.length (min as_.length (min xs.length outs.length))))])

def opsC10 : List (String × (Args → Except String String)) :=
  [("hist", opHist), ("shapes", opShapes)]

end SA.Ops
