import SA.Driver.Wire
import SA.Spec.C11

/-!
Ops for C11 and the wire encoding of RNG scripts (shared with C12/C14: `getReqs`, `getScript`,
`fmtReqs`, `reqsEq`).

Requests are sent as five parallel lists (prefix `x`):
  `xk` kind (0 binomial, 1 poisson, 2 choice, 3 choiceFrom, 4 normal), `xn` integer parameter
  (binomial `n`, population size of a choice, size of a normal; 0 for poisson), `xs` size (`-1` =
  None), `xr` replace (0/1), `xp` `p` / `lam` as an exact rational (0 for the others).
A script is `resp` (all answers, flattened) and `rl` (length of each answer).
-/

namespace SA.Ops
open SA SA.Wire SA.Spec.C11

def optSize (i : Int) : Option Nat := if i < 0 then none else some i.toNat

def mkReq (k : Nat) (n : Nat) (size : Int) (repl : Bool) (p : Rat) : Except String Req :=
  match k with
  | 0 => .ok (.binomial n p (optSize size))
  | 1 => .ok (.poisson p (optSize size))
  | 2 => .ok (.choice n (optSize size) repl)
  | 3 => .ok (.choiceFrom n (optSize size) repl)
  | 4 => .ok (.normal n)
  | _ => .error s!"bad request kind {k}"

def zip5 : List Nat → List Nat → List Int → List Bool → List Rat → Except String (List Req)
  | k :: ks, n :: ns, s :: ss, r :: rs, p :: ps => do
    let q ← mkReq k n s r p
    let rest ← zip5 ks ns ss rs ps
    pure (q :: rest)
  | [], [], [], [], [] => .ok []
  | _, _, _, _, _ => .error "request lists of different lengths"

/-- requests under key prefix `pre` -/
def getReqs (a : Args) (pre : String) : Except String (List Req) := do
  zip5 (← getNats a (pre ++ "k")) (← getNats a (pre ++ "n")) (← getInts a (pre ++ "s"))
    (← getBools a (pre ++ "r")) (← getRats a (pre ++ "p"))

def splitAnswers : List Nat → List Nat → List (List Nat)
  | [], _ => []
  | l :: ls, xs => xs.take l :: splitAnswers ls (xs.drop l)

/-- script under keys `resp`, `rl` -/
def getScript (a : Args) : Except String (List (List Nat)) := do
  pure (splitAnswers (← getNats a "rl") (← getNats a "resp"))

def reqKind : Req → Nat
  | .binomial .. => 0 | .poisson .. => 1 | .choice .. => 2 | .choiceFrom .. => 3 | .normal .. => 4
def reqN : Req → Nat
  | .binomial n _ _ => n | .poisson _ _ => 0 | .choice n _ _ => n | .choiceFrom n _ _ => n
  | .normal n => n
def reqSize : Req → Int
  | .binomial _ _ s => (s.map Int.ofNat).getD (-1) | .poisson _ s => (s.map Int.ofNat).getD (-1)
  | .choice _ s _ => (s.map Int.ofNat).getD (-1) | .choiceFrom _ s _ => (s.map Int.ofNat).getD (-1)
  | .normal _ => -1
def reqRepl : Req → Bool
  | .choice _ _ r => r | .choiceFrom _ _ r => r | _ => false
def reqP : Req → Rat
  | .binomial _ p _ => p | .poisson l _ => l | _ => 0

def fmtReqs (pre : String) (rs : List Req) : List (String × String) :=
  [(pre ++ "k", fmtList toString (rs.map reqKind)), (pre ++ "n", fmtList toString (rs.map reqN)),
   (pre ++ "s", fmtList toString (rs.map reqSize)), (pre ++ "r", fmtList fmtBool (rs.map reqRepl)),
   (pre ++ "p", fmtList fmtRat (rs.map reqP))]

/-- primitive, integer parameters, size, replace exactly; `p`/`lam` within relative `eps` -/
def reqEq (eps : Rat) (x y : Req) : Bool :=
  reqKind x == reqKind y && reqN x == reqN y && reqSize x == reqSize y && reqRepl x == reqRepl y &&
  closeQ eps (reqP x) (reqP y)

/-- index of the first difference between two traces (`-1`: equal) -/
def firstDiff (eps : Rat) : List Req → List Req → Nat → Int
  | [], [], _ => -1
  | x :: xs, y :: ys, i => if reqEq eps x y then firstDiff eps xs ys (i + 1) else i
  | _, _, i => i

def parseSamplingMethod (s : String) : Except String SamplingMethod :=
  match s with
  | "replacement" => .ok .replacement
  | "single_pass" => .ok .singlePass
  | "dynamic" => .ok .dynamic
  | "proportion" => .ok .proportion
  | "unknown" => .ok .unknown
  | _ => .error s!"bad sampling method {s}"

def fmtErrName : Err → String
  | .valueError => "ValueError" | .typeError => "TypeError"
  | .zeroDivisionError => "ZeroDivisionError" | .keyError => "KeyError" | .other => "other"

/-- pair each observed request with its answer (`oh` = 0: the call raised, no answer consumed) -/
def pairObs : List Req → List Bool → List (List Nat) → List (Req × List Nat)
  | q :: qs, true :: hs, r :: rs => (q, r) :: pairObs qs hs rs
  | q :: qs, _ :: hs, rs => (q, []) :: pairObs qs hs rs
  | _, _, _ => []

def tri (applicable : Bool) (v : Bool) : String := if applicable then fmtBool v else "na"

/-- keys: source (`pos neg ep en sc ec sorted`), config (`method strat smooth ratio prods`),
`hastrace` (1: script `resp rl`, observed requests `qk qn qs qr qp`, `oh`), observed result
`ores` (`ok` or an exception name) with `opos oneg oep oen osc oec`. -/
def opSample (a : Args) : Except String String := do
  let s ← getScores a
  let method ← parseSamplingMethod (← get a "method")
  let byLabel ← getBool a "strat"
  let smoothing ← getBool a "smooth"
  let ratioS ← get a "ratio"
  let ratio : Option Rat ← (if ratioS = "none" then pure none else do pure (some (← parseRat ratioS)))
  let prods ← getRats a "prods"
  let ns := [s.pos.length, s.neg.length, s.easyPos, s.easyNeg]
  let fmul : Rat → Nat → Rat := fun r n =>
    match (ns.zip prods).find? (fun x => x.1 == n) with
    | some x => x.2
    | none => r * n
  let c : BootCfg := ⟨method, byLabel, smoothing, ratio, fmul⟩
  let eff := samplingMethod s c
  let eps : Rat := 1 / 1000000000000
  let hasTrace ← getBool a "hastrace"
  -- model run
  let script ← (if hasTrace then getScript a else pure [])
  let run := runSample s c script
  let mreqs := run.2.requests
  let modelKVs : List (String × String) :=
    match run.1 with
    | .ok m => [("mres", "ok"), ("mpos", fmtList fmtRat m.pos), ("mneg", fmtList fmtRat m.neg),
        ("mep", toString m.easyPos), ("men", toString m.easyNeg),
        ("msc", fmtLabel m.cfg.scoreClass), ("mec", fmtLabel m.cfg.equalClass)]
    | .error e => [("mres", fmtErrName e)]
  -- observed
  let oreqs ← (if hasTrace then getReqs a "q" else pure [])
  let oh ← (if hasTrace then getBools a "oh" else pure [])
  let obs := pairObs oreqs oh script
  let diff := firstDiff eps mreqs oreqs 0
  let ores ← get a "ores"
  let specKVs : List (String × String) ←
    (if ores = "ok" then do
      let out : Scores := ⟨← getRats a "opos", ← getRats a "oneg", ← getNat a "oep", ← getNat a "oen",
        ⟨← getLabel a "osc", ← getLabel a "oec"⟩⟩
      let resampling := eff == .replacement || eff == .singlePass
      let ratioV := ratio.getD 0
      pure [("spec.flags", fmtBool (flagsOK s out)),
        ("spec.subset", tri (!smoothing) (subsetOK s out)),
        ("spec.sorted", fmtBool (sortedOK out)),
        ("spec.atleast", fmtBool (atLeastOneOK s out)),
        ("spec.total", tri (eff == .replacement) (totalOK s out)),
        ("spec.strata", tri (byLabel && resampling) (strataOK s (eff == .singlePass) out)),
        ("spec.proportion", tri (eff == .proportion && ratio.isSome) (proportionOK c ratioV s out)),
        ("spec.dynamic", tri (hasTrace && method == .dynamic) (dynamicOK s smoothing oreqs)),
        ("spec.unbiased", tri (hasTrace && resampling) (unbiasedOK eps s byLabel (eff == .singlePass) obs)),
        ("oracle.fmul", tri ratio.isSome (ns.all (fun n => fmulOK c ratioV n)))]
    else pure [])
  pure (out (modelKVs ++ [("mok", fmtBool run.2.ok), ("left", toString run.2.responses.length),
    ("tracediff", toString diff)] ++ fmtReqs "m" mreqs ++ specKVs))

def opsC11 : List (String × (Args → Except String String)) := [("sample", opSample)]

end SA.Ops
