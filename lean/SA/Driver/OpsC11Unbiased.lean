import SA.Driver.Wire
import SA.Model.SamplingPmf

/-!
Op `c11expect`: exact first and second moments, under the TRUE binomial / uniform-choice
distributions, of the multiplicity of every scored sample and of the sizes of a sample drawn by
`_sample_indices` — for the program as written (`corr=1`, the corrections make it biased) and for the
uncorrected program (`corr=0`, every multiplicity has mean exactly 1: `SA.C11U.C11_unbiased`).

keys: `h k` number of scored positives / negatives, `ep en` easy counts, `strat`, `sp`, `corr`.
Only for small sources (`h + k + ep + en < 100`, so that no Poisson request occurs).
-/

namespace SA.Ops
open SA SA.Wire SA.C11U

def c11uProgram (corr : Bool) (s : Scores) (byLabel sp : Bool) : Ex Indices :=
  if corr then sampleIndicesM (exRng trueOracle) s byLabel sp
  else sampleIndicesU (exRng trueOracle) s byLabel sp

def opC11Expect (a : Args) : Except String String := do
  let h ← getNat a "h"
  let k ← getNat a "k"
  let ep ← getNat a "ep"
  let en ← getNat a "en"
  let byLabel ← getBool a "strat"
  let sp ← getBool a "sp"
  let corr ← getBool a "corr"
  if h + k + ep + en ≥ 100 then throw "c11expect: source too large (Poisson branch not covered)"
  let s : Scores := ⟨List.replicate h 0, List.replicate k 0, ep, en, ⟨.pos, .pos⟩⟩
  let X := c11uProgram corr s byLabel sp
  let q (n : Nat) : Rat := (n : Rat)
  let m1 (f : Indices → Nat) : Rat := X (fun r => q (f r))
  let m2 (f : Indices → Nat) : Rat := X (fun r => q (f r) * q (f r))
  let posF : List (Indices → Nat) := (List.range h).map (fun i r => r.idxPos.count i)
  let negF : List (Indices → Nat) := (List.range k).map (fun j r => r.idxNeg.count j)
  let sizeF : List (Indices → Nat) :=
    [fun r => r.idxPos.length, fun r => r.idxNeg.length, fun r => r.easyPos, fun r => r.easyNeg]
  pure (out [("mass", fmtRat (X (fun _ => 1))),
    ("pos1", fmtList fmtRat (posF.map m1)), ("pos2", fmtList fmtRat (posF.map m2)),
    ("neg1", fmtList fmtRat (negF.map m1)), ("neg2", fmtList fmtRat (negF.map m2)),
    ("size1", fmtList fmtRat (sizeF.map m1)), ("size2", fmtList fmtRat (sizeF.map m2))])

def opsC11Unbiased : List (String × (Args → Except String String)) := [("c11expect", opC11Expect)]

end SA.Ops
