/-
Driver ops for C12 (GroupScores).  Group names arrive as `Nat` codes (the harness maps names to
codes preserving their sort order); a labelled class is two parallel lists (scores, codes).

op `gbuild`   input `pos pg neg ng sc ec names sorted` (`names` = `none` or a code list);
              observed object `opos opg oneg ong ogroups osc oec`; observed `swap()`
              `spos spg sneg sng sgroups ssc sec`; observed `gs[grp]` for every entry of `ogroups`,
              concatenated: `gipos giposl gineg ginegl giep gien gisc giec`.
              -> model arrays `mpos mpg mneg mng mgroups`, `msgroups`, verdicts `spec.*`.
op `gcm`      held object `pos pg neg ng sc ec groups` (taken as is), thresholds `ts`, observed
              per-group matrices `ogcm` (G*T*4, row-major) and overall matrices `ocm` (T*4),
              a history `qs` of query tokens run through the cache state machine from a fresh state
              -> `mgcm mcm`, verdicts, `hout` (one token per query).
                query tokens:  gi:<grp>  gcm:<t>  gr:<name>:<t>  cm:<t>
                output tokens: s:<pos;..>:<neg;..> | e:<Error>   m:<cells;..>   r:<v;..>   c:<cells>
op `gsample`  held object, `method strat smooth`, `hastrace` + script / observed requests as in op
              `sample` (C11), observed result `ores` (+ `opos opg oneg ong ogroups osc oec`)
              -> model sample, request trace comparison, verdicts.
-/
import SA.Driver.Wire
import SA.Driver.OpsC10
import SA.Driver.OpsC11
import SA.Spec.C12

namespace SA.Ops
open SA SA.Wire SA.Spec.C12

def c12_zip : List Rat → List Nat → Except String (List (Rat × Nat))
  | [], [] => .ok []
  | x :: xs, c :: cs => do pure ((x, c) :: (← c12_zip xs cs))
  | _, _ => .error "scores and group labels of different lengths"

def c12_getPairs (a : Args) (ks kg : String) : Except String (List (Rat × Nat)) := do
  c12_zip (← getRats a ks) (← getNats a kg)

def c12_fmtPairs (ks kg : String) (l : List (Rat × Nat)) : List (String × String) :=
  [(ks, fmtList fmtRat (l.map (·.1))), (kg, fmtList toString (l.map (·.2)))]

/-- a `GScores` held as is under keys `<p>pos <p>pg <p>neg <p>ng <p>sc <p>ec <p>groups` -/
def c12_getHeld (a : Args) (p : String) : Except String GScores := do
  pure ⟨← c12_getPairs a (p ++ "pos") (p ++ "pg"), ← c12_getPairs a (p ++ "neg") (p ++ "ng"),
    ⟨← getLabel a (p ++ "sc"), ← getLabel a (p ++ "ec")⟩, ← getNats a (p ++ "groups")⟩

def c12_splitRats : List Nat → List Rat → List (List Rat)
  | [], _ => []
  | l :: ls, xs => xs.take l :: c12_splitRats ls (xs.drop l)

def c12_chunk4 : List Nat → Except String (List CM)
  | [] => .ok []
  | a :: b :: c :: d :: rest => do pure (⟨a, b, c, d⟩ :: (← c12_chunk4 rest))
  | _ => .error "matrix cells not a multiple of 4"

def c12_chunks {α} (n : Nat) (l : List α) : Nat → List (List α)
  | 0 => []
  | k + 1 => l.take n :: c12_chunks n (l.drop n) k

def c12_cells (m : CM) : List Nat := [m.tp, m.fn, m.fp, m.tn]

def opGBuild (a : Args) : Except String String := do
  let pos ← c12_getPairs a "pos" "pg"
  let neg ← c12_getPairs a "neg" "ng"
  let cfg ← getCfg a
  let namesS ← get a "names"
  let names : Option (List Nat) ← (if namesS = "none" then pure none
    else do pure (some (← parseList parseNat namesS)))
  let isSorted ← getBool a "sorted"
  let m := GScores.make pos neg cfg names isSorted
  let o ← c12_getHeld a "o"
  let sw ← c12_getHeld a "s"
  -- observed gs[grp] for every entry of the observed group list
  let giposl ← getNats a "giposl"
  let ginegl ← getNats a "ginegl"
  let gipos := c12_splitRats giposl (← getRats a "gipos")
  let gineg := c12_splitRats ginegl (← getRats a "gineg")
  let giep ← getNats a "giep"
  let gien ← getNats a "gien"
  let gisc ← parseList parseLabel (← get a "gisc")
  let giec ← parseList parseLabel (← get a "giec")
  let n := o.groups.length
  if gipos.length != n || gineg.length != n || giep.length != n || gien.length != n ||
      gisc.length != n || giec.length != n then
    throw "gbuild: per-group observations do not match the observed group list"
  let items : List Scores :=
    (List.range n).map fun i => ⟨gipos.getD i [], gineg.getD i [], giep.getD i 0, gien.getD i 0,
      ⟨gisc.getD i .pos, giec.getD i .pos⟩⟩
  let getitem := (o.groups.zip items).all (fun x => getitemOK o x.1 x.2)
  pure (out (c12_fmtPairs "mpos" "mpg" m.pos ++ c12_fmtPairs "mneg" "mng" m.neg ++
    [("mgroups", fmtList toString m.groups), ("msgroups", fmtList toString o.swap.groups),
     ("spec.attached", fmtBool (permOK pos o.pos && permOK neg o.neg)),
     ("spec.sorted", fmtBool (sortedOK o.pos && sortedOK o.neg)),
     ("spec.flags", fmtBool (o.cfg == cfg)),
     ("spec.swap", fmtBool (swapOK o sw)),
     ("spec.getitem", fmtBool getitem)]))

def c12_parseGQuery (s : String) : Except String GQuery :=
  match s.splitOn ":" with
  | ["gi", g] => do pure (.getItem (← parseNat g))
  | ["gcm", t] => do pure (.groupCm (← parseERat t))
  | ["gr", n, t] => do pure (.groupRate (← parseRateName n) (← parseERat t))
  | ["cm", t] => do pure (.overallCm (← parseERat t))
  | _ => .error s!"bad group query {s}"

def c12_semi {α} (f : α → String) (l : List α) : String := String.intercalate ";" (l.map f)

def c12_fmtGOut : GOut → String
  | .scores (.ok s) => s!"s:{c12_semi fmtRat s.pos}:{c12_semi fmtRat s.neg}"
  | .scores (.error e) => "e:" ++ fmtErrName e
  | .cms (.ok l) => "m:" ++ c12_semi toString (l.flatMap c12_cells)
  | .cms (.error e) => "e:" ++ fmtErrName e
  | .rates (.ok l) => "r:" ++ c12_semi fmtORat l
  | .rates (.error e) => "e:" ++ fmtErrName e
  | .cm m => "c:" ++ c12_semi toString (c12_cells m)

def opGCm (a : Args) : Except String String := do
  let g ← c12_getHeld a ""
  let ts ← getERats a "ts"
  let G := g.groups.length
  let T := ts.length
  let ogcm ← c12_chunk4 (← getNats a "ogcm")
  let ocm ← c12_chunk4 (← getNats a "ocm")
  if ogcm.length != G * T || ocm.length != T then
    throw s!"gcm: expected {G * T} group matrices and {T} overall matrices"
  -- obsRows[i] = the T matrices of group i
  let obsRows := c12_chunks T ogcm G
  let groupcm := (g.groups.zip obsRows).all fun x =>
    (ts.zip x.2).all fun y => groupCmOK g x.1 y.1 y.2
  let covers := coversOK g
  -- per threshold: the observed group matrices at that threshold
  let partition := (List.range T).all fun j =>
    partitionOK (obsRows.map fun row => row.getD j ⟨0, 0, 0, 0⟩) (ocm.getD j ⟨0, 0, 0, 0⟩)
  let overall := (ts.zip ocm).all fun y =>
    y.2 == countCM (g.pos.map (·.1)) (g.neg.map (·.1)) 0 0 g.cfg y.1
  let mgcm := g.groups.flatMap fun grp => ts.flatMap fun t => c12_cells ((g.groupScores grp).cm t)
  let mcm := ts.flatMap fun t => c12_cells (g.overallCm t)
  let qs ← parseList c12_parseGQuery (← get a "qs")
  let run := (GState.fresh g).run qs
  pure (out [("mgcm", fmtList toString mgcm), ("mcm", fmtList toString mcm),
    ("covers", fmtBool covers),
    ("spec.groupcm", fmtBool groupcm), ("spec.partition", tri covers partition),
    ("spec.overall", fmtBool overall),
    ("hout", fmtList c12_fmtGOut run.2), ("hcache", toString run.1.cache.length)])

def c12_parseStrat (s : String) : Except String Strat :=
  match s with
  | "none" => .ok .none | "by_label" => .ok .byLabel | "by_group" => .ok .byGroup
  | "unknown" => .ok .unknown
  | _ => .error s!"bad stratification {s}"

def c12_fmtMethod : SamplingMethod → String
  | .replacement => "replacement" | .singlePass => "single_pass" | .dynamic => "dynamic"
  | .proportion => "proportion" | .unknown => "unknown"

def opGSample (a : Args) : Except String String := do
  let g ← c12_getHeld a ""
  let method ← parseSamplingMethod (← get a "method")
  let strat ← c12_parseStrat (← get a "strat")
  let smoothing ← getBool a "smooth"
  let c : GBootCfg := ⟨method, strat, smoothing⟩
  let eff := g.samplingMethod c
  let eps : Rat := 1 / 1000000000000
  let hasTrace ← getBool a "hastrace"
  let script ← (if hasTrace then getScript a else pure [])
  let run := g.runSample c script
  let mreqs := run.2.requests
  let modelKVs : List (String × String) :=
    match run.1 with
    | .ok m => [("mres", "ok")] ++ c12_fmtPairs "mpos" "mpg" m.pos ++ c12_fmtPairs "mneg" "mng" m.neg ++
        [("mgroups", fmtList toString m.groups), ("msc", fmtLabel m.cfg.scoreClass),
         ("mec", fmtLabel m.cfg.equalClass)]
    | .error e => [("mres", fmtErrName e)]
  let oreqs ← (if hasTrace then getReqs a "q" else pure [])
  let diff := firstDiff eps mreqs oreqs 0
  let oh ← (if hasTrace then getBools a "oh" else pure [])
  let obs := pairObs oreqs oh script
  let ores ← get a "ores"
  let specKVs : List (String × String) ←
    (if ores = "ok" then do
      let o ← c12_getHeld a "o"
      let resampling := eff == .replacement || eff == .singlePass
      pure [("spec.attached", fmtBool (attachedOK g.pos o.pos && attachedOK g.neg o.neg)),
        ("spec.sorted", fmtBool (sortedOK o.pos && sortedOK o.neg)),
        ("spec.names", fmtBool (namesOK g o)),
        ("spec.flags", fmtBool (flagsOK g o)),
        ("spec.groupcounts", tri (resampling && eff == .replacement && strat == .byGroup &&
          decide g.groups.Nodup) (groupCountsOK g o)),
        ("spec.stratreqs", tri (hasTrace && resampling)
          (stratReqsOK eps g strat (eff == .singlePass) obs))]
    else pure [])
  pure (out (modelKVs ++ [("mok", fmtBool run.2.ok), ("left", toString run.2.responses.length),
    ("tracediff", toString diff), ("eff", c12_fmtMethod eff)] ++ fmtReqs "m" mreqs ++ specKVs))

def opsC12 : List (String × (Args → Except String String)) :=
  [("gbuild", opGBuild), ("gcm", opGCm), ("gsample", opGSample)]

end SA.Ops
