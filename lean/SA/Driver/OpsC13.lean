import SA.Driver.Wire
import SA.Spec.C13

namespace SA.Ops
open SA SA.Wire SA.Spec.C13

def absR (x : Rat) : Rat := if x < 0 then -x else x

def eratClose (tol : Rat) : ERat → ERat → Bool
  | .fin a, .fin b => decide (absR (a - b) ≤ tol * (1 + absR b))
  | .posInf, .posInf => true
  | .negInf, .negInf => true
  | _, _ => false

/-- nearest-entry lookup in a recorded oracle table -/
def lookupE (tol : Rat) (tbl : List (ERat × ERat)) (x : ERat) : Option ERat :=
  (tbl.find? fun (i, _) => eratClose tol x i).map (·.2)

def eratToRat : ERat → Rat
  | .fin a => a
  | _ => 0

def parseBootMethod (s : String) : Except String BootMethod :=
  match s with
  | "quantile" => .ok .quantile
  | "bc" => .ok .bc
  | "bca" => .ok .bca
  | _ => .error s!"bad bootstrap method {s}"

/-- op `bootci`: one component, one alpha. Oracle tables recorded from the real scipy calls. -/
def opBootci (a : Args) : Except String String := do
  let vals ← getORats a "vals"
  let th ← getRat a "th"
  let alpha ← getRat a "alpha"
  let m ← parseBootMethod (← get a "method")
  let eps ← getRat a "eps"
  let ppfT := (← getERats a "ppf_in").zip (← getERats a "ppf_out")
  let cdfT := (← getERats a "cdf_in").zip (← getERats a "cdf_out")
  let p15T := (← getERats a "p15_in").zip (← getERats a "p15_out")
  let obs : Option Rat × Option Rat := (← getORat a "lo", ← getORat a "hi")
  let tolP : Rat := 1 / 1000000000000
  let tolZ : Rat := 1 / 1000000000
  let nrm : Normal :=
    { cdf := fun z => eratToRat ((lookupE tolZ cdfT z).getD (.fin 0)),
      ppf := fun p => (lookupE tolP ppfT (.fin p)).getD (.fin 0) }
  let p15 : Rat → Rat := fun x => eratToRat ((lookupE tolZ p15T (.fin x)).getD (.fin 0))
  -- which oracle queries does the model make, and are they all in the tables?
  let misses : List String :=
    match m with
    | .quantile => []
    | _ =>
      match fracLe vals th with
      | none => []
      | some p0 =>
        let q1 := [p0, alpha / 2, 1 - alpha / 2].filter fun p => (lookupE tolP ppfT (.fin p)).isNone
        let z0 := nrm.ppf p0
        let acc := if m = .bca then acceleration p15 vals th else 0
        let zl := adjustedZ m acc z0 (nrm.ppf (alpha / 2))
        let zu := adjustedZ m acc z0 (nrm.ppf (1 - alpha / 2))
        let q2 := [zl, zu].filter fun z => (lookupE tolZ cdfT z).isNone
        let q3 := if m = .bca then
            let fin := vals.filterMap id
            let s2 := (fin.map fun x => (x - th) * (x - th)).sum
            if (lookupE tolZ p15T (.fin s2)).isNone then ["p15"] else []
          else []
        (q1.map fun p => "ppf:" ++ fmtRat p) ++ (q2.map fun z => "cdf:" ++ fmtERat z) ++ q3
  -- distance of the BCa denominator from its pole (for the harness to skip near-pole cases)
  let pole : Rat :=
    match m, fracLe vals th with
    | .bca, some p0 =>
      match nrm.ppf p0, nrm.ppf (alpha / 2), nrm.ppf (1 - alpha / 2) with
      | .fin z0, .fin zl, .fin zu =>
        let acc := acceleration p15 vals th
        min (absR (1 - acc * (z0 + zl))) (absR (1 - acc * (z0 + zu)))
      | _, _, _ => 1
    | _, _ => 1
  let model := bootstrapCI nrm p15 m vals th alpha
  pure (out [("lo", fmtORat model.1), ("hi", fmtORat model.2),
    ("miss", "[" ++ String.intercalate "," misses ++ "]"), ("pole", fmtRat pole),
    ("spec.formula", fmtBool (formulaOK eps model obs)),
    ("spec.ordered", fmtBool (orderedOK obs)),
    ("spec.inrange", fmtBool (inRangeOK vals obs))])

def opsC13 : List (String × (Args → Except String String)) := [("bootci", opBootci)]

end SA.Ops
