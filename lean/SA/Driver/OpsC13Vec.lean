import SA.Driver.OpsC13
import SA.Driver.OpsC02
import SA.Spec.C13Vec

namespace SA.Ops
open SA SA.Wire SA.Spec.C13

/-- closest-entry lookup (the whole-array call has one `x ** 1.5` entry per component, and for
metrics on a tiny scale several keys lie within the absolute part of the tolerance) -/
def lookupNearest (tol : Rat) (tbl : List (ERat × ERat)) (x : Rat) : Option ERat :=
  let cands := tbl.filterMap fun (i, o) =>
    match i with
    | .fin k => if eratClose tol (.fin x) (.fin k) then some (absR (x - k), o) else none
    | _ => none
  match cands with
  | [] => none
  | c :: cs => some (cs.foldl (fun best d => if d.1 < best.1 then d else best) c).2

/-- oracle queries the one-component formula makes that are not in the recorded tables, and the
distance of the BCa denominator from its pole -/
def c13vQueries (tolP tolZ : Rat) (ppfT cdfT p15T : List (ERat × ERat)) (nrm : Normal)
    (p15 : Rat → Rat) (m : BootMethod) (vals : List (Option Rat)) (th alpha : Rat) :
    List String × Rat :=
  match m with
  | .quantile => ([], 1)
  | _ =>
    match fracLe vals th with
    | none => ([], 1)
    | some p0 =>
      let q1 := [p0, alpha / 2, 1 - alpha / 2].filter fun p => (lookupE tolP ppfT (.fin p)).isNone
      let z0 := nrm.ppf p0
      let acc := if m = .bca then acceleration p15 vals th else 0
      let zl := adjustedZ m acc z0 (nrm.ppf (alpha / 2))
      let zu := adjustedZ m acc z0 (nrm.ppf (1 - alpha / 2))
      let q2 := [zl, zu].filter fun z => (lookupE tolZ cdfT z).isNone
      let q3 := if m = .bca then
          let fin := vals.filterMap id
          let s2 := (fin.map fun x => (x - th) * (x - th)).sum
          if (lookupNearest tolZ p15T s2).isNone then ["p15"] else []
        else []
      let pole : Rat :=
        match m with
        | .bca =>
          match z0, nrm.ppf (alpha / 2), nrm.ppf (1 - alpha / 2) with
          | .fin z, .fin l, .fin u => min (absR (1 - acc * (z + l))) (absR (1 - acc * (z + u)))
          | _, _, _ => 1
        | _ => 1
      ((q1.map fun p => "ppf:" ++ fmtRat p) ++ (q2.map fun z => "cdf:" ++ fmtERat z) ++ q3, pole)

/-- op `bootcivec`: the whole-array call. `theta`/`tshape`, `th`/`thshape` (`th=none` for no
estimate), `alpha`/`ashape`, `method`, oracle tables as for `bootci`, and the implementation's
outcome: `obs`/`oshape`, or `obs_err=<ExceptionName>`. -/
def opBootciVec (a : Args) : Except String String := do
  let theta : Nd (Option Rat) := ⟨← getNats a "tshape", ← getORats a "theta"⟩
  let thetaHat : Option (Nd Rat) ←
    if getD a "th" "none" = "none" then pure none
    else do pure (some (⟨← getNats a "thshape", ← getRats a "th"⟩ : Nd Rat))
  let alpha : Nd Rat := ⟨← getNats a "ashape", ← getRats a "alpha"⟩
  let m ← parseBootMethod (← get a "method")
  let eps ← getRat a "eps"
  let ppfT := (← getERats a "ppf_in").zip (← getERats a "ppf_out")
  let cdfT := (← getERats a "cdf_in").zip (← getERats a "cdf_out")
  let p15T := (← getERats a "p15_in").zip (← getERats a "p15_out")
  if theta.data.length ≠ theta.size then throw "theta: buffer/shape mismatch"
  if alpha.data.length ≠ alpha.size then throw "alpha: buffer/shape mismatch"
  let tolP : Rat := 1 / 1000000000000
  let tolZ : Rat := 1 / 1000000000
  let nrm : Normal :=
    { cdf := fun z => eratToRat ((lookupE tolZ cdfT z).getD (.fin 0)),
      ppf := fun p => (lookupE tolP ppfT (.fin p)).getD (.fin 0) }
  let p15 : Rat → Rat := fun x => eratToRat ((lookupNearest tolZ p15T x).getD (.fin 0))
  -- oracle queries of every component (bc / bca: scalar alpha)
  let Y := theta.shape.tail
  let comps : List (List String × Rat) :=
    match m, thetaHat with
    | .quantile, _ => []
    | _, none => []
    | _, some h =>
      (List.range (shapeProd Y)).map fun j =>
        c13vQueries tolP tolZ ppfT cdfT p15T nrm p15 m (theta.column (unravel Y j))
          (h.get (unravel Y j)) (alpha.data.headD 0)
  let misses := (comps.flatMap (·.1)).eraseDups
  let pole := comps.foldl (fun acc c => min acc c.2) 1
  let model := bootstrapCIVec nrm p15 m theta thetaHat alpha
  let common := [("miss", "[" ++ String.intercalate "," misses ++ "]"), ("pole", fmtRat pole)]
  match a.lookup "obs_err" with
  | some e =>
    -- the implementation raised: the model must raise the same exception
    match model with
    | .error me => pure (out ([("err", fmtErr me), ("spec.raises", fmtBool (fmtErr me == e))] ++ common))
    | .ok r => pure (out ([("shape", fmtList toString r.shape), ("data", fmtList fmtORat r.data),
        ("spec.raises", "0")] ++ common))
  | none =>
    let oshape ← getNats a "oshape"
    let obs ← getORats a "obs"
    let expected := vecExpected nrm p15 m theta thetaHat alpha
    let specKV := [("spec.shape", fmtBool (vecShapeOK expected oshape)),
      ("spec.entries", fmtBool (vecEntriesOK eps expected obs)),
      ("expected", fmtList fmtORat expected.data)]
    match model with
    | .error me => pure (out ([("err", fmtErr me), ("agree", "0")] ++ specKV ++ common))
    | .ok r =>
      let agree := (r.shape == oshape) && vecEntriesOK eps r obs
      -- runtime cross-check of the theorem: the code-shaped model equals the prescribed array
      let thm := (r.shape == expected.shape) && vecEntriesOK 0 expected r.data
      pure (out ([("shape", fmtList toString r.shape), ("data", fmtList fmtORat r.data),
        ("agree", fmtBool agree), ("model_eq_spec", fmtBool thm)] ++ specKV ++ common))

def opsC13Vec : List (String × (Args → Except String String)) := [("bootcivec", opBootciVec)]

end SA.Ops
