import SA.Driver.Wire
import SA.Driver.OpsC13
import SA.Spec.C14

namespace SA.Ops
open SA SA.Wire SA.Spec.C13 SA.Spec.C14

/-- split a flattened row-major matrix into rows of `nc` entries (`nr` rows) -/
def c14_unflatten (nr nc : Nat) (flat : List (Option Rat)) : List (List (Option Rat)) :=
  (List.range nr).map fun j => (flat.drop (j * nc)).take nc

/-- oracle queries of the C13 formula for one component that are not in the recorded tables -/
def c14_misses (tolP tolZ : Rat) (ppfT cdfT p15T : List (ERat × ERat)) (nrm : Normal)
    (p15 : Rat → Rat) (m : BootMethod) (vals : List (Option Rat)) (th alpha : Rat) : List String :=
  match m with
  | .quantile => []
  | _ =>
    match fracLe vals th with
    | none => []
    | some p0 =>
      let q1 := [p0, alpha / 2, 1 - alpha / 2].filter fun p => (lookupE tolP ppfT (.fin p)).isNone
      let z0 := nrm.ppf p0
      let acc := if m = .bca then acceleration p15 vals th else 0
      let zl := adjustedZ m acc z0 (nrm.ppf (alpha / 2))
      let zu := adjustedZ m acc z0 (nrm.ppf (1 - alpha / 2))
      let q2 := [zl, zu].filter fun z => (lookupE tolZ cdfT z).isNone
      let q3 := if m = .bca then
          let fin := vals.filterMap id
          let s2 := (fin.map fun x => (x - th) * (x - th)).sum
          if (lookupE tolZ p15T (.fin s2)).isNone then ["p15:" ++ fmtRat s2] else []
        else []
      (q1.map fun p => "ppf:" ++ fmtRat p) ++ (q2.map fun z => "cdf:" ++ fmtERat z) ++ q3

/-- distance of the BCa denominators from their pole -/
def c14_pole (nrm : Normal) (p15 : Rat → Rat) (m : BootMethod) (vals : List (Option Rat))
    (th alpha : Rat) : Rat :=
  match m, fracLe vals th with
  | .bca, some p0 =>
    match nrm.ppf p0, nrm.ppf (alpha / 2), nrm.ppf (1 - alpha / 2) with
    | .fin z0, .fin zl, .fin zu =>
      let acc := acceleration p15 vals th
      min (absR (1 - acc * (z0 + zl))) (absR (1 - acc * (z0 + zu)))
    | _, _, _ => 1
  | _, _ => 1

/-- op `bootmetric`: the observed replicate matrix of `bootstrap_metric` (`obs`, `nb` x `nc`,
flattened), the rows the harness obtained by applying the metric to the recorded samples (`exp`),
the point estimate `est`, and the observed interval `ci_lo` / `ci_hi` of `bootstrap_ci`.
The model interval is `bootstrapCIOf` instantiated with the OBSERVED replicates: sample `j` is
the index `j`, the "original object" is the index `nb`, and the metric looks the row up. -/
def opBootmetric (a : Args) : Except String String := do
  let nb ← getNat a "nb"
  let nc ← getNat a "nc"
  let obsF ← getORats a "obs"
  let expF ← getORats a "exp"
  let est ← getORats a "est"
  let alpha ← getRat a "alpha"
  let m ← parseBootMethod (← get a "method")
  let eps ← getRat a "eps"
  let epsRows ← getRat a "eps_rows"
  let identity ← getBool a "identity"
  let ciLo ← getORats a "ci_lo"
  let ciHi ← getORats a "ci_hi"
  if obsF.length ≠ nb * nc then throw s!"obs has {obsF.length} entries, expected {nb * nc}"
  if expF.length ≠ nb * nc then throw s!"exp has {expF.length} entries, expected {nb * nc}"
  if est.length ≠ nc then throw s!"est has {est.length} entries, expected {nc}"
  if ciLo.length ≠ nc || ciHi.length ≠ nc then throw "ci_lo / ci_hi length"
  let ppfT := (← getERats a "ppf_in").zip (← getERats a "ppf_out")
  let cdfT := (← getERats a "cdf_in").zip (← getERats a "cdf_out")
  let p15T := (← getERats a "p15_in").zip (← getERats a "p15_out")
  let tolP : Rat := 1 / 1000000000000
  let tolZ : Rat := 1 / 1000000000
  let nrm : Normal :=
    { cdf := fun z => eratToRat ((lookupE tolZ cdfT z).getD (.fin 0)),
      ppf := fun p => (lookupE tolP ppfT (.fin p)).getD (.fin 0) }
  let p15 : Rat → Rat := fun x => eratToRat ((lookupE tolZ p15T (.fin x)).getD (.fin 0))
  let obsRows := c14_unflatten nb nc obsF
  let expRows := c14_unflatten nb nc expF
  let obsCI := ciLo.zip ciHi
  -- the model, fed the observed replicates
  let sampler : Nat → Nat := fun j => j
  let metric : Nat → List (Option Rat) := fun s => if s < nb then obsRows.getD s [] else est
  let model := bootstrapCIOf nrm p15 m sampler metric nb nb alpha
  let rows := bootstrapMetric sampler metric nb
  let comps := List.range nc
  let misses : List String := (comps.map fun k =>
    match est.getD k none with
    | some th => c14_misses tolP tolZ ppfT cdfT p15T nrm p15 m (column rows k) th alpha
    | none => []).flatten
  let poles : List Rat := comps.map fun k =>
    match est.getD k none with
    | some th => c14_pole nrm p15 m (column rows k) th alpha
    | none => 1
  -- components the model covers: finite estimate, or the quantile method
  let inModel : List Bool := comps.map fun k => (est.getD k none).isSome || m = .quantile
  let formula : List Bool := (model.zip obsCI).map fun (mo, ob) => formulaOK eps mo ob
  pure (out [("lo", fmtList fmtORat (model.map (·.1))), ("hi", fmtList fmtORat (model.map (·.2))),
    ("miss", "[" ++ String.intercalate "," misses ++ "]"),
    ("pole", fmtList fmtRat poles),
    ("in_model", fmtList fmtBool inModel),
    ("spec.rows", fmtList fmtBool (rowVerdicts epsRows obsRows expRows)),
    ("spec.rows_all", fmtBool (rowsOK epsRows obsRows expRows)),
    ("spec.formula", fmtList fmtBool formula),
    ("spec.identity", fmtBool (if identity then identityOK eps est obsCI else true))])

def opsC14 : List (String × (Args → Except String String)) := [("bootmetric", opBootmetric)]

end SA.Ops
