import SA.Driver.Wire
import SA.Driver.OpsC02
import SA.Model.Roc
import SA.Spec.C15

namespace SA.Ops
open SA SA.Wire SA.Spec

/-- `none` or a list of rationals -/
def getOptRats15 (a : Args) (k : String) : Except String (Option (List Rat)) := do
  let v ← get a k
  if v = "none" then pure none
  else do
    let l ← parseList parseRat v
    pure (some l)

/-- `none` or a natural number -/
def getOptNat15 (a : Args) (k : String) : Except String (Option Nat) := do
  let v ← get a k
  if v = "none" then pure none
  else do
    let n ← parseNat v
    pure (some n)

/-- op `roc`: Scores keys, `fnr fpr thr` (`none` or lists), `nb` (`none` or a number), `xaxis`.
Model output: `err`, or `mthr mfnr mfpr` and the unsorted supplied points `msup`.
With `obs=1` the observed curve is judged: `othr ofnr ofpr` (returned arrays), `ocm` (the
implementation's `scores.cm(othr)` cells), `ox` (the `x_axis` view), `otpr otnr` (views),
`req` (values required to occur exactly), tolerances `epsr` (rates / views), `epst`
(thresholds, relative). -/
def opRoc (a : Args) : Except String String := do
  let s ← getScores a
  let fnr ← getOptRats15 a "fnr"
  let fpr ← getOptRats15 a "fpr"
  let thr ← getOptRats15 a "thr"
  let nb ← getOptNat15 a "nb"
  let xaxis ← get a "xaxis"
  let u := Ulp.float64
  let model : List (String × String) :=
    match roc u s fnr fpr thr nb xaxis with
    | .error e => [("err", fmtErr e)]
    | .ok c =>
      let sup := match suppliedPoints u s fnr fpr thr with
        | .ok l => l
        | .error _ => []
      [("mthr", fmtList fmtRat c.thresholds), ("mfnr", fmtList fmtORat c.fnr),
       ("mfpr", fmtList fmtORat c.fpr), ("msup", fmtList fmtRat sup)]
  if getD a "obs" "0" = "1" then
    let othr ← getRats a "othr"
    let ofnr ← getORats a "ofnr"
    let ofpr ← getORats a "ofpr"
    let ocm := chunk4 (← getNats a "ocm")
    let ox ← getORats a "ox"
    let otpr ← getORats a "otpr"
    let otnr ← getORats a "otnr"
    let req ← getRats a "req"
    let epsr ← getRat a "epsr"
    let epst ← getRat a "epst"
    let mcm := othr.map fun t => s.cm (.fin t)
    let sup := match suppliedPoints u s fnr fpr thr with
      | .ok l => l
      | .error _ => []
    pure (out (model ++ [
      ("mcm", fmtList toString (flatCM mcm)),
      ("rfnr", fmtList fmtORat (mcm.map CM.fnr)), ("rfpr", fmtList fmtORat (mcm.map CM.fpr)),
      ("spec.rates", fmtBool (C15.ratesMatchOK epsr othr.length ocm ofnr ofpr)),
      ("spec.monotone", fmtBool (C15.monotoneOK ox)),
      ("spec.contains", fmtBool (C15.containsOK 0 req othr)),
      ("spec.containsmodel", fmtBool (C15.containsOK epst sup othr)),
      ("spec.length", fmtBool (C15.lengthOK s fnr fpr thr nb othr.length)),
      ("spec.views", fmtBool (C15.viewsOK epsr ofnr ofpr otpr otnr))]))
  else pure (out model)

def opsC15 : List (String × (Args → Except String String)) :=
  [("roc", opRoc)]

end SA.Ops
