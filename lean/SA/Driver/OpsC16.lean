import SA.Driver.Wire
import SA.Driver.OpsC02
import SA.Driver.OpsC15
import SA.Model.RocCI
import SA.Spec.C16

namespace SA.Ops
open SA SA.Wire SA.Spec

/-- two lists of possibly-NaN numbers as rows `(lo, hi)` -/
def getBand16 (a : Args) (klo khi : String) : Except String (List OIv) := do
  let lo ← getORats a klo
  let hi ← getORats a khi
  if lo.length ≠ hi.length then .error s!"band {klo}/{khi}: lengths differ"
  else pure (lo.zip hi)

def fmtBand16 (klo khi : String) (b : List OIv) : List (String × String) :=
  [(klo, fmtList fmtORat (b.map (·.1))), (khi, fmtList fmtORat (b.map (·.2)))]

/-- op `aggr`: `_aggregate_rectangles(x, dxp, dyp)` on observed arguments (NaN allowed).
Keys: `x`, `dxlo dxhi`, `dylo dyhi`, the observed result `olo ohi`, `eps`; `unit=1` also asks for
the `[0,1]` clause.  Output: the model band and the verdicts on the OBSERVED band. -/
def opAggr (a : Args) : Except String String := do
  let x ← getORats a "x"
  let dxp ← getBand16 a "dxlo" "dxhi"
  let dyp ← getBand16 a "dylo" "dyhi"
  let obs ← getBand16 a "olo" "ohi"
  let eps ← getRat a "eps"
  if x.length ≠ dyp.length ∨ dxp.length ≠ dyp.length then
    .error "aggr: x, dxp, dyp must have the same number of rows"
  else
    let m := aggregateRectanglesO x dxp dyp
    pure (out (fmtBand16 "mlo" "mhi" m ++ [
      ("spec.shape", fmtBool (C16.shapeOK x.length obs)),
      ("spec.nanfree", fmtBool (C16.nanFreeOK obs)),
      ("spec.ordered", fmtBool (C16.orderedOK obs)),
      ("spec.unit", fmtBool (C16.unitOK eps obs)),
      ("spec.envelope", fmtBool (C16.envelopeOK eps x dxp dyp obs))]))

/-- op `rot`: `_apply_rule_of_three(p, ci, alpha, n)`.  Keys: `p` (the EXACT rates `fn/(tp+fn)`
resp. `fp/(fp+tn)` of the object, so that the comparison with `1/n` is the one the floats make),
`cilo cihi`, `n`, `powa` (`math.pow(alpha, 1/n)`), the observed result `olo ohi`, `eps`. -/
def opRot (a : Args) : Except String String := do
  let p ← getORats a "p"
  let ci ← getBand16 a "cilo" "cihi"
  let n ← getNat a "n"
  let powa ← getRat a "powa"
  let obs ← getBand16 a "olo" "ohi"
  let eps ← getRat a "eps"
  if p.length ≠ ci.length then .error "rot: p and ci must have the same number of rows"
  else
    match applyRuleOfThreeO powa p ci n with
    | .error e => pure (out [("err", fmtErr e)])
    | .ok m =>
      pure (out (fmtBand16 "mlo" "mhi" m ++ [
        ("spec.shape", fmtBool (C16.shapeOK p.length obs)),
        ("spec.nanfree", fmtBool (C16.nanFreeOK obs)),
        ("spec.ordered", fmtBool (C16.orderedOK obs)),
        ("spec.rot", fmtBool (C16.ruleOfThreeOK eps powa n p ci obs))]))

def absR16 (x : Rat) : Rat := if x < 0 then -x else x

/-- is some defined `x` within `tol` of `v` without being equal to it? -/
def nearMiss16 (tol v : Rat) (xs : List (Option Rat)) : Bool :=
  xs.any fun o => match o with
    | some x => decide (x ≠ v) && decide (absR16 (x - v) ≤ tol)
    | none => false

/-- op `rocci`: `roc_with_ci`.  Keys: Scores keys, `fnr fpr thr` (`none` or lists), `nb` (`none`
or a number), `xaxis`, `powpos pownegv` (`math.pow(alpha, 1/len(pos))`, `.. 1/len(neg))`), the
pointwise bootstrap intervals observed at the implementation's own `scores.bootstrap_ci` call
`bflo bfhi` (FNR) `bglo bghi` (FPR), the returned curve `othr ofnr ofpr`, the implementation's
`scores.cm(othr)` cells `ocm`, the returned bands `fblo fbhi` (FNR) `gblo gbhi` (FPR), `base` (the
implementation's own plain support, `_find_support_thresholds(..., None, x_axis)`), `extra`
(number of extra points that plain support calls for), `ox` (the `x_axis` view of the curve), `eps`,
`epsr`.
Output: the model's plain support (`mbase`, sorted, or `err`), the model's extension of the
OBSERVED plain support (`mthr`, or `exterr`; evaluating the extension on the observed base keeps
the rates at its first / last threshold, on which the number of extra points depends
discontinuously, identical on both sides), the model's matrices at the observed thresholds (`mcm`),
the model's bands from the observed intervals, and the verdicts on the OBSERVED curve. -/
def opRocci (a : Args) : Except String String := do
  let s ← getScores a
  let fnr ← getOptRats15 a "fnr"
  let fpr ← getOptRats15 a "fpr"
  let thr ← getOptRats15 a "thr"
  let nb ← getOptNat15 a "nb"
  let xaxis ← get a "xaxis"
  let powPos ← getRat a "powpos"
  let powNeg ← getRat a "pownegv"
  let bf ← getBand16 a "bflo" "bfhi"
  let bg ← getBand16 a "bglo" "bghi"
  let othr ← getRats a "othr"
  let ofnr ← getORats a "ofnr"
  let ofpr ← getORats a "ofpr"
  let ocm := chunk4 (← getNats a "ocm")
  let bandF ← getBand16 a "fblo" "fbhi"
  let bandG ← getBand16 a "gblo" "gbhi"
  let extra ← getNat a "extra"
  let base ← getRats a "base"
  let ox ← getORats a "ox"
  let eps ← getRat a "eps"
  let epsr ← getRat a "epsr"
  let u := Ulp.float64
  let model : List (String × String) :=
    (match supportPoints u s fnr fpr thr nb with
      | .error e => [("err", fmtErr e)]
      | .ok l => [("mbase", fmtList fmtRat (sortQ l))]) ++
    (match extendSupport u s base rocCIExtraPoints xaxis with
      | .error e => [("exterr", fmtErr e)]
      | .ok ts => [("mthr", fmtList fmtRat ts)])
  let mcm := othr.map fun t => s.cm (.fin t)
  -- exact rates of the object at the observed thresholds decide the rule of three
  let pF := mcm.map CM.fnr
  let pG := mcm.map CM.fpr
  let npos := s.pos.length
  let nneg := s.neg.length
  let mbands : List (String × String) :=
    match applyRuleOfThreeO powPos pF bf npos, applyRuleOfThreeO powNeg pG bg nneg with
    | .ok cf, .ok cg =>
      fmtBand16 "mflo" "mfhi" (aggregateRectanglesO ofpr cg cf) ++
      fmtBand16 "mglo" "mghi" (aggregateRectanglesO ofnr cf cg)
    | _, _ => []
  let tol : Rat := 1 / 1000000000
  let disc := nearMiss16 tol (1 - powPos) ofnr || nearMiss16 tol (1 - powNeg) ofpr
  let n := othr.length
  pure (out (model ++ mbands ++ [
    ("mcm", fmtList toString (flatCM mcm)),
    ("sentinels", fmtList fmtRat (sentinelThresholds u s)),
    ("disc", fmtBool disc),
    ("spec.rates", fmtBool (C15.ratesMatchOK epsr n ocm ofnr ofpr)),
    ("spec.monotone", fmtBool (C15.monotoneOK ox)),
    ("spec.shape", fmtBool (C16.shapeOK n bandF && C16.shapeOK n bandG)),
    ("spec.nanfree", fmtBool (C16.nanFreeOK bandF && C16.nanFreeOK bandG)),
    ("spec.ordered", fmtBool (C16.orderedOK bandF && C16.orderedOK bandG)),
    ("spec.unit", fmtBool (C16.unitOK eps bandF && C16.unitOK eps bandG)),
    ("spec.closedform", fmtBool (C16.closedFormOK eps powPos powNeg npos nneg pF pG ofnr ofpr bf bg
      bandF bandG)),
    ("spec.sentinels", fmtBool (C16.sentinelsOK u s othr)),
    ("spec.length", fmtBool (C16.supportLengthOK s fnr fpr thr nb extra n))]))

/-- op `band`: the well-formedness clauses on one observed band (the output-level clauses of C16
for `fixed_width_band_ci`; its internals are tied to the model by the ops of OpsC16Fwb).  Keys: `n`, `lo hi`, `eps`. -/
def opBand (a : Args) : Except String String := do
  let n ← getNat a "n"
  let obs ← getBand16 a "lo" "hi"
  let eps ← getRat a "eps"
  pure (out [
    ("spec.shape", fmtBool (C16.shapeOK n obs)),
    ("spec.nanfree", fmtBool (C16.nanFreeOK obs)),
    ("spec.ordered", fmtBool (C16.orderedOK obs)),
    ("spec.unit", fmtBool (C16.unitOK eps obs))])

def opsC16 : List (String × (Args → Except String String)) :=
  [("aggr", opAggr), ("rot", opRot), ("rocci", opRocci), ("band", opBand)]

end SA.Ops
