import SA.Driver.Wire
import SA.Driver.OpsC02
import SA.Driver.OpsC16
import SA.Model.FixedWidth
import SA.Spec.C16Fwb

namespace SA.Ops
open SA SA.Wire SA.Spec

/-- all entries defined, or a message -/
def c16f_getDefined (a : Args) (k : String) : Except String (List Rat) := do
  match c16f_defined (← getORats a k) with
  | some l => pure l
  | none => .error s!"{k}: NaN entry"

/-- op `displace`: one observed `_displace_curve(x, y, v)` call.  Keys: `top`
(`np.nextafter(1.0, np.inf)`), `x y` (the arguments), `v0 v1`, the observed result `ox oy`, `eps`.
Output: the model's result (`mx my` or `err`) and the verdicts on the OBSERVED result. -/
def opDisplace (a : Args) : Except String String := do
  let top ← getRat a "top"
  let x ← getRats a "x"
  let y ← getRats a "y"
  let v0 ← getRat a "v0"
  let v1 ← getRat a "v1"
  let ox ← getORats a "ox"
  let oy ← getORats a "oy"
  let eps ← getRat a "eps"
  let model : List (String × String) :=
    match c16f_displaceCurve top x y v0 v1 with
    | .error e => [("err", fmtErr e)]
    | .ok (mx, my) => [("mx", fmtList fmtRat mx), ("my", fmtList fmtRat my)]
  let sorted : Bool :=
    match c16f_defined ox, c16f_defined oy with
    | some dx, some dy => C16Fwb.curveSortedOK top dx dy
    | _, _ => false
  pure (out (model ++ [
    ("spec.displace", fmtBool (C16Fwb.displaceOK eps top x y v0 v1 ox oy)),
    ("spec.sorted", fmtBool sorted)]))

/-- does `np.interp` return a table ordinate without any arithmetic (abscissa outside the table, an
exact hit, the last point, or a flat segment, where `slope = 0`)?  Then the float result is exactly
the model's. -/
def c16f_scanExact (x : Rat) : Rat → Rat → List (Rat × Rat) → Bool
  | _, _, [] => true
  | a, b, (a', b') :: rest =>
    if a' ≤ x then c16f_scanExact x a' b' rest
    else if a = x then true
    else decide (b' = b)

def c16f_interpExact (x : Rat) (pts : List (Rat × Rat)) : Bool :=
  match pts with
  | [] => true
  | (a, b) :: rest =>
    let last := rest.getLast?.getD (a, b)
    if last.1 < x then true else if x < a then true else c16f_scanExact x a b rest

/-- the containment comparisons at radius `delta` as pairs (`|interp(xs; displaced curve) - ys|`,
could float rounding decide this comparison differently?).  A comparison of a table ordinate (no
interpolation arithmetic) can only flip within `tol / 1000` of equality, and not at all if the ordinate
is one of the constants `0`, `1`, `top`; an interpolated value within `tol` of equality.  `none` if
the model raises. -/
def c16f_margins (tol top : Rat) (x y xs ys : List Rat) (k delta : Rat) : Option (List (Rat × Bool)) :=
  let one (v0 v1 : Rat) : Option (List (Rat × Bool)) :=
    match c16f_displaceCurve top x y v0 v1 with
    | .error _ => none
    | .ok (xp, yp) =>
      match c16f_interp xs xp yp with
      | .error _ => none
      | .ok v =>
        let ord := ((v.zip ys).zip xs).map fun p =>
          let m := absR16 (p.1.1 - p.1.2)
          let val := p.1.1
          if c16f_interpExact p.2 (xp.zip yp) then
            -- a table ordinate: `0`, `1` and `top` are the same floats on both sides; any other is
            -- `y + delta * k` rounded once or twice
            (m, !(decide (val = 0) || decide (val = 1) || decide (val = top)) && decide (m ≤ tol / 1000))
          else (m, decide (m ≤ tol))
        -- abscissa ties: a displaced knot `x + delta` (rounded once in floating point; `0`, `1`, `top` are exact)
        -- within `tol / 1000` of an evaluation point: whether the point falls on the knot, just before or just
        -- after it is decided by that rounding, and at a repeated knot (a vertical piece of the curve) the
        -- interpolated value jumps there
        let knots := xp.filter fun a => !(decide (a = 0) || decide (a = 1) || decide (a = top))
        let absc := xs.flatMap fun e =>
          (knots.filter fun a => decide (absR16 (e - a) ≤ tol / 1000)).map fun a => (absR16 (e - a), true)
        some (ord ++ absc)
  match one (delta * 1) (delta * k), one (-delta * 1) (-delta * k) with
  | some a, some b => some (a ++ b)
  | _, _ => none

/-- the radii at which the model's `_find_tube_radius` evaluates `_is_contained` -/
def c16f_visitedLoop (contained : Rat → Except Err Bool) : Nat → Rat → Rat → List Rat
  | 0, _, _ => []
  | fuel + 1, lo, hi =>
    if hi - lo > c16f_tol then
      let delta := (hi + lo) / 2
      match contained delta with
      | .error _ => [delta]
      | .ok true => delta :: c16f_visitedLoop contained fuel lo delta
      | .ok false => delta :: c16f_visitedLoop contained fuel delta hi
    else []

def c16f_visited (top : Rat) (x y xs ys : List Rat) (k : Rat) : List Rat :=
  match c16f_isContained top x y xs ys k 0 with
  | .ok false =>
    match c16f_isContained top x y xs ys k 4 with
    | .ok true => [0, 4] ++ c16f_visitedLoop (c16f_isContained top x y xs ys k) 7 0 1
    | _ => [0, 4]
  | _ => [0]

/-- length of the common prefix -/
def c16f_commonPrefix : List Rat → List Rat → Nat
  | a :: l, b :: m => if a = b then 1 + c16f_commonPrefix l m else 0
  | _, _ => 0

/-- the radius at which the implementation's containment decision first differs from the model's:
the last radius that both evaluate (both start at `0`; the next radius, or the result, depends
on the decision there) -/
def c16f_divergence (mvis ovis : List Rat) : Option Rat :=
  let c := c16f_commonPrefix mvis ovis
  if c = 0 then none else mvis[c - 1]?

/-- `_find_tube_radius` with an arbitrary containment test (the model's is
`c16f_findTubeRadius = c16f_radiusWith (c16f_isContained ...)` by unfolding) -/
def c16f_radiusWith (c : Rat → Except Err Bool) : Except Err Rat :=
  match c 0 with
  | .error e => .error e
  | .ok true => .ok 0
  | .ok false =>
    match c 4 with
    | .error e => .error e
    | .ok false => .error .valueError
    | .ok true => c16f_bisectLoop c 7 0 1

/-- op `tuberadius`: one observed `_find_tube_radius(x, y, xs, ys, k)` call.  Keys: `top`, `x y`,
`xs ys`, `k`, the observed result `obs`, `ovis` (the radii at which the implementation evaluated
`_is_contained`, from its recorded `_displace_curve` calls), `eps`.
Output: the model's radius (`mr` or `err`), the verdicts on the OBSERVED radius, and, only when the
observed radius is not the model's: `mvis` (the radii the model evaluates), `div` (the radius at which
the two containment decisions differ) and `nearties` (the number of comparisons AT THAT RADIUS that
float rounding could decide differently, see `c16f_margins`; `margin` is the smallest distance from
equality there) and `flipok` (is the observed radius what the model returns with the opposite decision
at `div`?). -/
def opTubeRadius (a : Args) : Except String String := do
  let top ← getRat a "top"
  let x ← getRats a "x"
  let y ← getRats a "y"
  let xs ← getRats a "xs"
  let ys ← getRats a "ys"
  let k ← getRat a "k"
  let obs ← getORat a "obs"
  let ovis ← getRats a "ovis"
  let eps ← getRat a "eps"
  let model : List (String × String) :=
    match c16f_findTubeRadius top x y xs ys k with
    | .error e => [("err", fmtErr e)]
    | .ok r => [("mr", fmtRat r)]
  let agree := C16Fwb.radiusOK eps top x y xs ys k obs
  let tol : Rat := 1 / 1000000000
  let diag : List (String × String) :=
    if agree then []
    else
      let mvis := c16f_visited top x y xs ys k
      match c16f_divergence mvis ovis with
      | none => [("mvis", fmtList fmtRat mvis), ("div", "none"), ("nearties", "0")]
      | some d =>
        let ms := (c16f_margins tol top x y xs ys k d).getD []
        let margin : String := match ms.map (·.1) with
          | [] => "none"
          | m :: rest => fmtRat (rest.foldl min m)
        -- what the model returns if its decision at `d` (and only there) is the opposite one
        let c : Rat → Except Err Bool := fun r =>
          match c16f_isContained top x y xs ys k r with
          | .error e => .error e
          | .ok b => .ok (if r = d then !b else b)
        let flipok : Bool := match c16f_radiusWith c with
          | .error _ => false
          | .ok r => C15.nearO eps (some r) obs
        [("mvis", fmtList fmtRat mvis), ("div", fmtRat d), ("margin", margin),
         ("nearties", toString (ms.filter (·.2)).length), ("flipok", fmtBool flipok)]
  pure (out (model ++ diag ++ [
    ("spec.grid", fmtBool (C16Fwb.radiusGridOK obs)),
    ("spec.radius", fmtBool agree)]))

/-- op `fwband`: the assembly of the band of one observed `fixed_width_band_ci` call.
Keys: `top`, `n` (number of thresholds), `f g` (the returned FNR / FPR), `k`
(`np.sqrt(len(neg) / len(pos))` as passed to `_find_tube_radius`), `npos nneg`, `radii` (the
observed results of the `_find_tube_radius` calls), `alpha`, `odelta` (the observed upper limit
returned by `bootstrap_ci`), `vp0 vp1 vm0 vm1` (the displacement vectors of the two final
`_displace_curve` calls), their observed results `fP gP` and `fM gM`, the returned bands
`fblo fbhi` (FNR) `gblo gbhi` (FPR), `eps`.
Output: the model's `delta` and bands, and the verdicts on the OBSERVED values. -/
def opFwBand (a : Args) : Except String String := do
  let top ← getRat a "top"
  let n ← getNat a "n"
  let fO ← getORats a "f"
  let gO ← getORats a "g"
  let k ← getRat a "k"
  let npos ← getNat a "npos"
  let nneg ← getNat a "nneg"
  let radiiO ← getORats a "radii"
  let alpha ← getRat a "alpha"
  let odelta ← getORat a "odelta"
  let vp0 ← getRat a "vp0"
  let vp1 ← getRat a "vp1"
  let vm0 ← getRat a "vm0"
  let vm1 ← getRat a "vm1"
  let fPO ← getORats a "fP"
  let gPO ← getORats a "gP"
  let fMO ← getORats a "fM"
  let gMO ← getORats a "gM"
  let bandF ← getBand16 a "fblo" "fbhi"
  let bandG ← getBand16 a "gblo" "gbhi"
  let eps ← getRat a "eps"
  let wf : List (String × String) := [
    ("spec.shape", fmtBool (C16.shapeOK n bandF && C16.shapeOK n bandG)),
    ("spec.nanfree", fmtBool (C16.nanFreeOK bandF && C16.nanFreeOK bandG)),
    ("spec.ordered", fmtBool (C16.orderedOK bandF && C16.orderedOK bandG)),
    ("spec.wellformed", fmtBool (C16Fwb.wellFormedOK n bandF bandG)),
    ("spec.range", fmtBool (C16Fwb.rangeOK eps top bandF && C16Fwb.rangeOK eps top bandG)),
    ("spec.slope", fmtBool (C16Fwb.slopeOK eps npos nneg k))]
  let rel : List (String × String) :=
    match c16f_defined fO, c16f_defined gO, c16f_defined radiiO with
    | some f, some g, some radii =>
      let mdelta := c16f_deltaOf radii alpha
      let curves : List (String × String) :=
        match c16f_defined fPO, c16f_defined gPO, c16f_defined fMO, c16f_defined gMO with
        | some fP, some gP, some fM, some gM => [
            ("spec.sortedp", fmtBool (C16Fwb.curveSortedOK top fP gP)),
            ("spec.sortedm", fmtBool (C16Fwb.curveSortedOK top fM gM)),
            ("spec.bandrel", fmtBool (C16Fwb.bandRelOK eps f g fP gP fM gM bandF bandG))]
        | _, _, _, _ => [("nancurves", "1")]
      let closed : List (String × String) :=
        match odelta with
        | some d =>
          (match c16f_bandFromDelta top f g k d with
            | .error e => [("err", fmtErr e)]
            | .ok b => fmtBand16 "mflo" "mfhi" (b.1.map Iv.lift) ++ fmtBand16 "mglo" "mghi" (b.2.map Iv.lift)) ++
          [("spec.vectors", fmtBool (C16Fwb.vectorsOK eps k d vp0 vp1 vm0 vm1)),
           ("spec.closedform", fmtBool (C16Fwb.closedFormOK eps top f g k d bandF bandG))]
        | none => [("nandelta", "1")]
      [("mdelta", fmtORat mdelta),
       ("spec.radii", fmtBool (radiiO.all C16Fwb.radiusGridOK)),
       ("spec.delta", fmtBool (C16Fwb.deltaOK eps radii alpha odelta))] ++ curves ++ closed
    | _, _, _ => [("nanrates", "1")]
  pure (out (wf ++ rel))

def opsC16Fwb : List (String × (Args → Except String String)) :=
  [("displace", opDisplace), ("tuberadius", opTubeRadius), ("fwband", opFwBand)]

end SA.Ops
