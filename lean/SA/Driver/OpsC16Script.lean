import SA.Driver.Wire
import SA.Driver.OpsC11
import SA.Driver.OpsC14
import SA.Driver.OpsC16
import SA.Model.RocCIScript
import SA.Spec.C16

/-!
Op `rocciscript`: `roc_with_ci` / `pointwise_band_ci` end to end on a recorded RNG script
(model: SA/Model/RocCIScript.lean, theorems: SA/Theorems/C16Script.lean).

The model is run on the implementation's own thresholds (`othr`; the support computation is tied to
the model by op `rocci`), with the rate-rounding oracle `rnd` = "the float the implementation
returned for this exact rate" (`ofnr` / `ofpr`), on the recorded answers of the RNG.

Exact arithmetic vs floats.  The `_metric` closure evaluates a step function (a rate) at an
interpolated threshold; where the exact threshold lies within `tol` of a score of the class the
rate counts, float rounding decides on which side it falls.  Such entries of the replicate matrix
are *fragile*: they are reported (`nfrag`), compared separately, and for the patched bands
(`pflo ...`) replaced by the fraction `c / den` nearest to the observed replicate.  Likewise
`cover` flags a rectangle end point within `tol` of a point it may or may not cover.
-/

namespace SA.Ops
open SA SA.Wire SA.Spec

def absRS (x : Rat) : Rat := if x < 0 then -x else x

/-- exact-rate -> observed-float table lookup (identity outside the table) -/
def rndTable (tbl : List (Rat × Rat)) (x : Rat) : Rat :=
  match tbl.find? (fun e => e.1 == x) with
  | some e => e.2
  | none => x

/-- zip exact (possibly NaN) rates with the observed floats -/
def rateTable : List (Option Rat) → List (Option Rat) → List (Rat × Rat)
  | some x :: xs, some y :: ys => (x, y) :: rateTable xs ys
  | _ :: xs, _ :: ys => rateTable xs ys
  | _, _ => []

/-- per target: does the threshold lie within `tol` of a score of the array the rate counts? -/
def fragileRow (tol : Rat) (thrs : List Rat) (arr : List Rat) : List Bool :=
  thrs.map fun t => arr.any fun y => decide (absRS (t - y) ≤ tol)

/-- fragility of the entries of `_metric(smp)`: FNR part (thresholds set on the negatives, counted
on the positives), FPR part (the other way round); all `true` if the metric raises -/
def fragileMetric (u : Ulp) (tol : Rat) (fT gT : List Rat) (smp : Scores) : List Bool × List Bool :=
  match smp.thresholdAtArr u .fpr gT .linear, smp.thresholdAtArr u .fnr fT .linear with
  | .ok tg, .ok tf => (fragileRow tol tg smp.pos, fragileRow tol tf smp.neg)
  | _, _ => (gT.map fun _ => true, fT.map fun _ => true)

/-- the fraction `c / den` nearest to an observed rate -/
def nearestFrac (obs : Rat) (den : Nat) : Rat :=
  if den = 0 then obs
  else
    let c := (obs * (den : Rat) + 1 / 2).floor
    (c : Rat) / (den : Rat)

/-- patch one row: where the entry is fragile and an observed value exists, take the fraction
nearest to the observed value -/
def patchRow (den : Nat) : List (Option Rat) → List Bool → List (Option Rat) → List (Option Rat)
  | m :: ms, f :: fs, o :: os =>
    (if f then (match o with
      | some x => some (nearestFrac x den)
      | none => none) else m) :: patchRow den ms fs os
  | ms, _, _ => ms

/-- entry-wise agreement of a model row with an observed row, fragile entries excused when the
patched value is within `eps` of the observation; returns (all fine, number of fragile entries) -/
def cmpRow (eps : Rat) : List (Option Rat) → List (Option Rat) → List Bool → List (Option Rat) → Bool
  | m :: ms, p :: ps, f :: fs, o :: os =>
    (C15.nearO eps m o || (f && C15.nearO eps p o)) && cmpRow eps ms ps fs os
  | [], [], [], [] => true
  | _, _, _, _ => false

/-- bands from a point estimate and a replicate matrix: the tail of `rocCIScriptFrom` /
`pointwiseScriptFrom` (joint interval, rule of three, aggregation) -/
def bandsFromReps (pw : Bool) (p : BootParams) (npos nneg : Nat) (powPos powNeg : Rat)
    (f g : List (Option Rat)) (est : JointVal) (reps : List JointVal) :
    Option (List OIv × List OIv × List OIv × List OIv) :=
  let joint := jointBootCI p.nrm p.pow15 p.method p.alpha est reps
  match applyRuleOfThreeO powPos f joint.1 npos, applyRuleOfThreeO powNeg g joint.2 nneg with
  | .ok cf, .ok cg =>
    if pw then some (cf, cg, cf, cg)
    else some (aggregateRectanglesO g cg cf, aggregateRectanglesO f cf cg, cf, cg)
  | _, _ => none

/-- a rectangle end point within `tol` of a point without being a value that floats reproduce
exactly (a replicate of its column, 0, 1, pow) -/
def coverFlag (tol : Rat) (xs : List (Option Rat)) (rects : List OIv) (cols : List (List (Option Rat)))
    (powA : Rat) : Bool :=
  (rects.zip cols).any fun rc =>
    [rc.1.1, rc.1.2].any fun e =>
      match e with
      | none => false
      | some ev =>
        let safe := ev == 0 || ev == 1 || ev == powA || rc.2.contains (some ev)
        xs.any fun x =>
          match x with
          | none => false
          | some xv => decide (absRS (ev - xv) ≤ tol) && (ev != xv || !safe)

def transposeCols (n : Nat) (rows : List (List (Option Rat))) : List (List (Option Rat)) :=
  (List.range n).map fun k => rows.map fun r => r.getD k none

/-- op `rocciscript`.  Keys: Scores keys; `fn` (`rwc` | `pw`); the call's arguments `fnr fpr thr nb
xaxis` (the model's own support computation is reported as `msup`); `alpha`, `bm` (bootstrap method),
`method strat smooth ratio prods` (sampling configuration as in op `sample`), `nbs`; the script
`resp rl` and the recorded requests `qk qn qs qr qp`; oracle tables `ppf_in ppf_out cdf_in cdf_out
p15_in p15_out`; `powpos pownegv`; observed curve `othr ofnr ofpr`, bands `fblo fbhi gblo gbhi`;
observed point estimate `oest` and replicate matrix `orep` (row-major `nbs x 2n`; `hasrep=0` if not
recorded); `eps`, `tol`.
Output: the model's result / bands (`mres`, `mflo mfhi mglo mghi`), the bands after patching the
fragile replicate entries (`pflo ...`), the closed form evaluated on the implementation's own
replicate matrix (`cflo ...`), the request comparison (`tracediff`, `mok`, `left`, `nreq`), the flags
`nfrag cover coverobs disc`, `miss`, `pole`, and the verdicts `spec.requests` (the model issued exactly
the recorded requests, its run on the recorded answers is `ok` and reads them all), `spec.bands`,
`spec.bands_patched`, `spec.replicates`, `spec.closedform` (the observed bands are
aggregate(rule of three(C13 formula on the OBSERVED replicates))) and the C16 clauses
`spec.shape / nanfree / ordered / unit` on the implementation's bands. -/
def opRocciScript (a : Args) : Except String String := do
  let s ← getScores a
  let pw := (← get a "fn") = "pw"
  let fnr ← getOptRats15 a "fnr"
  let fpr ← getOptRats15 a "fpr"
  let thr ← getOptRats15 a "thr"
  let nb ← getOptNat15 a "nb"
  let xaxis ← get a "xaxis"
  let alpha ← getRat a "alpha"
  let bm ← parseBootMethod (← get a "bm")
  let method ← parseSamplingMethod (← get a "method")
  let byLabel ← getBool a "strat"
  let smoothing ← getBool a "smooth"
  let ratioS ← get a "ratio"
  let ratio : Option Rat ← (if ratioS = "none" then pure none else do pure (some (← parseRat ratioS)))
  let prods ← getRats a "prods"
  let nbs ← getNat a "nbs"
  let script ← getScript a
  let oreqs ← getReqs a "q"
  let ppfT := (← getERats a "ppf_in").zip (← getERats a "ppf_out")
  let cdfT := (← getERats a "cdf_in").zip (← getERats a "cdf_out")
  let p15T := (← getERats a "p15_in").zip (← getERats a "p15_out")
  let powPos ← getRat a "powpos"
  let powNeg ← getRat a "pownegv"
  let othr ← getRats a "othr"
  let ofnr ← getORats a "ofnr"
  let ofpr ← getORats a "ofpr"
  let bandF ← getBand16 a "fblo" "fbhi"
  let bandG ← getBand16 a "gblo" "gbhi"
  let hasRep ← getBool a "hasrep"
  let oest ← (if hasRep then getORats a "oest" else pure [])
  let orep ← (if hasRep then getORats a "orep" else pure [])
  let eps ← getRat a "eps"
  let tol ← getRat a "tol"
  let n := othr.length
  if ofnr.length ≠ n ∨ ofpr.length ≠ n then throw "ofnr / ofpr length"
  if hasRep && (oest.length ≠ 2 * n ∨ orep.length ≠ nbs * (2 * n)) then throw "oest / orep length"
  let u := Ulp.float64
  let ns := [s.pos.length, s.neg.length, s.easyPos, s.easyNeg]
  let fmul : Rat → Nat → Rat := fun r k =>
    match (ns.zip prods).find? (fun x => x.1 == k) with
    | some x => x.2
    | none => r * k
  let c : BootCfg := ⟨method, byLabel, smoothing, ratio, fmul⟩
  let tolP : Rat := 1 / 1000000000000
  let tolZ : Rat := 1 / 1000000000
  let nrm : Normal :=
    { cdf := fun z => eratToRat ((lookupE tolZ cdfT z).getD (.fin 0)),
      ppf := fun p => (lookupE tolP ppfT (.fin p)).getD (.fin 0) }
  let p15 : Rat → Rat := fun x => eratToRat ((lookupE tolZ p15T (.fin x)).getD (.fin 0))
  -- exact rates of the object at the observed thresholds; `rnd` maps them to the observed floats
  let f := othr.map fun t => (s.cm (.fin t)).fnr
  let g := othr.map fun t => (s.cm (.fin t)).fpr
  let tbl := rateTable f ofnr ++ rateTable g ofpr
  let p : BootParams := ⟨c, nbs, bm, alpha, nrm, p15, rndTable tbl⟩
  let st0 := RngState.init script
  -- the model's own support computation (reported only)
  let msup : String :=
    if pw then (match findSupportThresholds u s fnr fpr thr nb "fnr" with
      | .ok ts => toString ts.length
      | .error e => fmtErr e)
    else (match findSupportThresholdsCI u s fnr fpr thr nb rocCIExtraPoints xaxis with
      | .ok ts => toString ts.length
      | .error e => fmtErr e)
  -- THE MODEL: the function the theorems are about, on the recorded script
  let run := if pw then pointwiseScriptFrom u s p othr powPos powNeg st0
    else rocCIScriptFrom u s p othr powPos powNeg st0
  let mreqs := run.2.requests
  let diff := firstDiff tolP mreqs oreqs 0
  let reqOK := diff == -1 && run.2.ok && run.2.responses.length == 0
  let modelKVs : List (String × String) :=
    match run.1 with
    | .ok cv => [("mres", "ok")] ++ fmtBand16 "mflo" "mfhi" cv.fnrCI ++ fmtBand16 "mglo" "mghi" cv.fprCI
    | .error e => [("mres", fmtErr e)]
  let bandsOK : Bool :=
    match run.1 with
    | .ok cv => C16.bandNear eps cv.fnrCI bandF && C16.bandNear eps cv.fprCI bandG
    | .error _ => false
  -- the pieces, for the fragility analysis and the replicate comparison
  let fT := (metricTargets p.rnd f).getD []
  let gT := (metricTargets p.rnd g).getD []
  let samples : List Scores := match (drawSamples s c nbs st0).1 with
    | .ok l => l
    | .error _ => []
  let metricOf : Scores → JointVal := fun smp => match jointMetric u fT gT smp with
    | .ok v => v
    | .error _ => (gT.map fun _ => none, fT.map fun _ => none)
  let est := metricOf s
  let reps := samples.map metricOf
  let fragEst := fragileMetric u tol fT gT s
  let fragReps := samples.map (fragileMetric u tol fT gT)
  let nfrag := ((fragEst :: fragReps).map fun fr =>
    (fr.1.filter id).length + (fr.2.filter id).length).sum
  -- patched estimate / replicates
  let oestP : JointVal := (oest.take n, oest.drop n)
  let orepRows : List JointVal := (c14_unflatten nbs (2 * n) orep).map fun r => (r.take n, r.drop n)
  let patch : Scores → JointVal → (List Bool × List Bool) → JointVal → JointVal :=
    fun smp m fr o =>
      (patchRow (smp.pos.length + smp.easyPos) m.1 fr.1 o.1,
       patchRow (smp.neg.length + smp.easyNeg) m.2 fr.2 o.2)
  let estP := if hasRep then patch s est fragEst oestP else est
  let repsP := if hasRep then
      (samples.zip (reps.zip (fragReps.zip orepRows))).map fun x => patch x.1 x.2.1 x.2.2.1 x.2.2.2
    else reps
  let repOK : Bool := !hasRep ||
    (cmpRow eps est.1 estP.1 fragEst.1 oestP.1 && cmpRow eps est.2 estP.2 fragEst.2 oestP.2 &&
      reps.length == orepRows.length &&
      ((reps.zip (repsP.zip (fragReps.zip orepRows))).all fun x =>
        cmpRow eps x.1.1 x.2.1.1 x.2.2.1.1 x.2.2.2.1 && cmpRow eps x.1.2 x.2.1.2 x.2.2.1.2 x.2.2.2.2))
  let patched := bandsFromReps pw p s.pos.length s.neg.length powPos powNeg f g estP repsP
  let patchedKVs : List (String × String) :=
    match patched with
    | some b => fmtBand16 "pflo" "pfhi" b.1 ++ fmtBand16 "pglo" "pghi" b.2.1
    | none => []
  let patchedOK : Bool :=
    match patched with
    | some b => C16.bandNear eps b.1 bandF && C16.bandNear eps b.2.1 bandG
    | none => false
  -- the closed form on the implementation's OWN replicates (every entry taken as the fraction c / den
  -- nearest to the observed value): bands = aggregate(rule of three(C13 formula on the observed matrix))
  let allTrue : JointVal → (List Bool × List Bool) := fun v => (v.1.map fun _ => true, v.2.map fun _ => true)
  let estO := if hasRep then patch s est (allTrue est) oestP else est
  let repsO := if hasRep then
      (samples.zip (reps.zip orepRows)).map fun x => patch x.1 x.2.1 (allTrue x.2.1) x.2.2
    else reps
  let closed := bandsFromReps pw p s.pos.length s.neg.length powPos powNeg f g estO repsO
  let closedKVs : List (String × String) :=
    match closed with
    | some b => fmtBand16 "cflo" "cfhi" b.1 ++ fmtBand16 "cglo" "cghi" b.2.1
    | none => []
  let closedOK : Bool :=
    match closed with
    | some b => C16.bandNear eps b.1 bandF && C16.bandNear eps b.2.1 bandG
    | none => false
  -- discontinuities of the aggregation and of the rule of three
  let coverOf : JointVal → List JointVal → Option (List OIv × List OIv × List OIv × List OIv) → Bool :=
    fun e rs bands =>
      match bands with
      | some b =>
        if pw then false
        else coverFlag tol f b.2.2.1 (transposeCols n ((e :: rs).map (·.1))) powPos ||
          coverFlag tol g b.2.2.2 (transposeCols n ((e :: rs).map (·.2))) powNeg
      | none => false
  let cover := coverOf estP repsP patched
  let coverObs := coverOf estO repsO closed
  let disc := nearMiss16 tol (1 - powPos) f || nearMiss16 tol (1 - powNeg) g
  -- oracle queries not in the tables, BCa poles (on the matrices that are compared)
  let comps := List.range (2 * n)
  let missesOf : JointVal → List JointVal → List String := fun e rs =>
    (comps.map fun k =>
      match (jointFlat e).getD k none with
      | some th => c14_misses tolP tolZ ppfT cdfT p15T nrm p15 bm (column (rs.map jointFlat) k) th alpha
      | none => []).flatten
  let misses : List String := (missesOf estP repsP ++ missesOf estO repsO).eraseDups
  let polesOf : JointVal → List JointVal → List Rat := fun e rs =>
    comps.map fun k =>
      match (jointFlat e).getD k none with
      | some th => c14_pole nrm p15 bm (column (rs.map jointFlat) k) th alpha
      | none => 1
  let pole := (polesOf estP repsP ++ polesOf estO repsO).foldl min 1
  pure (out (modelKVs ++ patchedKVs ++ closedKVs ++ [
    ("msup", msup),
    ("mok", fmtBool run.2.ok), ("left", toString run.2.responses.length),
    ("tracediff", toString diff), ("nreq", toString mreqs.length),
    ("nfrag", toString nfrag), ("cover", fmtBool cover), ("coverobs", fmtBool coverObs), ("disc", fmtBool disc),
    ("miss", "[" ++ String.intercalate "," misses ++ "]"), ("pole", fmtRat pole),
    ("spec.requests", fmtBool reqOK),
    ("spec.bands", fmtBool bandsOK),
    ("spec.bands_patched", fmtBool patchedOK),
    ("spec.closedform", fmtBool closedOK),
    ("spec.replicates", fmtBool repOK),
    ("spec.shape", fmtBool (C16.shapeOK n bandF && C16.shapeOK n bandG)),
    ("spec.nanfree", fmtBool (C16.nanFreeOK bandF && C16.nanFreeOK bandG)),
    ("spec.ordered", fmtBool (C16.orderedOK bandF && C16.orderedOK bandG)),
    ("spec.unit", fmtBool (C16.unitOK eps bandF && C16.unitOK eps bandG))] ++
    (if diff == -1 then [] else fmtReqs "m" mreqs)))

def opsC16Script : List (String × (Args → Except String String)) :=
  [("rocciscript", opRocciScript)]

end SA.Ops
