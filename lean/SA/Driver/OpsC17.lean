import SA.Driver.Wire
import SA.Driver.OpsC02
import SA.Spec.C17

namespace SA.Ops
open SA SA.Wire SA.Spec.C17

/-- split a flattened list according to a list of lengths -/
def unflatten : List Rat → List Nat → List (List Rat)
  | _, [] => []
  | l, n :: ns => l.take n :: unflatten (l.drop n) ns

def fmtNested (r : List (List Rat)) : List (String × String) :=
  [("res", fmtList fmtRat r.flatten), ("mlens", fmtList toString (r.map List.length))]

/-- the documented precondition, as a check on what the harness sends -/
def plInputOK (x y : List Rat) : Bool :=
  x.length == y.length &&
    (List.range (x.length - 1)).all fun j =>
      decide (x.getD j 0 ≤ x.getD (j + 1) 0) &&
        (x.getD j 0 != x.getD (j + 1) 0 || y.getD j 0 == y.getD (j + 1) 0)

/-- spec verdicts for every target on the observed per-target results -/
def specLists (x y ts : List Rat) (obs : List (List Rat)) (eps : Rat) : List (String × String) :=
  let z := ts.zip obs
  [("cot", fmtList fmtBool (ts.map (crossOrTouch y))),
   ("spec.nonempty", fmtList fmtBool (z.map fun (_, zs) => !zs.isEmpty)),
   ("spec.incr", fmtList fmtBool (z.map fun (_, zs) => increasingOK zs)),
   ("spec.range", fmtList fmtBool (z.map fun (_, zs) => inRangeOK x zs eps)),
   ("spec.complete", fmtList fmtBool (z.map fun (t, zs) => completeOK x y t zs eps)),
   ("spec.solves", fmtList fmtBool (z.map fun (t, zs) =>
      !crossOrTouch y t || solvesOK x y t zs eps)),
   ("spec.fallback", fmtList fmtBool (z.map fun (t, zs) =>
      crossOrTouch y t || fallbackOK x y t zs eps)),
   ("spec.result", fmtList fmtBool (z.map fun (t, zs) => resultOK x y t zs eps))]

/-- op `invpl`: `invert_pl_function(x, y, ts)`; observed per-target results flattened in `obs`
with their lengths in `lens`. -/
def opInvpl (a : Args) : Except String String := do
  let x ← getRats a "x"
  let y ← getRats a "y"
  let ts ← getRats a "ts"
  let eps ← getRat a "eps"
  let obs := unflatten (← getRats a "obs") (← getNats a "lens")
  match invertPLAll x y ts with
  | .error e => pure (out [("err", fmtErr e)])
  | .ok r =>
    pure (out (fmtNested r ++ [("pre", fmtBool (plInputOK x y))] ++ specLists x y ts obs eps))

def parsePointsArg (a : Args) : Except String PointsArg := do
  match ← get a "pk" with
  | "none" => pure .none
  | "int" => pure (.int (← getNat a "k"))
  | "arr" => pure (.arr (← getRats a "parr"))
  | s => .error s!"bad points kind {s}"

/-- op `thrmetric`: `Scores.threshold_at_metric(ts, metric, points)`.
`opts` are the evaluation points the implementation used (observed), `obs`/`lens` its result.
Output: the model's evaluation points `mpts`, its result on them (`res`, `mlens`), the model's
metric values at the observed points (`mys`), the model's inversion on the observed points
(`res2`, `mlens2`) and the spec verdicts for the observed result against (`opts`, `mys`). -/
def opThrMetric (a : Args) : Except String String := do
  let s ← getScores a
  let m ← parseMetric (← get a "metric")
  let pa ← parsePointsArg a
  let ts ← getRats a "ts"
  let eps ← getRat a "eps"
  let opts ← getRats a "opts"
  let obs := unflatten (← getRats a "obs") (← getNats a "lens")
  match s.thresholdAtMetricPoints pa with
  | .error e => pure (out [("err", fmtErr e)])
  | .ok mpts =>
    match s.thresholdOnPoints m mpts ts with
    | .error e => pure (out [("err", fmtErr e), ("mpts", fmtList fmtRat mpts)])
    | .ok r =>
      let mys := opts.map (s.metricAt m)
      let r2 := match s.thresholdOnPoints m opts ts with
        | .ok r2 => r2
        | .error _ => []
      let base := [("mpts", fmtList fmtRat mpts),
        ("spec.points", fmtBool (pointsOK mpts opts (← getRat a "epsp")))] ++ fmtNested r ++
        [("mys", fmtList fmtORat mys), ("res2", fmtList fmtRat r2.flatten),
         ("mlens2", fmtList toString (r2.map List.length))]
      match allSomePL mys with
      | none => pure (out (base ++ [("nan", "1")]))
      | some ys =>
        pure (out (base ++ [("nan", "0"), ("pre", fmtBool (plInputOK opts ys))] ++
          specLists opts ys ts obs eps))

def opsC17 : List (String × (Args → Except String String)) :=
  [("invpl", opInvpl), ("thrmetric", opThrMetric)]

end SA.Ops
