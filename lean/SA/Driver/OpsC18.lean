import SA.Driver.Wire
import SA.Driver.OpsC02
import SA.Spec.C18

namespace SA.Ops
open SA SA.Wire SA.Spec.C18

/-- split a flat list into `g` chunks of length `n` -/
def c18Chunks {α} (n g : Nat) (l : List α) : List (List α) :=
  (List.range g).map fun i => (l.drop (i * n)).take n

def c18Flat {α} (l : List (List α)) : List α := l.flatMap id

def c18ParseMode (s : String) : Except String (Except Err NormMode) :=
  if s = "none" then .ok (parseNormMode Option.none) else .ok (parseNormMode (some s))

def c18FmtNat (n : Nat) : String := toString n

/-- op `showbias`: the data (`nk` codes per row in `keys`, `pos` flags, `scores`), the
configuration, metric name, thresholds and normalisation; the observed frame (`og` rows:
`oidx` = `nk` codes per frame row, `ocols`, `ovals` row-major; optionally `lower`, `upper`). -/
def opShowbias (a : Args) : Except String String := do
  let nk ← getNat a "nk"
  let keysFlat ← getNats a "keys"
  let pos ← getBools a "pos"
  let scores ← getRats a "scores"
  let cfg ← getCfg a
  let mname ← get a "metric"
  let ts ← getERats a "ts"
  let modeE ← c18ParseMode (← get a "norm")
  let eps ← getRat a "eps"
  let n := scores.length
  if pos.length ≠ n || keysFlat.length ≠ n * nk then .error "bad row data" else
  let keys := c18Chunks nk n keysFlat
  let rows : List SbRow := (keys.zip (pos.zip scores)).map fun (k, p, s) => ⟨k, p, s⟩
  match parseSbMetric mname with
  | Option.none => .error s!"bad metric {mname}"
  | some metric =>
  match modeE with
  | .error e => pure (out [("err", fmtErr e)])
  | .ok mode =>
  match sbTable metric cfg mode rows ts with
  | .error e => pure (out [("err", fmtErr e)])
  | .ok table =>
    let og ← getNat a "og"
    let oidxFlat ← getNats a "oidx"
    let ocols ← getERats a "ocols"
    let ovalsFlat ← getORats a "ovals"
    if oidxFlat.length ≠ og * nk || ovalsFlat.length ≠ og * ocols.length then
      .error "bad observed frame" else
    let oidx := c18Chunks nk og oidxFlat
    let ovals := c18Chunks ocols.length og ovalsFlat
    let gk := groupKeys rows
    let raw := gk.map fun k => ts.map fun t => sbEntry metric cfg rows k t
    let overall := ts.map fun t => sbOverall metric cfg rows t
    let cms := gk.flatMap fun k => ts.flatMap fun t =>
      let m := groupCM cfg rows k t; [m.tp, m.fn, m.fp, m.tn]
    let specEntry := if mode = .none then fmtBool (entryOK eps metric cfg rows ts oidx ovals) else "na"
    let specMin := if mode = .byMin then fmtBool (minRowOK eps metric cfg rows ts ovals) else "na"
    let specCi ←
      match a.lookup "lower", a.lookup "upper" with
      | some lo, some hi => do
        let lo ← parseList parseORat lo
        let hi ← parseList parseORat hi
        if lo.length ≠ og * ocols.length || hi.length ≠ og * ocols.length then
          pure "0"
        else
          pure (fmtBool (ciOrderedOK eps (c18Chunks ocols.length og lo) (c18Chunks ocols.length og hi)))
      | _, _ => pure "na"
    pure (out [("g", c18FmtNat gk.length),
      ("keys", fmtList c18FmtNat (c18Flat gk)),
      ("table", fmtList fmtORat (c18Flat table)),
      ("raw", fmtList fmtORat (c18Flat raw)),
      ("overall", fmtList fmtORat overall),
      ("cms", fmtList c18FmtNat cms),
      ("spec.labels", fmtBool (labelsOK rows ts oidx ocols)),
      ("spec.entry", specEntry),
      ("spec.norm", fmtBool (normOK eps metric cfg mode rows ts oidx ovals)),
      ("spec.minrow", specMin),
      ("spec.ciordered", specCi)])

def opsC18 : List (String × (Args → Except String String)) :=
  [("showbias", opShowbias)]

end SA.Ops
