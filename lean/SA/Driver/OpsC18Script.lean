import SA.Driver.Wire
import SA.Driver.OpsC11
import SA.Driver.OpsC12
import SA.Driver.OpsC13
import SA.Driver.OpsC14
import SA.Driver.OpsC18
import SA.Model.ShowbiasScript
import SA.Spec.C18

/-!
Op `showbiasscript`: `showbias(..., bootstrap_ci=True)` end to end on a recorded RNG script
(model: SA/Model/ShowbiasScript.lean, theorems: SA/Theorems/C18Script.lean).

Input: the data as in op `showbias` (`nk keys pos scores sc ec metric ts norm`), the bootstrap
configuration `alpha bm method strat nbs`, the script `resp rl` and the recorded requests
`qk qn qs qr qp`, the oracle tables `ppf_in ppf_out cdf_in cdf_out p15_in p15_out`, the observed
frames `og oidx ocols ovals lower upper`, the arrays held by the implementation's `score_object`
(`hpos hpg hneg hng`, group ids as codes; `hasheld=0` if not recorded: then the model's stably sorted
object is used), the replicate array `Scores.bootstrap_metric` returned
(`orep`, row-major `nbs x G x T`, un-normalised; `hasrep=0` if not recorded), `eps`.

Output: the model's result `mres`, its frames `mvals mlo mhi` and raw replicates `mrep`, the request
comparison (`tracediff mok left nreq`), the oracle queries missing from the tables (`miss`), the
distance from the BCa pole (`pole`), and the verdicts
* on the implementation's own frames (C18 clauses): `spec.labels`, `spec.shape` (three frames, one
  row per group, one column per threshold), `spec.norm` (the value frame is the normalised
  groupwise metric of the data), `spec.ciordered`, `spec.samequantity` (the interval frames are the
  C13 interval of the implementation's OWN replicates normalised like the reported value, with the
  reported value as the point estimate; `na` for `by_min`, known finding), `spec.nan` (a limit is NaN
  exactly when the component has no finite normalised replicate, lower and upper together),
  `spec.held` (the held arrays are an admissible joint order of the rows: a permutation of the
  `(score, group)` pairs of each class, sorted by score — the C12 clause; the model then samples from
  THAT order, which `C12_tie_order_irrelevant` shows to be immaterial for every observable),
* model vs implementation: `spec.requests` (the model issued exactly the recorded requests, its run
  on the recorded answers is `ok` and reads them all), `spec.values`, `spec.ci`, `spec.replicates`.
-/

namespace SA.Ops
open SA SA.Wire SA.Spec.C18

def c18sFlat3 (a : List (List (List (Option Rat)))) : List (Option Rat) :=
  a.flatMap fun r => r.flatMap id

/-- (N, G, T) array from its row-major flattening -/
def c18sUnflat3 (n g t : Nat) (flat : List (Option Rat)) : List (List (List (Option Rat))) :=
  (List.range n).map fun a => (List.range g).map fun i => (flat.drop ((a * g + i) * t)).take t

/-- an observed float that is within `eps` of the model's exact value is taken as that value (so that
the `<=` comparisons of the bc / bca methods see equal numbers as equal) -/
def c18sSnap (eps : Rat) (obs mod : Option Rat) : Option Rat := if nearO eps obs mod then mod else obs

def c18sSnapT (eps : Rat) (obs mod : List (List (Option Rat))) : List (List (Option Rat)) :=
  (List.range obs.length).map fun i => (List.range (obs.getD i []).length).map fun j =>
    c18sSnap eps (sbCellAt obs i j) (sbCellAt mod i j)

def c18sTableNear (eps : Rat) (a b : List (List (Option Rat))) : Bool :=
  a.length == b.length && (a.zip b).all fun p => rowNear eps p.1 p.2

/-- `lower` / `upper` NaN together, and NaN exactly when no normalised replicate is finite -/
def c18sNanOK (G T : Nat) (lo hi : List (List (Option Rat)))
    (normCol : Nat → Nat → List (Option Rat)) : Bool :=
  (List.range G).all fun i => (List.range T).all fun j =>
    let l := sbCellAt lo i j
    let h := sbCellAt hi i j
    let allNan := ((normCol i j).filterMap id).isEmpty
    (l.isNone == h.isNone) && (l.isNone == allNan)

def opShowbiasScript (a : Args) : Except String String := do
  let nk ← getNat a "nk"
  let keysFlat ← getNats a "keys"
  let pos ← getBools a "pos"
  let scores ← getRats a "scores"
  let cfg ← getCfg a
  let mname ← get a "metric"
  let ts ← getERats a "ts"
  let modeE ← c18ParseMode (← get a "norm")
  let eps ← getRat a "eps"
  let alpha ← getRat a "alpha"
  let bm ← parseBootMethod (← get a "bm")
  let method ← parseSamplingMethod (← get a "method")
  let strat ← c12_parseStrat (← get a "strat")
  let nbs ← getNat a "nbs"
  let script ← getScript a
  let oreqs ← getReqs a "q"
  let ppfT := (← getERats a "ppf_in").zip (← getERats a "ppf_out")
  let cdfT := (← getERats a "cdf_in").zip (← getERats a "cdf_out")
  let p15T := (← getERats a "p15_in").zip (← getERats a "p15_out")
  let n := scores.length
  if pos.length ≠ n || keysFlat.length ≠ n * nk then .error "bad row data" else
  let keys := c18Chunks nk n keysFlat
  let rows : List SbRow := (keys.zip (pos.zip scores)).map fun (k, p, s) => ⟨k, p, s⟩
  match parseSbMetric mname with
  | Option.none => .error s!"bad metric {mname}"
  | some metric =>
  match modeE with
  | .error e => pure (out [("mres", fmtErr e)])
  | .ok mode =>
    let og ← getNat a "og"
    let oidxFlat ← getNats a "oidx"
    let ocols ← getERats a "ocols"
    let ovalsFlat ← getORats a "ovals"
    let oloFlat ← getORats a "lower"
    let ohiFlat ← getORats a "upper"
    let T := ocols.length
    if oidxFlat.length ≠ og * nk || ovalsFlat.length ≠ og * T || oloFlat.length ≠ og * T ||
        ohiFlat.length ≠ og * T then .error "bad observed frames" else
    let oidx := c18Chunks nk og oidxFlat
    let ovals := c18Chunks T og ovalsFlat
    let olo := c18Chunks T og oloFlat
    let ohi := c18Chunks T og ohiFlat
    let hasRep ← getBool a "hasrep"
    let orepFlat ← (if hasRep then getORats a "orep" else pure [])
    if hasRep && orepFlat.length ≠ nbs * og * T then .error "orep length" else
    let orep := c18sUnflat3 nbs og T orepFlat
    let tolP : Rat := 1 / 1000000000000
    let tolZ : Rat := 1 / 1000000000
    let nrm : Normal :=
      { cdf := fun z => eratToRat ((lookupE tolZ cdfT z).getD (.fin 0)),
        ppf := fun p => (lookupE tolP ppfT (.fin p)).getD (.fin 0) }
    let p15 : Rat → Rat := fun x => eratToRat ((lookupE tolZ p15T (.fin x)).getD (.fin 0))
    let p : SbBootParams := ⟨⟨method, strat, false⟩, nbs, bm, alpha, nrm, p15⟩
    let st0 := RngState.init script
    -- the object: the model's, or the implementation's own admissible order of the same pairs
    let obj := sbObject cfg rows
    let hasHeld ← getBool a "hasheld"
    let held : GScores ← (if hasHeld then do
        pure ⟨← c12_getPairs a "hpos" "hpg", ← c12_getPairs a "hneg" "hng", cfg, obj.groups⟩
      else pure obj)
    let heldOK := SA.Spec.C12.permOK obj.pos held.pos && SA.Spec.C12.permOK obj.neg held.neg &&
      SA.Spec.C12.sortedOK held.pos && SA.Spec.C12.sortedOK held.neg
    let g := if heldOK then held else obj
    -- THE MODEL: the function the theorems are about, on the recorded script
    let run : Except Err SbFrames × RngState :=
      if rows = [] then (.error .valueError, st0)
      else sbScriptFrom metric mode (groupKeys rows) ts p g st0
    let mreqs := run.2.requests
    let diff := firstDiff tolP mreqs oreqs 0
    let reqOK := diff == -1 && run.2.ok && run.2.responses.length == 0
    -- the pieces (for the replicate comparison and the oracle queries)
    let est := sbGroupMetric metric ts g
    let overall := sbOverallMetric metric ts g
    let mvalsT := sbNormalise mode est overall
    let mreps : List (List (List (Option Rat))) :=
      match (gDrawMapped g p.cfg (sbGroupMetric metric ts) nbs st0).1 with
      | .ok l => l
      | .error _ => []
    let G := (groupKeys rows).length
    let comps : List (Nat × Nat) := (List.range G).flatMap fun i => (List.range ts.length).map fun j => (i, j)
    -- closed form on the implementation's own replicates, normalised like the reported value,
    -- with the REPORTED value as the point estimate
    let orepS := (List.range orep.length).map fun k => c18sSnapT eps (orep.getD k []) (mreps.getD k [])
    let ovalsS := c18sSnapT eps ovals mvalsT
    let ocolN : Nat → Nat → List (Option Rat) := fun i j =>
      sbRepsNorm mode (sbRepsCol orepS i j) (overall.getD j none)
    let closed : List (List (Option Rat × Option Rat)) :=
      (List.range og).map fun i => (List.range T).map fun j =>
        ciComponent nrm p15 bm (ocolN i j) (sbCellAt ovalsS i j) alpha
    -- outside the model: NaN value with bc / bca although the component has finite replicates
    let corner := bm != .quantile && comps.any fun ij =>
      (sbCellAt mvalsT ij.1 ij.2).isNone &&
      !((sbRepsNorm mode (sbRepsCol mreps ij.1 ij.2) (overall.getD ij.2 none)).filterMap id).isEmpty
    let sameQ := c18sTableNear eps (closed.map fun r => r.map (·.1)) olo &&
      c18sTableNear eps (closed.map fun r => r.map (·.2)) ohi
    -- oracle queries not in the tables / BCa poles, for the model's and the observed components
    let missOf : List (List (List (Option Rat))) → List (List (Option Rat)) → List String :=
      fun reps vals =>
        (comps.map fun ij =>
          match sbCellAt vals ij.1 ij.2 with
          | some th => c14_misses tolP tolZ ppfT cdfT p15T nrm p15 bm
              (sbRepsNorm mode (sbRepsCol reps ij.1 ij.2) (overall.getD ij.2 none)) th alpha
          | none => []).flatten
    let misses := (missOf mreps mvalsT ++ (if hasRep then missOf orepS ovalsS else [])).eraseDups
    let poleOf : List (List (List (Option Rat))) → List (List (Option Rat)) → List Rat :=
      fun reps vals =>
        comps.map fun ij =>
          match sbCellAt vals ij.1 ij.2 with
          | some th => c14_pole nrm p15 bm
              (sbRepsNorm mode (sbRepsCol reps ij.1 ij.2) (overall.getD ij.2 none)) th alpha
          | none => 1
    let pole := (poleOf mreps mvalsT ++ (if hasRep then poleOf orepS ovalsS else [])).foldl min 1
    let modelKVs : List (String × String) :=
      match run.1 with
      | .ok f => [("mres", "ok"), ("g", toString f.keys.length),
          ("keys", fmtList c18FmtNat (c18Flat f.keys)),
          ("mvals", fmtList fmtORat (c18Flat f.values)),
          ("mlo", fmtList fmtORat (c18Flat f.lower)), ("mhi", fmtList fmtORat (c18Flat f.upper))]
      | .error e => [("mres", fmtErr e)]
    let valuesOK : Bool := match run.1 with
      | .ok f => c18sTableNear eps f.values ovals
      | .error _ => false
    let ciOK : Bool := match run.1 with
      | .ok f => c18sTableNear eps f.lower olo && c18sTableNear eps f.upper ohi
      | .error _ => false
    let repOK : Bool := !hasRep ||
      (mreps.length == orep.length && (mreps.zip orep).all fun x => c18sTableNear eps x.1 x.2)
    let shapeOK := ovals.length == G && olo.length == G && ohi.length == G && T == ts.length
    pure (out (modelKVs ++ [
      ("mrep", fmtList fmtORat (c18sFlat3 mreps)),
      ("mok", fmtBool run.2.ok), ("left", toString run.2.responses.length),
      ("tracediff", toString diff), ("nreq", toString mreqs.length),
      ("miss", "[" ++ String.intercalate "," misses ++ "]"), ("pole", fmtRat pole),
      ("corner", fmtBool corner),
      ("spec.held", tri hasHeld heldOK),
      ("spec.labels", fmtBool (labelsOK rows ts oidx ocols)),
      ("spec.shape", fmtBool shapeOK),
      ("spec.norm", fmtBool (normOK eps metric cfg mode rows ts oidx ovals)),
      ("spec.ciordered", fmtBool (ciOrderedOK eps olo ohi)),
      ("spec.samequantity", tri (hasRep && mode != .byMin) sameQ),
      ("spec.nan", tri hasRep (c18sNanOK og T olo ohi ocolN)),
      ("spec.requests", fmtBool reqOK),
      ("spec.values", fmtBool valuesOK),
      ("spec.ci", fmtBool ciOK),
      ("spec.replicates", fmtBool repOK)] ++
      (if diff == -1 then [] else fmtReqs "m" mreqs)))

def opsC18Script : List (String × (Args → Except String String)) :=
  [("showbiasscript", opShowbiasScript)]

end SA.Ops
