import SA.Driver.Wire
import SA.Driver.OpsC01
import SA.Driver.OpsC02
import SA.Spec.C19

namespace SA.Ops
open SA SA.Wire SA.Spec

def parseDocLabel (s : String) : Except String DocLabel :=
  if s = "genuine" then .ok .genuine else if s = "fraud" then .ok .fraud
  else .error s!"bad doc label {s}"

def fmtDocLabel : DocLabel → String
  | .genuine => "genuine"
  | .fraud => "fraud"

private def allMetrics : List Metric := [.tpr, .fnr, .tnr, .fpr, .topr, .tonr]
private def allMethods : List Method := [.linear, .lower, .higher]

private def fmtThr : Except Err Rat → String
  | .ok t => fmtRat t
  | .error e => fmtErr e

/-- op `fraud`: one `FraudScores` construction.
Inputs: `via` = `ctor` (keys `g`, `f`) or `labels` (keys `lab` 1 = label equals the genuine
label, `sco`, in the order given); `eg`, `ef`, `sc` (genuine|fraud); `raised` (did the
implementation raise ValueError).  When it did not raise: `ts` thresholds, `icms` the
implementation's matrices (flattened tp,fn,fp,tn), `hg hf hp hn` its `.genuines .frauds .pos
.neg`, `isc iec` its `score_class` / `equal_class`.
Outputs: `res` = ok | ValueError, `which` = the check that fires, `g`/`f` lengths, and when the
model constructs: its held arrays `spos sneg`, flags, matrices `ms`, and its thresholds at the
boundary targets 0 and 1 for the 6 metrics x 3 methods (`thr0`, `thr1`; exact: no float
rounding is involved at these targets).  Spec verdicts: `spec.valid`, and for an accepted
input `spec.cm`, `spec.alias`, `spec.flags`. -/
def opFraud (a : Args) : Except String String := do
  let via ← get a "via"
  let eg ← getNat a "eg"
  let ef ← getNat a "ef"
  let sc ← parseDocLabel (← get a "sc")
  let raised ← getBool a "raised"
  let (g, f, res) ← (do
    if via = "labels" then
      let lab ← getBools a "lab"
      let sco ← getRats a "sco"
      if lab.length ≠ sco.length then throw "lab/sco length mismatch"
      let samples := lab.zip sco
      pure ((samples.filter (fun s => s.1)).map (·.2), (samples.filter (fun s => !s.1)).map (·.2),
        FraudScores.fromLabels samples eg ef sc)
    else
      let g ← getRats a "g"
      let f ← getRats a "f"
      pure (g, f, FraudScores.make g f eg ef sc) : Except String _)
  let which := match FraudScores.failing g f with
    | some l => fmtDocLabel l
    | none => "none"
  let head := [("res", match res with | .ok _ => "ok" | .error e => fmtErr e), ("which", which),
    ("ng", toString g.length), ("nf", toString f.length),
    ("spec.valid", fmtBool (C19.validOK g f raised))]
  let obs ← (do
    if raised then pure []
    else
      let ts ← getERats a "ts"
      let icms := chunk4 (← getNats a "icms")
      let hg ← getRats a "hg"
      let hf ← getRats a "hf"
      let hp ← getRats a "hp"
      let hn ← getRats a "hn"
      let isc ← getLabel a "isc"
      let iec ← getLabel a "iec"
      let cms := (ts.zip icms).map fun (t, m) => C19.cmOK g f eg ef sc t m
      pure [("spec.cm", fmtList fmtBool cms),
        ("spec.ncm", fmtBool (icms.length == ts.length)),
        ("spec.alias", fmtBool (C19.aliasOK g f hg hf hp hn)),
        ("spec.flags", fmtBool (C19.flagsOK sc isc iec))] : Except String _)
  let model ← (do
    match res with
    | .error _ => pure []
    | .ok s =>
      let ts ← (if raised then pure [] else getERats a "ts" : Except String _)
      let u := Ulp.float64
      let thr (r : Rat) : List String :=
        allMetrics.flatMap fun metric => allMethods.map fun m => fmtThr (s.thresholdAt u metric r m)
      let sw := s.swap
      pure [("spos", fmtList fmtRat (FraudScores.genuines s)),
        ("sneg", fmtList fmtRat (FraudScores.frauds s)),
        ("ep", toString s.easyPos), ("en", toString s.easyNeg),
        ("msc", fmtLabel s.cfg.scoreClass), ("mec", fmtLabel s.cfg.equalClass),
        ("ms", fmtList toString (flatCM (ts.map s.cm))),
        ("thr0", "[" ++ String.intercalate "," (thr 0) ++ "]"),
        ("thr1", "[" ++ String.intercalate "," (thr 1) ++ "]"),
        ("swpos", fmtList fmtRat sw.pos), ("swneg", fmtList fmtRat sw.neg),
        ("swep", toString sw.easyPos), ("swen", toString sw.easyNeg),
        ("swsc", fmtLabel sw.cfg.scoreClass), ("swec", fmtLabel sw.cfg.equalClass)]
      : Except String _)
  pure (out (head ++ obs ++ model))

/-- op `fraudlab`: the implementation's translation tables: `dg df` = images of
genuine, fraud under `doc_to_binary_label`; `bp bn` = images of pos, neg under
`binary_to_doc_label`. -/
def opFraudLab (a : Args) : Except String String := do
  let dg ← getLabel a "dg"
  let df ← getLabel a "df"
  let bp ← parseDocLabel (← get a "bp")
  let bn ← parseDocLabel (← get a "bn")
  pure (out [("mdg", fmtLabel (docToBinary .genuine)), ("mdf", fmtLabel (docToBinary .fraud)),
    ("mbp", fmtDocLabel (binaryToDoc .pos)), ("mbn", fmtDocLabel (binaryToDoc .neg)),
    ("spec.labels", fmtBool (C19.labelsOK dg df bp bn))])

/-- op `fraudvalid`: the validation clause alone, for inputs that also contain NaN scores.  `g f` = the
non-NaN scores as given (a NaN is neither below 0 nor above 1), `raised` = the implementation raised
ValueError.  Outputs the model's verdict on the non-NaN part and `spec.valid`; `outside` = some non-NaN
score lies outside `[0, 1]`. -/
def opFraudValid (a : Args) : Except String String := do
  let g ← getRats a "g"
  let f ← getRats a "f"
  let raised ← getBool a "raised"
  let res := FraudScores.make g f 0 0 .genuine
  pure (out [("res", match res with | .ok _ => "ok" | .error e => fmtErr e),
    ("outside", fmtBool (C19.anyOutside g f)),
    ("spec.valid", fmtBool (C19.validOK g f raised))])

def opsC19 : List (String × (Args → Except String String)) :=
  [("fraud", opFraud), ("fraudlab", opFraudLab), ("fraudvalid", opFraudValid)]

end SA.Ops
