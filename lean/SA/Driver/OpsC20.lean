import SA.Driver.Wire
import SA.Spec.C20

namespace SA.Ops
open SA SA.Wire SA.Spec.C20

namespace C20

def absR (x : Rat) : Rat := if x < 0 then -x else x

/-- nearest-entry lookup in a recorded oracle table (relative tolerance `tol`) -/
def lookupQ (tol : Rat) (tbl : List (Rat × Rat)) (x : Rat) : Option Rat :=
  (tbl.find? fun (i, _) => decide (absR (x - i) ≤ tol * (1 + absR i))).map (·.2)

def tolKey : Rat := 1 / 1000000000000

/-- the oracle built from the recorded tables (0 on a miss; misses are reported separately) -/
def mkNormal (phiT pinvT : List (Rat × Rat)) : StdNormal :=
  { Phi := fun z => (lookupQ tolKey phiT z).getD 0,
    PhiInv := fun p => (lookupQ tolKey pinvT p).getD 0 }

def fmtErrD : DsErr → String
  | .rocNeither => "rocNeither"
  | .rocBoth => "rocBoth"
  | .nNone => "nNone"
  | .negProb => "negProb"
  | .negCount => "negCount"
  | .zeroDiv => "zeroDiv"

def parseONat (s : String) : Except String (Option Nat) :=
  if s = "none" then .ok none else do let n ← parseNat s; pure (some n)

def parseOInt (s : String) : Except String (Option Int) :=
  if s = "none" then .ok none else do let n ← parseInt s; pure (some n)

def parseORatN (s : String) : Except String (Option Rat) :=
  if s = "none" then .ok none else do let n ← parseRat s; pure (some n)

def getTable (a : Args) (kin kout : String) : Except String (List (Rat × Rat)) := do
  let i ← getRats a kin
  let o ← getRats a kout
  if i.length ≠ o.length then throw s!"table {kin}/{kout} length mismatch"
  pure (i.zip o)

def getDataset (a : Args) : Except String NormalDataset := do
  pure ⟨← getRat a "mu_pos", ← getRat a "mu_neg", ← getRat a "sigma_pos", ← getRat a "sigma_neg",
    ← getRat a "p_pos", ← parseOInt (← get a "n_self"), ← getLabel a "sc"⟩

def missesPhi (phiT : List (Rat × Rat)) (zs : List Rat) : List String :=
  (zs.filter fun z => (lookupQ tolKey phiT z).isNone).map fun z => "phi:" ++ fmtRat z

def missesPinv (pinvT : List (Rat × Rat)) (ps : List Rat) : List String :=
  (ps.filter fun p => (lookupQ tolKey pinvT p).isNone).map fun p => "pinv:" ++ fmtRat p

def fmtStrs (l : List String) : String := "[" ++ String.intercalate "," l ++ "]"

end C20

open C20

/-- op `normal`: closed-form rates and thresholds of one `NormalDataset`.
Inputs: dataset parameters; oracle tables `phi_in/phi_out` (standardised argument -> Phi) and
`pinv_in/pinv_out` (probability -> PhiInv); thresholds `thr` with the observed `o_fnr`, `o_fpr`;
rates `rates` with the observed `o_tfnr`, `o_tfpr`; round trips on the implementation's own
outputs: `rt_fnr` = fnr(threshold_at_fnr(rates)), `rt_fpr`, and for the threshold subsets `thrA`,
`thrB` (rate inside the tail cut-off) `rt_thrA` = threshold_at_fnr(fnr(thrA)), `rt_thrB`. -/
def opNormal (a : Args) : Except String String := do
  let d ← getDataset a
  let eps ← getRat a "eps"
  let phiT ← getTable a "phi_in" "phi_out"
  let pinvT ← getTable a "pinv_in" "pinv_out"
  let N := mkNormal phiT pinvT
  let thr ← getRats a "thr"
  let rates ← getRats a "rates"
  let oFnr ← getRats a "o_fnr"
  let oFpr ← getRats a "o_fpr"
  let oTfnr ← getRats a "o_tfnr"
  let oTfpr ← getRats a "o_tfpr"
  let rtFnr ← getRats a "rt_fnr"
  let rtFpr ← getRats a "rt_fpr"
  let thrA ← getRats a "thrA"
  let thrB ← getRats a "thrB"
  let rtThrA ← getRats a "rt_thrA"
  let rtThrB ← getRats a "rt_thrB"
  let mFnr := thr.map (d.fnr N)
  let mFpr := thr.map (d.fpr N)
  let mTfnr := rates.map (d.thresholdAtFnr N)
  let mTfpr := rates.map (d.thresholdAtFpr N)
  let miss := missesPhi phiT (thr.map fun t => (t - d.muPos) / d.sigmaPos)
    ++ missesPhi phiT (thr.map fun t => (t - d.muNeg) / d.sigmaNeg)
    ++ missesPinv pinvT rates ++ missesPinv pinvT (rates.map fun r => 1 - r)
  pure (out [("m_fnr", fmtList fmtRat mFnr), ("m_fpr", fmtList fmtRat mFpr),
    ("m_tfnr", fmtList fmtRat mTfnr), ("m_tfpr", fmtList fmtRat mTfpr),
    ("miss", fmtStrs miss),
    ("spec.formula_fnr", fmtBool (nearAll eps oFnr mFnr)),
    ("spec.formula_fpr", fmtBool (nearAll eps oFpr mFpr)),
    ("spec.formula_tfnr", fmtBool (nearAll eps oTfnr mTfnr)),
    ("spec.formula_tfpr", fmtBool (nearAll eps oTfpr mTfpr)),
    ("spec.inv_fnr", fmtBool (inverseOK eps rates rtFnr)),
    ("spec.inv_fpr", fmtBool (inverseOK eps rates rtFpr)),
    ("spec.inv_thr_fnr", fmtBool (inverseOK eps thrA rtThrA)),
    ("spec.inv_thr_fpr", fmtBool (inverseOK eps thrB rtThrB))])

/-- op `roc`: `mode` = fnr | fpr | both | neither, points `pts`; observed `raised` (0/1) and, when it
returned, the arrays `o_fnr`, `o_fpr`, `o_thr`. -/
def opDsRoc (a : Args) : Except String String := do
  let d ← getDataset a
  let eps ← getRat a "eps"
  let phiT ← getTable a "phi_in" "phi_out"
  let pinvT ← getTable a "pinv_in" "pinv_out"
  let N := mkNormal phiT pinvT
  let mode ← get a "mode"
  let pts ← getRats a "pts"
  let raised ← getBool a "raised"
  let (f, g) ← (match mode with
    | "fnr" => pure (some pts, none)
    | "fpr" => pure (none, some pts)
    | "both" => pure (some pts, some pts)
    | "neither" => pure (none, none)
    | _ => throw s!"bad mode {mode}" : Except String (Option (List Rat) × Option (List Rat)))
  match d.roc N f g with
  | .error e =>
    pure (out [("res", fmtErrD e), ("spec.raise", fmtBool raised)])
  | .ok R =>
    if raised then pure (out [("res", "ok"), ("spec.raise", fmtBool false)])
    else
      let obs : ROC := ⟨← getRats a "o_fnr", ← getRats a "o_fpr", ← getRats a "o_thr"⟩
      let miss := missesPinv pinvT (if mode = "fnr" then pts else pts.map fun r => 1 - r)
        ++ missesPhi phiT (obs.thresholds.map fun t => (t - d.muPos) / d.sigmaPos)
        ++ missesPhi phiT (obs.thresholds.map fun t => (t - d.muNeg) / d.sigmaNeg)
      let ptsOK := if mode = "fnr" then inverseOK eps pts obs.fnr else inverseOK eps pts obs.fpr
      pure (out [("res", "ok"), ("spec.raise", fmtBool true),
        ("m_thr", fmtList fmtRat R.thresholds), ("miss", fmtStrs miss),
        ("spec.formula_thr", fmtBool (nearAll eps obs.thresholds R.thresholds)),
        ("spec.roc", fmtBool (rocOK eps N d obs)),
        ("spec.points", fmtBool ptsOK),
        ("spec.len", fmtBool (obs.fnr.length == pts.length && obs.fpr.length == pts.length
          && obs.thresholds.length == pts.length))])

/-- op `frommetrics`: `fnr fpr s1 s2 sigma_pos sigma_neg`, oracle tables, observed `raised` and
`o_mu_pos o_mu_neg o_sigma_pos o_sigma_neg o_n o_nbpos o_ppos o_fnr0 o_fpr0 o_sc`. -/
def opFromMetrics (a : Args) : Except String String := do
  let eps ← getRat a "eps"
  let phiT ← getTable a "phi_in" "phi_out"
  let pinvT ← getTable a "pinv_in" "pinv_out"
  let N := mkNormal phiT pinvT
  let fnr ← getRat a "fnr"
  let fpr ← getRat a "fpr"
  let s1 ← getInt a "s1"
  let s2 ← getInt a "s2"
  let sp ← getRat a "sigma_pos"
  let sn ← getRat a "sigma_neg"
  let raised ← getBool a "raised"
  match NormalDataset.fromMetrics N fnr fpr s1 s2 sp sn with
  | .error e => pure (out [("res", fmtErrD e), ("spec.raise", fmtBool raised)])
  | .ok d =>
    if raised then pure (out [("res", "ok"), ("spec.raise", fmtBool false)])
    else
      let oMuPos ← getRat a "o_mu_pos"
      let oMuNeg ← getRat a "o_mu_neg"
      let oSp ← getRat a "o_sigma_pos"
      let oSn ← getRat a "o_sigma_neg"
      let oN ← getInt a "o_n"
      let oNbPos ← getInt a "o_nbpos"
      let oPPos ← getRat a "o_ppos"
      let oFnr0 ← getRat a "o_fnr0"
      let oFpr0 ← getRat a "o_fpr0"
      let oSc ← getLabel a "o_sc"
      let miss := missesPinv pinvT [fnr, 1 - fpr]
        ++ missesPhi phiT [(0 - d.muPos) / d.sigmaPos, (0 - d.muNeg) / d.sigmaNeg]
      let nModel : Int := d.n.getD 0
      let nbPosModel : Int := truncQ ((s1 : Rat) / fnr)
      pure (out [("res", "ok"), ("spec.raise", fmtBool true),
        ("m_mu_pos", fmtRat d.muPos), ("m_mu_neg", fmtRat d.muNeg), ("m_n", toString nModel),
        ("m_nbpos", toString nbPosModel), ("m_ppos", fmtRat d.pPos),
        ("m_fnr0", fmtRat (d.fnr N 0)), ("m_fpr0", fmtRat (d.fpr N 0)),
        ("q1", fmtRat ((s1 : Rat) / fnr)), ("q2", fmtRat ((s2 : Rat) / fpr)),
        ("miss", fmtStrs miss),
        ("spec.formula_mu", fmtBool (near eps oMuPos d.muPos && near eps oMuNeg d.muNeg)),
        ("spec.fields", fmtBool (decide (oSp = sp) && decide (oSn = sn) && decide (oSc = Label.pos))),
        ("spec.frommetrics", fmtBool (fromMetricsOK eps fnr fpr s1 s2 oFnr0 oFpr0 oN oNbPos oPPos)),
        ("spec.rate0", fmtBool (near eps oFnr0 fnr && near eps oFpr0 fpr))])

/-- op `nsample`: `NormalDataset.sample`.  Call arguments `n` / `p` (`none` when omitted); RNG
script: `k` (binomial response), `draws_pos`, `draws_neg` (responses of the two normal calls);
observed `raised`, `o_pos`, `o_neg`, `o_sc`, `o_ec`. -/
def opNSample (a : Args) : Except String String := do
  let d ← getDataset a
  let n ← parseOInt (← get a "n")
  let p ← parseORatN (← get a "p")
  let raised ← getBool a "raised"
  let k ← getNat a "k"
  let dp ← getRats a "draws_pos"
  let dn ← getRats a "draws_neg"
  let rng : SampleRng := ⟨fun _ _ => k, fun _ _ _ => dp, fun _ _ _ => dn⟩
  match d.sample rng n p with
  | .error e => pure (out [("res", fmtErrD e), ("spec.raise", fmtBool raised)])
  | .ok s =>
    if raised then pure (out [("res", "ok"), ("spec.raise", fmtBool false)])
    else
      let oPos ← getRats a "o_pos"
      let oNeg ← getRats a "o_neg"
      let oSc ← getLabel a "o_sc"
      let oEc ← getLabel a "o_ec"
      let nn : Int := (d.pickN n).getD 0
      pure (out [("res", "ok"), ("spec.raise", fmtBool true),
        ("m_npos", toString s.pos.length), ("m_nneg", toString s.neg.length),
        ("same", fmtBool (decide (s.pos = oPos) && decide (s.neg = oNeg)
          && decide (s.cfg.scoreClass = oSc) && decide (s.cfg.equalClass = oEc))),
        ("script_ok", fmtBool (decide (dp.length = k) && decide ((dn.length : Int) = nn - k))),
        ("spec.sample", fmtBool (sampleOK nn k d.scoreClass oPos oNeg oSc))])

/-- op `bernoulli`: `BernoulliDataset(p, n_self).sample(n, random=...)`.  RNG script: `draw`
(response of `binomial(1, p, n)`, random mode) or `shuffled` (the array after `rng.shuffle`). -/
def opBernoulli (a : Args) : Except String String := do
  let eps ← getRat a "eps"
  let p ← getRat a "p"
  let n ← parseONat (← get a "n")
  let nSelf ← parseONat (← get a "n_self")
  let random ← getBool a "random"
  let raised ← getBool a "raised"
  let draw ← getNats a "draw"
  let shuffled ← getNats a "shuffled"
  let pre : List Nat ← (match resolveN n nSelf with
    | .ok m => pure (repeatFrom 0 [(m : Int) - ((m : Rat) * p).floor, ((m : Rat) * p).floor])
    | .error _ => pure [] : Except String (List Nat))
  let rng : BernRng := ⟨fun _ _ => draw, fun _ _ => [], fun _ => shuffled⟩
  match bernoulliSample rng p nSelf n random with
  | .error e => pure (out [("res", fmtErrD e), ("spec.raise", fmtBool raised)])
  | .ok l =>
    if raised then pure (out [("res", "ok"), ("spec.raise", fmtBool false)])
    else
      let obs ← getNats a "o_data"
      let m : Nat := match resolveN n nSelf with | .ok m => m | .error _ => 0
      pure (out [("res", "ok"), ("spec.raise", fmtBool true), ("m_n", toString m),
        ("m_ones", toString (pre.count 1)), ("m_zeros", toString (pre.count 0)),
        ("x", fmtRat ((m : Rat) * p)),
        ("perm", fmtBool (random || (decide (shuffled.count 0 = pre.count 0)
          && decide (shuffled.count 1 = pre.count 1) && decide (shuffled.length = pre.length)))),
        ("same", fmtBool (decide (l = obs))),
        ("spec.shape", fmtBool (decide (obs.length = m) && binaryAll obs)),
        ("spec.bernoulli", fmtBool (random || bernoulliOK eps m p obs))])

/-- op `corrbern`: `CorrelatedBernoullilDataset(p1, p2, rho, n_self).sample(n, random=...)`.
`sqrt_in/sqrt_out`: the recorded `np.sqrt` call.  RNG script: `choice` (response of
`rng.choice(4, n, p)`) or `shuffled`.  Observed: `raised`, rows `o_r0`, `o_r1`. -/
def opCorrBern (a : Args) : Except String String := do
  let eps ← getRat a "eps"
  let p1 ← getRat a "p1"
  let p2 ← getRat a "p2"
  let rho ← getRat a "rho"
  let n ← parseONat (← get a "n")
  let nSelf ← parseONat (← get a "n_self")
  let random ← getBool a "random"
  let raised ← getBool a "raised"
  let sqrtT ← getTable a "sqrt_in" "sqrt_out"
  let choice ← getNats a "choice"
  let shuffled ← getNats a "shuffled"
  let sqrt : Rat → Rat := fun x => (lookupQ tolKey sqrtT x).getD 0
  let c := (1 - p1) * (1 - p2)
  let miss := if (lookupQ tolKey sqrtT (p1 * p2 * c)).isNone then ["sqrt:" ++ fmtRat (p1 * p2 * c)] else []
  let probs := correlatedJoint sqrt p1 p2 rho
  let rng : BernRng := ⟨fun _ _ => [], fun _ _ => choice, fun _ => shuffled⟩
  let res := correlatedSample sqrt rng p1 p2 rho nSelf n random
  let m : Nat := match resolveN n nSelf with | .ok m => m | .error _ => 0
  let counts := jointCounts m probs
  let pre := repeatFrom 0 counts
  let head := [("res", match res with | .ok _ => "ok" | .error e => fmtErrD e),
    ("probs", fmtList fmtRat probs), ("counts", fmtList toString counts), ("m_n", toString m),
    ("miss", fmtStrs miss),
    ("spec.sum", fmtBool (jointSumOK eps probs)),
    ("spec.valid", fmtBool (match resolveN n nSelf with
      | .ok _ => validOK probs raised
      | .error _ => raised))]
  if raised then pure (out head)
  else
    let r0 ← getNats a "o_r0"
    let r1 ← getNats a "o_r1"
    let same := match res with
      | .ok (m0, m1) => decide (m0 = r0) && decide (m1 = r1)
      | .error _ => false
    let perm := random || ([0, 1, 2, 3].all fun i => decide (shuffled.count i = pre.count i))
      && decide (shuffled.length = pre.length)
    pure (out (head ++ [("same", fmtBool same), ("perm", fmtBool perm),
      ("ones0", toString (r0.count 1)), ("ones1", toString (r1.count 1)),
      ("spec.shape", fmtBool (shapeOK m [r0, r1])),
      ("spec.marg0", fmtBool (random || marginalOK 3 m p1 r0)),
      ("spec.marg1", fmtBool (random || marginalOK 3 m p2 r1)),
      ("spec.tight0", fmtBool (random || marginalTightOK eps m p1 r0)),
      ("spec.tight1", fmtBool (random || marginalTightOK eps m p2 r1)),
      ("spec.cells", fmtBool (random || cellsOK eps m probs r0 r1))]))

/-- op `tailinv`: inverse relations deep in the well-conditioned tails, on the implementation's own outputs.
`ra`/`rt_ra` = tiny FNR targets and fnr(threshold_at_fnr(.)), `rb`/`rt_rb` the same for FPR (relative
tolerance); `ta`/`rt_ta` = thresholds far below the positive mean and threshold_at_fnr(fnr(.)), `tb`/`rt_tb`
thresholds far above the negative mean and threshold_at_fpr(fpr(.)). -/
def opTailInv (a : Args) : Except String String := do
  let eps ← getRat a "eps"
  pure (out [
    ("spec.inv_fnr", fmtBool (inverseRelOK eps (← getRats a "ra") (← getRats a "rt_ra"))),
    ("spec.inv_fpr", fmtBool (inverseRelOK eps (← getRats a "rb") (← getRats a "rt_rb"))),
    ("spec.inv_thr_fnr", fmtBool (inverseOK eps (← getRats a "ta") (← getRats a "rt_ta"))),
    ("spec.inv_thr_fpr", fmtBool (inverseOK eps (← getRats a "tb") (← getRats a "rt_tb")))])

/-- op `implied`: the implied sample size `support / rate` read exactly (`eps = 0`): `k` = observed class
size, `s` = support, `r` = the rate as the decimal the caller wrote.  Used when that quotient is a whole
number and the correctly rounded double quotient agrees with it, so no rounding question is left open. -/
def opImplied (a : Args) : Except String String := do
  let s ← getInt a "s"
  let r ← getRat a "r"
  let k ← getInt a "k"
  if r ≤ 0 then throw "rate must be positive"
  pure (out [("quot", fmtRat ((s : Rat) / r)), ("spec.implied", fmtBool (SA.Spec.C20.floorOK 0 ((s : Rat) / r) k))])

def opsC20 : List (String × (Args → Except String String)) :=
  [("normal", opNormal), ("dsroc", opDsRoc), ("frommetrics", opFromMetrics), ("nsample", opNSample),
   ("bernoulli", opBernoulli), ("corrbern", opCorrBern), ("implied", opImplied), ("tailinv", opTailInv)]

end SA.Ops
