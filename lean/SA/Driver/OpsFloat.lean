import SA.Driver.Wire
import SA.Driver.OpsC02
import SA.Driver.OpsC17
import SA.Model.FloatBound

namespace SA.Ops
open SA SA.Wire

/-- op `flbound`: the theorem-derived bound between the floating-point threshold
`threshold_at_<metric>(r, method="linear")` and the exact model's threshold
(`SA.thresholdAt_fl_error`, `SA.thresholdAt_fl_error_lip`).

Inputs: Scores keys, `metric`, `rs` (requested targets), `u` (unit roundoff, `1/2^53`).
Outputs, one entry per target:
* `r`       exact normalised ratio handed to `_invert_increasing_function` (`normTarget`)
* `dr`      bound on the error of the float ratio (`FExpr.err` of the rescaling + `1 - r` steps)
* `dt`      bound on the error of the float index target (`targetErr`)
* `ok`      every divisor of the rescaling is safely non-zero (`FExpr.ok`)
* `interior` neither special case applies, on either side (`flInterior`)
* `same`    both sides interpolate between the same neighbours (`flSameCell`)
* `eps`     `interpEpsR` (valid when `ok`, `interior`, `same`)
* `epslip`  `interpEpsLip` (valid when `ok`, `interior`; no same-neighbours condition)
* `t`       the exact model's threshold (0 when the model raises)
* `eps0`    `interpEps u n r a b`: the bound for an exactly known, unshifted ratio (what the
            rescaling, normalisation and shift roundings are NOT yet part of; for comparison) -/
def opFlbound (a : Args) : Except String String := do
  let s ← getScores a
  let metric ← parseMetric (← get a "metric")
  let rs ← getRats a "rs"
  let u ← getRat a "u"
  let arr := s.metricArray metric
  let n := arr.length
  let lc := (normalise s.cfg 0 metric.increasing metric.ratioClass .linear).2.1
  let gap := maxGapL arr
  let mab := maxAbsL arr
  let rows := rs.map fun r0 =>
    let e := s.ratioE metric r0
    let r := e.val
    let dr := e.err u
    let dt := targetErr u n lc r dr
    let x := indexTarget arr r lc
    let va := arr.getD (clampIdx x.floor n) 0
    let vb := arr.getD (clampIdx (ceilQ x) n) 0
    let t := match s.thresholdAt Ulp.float64 metric r0 .linear with
      | .ok t => t
      | .error _ => 0
    (r, dr, dt, e.ok u, flInterior u n lc r dr, flSameCell u arr lc r dr,
      interpEpsR u n lc r dr va vb, interpEpsLipG u gap mab dt, t, interpEps u n r va vb)
  pure (out [("r", fmtList fmtRat (rows.map fun x => x.1)),
    ("dr", fmtList fmtRat (rows.map fun x => x.2.1)),
    ("dt", fmtList fmtRat (rows.map fun x => x.2.2.1)),
    ("ok", fmtList fmtBool (rows.map fun x => x.2.2.2.1)),
    ("interior", fmtList fmtBool (rows.map fun x => x.2.2.2.2.1)),
    ("same", fmtList fmtBool (rows.map fun x => x.2.2.2.2.2.1)),
    ("eps", fmtList fmtRat (rows.map fun x => x.2.2.2.2.2.2.1)),
    ("epslip", fmtList fmtRat (rows.map fun x => x.2.2.2.2.2.2.2.1)),
    ("t", fmtList fmtRat (rows.map fun x => x.2.2.2.2.2.2.2.2.1)),
    ("eps0", fmtList fmtRat (rows.map fun x => x.2.2.2.2.2.2.2.2.2))])

/-- op `interpeps`: the plain closed form `interpEps u n r a b` (exact ratio, no shift) -/
def opInterpEps (a : Args) : Except String String := do
  let u ← getRat a "u"
  let n ← getNat a "n"
  let r ← getRat a "r"
  let va ← getRat a "a"
  let vb ← getRat a "b"
  pure (out [("eps", fmtRat (interpEps u n r va vb)), ("interp", fmtRat (interpErr u va vb))])

/-- op `plbound`: `invert_pl_function(x, y, ts)` of the exact model together with the
theorem-derived bound for every returned point (`SA.segPoint_fl_error`): `plEps` of the segment's
end points for a crossing, 0 for the fallback sample (returned as is). `res`/`mlens` as in op
`invpl`; `eps` is flattened like `res`. -/
def opPlbound (a : Args) : Except String String := do
  let x ← getRats a "x"
  let y ← getRats a "y"
  let ts ← getRats a "ts"
  let u ← getRat a "u"
  match invertPLAll x y ts with
  | .error e => pure (out [("err", fmtErr e)])
  | .ok r =>
    let eps := ts.map fun t =>
      let js := crossIdx y t
      if js.isEmpty then [(0 : Rat)] else js.map fun j => plEps u (x.getD j 0) (x.getD (j + 1) 0)
    pure (out (fmtNested r ++ [("eps", fmtList fmtRat eps.flatten),
      ("pre", fmtBool (plInputOK x y))]))

def opsFloat : List (String × (Args → Except String String)) :=
  [("flbound", opFlbound), ("interpeps", opInterpEps), ("plbound", opPlbound)]

end SA.Ops
