import SA.Driver.Wire
import SA.Driver.OpsC02
import SA.Model.FloatSum
import SA.Model.FloatRoc
import SA.Model.FloatCI
import SA.Driver.OpsC04
import SA.Driver.OpsC05
import SA.Model.FloatWSum

namespace SA.Ops
open SA SA.Wire

/-- op `aucbound`: the theorem-derived bound between `Scores.auc(lower, upper, x_axis, y_axis)` computed in
floating point and the exact model's value (`SA.Scores.auc_fl_error`, `SA.auc_fl_error`).

Inputs: Scores keys, `lower`, `upper`, `xm`, `ym`, `u` (unit roundoff, `1/2^53`).
Outputs:
* `auc`  the exact model's AUC (`nan` for an empty class)
* `eps`  `aucEps u xs ys` for the exact model's window arrays (0 when the model returns NaN)
* `ok`   the guard of the theorem: `aucCmpOK` (every comparison of the code is between separated values)
         and `len(x) * u < 1`
* `n`    number of trapezoid terms -/
def opAucbound (a : Args) : Except String String := do
  let s ← getScores a
  let lower ← getRat a "lower"
  let upper ← getRat a "upper"
  let xm ← parseMetric (← get a "xm")
  let ym ← parseMetric (← get a "ym")
  let u ← getRat a "u"
  -- `Scores.auc = absR (trapezoid xs ys)` of the arrays `aucArrays` (`SA.Scores.auc_eq_arrays`)
  match s.aucRates Ulp.float64 xm ym with
  | some (x, y) =>
    if x.length = 0 then
      pure (out [("auc", "nan"), ("eps", fmtRat 0), ("ok", fmtBool false), ("n", toString 0)])
    else
      let w := aucCut x y lower upper
      pure (out [("auc", fmtRat (absR (trapezoid w.1 w.2))), ("eps", fmtRat (aucEps u w.1 w.2)),
        ("ok", fmtBool (aucCmpOK u x lower upper && decide ((x.length : Rat) * u < 1))),
        ("n", toString (w.1.length - 1))])
  | none => pure (out [("auc", "nan"), ("eps", fmtRat 0), ("ok", fmtBool false), ("n", toString 0)])

/-- op `flboundlin`: op `flbound` for the targets `np.linspace(0.0, 1.0, k)`, which are themselves rounded
(`fl (i * fl (1 / (k-1)))`, last entry exactly 1, `[0]` for `k = 1`): the bound between
`threshold_at_<metric>(np.linspace(0, 1, k))[i]` computed in floating point and the exact model's threshold at the exact
target `i / (k-1)` (`SA.thresholdAtE_fl_error`, `SA.thresholdAtE_fl_error_lip`, `SA.C15_linspace_fl_error`).

Inputs: Scores keys, `metric`, `k`, `u`.  Outputs as for `flbound`, one entry per `i < k` (`r`, `dr`, `dt`, `ok`, `interior`,
`same`, `eps`, `epslip`, `t`), plus `tgt` (exact targets `i / (k-1)`) and `dtgt` (error bound of the float target). -/
def opFlboundLin (a : Args) : Except String String := do
  let s ← getScores a
  let metric ← parseMetric (← get a "metric")
  let k ← getNat a "k"
  let u ← getRat a "u"
  let arr := s.metricArray metric
  let n := arr.length
  let lc := (normalise s.cfg 0 metric.increasing metric.ratioClass .linear).2.1
  let gap := maxGapL arr
  let mab := maxAbsL arr
  let rows := (List.range k).map fun i =>
    let tg := linspaceE k i
    let e := s.ratioEx metric tg
    let r := e.val
    let dr := e.err u
    let dt := targetErr u n lc r dr
    let x := indexTarget arr r lc
    let va := arr.getD (clampIdx x.floor n) 0
    let vb := arr.getD (clampIdx (ceilQ x) n) 0
    let t := match s.thresholdAt Ulp.float64 metric tg.val .linear with
      | .ok t => t
      | .error _ => 0
    (r, dr, dt, e.ok u, flInterior u n lc r dr, flSameCell u arr lc r dr,
      interpEpsR u n lc r dr va vb, interpEpsLipG u gap mab dt, t, tg.val, tg.err u)
  pure (out [("r", fmtList fmtRat (rows.map fun x => x.1)),
    ("dr", fmtList fmtRat (rows.map fun x => x.2.1)),
    ("dt", fmtList fmtRat (rows.map fun x => x.2.2.1)),
    ("ok", fmtList fmtBool (rows.map fun x => x.2.2.2.1)),
    ("interior", fmtList fmtBool (rows.map fun x => x.2.2.2.2.1)),
    ("same", fmtList fmtBool (rows.map fun x => x.2.2.2.2.2.1)),
    ("eps", fmtList fmtRat (rows.map fun x => x.2.2.2.2.2.2.1)),
    ("epslip", fmtList fmtRat (rows.map fun x => x.2.2.2.2.2.2.2.1)),
    ("t", fmtList fmtRat (rows.map fun x => x.2.2.2.2.2.2.2.2.1)),
    ("tgt", fmtList fmtRat (rows.map fun x => x.2.2.2.2.2.2.2.2.2.1)),
    ("dtgt", fmtList fmtRat (rows.map fun x => x.2.2.2.2.2.2.2.2.2.2))])

/-- op `cibound`: the theorem-derived bounds between the limits of `tpr_ci`, `tnr_ci`, `fpr_ci`, `fnr_ci` computed in
floating point and the exact model's `p ∓ z σ` (`SA.ci_fl_error`, `SA.ci_fl_error_wrappers`).

Inputs: `m` (the four cells), `z1`, `z2` (the recorded `norm.isf` values), `u` (unit roundoff), `kap`, `sig` (four rational
approximations `σ` of the square roots of the four radicands `p (1 - p) / n`, supplied by the harness and CHECKED here:
`0 < σ`, `|σ^2 - v| ≤ kap v` is part of `ok`).
Outputs, four entries each (`tpr_ci`, `tnr_ci`, `fpr_ci`, `fnr_ci`):
* `ok`             `ciOKGuard` (the hypotheses of the theorem)
* `lo1 hi1 lo2 hi2`   the exact model's limits `p ∓ z σ` for `z1`, `z2` (0 where the class total is 0)
* `elo1 ehi1 elo2 ehi2`  `ciEps` -/
def opCibound (a : Args) : Except String String := do
  let m ← getCMq a "m"
  let z1 ← getRat a "z1"
  let z2 ← getRat a "z2"
  let u ← getRat a "u"
  let kap ← getRat a "kap"
  let sigs ← getRats a "sig"
  let rows := (m.ciExprs.zip sigs).map fun ((cE, nE), sig) =>
    let p := (ciPE cE nE).val
    let e1 := ciEps u kap z1 sig cE nE
    let e2 := ciEps u kap z2 sig cE nE
    (ciOKGuard u kap sig cE nE, p - z1 * sig, p + z1 * sig, e1.1, e1.2, p - z2 * sig, p + z2 * sig, e2.1, e2.2)
  pure (out [("ok", fmtList fmtBool (rows.map fun x => x.1)),
    ("lo1", fmtList fmtRat (rows.map fun x => x.2.1)), ("hi1", fmtList fmtRat (rows.map fun x => x.2.2.1)),
    ("elo1", fmtList fmtRat (rows.map fun x => x.2.2.2.1)), ("ehi1", fmtList fmtRat (rows.map fun x => x.2.2.2.2.1)),
    ("lo2", fmtList fmtRat (rows.map fun x => x.2.2.2.2.2.1)), ("hi2", fmtList fmtRat (rows.map fun x => x.2.2.2.2.2.2.1)),
    ("elo2", fmtList fmtRat (rows.map fun x => x.2.2.2.2.2.2.2.1)),
    ("ehi2", fmtList fmtRat (rows.map fun x => x.2.2.2.2.2.2.2.2))])

/-- op `wsumbound`: the theorem-derived bound for every cell of `ConfusionMatrix(labels, predictions, weights, classes)`
built from float weights (`SA.C05_weighted_fl_error`, `SA.cellSum_fl_error`): cell `(i, j)` is the left-to-right float sum
of the weights of its `k` samples, within `wsumEps = ((k-1) u / (1 - (k-1) u)) * Σ|w|` of the exact total.

Inputs: `classes` (list|none), `labels`, `preds`, `weights` (list|none), `u`.
Outputs: `err` (the model's error, or `none`), `n`, `m` (the exact model's matrix), `eps` (the bound per cell, row-major),
`k` (samples per cell), `ok` (`len(samples) * u < 1`). -/
def opWsumbound (a : Args) : Except String String := do
  let classes ← getOptNats a "classes"
  let labels ← getNats a "labels"
  let preds ← getNats a "preds"
  let weights ← getOptRats a "weights"
  let u ← getRat a "u"
  match fromPredictions classes labels preds weights, mkSamples labels preds weights with
  | .ok cm, .ok samples =>
    let idx := List.range cm.n
    let cells := idx.flatMap fun i => idx.map fun j =>
      cellWeights samples (cm.classes.getD i 0) (cm.classes.getD j 0)
    pure (out [("err", "none"), ("n", toString cm.n), ("m", fmtMat cm.n cm.m),
      ("eps", fmtList fmtRat (cells.map (wsumEps u))),
      ("k", fmtList toString (cells.map List.length)),
      ("ok", fmtBool (decide ((samples.length : Rat) * u < 1)))])
  | .error e, _ => pure (out [("err", fmtErr e)])
  | _, .error e => pure (out [("err", fmtErr e)])

def opsFloat2 : List (String × (Args → Except String String)) :=
  [("aucbound", opAucbound), ("flboundlin", opFlboundLin), ("cibound", opCibound), ("wsumbound", opWsumbound)]

end SA.Ops
