/-
Line protocol between the Python harness and the Lean model.

input  line:  `<op> key=value key=value ...`
output line:  `key=value key=value ...`   (or `ERR <message>`)

values: integers `-12`, rationals `-3/8`, `inf`, `-inf`, `nan`, lists `[v,v,v]`,
        bare strings (no spaces).  No value contains a space.
-/
import SA.Model.Basic

namespace SA.Wire
open SA

abbrev Args := List (String × String)

def parseLine (line : String) : String × Args :=
  let toks := (line.trimAscii.toString.splitOn " ").filter (· ≠ "")
  match toks with
  | [] => ("", [])
  | op :: rest =>
    (op, rest.filterMap fun tok =>
      match tok.splitOn "=" with
      | k :: v :: more => some (k, String.intercalate "=" (v :: more))
      | _ => none)

def get (a : Args) (k : String) : Except String String :=
  match a.lookup k with
  | some v => .ok v
  | none => .error s!"missing key {k}"

def getD (a : Args) (k : String) (d : String) : String := (a.lookup k).getD d

def parseInt (s : String) : Except String Int :=
  match s.toInt? with
  | some i => .ok i
  | none => .error s!"bad int {s}"

def parseNat (s : String) : Except String Nat :=
  match s.toNat? with
  | some i => .ok i
  | none => .error s!"bad nat {s}"

def parseRat (s : String) : Except String Rat :=
  match s.splitOn "/" with
  | [n] => do let i ← parseInt n; pure (i : Rat)
  | [n, d] => do
    let i ← parseInt n
    let j ← parseNat d
    if j = 0 then .error s!"zero denominator {s}" else pure (mkRat i j)
  | _ => .error s!"bad rat {s}"

def parseERat (s : String) : Except String ERat :=
  if s = "inf" then .ok .posInf
  else if s = "-inf" then .ok .negInf
  else do let q ← parseRat s; pure (.fin q)

/-- `Option Rat` with `nan` for `none`. -/
def parseORat (s : String) : Except String (Option Rat) :=
  if s = "nan" then .ok none else do let q ← parseRat s; pure (some q)

def splitList (s : String) : Except String (List String) :=
  if s.startsWith "[" && s.endsWith "]" then
    let inner := ((s.drop 1).dropEnd 1).toString
    if inner = "" then .ok [] else .ok (inner.splitOn ",")
  else .error s!"bad list {s}"

def parseList {α} (f : String → Except String α) (s : String) : Except String (List α) := do
  let xs ← splitList s
  xs.mapM f

def getNat (a : Args) (k : String) : Except String Nat := do parseNat (← get a k)
def getInt (a : Args) (k : String) : Except String Int := do parseInt (← get a k)
def getRat (a : Args) (k : String) : Except String Rat := do parseRat (← get a k)
def getERat (a : Args) (k : String) : Except String ERat := do parseERat (← get a k)
def getORat (a : Args) (k : String) : Except String (Option Rat) := do parseORat (← get a k)
def getBool (a : Args) (k : String) : Except String Bool := do
  let v ← get a k
  if v = "1" then pure true else if v = "0" then pure false else .error s!"bad bool {v}"
def getRats (a : Args) (k : String) : Except String (List Rat) := do parseList parseRat (← get a k)
def getNats (a : Args) (k : String) : Except String (List Nat) := do parseList parseNat (← get a k)
def getInts (a : Args) (k : String) : Except String (List Int) := do parseList parseInt (← get a k)
def getERats (a : Args) (k : String) : Except String (List ERat) := do parseList parseERat (← get a k)
def getORats (a : Args) (k : String) : Except String (List (Option Rat)) := do
  parseList parseORat (← get a k)
def getBools (a : Args) (k : String) : Except String (List Bool) := do
  let xs ← getNats a k
  pure (xs.map (· != 0))

def parseLabel (s : String) : Except String Label :=
  if s = "pos" then .ok .pos else if s = "neg" then .ok .neg else .error s!"bad label {s}"

def getLabel (a : Args) (k : String) : Except String Label := do parseLabel (← get a k)

/-- keys `sc`, `ec` -/
def getCfg (a : Args) : Except String Cfg := do
  pure ⟨← getLabel a "sc", ← getLabel a "ec"⟩

def parseMetric (s : String) : Except String Metric :=
  match s with
  | "tpr" => .ok .tpr | "fnr" => .ok .fnr | "tnr" => .ok .tnr
  | "fpr" => .ok .fpr | "topr" => .ok .topr | "tonr" => .ok .tonr
  | _ => .error s!"bad metric {s}"

/-- a `CM` sent as `[tp,fn,fp,tn]` -/
def getCM (a : Args) (k : String) : Except String CM := do
  match ← getNats a k with
  | [a, b, c, d] => pure ⟨a, b, c, d⟩
  | _ => .error s!"bad cm {k}"

/-- keys `pos`, `neg`, `ep`, `en`, `sc`, `ec`, `sorted` -/
def getScores (a : Args) : Except String Scores := do
  pure (Scores.make (← getRats a "pos") (← getRats a "neg") (← getNat a "ep") (← getNat a "en")
    (← getCfg a) (← getBool a "sorted"))

/-! ### output -/

def fmtRat (q : Rat) : String := if q.den = 1 then toString q.num else s!"{q.num}/{q.den}"
def fmtORat : Option Rat → String
  | none => "nan"
  | some q => fmtRat q
def fmtERat : ERat → String
  | .negInf => "-inf"
  | .posInf => "inf"
  | .fin q => fmtRat q
def fmtList {α} (f : α → String) (l : List α) : String := "[" ++ String.intercalate "," (l.map f) ++ "]"
def fmtBool (b : Bool) : String := if b then "1" else "0"
def fmtCM (m : CM) : String := fmtList toString [m.tp, m.fn, m.fp, m.tn]
def fmtLabel : Label → String
  | .pos => "pos"
  | .neg => "neg"

def kv (k v : String) : String := k ++ "=" ++ v
def out (kvs : List (String × String)) : String :=
  String.intercalate " " (kvs.map fun (k, v) => kv k v)

end SA.Wire
