/-
`Scores.auc` (scores.py:803-852) exactly as coded: evaluation one ulp either side of every
score, sort, rates, optional reversal, window by `searchsorted`, flat extension at the cuts,
trapezoid rule, absolute value.
-/
import SA.Model.Basic
import SA.Model.Threshold

namespace SA

/-- `np.trapezoid(y, x)` -/
def trapezoid : List Rat → List Rat → Rat
  | x0 :: x1 :: xs, y0 :: y1 :: ys => (x1 - x0) * (y0 + y1) / 2 + trapezoid (x1 :: xs) (y1 :: ys)
  | _, _ => 0

def allSome : List (Option Rat) → Option (List Rat)
  | [] => some []
  | none :: _ => none
  | some a :: rest => (allSome rest).map (a :: ·)

def absR (x : Rat) : Rat := if x < 0 then -x else x

/-- `Scores.auc(lower, upper, x_axis=xm, y_axis=ym)`; `none` = NaN (an empty class). -/
def Scores.auc (u : Ulp) (s : Scores) (lower upper : Rat) (xm ym : Metric) : Option Rat :=
  let sc := s.pos ++ s.neg
  let points := sortQ (sc.map u.down ++ sc.map u.up)
  match allSome (points.map fun t => (s.cm (.fin t)).rate xm),
        allSome (points.map fun t => (s.cm (.fin t)).rate ym) with
  | some x, some y =>
    if x.length = 0 then none else
    let rev : Bool := decide (x.getD (x.length - 1) 0 < x.getD 0 0)
    let x := if rev then x.reverse else x
    let y := if rev then y.reverse else y
    let left := bisect (fun v => decide (v < lower)) x
    let right := bisect (fun v => decide (v ≤ upper)) x
    let left := min left (y.length - 1)
    let right := max right 1
    let xs := [lower] ++ (x.drop left).take (right - left) ++ [upper]
    let ys := [y.getD left 0] ++ (y.drop left).take (right - left) ++ [y.getD (right - 1) 0]
    some (absR (trapezoid xs ys))
  | _, _ => none

/-! ### reference semantics the property speaks about -/

/-- does a positive with score `p` rank strictly on the positive side of a negative `q`? -/
def ranksAbove (sc : Label) (p q : Rat) : Bool :=
  match sc with
  | .pos => decide (q < p)
  | .neg => decide (p < q)

/-- Mann–Whitney statistic with half credit for ties; easy positives / negatives rank beyond
every scored sample (and beyond each other). -/
def mannWhitney (s : Scores) : Option Rat :=
  let np := s.pos.length + s.easyPos
  let nn := s.neg.length + s.easyNeg
  if np = 0 ∨ nn = 0 then none else
  let wins : Nat := (s.pos.map fun p => s.neg.countP fun q => ranksAbove s.cfg.scoreClass p q).sum
  let ties : Nat := (s.pos.map fun p => s.neg.countP fun q => decide (p = q)).sum
  -- an easy positive beats every negative (scored or easy); an easy negative loses to every positive
  let easyWins : Nat := s.easyPos * nn + s.pos.length * s.easyNeg
  some ((((wins + easyWins : Nat) : Rat) + (ties : Rat) / 2) / ((np * nn : Nat) : Rat))

end SA

namespace SA

/-- length of the overlap of `[a, b]` with `[lo, hi]` -/
def overlap (a b lo hi : Rat) : Rat := max 0 (min b hi - max a lo)

/-- number of scored positives ranked strictly on the positive side of the negative `q` -/
def winsOver (s : Scores) (q : Rat) : Nat := s.pos.countP fun p => ranksAbove s.cfg.scoreClass p q

/-- negatives in the order in which they are accepted as the threshold relaxes
(most positive-looking first) -/
def negsByRank (s : Scores) : List Rat :=
  match s.cfg.scoreClass with
  | .pos => (sortQ s.neg).reverse
  | .neg => sortQ s.neg

/-- Exact area under the empirical step ROC (FPR on x, TPR on y) over `[lower, upper]`, for
data without cross-class ties: the j-th accepted negative occupies the FPR interval
`[(j-1)/N, j/N]`, where the TPR is the fraction of positives ranked above it (easy positives
included); beyond the last scored negative the curve stays at TPR = 1 (easy negatives). -/
def stepAreaAux (s : Scores) (lower upper : Rat) : List Rat → Nat → Rat
  | [], _ => 0
  | q :: rest, j =>
    let nAll : Rat := ((s.neg.length + s.easyNeg : Nat) : Rat)
    let pAll : Rat := ((s.pos.length + s.easyPos : Nat) : Rat)
    overlap ((j : Rat) / nAll) (((j + 1 : Nat) : Rat) / nAll) lower upper *
        (((s.easyPos + winsOver s q : Nat) : Rat) / pAll)
      + stepAreaAux s lower upper rest (j + 1)

def stepArea (s : Scores) (lower upper : Rat) : Option Rat :=
  let nAll : Rat := ((s.neg.length + s.easyNeg : Nat) : Rat)
  if s.pos.length + s.easyPos = 0 ∨ s.neg.length + s.easyNeg = 0 then none else
  some (stepAreaAux s lower upper (negsByRank s) 0 +
    overlap ((s.neg.length : Rat) / nAll) 1 lower upper)

/-- no value is shared between the classes -/
def noCrossTies (s : Scores) : Bool := s.pos.all fun p => !s.neg.contains p

end SA
