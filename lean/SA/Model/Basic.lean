/-
Core of the model of `score_analysis.scores.Scores`: labels, configurations, extended
thresholds, binary search, constructor, confusion matrix.

Core Lean only (no Mathlib) so that the driver can be compiled.
Each definition mirrors one piece of /repo/score_analysis/scores.py; the line ranges are
given in the doc comments.
-/
namespace SA

/-- `BinaryLabel` (scores.py:14-23). -/
inductive Label where
  | pos
  | neg
deriving DecidableEq, Repr, Inhabited

def Label.flip : Label → Label
  | .pos => .neg
  | .neg => .pos

/-- The two direction flags of a `Scores` object. -/
structure Cfg where
  scoreClass : Label
  equalClass : Label
deriving DecidableEq, Repr, Inhabited

def Cfg.swap (c : Cfg) : Cfg := ⟨c.scoreClass.flip, c.equalClass.flip⟩

/-- Thresholds may be `±inf`. -/
inductive ERat where
  | negInf
  | fin (q : Rat)
  | posInf
deriving DecidableEq, Repr, Inhabited

/-- `x < t` for a finite score and an extended threshold. -/
def ltE (x : Rat) : ERat → Bool
  | .negInf => false
  | .fin q => decide (x < q)
  | .posInf => true

/-- `x ≤ t` for a finite score and an extended threshold. -/
def leE (x : Rat) : ERat → Bool
  | .negInf => false
  | .fin q => decide (x ≤ q)
  | .posInf => true

/-- The documented decision rule: is a sample with score `x` assigned to the positive
class at threshold `t`?  (`>=`, `>`, `<=`, `<` for the four configurations.) -/
def accept (cfg : Cfg) (x : Rat) (t : ERat) : Bool :=
  match cfg.scoreClass, cfg.equalClass with
  | .pos, .pos => !ltE x t
  | .pos, .neg => !leE x t
  | .neg, .pos => leE x t
  | .neg, .neg => ltE x t

/-- Textbook binary search on `[lo, hi)` for the first index at which `p` fails
(`numpy.searchsorted` on its fast path).  Deliberately *not* defined as a count: that it
equals the count needs sortedness, which is the obligation the Python code discharges by
sorting in the constructor. -/
def bisectAux (p : Rat → Bool) (a : List Rat) (lo hi : Nat) : Nat :=
  if lo < hi then
    let mid := lo + (hi - lo) / 2
    if p (a.getD mid 0) then bisectAux p a (mid + 1) hi else bisectAux p a lo mid
  else lo
termination_by hi - lo
decreasing_by all_goals omega

def bisect (p : Rat → Bool) (a : List Rat) : Nat := bisectAux p a 0 a.length

inductive Side where
  | left
  | right
deriving DecidableEq, Repr

/-- `np.searchsorted(a, t, side=side)`. -/
def searchsorted (a : List Rat) (t : ERat) : Side → Nat
  | .left => bisect (fun x => ltE x t) a
  | .right => bisect (fun x => leE x t) a

/-- `np.sort` on scores. -/
def sortQ (l : List Rat) : List Rat := l.mergeSort (fun a b => decide (a ≤ b))

/-- A `Scores` object (scores.py:105-143). `pos`/`neg` are the arrays the object holds. -/
structure Scores where
  pos : List Rat
  neg : List Rat
  easyPos : Nat
  easyNeg : Nat
  cfg : Cfg
deriving Repr

/-- Constructor (scores.py:134-143): sorts unless `isSorted`. -/
def Scores.make (pos neg : List Rat) (easyPos easyNeg : Nat) (cfg : Cfg)
    (isSorted : Bool) : Scores :=
  if isSorted then ⟨pos, neg, easyPos, easyNeg, cfg⟩
  else ⟨sortQ pos, sortQ neg, easyPos, easyNeg, cfg⟩

/-- `Scores.swap` (scores.py:278-294). -/
def Scores.swap (s : Scores) : Scores :=
  Scores.make s.neg s.pos s.easyNeg s.easyPos s.cfg.swap true

/-- Binary confusion matrix cells, order `[[tp, fn], [fp, tn]]`. -/
structure CM where
  tp : Nat
  fn : Nat
  fp : Nat
  tn : Nat
deriving DecidableEq, Repr, Inhabited

/-- Choice of `side` in `Scores.cm` (scores.py:308-311). -/
def cmSide (cfg : Cfg) : Side :=
  match cfg.scoreClass, cfg.equalClass with
  | .pos, .pos => .left
  | .pos, .neg => .right
  | .neg, .pos => .right
  | .neg, .neg => .left

/-- `Scores.cm` at one threshold (scores.py:296-336). -/
def Scores.cm (s : Scores) (t : ERat) : CM :=
  let side := cmSide s.cfg
  let posBelow := searchsorted s.pos t side
  let negBelow := searchsorted s.neg t side
  let posAbove := s.pos.length - posBelow
  let negAbove := s.neg.length - negBelow
  match s.cfg.scoreClass with
  | .pos => ⟨posAbove + s.easyPos, posBelow, negAbove, negBelow + s.easyNeg⟩
  | .neg => ⟨posBelow + s.easyPos, posAbove, negBelow, negAbove + s.easyNeg⟩

/-- The confusion matrix obtained by counting with the documented decision rule. -/
def countCM (pos neg : List Rat) (easyPos easyNeg : Nat) (cfg : Cfg) (t : ERat) : CM :=
  ⟨pos.countP (fun x => accept cfg x t) + easyPos,
   pos.countP (fun x => !accept cfg x t),
   neg.countP (fun x => accept cfg x t),
   neg.countP (fun x => !accept cfg x t) + easyNeg⟩

/-- One row of `pointwise_cm` (scores.py:1187-1206): membership of one sample in the four
cells. `isPos` is `label == pos_label`. -/
def pointwiseCell (cfg : Cfg) (isPos : Bool) (x : Rat) (t : ERat) : CM :=
  let top : Bool := match cfg.scoreClass, cfg.equalClass with
    | .pos, .pos => !ltE x t
    | .pos, .neg => !leE x t
    | .neg, .pos => leE x t
    | .neg, .neg => ltE x t
  let ton : Bool := match cfg.scoreClass, cfg.equalClass with
    | .pos, .pos => ltE x t
    | .pos, .neg => leE x t
    | .neg, .pos => !leE x t
    | .neg, .neg => !ltE x t
  ⟨(isPos && top).toNat, (isPos && ton).toNat, (!isPos && top).toNat, (!isPos && ton).toNat⟩

def CM.add (a b : CM) : CM := ⟨a.tp + b.tp, a.fn + b.fn, a.fp + b.fp, a.tn + b.tn⟩

/-- `pointwise_cm(...).sum(axis=samples)` at one threshold. -/
def pointwiseSum (cfg : Cfg) (samples : List (Bool × Rat)) (t : ERat) : CM :=
  samples.foldl (fun acc s => acc.add (pointwiseCell cfg s.1 s.2 t)) ⟨0, 0, 0, 0⟩

/-- `Scores.from_labels` (scores.py:243-255) with labels already compared to `pos_label`. -/
def Scores.fromLabels (samples : List (Bool × Rat)) (easyPos easyNeg : Nat) (cfg : Cfg)
    (isSorted : Bool) : Scores :=
  Scores.make ((samples.filter (fun s => s.1)).map (·.2))
    ((samples.filter (fun s => !s.1)).map (·.2)) easyPos easyNeg cfg isSorted

/-! ### Rates (metrics.py) on integer matrices: `none` is NaN. -/

def ratio (a b : Nat) : Option Rat := if b = 0 then none else some ((a : Rat) / (b : Rat))

def CM.p (m : CM) : Nat := m.tp + m.fn
def CM.n (m : CM) : Nat := m.fp + m.tn
def CM.top (m : CM) : Nat := m.tp + m.fp
def CM.ton (m : CM) : Nat := m.fn + m.tn
def CM.pop (m : CM) : Nat := m.tp + m.fn + m.fp + m.tn

def CM.tpr (m : CM) : Option Rat := ratio m.tp m.p
def CM.fnr (m : CM) : Option Rat := ratio m.fn m.p
def CM.tnr (m : CM) : Option Rat := ratio m.tn m.n
def CM.fpr (m : CM) : Option Rat := ratio m.fp m.n
def CM.topr (m : CM) : Option Rat := ratio m.top m.pop
def CM.tonr (m : CM) : Option Rat := ratio m.ton m.pop

/-- The six rate metrics of `Scores` that have a `threshold_at_*` inverse. -/
inductive Metric where
  | tpr | fnr | tnr | fpr | topr | tonr
deriving DecidableEq, Repr, Inhabited

def CM.rate (m : CM) : Metric → Option Rat
  | .tpr => m.tpr
  | .fnr => m.fnr
  | .tnr => m.tnr
  | .fpr => m.fpr
  | .topr => m.topr
  | .tonr => m.tonr

/-- numerator and denominator of a rate, as counts -/
def CM.rateNum (m : CM) : Metric → Nat
  | .tpr => m.tp
  | .fnr => m.fn
  | .tnr => m.tn
  | .fpr => m.fp
  | .topr => m.top
  | .tonr => m.ton

def CM.rateDen (m : CM) : Metric → Nat
  | .tpr => m.p
  | .fnr => m.p
  | .tnr => m.n
  | .fpr => m.n
  | .topr => m.pop
  | .tonr => m.pop

end SA
