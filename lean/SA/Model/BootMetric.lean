/-
`Scores.bootstrap_metric` / `Scores.bootstrap_ci` (scores.py:1066-1133), abstract over the type of
the sample objects (`Scores`, `GroupScores`, ...).

* `sampler j` stands for the j-th call of `self.bootstrap_sample(config)` (for a custom sampling
  method: the j-th call of the user's callable on `self`, scores.py:1057-1062; for the built-in
  methods: the sample drawn from the global RNG stream at that point).
* `metric s` is the metric (resolved on `type(self)` when given by name, keyword arguments
  already applied) flattened to a list of components; NaN is `none`.

The replicate loop writes `res[j] = metric(sample_j)`; the CI assembly applies
`utils.bootstrap_ci` (model: `bootstrapCI`, one component at a time) to the columns of that
matrix with `metric(self)` as the point estimate.
-/
import SA.Model.Bootstrap

namespace SA

/-- `bootstrap_metric`: row `j` is the metric of the `j`-th sample; `nb` rows. -/
def bootstrapMetric {σ : Type} (sampler : Nat → σ) (metric : σ → List (Option Rat)) (nb : Nat) :
    List (List (Option Rat)) :=
  (List.range nb).map fun j => metric (sampler j)

/-- component `k` of every replicate (`theta[:, k]` after flattening the metric shape);
a row that is too short contributes NaN (never happens for a metric of constant shape). -/
def column (rows : List (List (Option Rat))) (k : Nat) : List (Option Rat) :=
  rows.map fun r => r.getD k none

/-- one component of the interval. The estimate of the quantile method is not used by
`utils.bootstrap_ci`. A NaN estimate together with `bc` / `bca` is OUTSIDE the model (the
implementation then compares every replicate with NaN); the model returns NaN limits there,
which is what the implementation returns when the replicates are NaN as well (identity sampler). -/
def ciComponent (nrm : Normal) (pow15 : Rat → Rat) (m : BootMethod) (col : List (Option Rat))
    (est : Option Rat) (alpha : Rat) : Option Rat × Option Rat :=
  match est with
  | some th => bootstrapCI nrm pow15 m col th alpha
  | none =>
    match m with
    | .quantile => bootstrapCI nrm pow15 .quantile col 0 alpha
    | _ => (none, none)

/-- `bootstrap_ci`: for every component `k` of the point estimate `metric original`, the C13
formula on column `k` of the replicate matrix. -/
def bootstrapCIOf {σ : Type} (nrm : Normal) (pow15 : Rat → Rat) (m : BootMethod)
    (sampler : Nat → σ) (metric : σ → List (Option Rat)) (original : σ) (nb : Nat) (alpha : Rat) :
    List (Option Rat × Option Rat) :=
  let rows := bootstrapMetric sampler metric nb
  (List.range (metric original).length).map fun k =>
    ciComponent nrm pow15 m (column rows k) ((metric original).getD k none) alpha

end SA
