/-
`utils.bootstrap_ci` (utils.py:36-140) for ONE metric component and ONE alpha:
NumPy's default (linear) `nanquantile`, and the quantile / BC / BCa limits.
The standard normal cdf / ppf and `x ** 1.5` are oracle parameters.
-/
import SA.Model.Basic
import SA.Model.Threshold

namespace SA

/-- `np.nanquantile(vals, q)` with the default linear method; `none` = NaN (all-NaN input).
`vals` may contain NaNs (`none`), which are ignored. -/
def quantileLinear (vals : List (Option Rat)) (q : Rat) : Option Rat :=
  let v := sortQ (vals.filterMap id)
  if v.length = 0 then none
  else
    let h : Rat := q * ((v.length : Rat) - 1)
    let lo := clampIdx h.floor v.length
    let hi := clampIdx (ceilQ h) v.length
    some (v.getD lo 0 + (h - (h.floor : Int)) * (v.getD hi 0 - v.getD lo 0))

/-- standard normal cdf / ppf as oracles -/
structure Normal where
  cdf : ERat → Rat
  ppf : Rat → ERat

def ERat.add : ERat → ERat → ERat
  | .fin a, .fin b => .fin (a + b)
  | .posInf, .negInf => .fin 0  -- nan in floating point; never reached by the callers below
  | .negInf, .posInf => .fin 0
  | .posInf, _ => .posInf
  | _, .posInf => .posInf
  | .negInf, _ => .negInf
  | _, .negInf => .negInf

def ERat.double : ERat → ERat
  | .fin a => .fin (2 * a)
  | .posInf => .posInf
  | .negInf => .negInf

inductive BootMethod where
  | quantile
  | bc
  | bca
deriving DecidableEq, Repr

/-- fraction of the finite replicates that are `≤ thetaHat` (utils.py:100-101); `none` if
there is no finite replicate (0/0). -/
def fracLe (vals : List (Option Rat)) (thetaHat : Rat) : Option Rat :=
  let fin := vals.filterMap id
  if fin.length = 0 then none
  else some (((fin.countP (fun x => decide (x ≤ thetaHat)) : Nat) : Rat) / (fin.length : Rat))

/-- acceleration `a` (utils.py:115-118) given the `** 1.5` oracle -/
def acceleration (pow15 : Rat → Rat) (vals : List (Option Rat)) (thetaHat : Rat) : Rat :=
  let fin := vals.filterMap id
  let num := (fin.map fun x => (x - thetaHat) * (x - thetaHat) * (x - thetaHat)).sum
  let den := 6 * pow15 ((fin.map fun x => (x - thetaHat) * (x - thetaHat)).sum)
  if den = 0 then 0 else num / den

/-- adjusted level for one tail: BC `2 z0 + zα`, BCa `z0 + s / (1 - a s)` with `s = z0 + zα`
(only applied when `z0` is finite; otherwise the level is `z0` itself). -/
def adjustedZ (m : BootMethod) (a : Rat) (z0 zAlpha : ERat) : ERat :=
  match m with
  | .quantile => zAlpha
  | .bc => ERat.add (ERat.double z0) zAlpha
  | .bca =>
    match z0, zAlpha with
    | .fin z, .fin za =>
      let s := z + za
      .fin (z + s / (1 - a * s))
    | .fin _, .posInf => .posInf  -- not reached for alpha in (0,1)
    | .fin _, .negInf => .negInf
    | z, _ => z

/-- `utils.bootstrap_ci(theta, theta_hat, alpha, method)` for one component.
Returns `(lower, upper)`, each possibly NaN. -/
def bootstrapCI (nrm : Normal) (pow15 : Rat → Rat) (m : BootMethod) (vals : List (Option Rat))
    (thetaHat : Rat) (alpha : Rat) : Option Rat × Option Rat :=
  match m with
  | .quantile => (quantileLinear vals (alpha / 2), quantileLinear vals (1 - alpha / 2))
  | _ =>
    match fracLe vals thetaHat with
    | none => (none, none)
    | some p0 =>
      let z0 := nrm.ppf p0
      let a := if m = .bca then acceleration pow15 vals thetaHat else 0
      let zl := adjustedZ m a z0 (nrm.ppf (alpha / 2))
      let zu := adjustedZ m a z0 (nrm.ppf (1 - alpha / 2))
      (quantileLinear vals (nrm.cdf zl), quantileLinear vals (nrm.cdf zu))

end SA
