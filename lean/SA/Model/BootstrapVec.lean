/-
`utils.bootstrap_ci` (utils.py:36-148) as a whole-array function, statement by statement:
`theta` of shape `(N,) + Y`, optional `theta_hat` of shape `Y`, `alpha` of any shape `A`.

What is modelled and what is not
* quantile method: every statement, including the errors NumPy raises (`alpha` empty, a level
  outside [0, 1], rank-0 `theta`, `N = 0` with a non-empty metric shape: the short-circuited
  `nanquantile` result cannot be reshaped).
* bc / bca: `theta_hat is None` → ValueError; `np.reshape(theta, (N, -1))` → ValueError for
  `N = 0`; the per-component computations (`p0`, `z0`, the adjusted levels, the loop over `j`) are
  the existing one-component model `bootstrapCI` applied to column `j` of the flattened `theta`
  with `theta_hat[j]`, written into row `j` of the `(M, 2)` buffer; final reshape to `Y + (2,)`.
  RESTRICTIONS (explicit, result `.error .other` = "outside the model", not a claim about Python):
  - `alpha` must have exactly one entry (any shape of size 1).  The docstring says vector alpha
    is only supported by the quantile method; the real code does not reject it but broadcasts
    the `(M,)` component vector against the `(Z',)` alpha vector (see the report).
  - `theta_hat` must have exactly `M = prod Y` entries (the real code broadcasts others).
  - rank-0 `theta` (`theta.shape[0]` raises IndexError).
  The range check of `np.nanquantile` on the levels `Φ(z)` is not modelled (Φ ∈ [0,1]).
-/
import SA.Model.NdArray

namespace SA

/-- row `j` of the `(M, 2)` buffer `ci` of the bc / bca branch -/
def bcRows (nrm : Normal) (pow15 : Rat → Rat) (m : BootMethod) (theta : Nd (Option Rat))
    (thetaHat : Nd Rat) (alpha0 : Rat) (metricSize : Nat) : Nd (Option Rat) :=
  Nd.ofFn [metricSize, 2] fun idx =>
    let j := idx.headD 0
    let r := bootstrapCI nrm pow15 m (theta.column [j]) (thetaHat.get [0, j]) alpha0
    if idx.getD 1 0 = 0 then r.1 else r.2

def bootstrapCIVec (nrm : Normal) (pow15 : Rat → Rat) (m : BootMethod)
    (theta : Nd (Option Rat)) (thetaHat : Option (Nd Rat)) (alpha : Nd Rat) :
    Except Err (Nd (Option Rat)) := do
  let alphaShape := alpha.shape
  let alpha := alpha.ravel                                    -- (Z',)
  let alphaLower := alpha.map (· / 2)
  let alphaUpper := alpha.map (1 - · / 2)
  match m with
  | .quantile =>
    let alphaJoint ← stack0 [alphaLower, alphaUpper]          -- (2, Z')
    let ci ← npNanquantileAxis0 theta alphaJoint              -- (2, Z', *Y)
    let ci ← ci.reshape (alphaJoint.shape ++ theta.shape.tail)
    let ci ← ci.moveaxis [0, 1] [-1, -2]                      -- (*Y, Z', 2)
    ci.reshape (theta.shape.tail ++ alphaShape ++ [2])        -- (*Y, *A, 2)
  | _ =>
    match thetaHat with
    | none => throw .valueError
    | some thetaHat =>
      let thetaHat := thetaHat.newaxis0                       -- (1, *Y)
      match theta.shape with
      | [] => throw .other
      | nbSamples :: metricShape =>
        let theta ← theta.reshapeInfer nbSamples              -- (N, M)
        let thetaHat ← thetaHat.reshapeInfer 1                -- (1, M)
        let metricSize := theta.shape.getD 1 0
        if thetaHat.size ≠ metricSize then throw .other
        match alpha.data with
        | [alpha0] =>
          let ci := bcRows nrm pow15 m theta thetaHat alpha0 metricSize   -- (M, 2)
          ci.reshape (metricShape ++ [2])
        | _ => throw .other

end SA
