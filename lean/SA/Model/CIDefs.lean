/-
C04, third tie: `utils.binomial_ci` regenerated from the source on every run (`harness/cidefs.py`, Python `ast`).

IR `CExpr`: what the function computes for ONE entry from `count`, `nobs` and `z = norm.isf(<arg>)`: constants, `+ - *`,
an unmasked division, `guard g a` = `np.divide(.., out=<NaN buffer>, where=g != 0)` / `np.where(g != 0, a, nan)`, and an
UNINTERPRETED `sqrt`.  Values are `SA.MetricExpr.Val` (rational | NaN | `bad` = NumPy would evaluate a division by zero, or
the square-root oracle is not defined there).  `CIDef` = the two limits, the argument handed to `isf` as `a*alpha + b`, the
axis along which the limits are stacked.  `modelCIDef` is the model's `SA.binomialCI` in the IR (code-shaped; equal to it on
every input: `SA/Theorems/C04CIDefs.lean`).

CHECK (deliberately modest): `ok` = the translated row IS the model's row as data (the translator inlines local variables,
so renamings, reorderings of independent statements, `np.stack` of a tuple or a list, in-place `np.divide(.., out=buf)` are
all the same row); `mismatch` = a definite difference: another `isf` argument, another stacking axis, or different limits at
a witness `(count, nobs, z)` under the exact square root on rational squares (the witnesses make the model's radicand a
rational square); anything else (e.g. the mathematically equal `sqrt(z*z*p*(1-p)/n)`) is `undecided` - never an alarm.
Core Lean only.
-/
import SA.Model.MetricExpr
import SA.Model.CmDefs

namespace SA.CIDefs
open SA SA.MetricExpr

inductive CExpr where
  | count
  | nobs
  /-- `scipy.stats.norm.isf(<arg>)` -/
  | z
  | const (k : Int)
  | add (a b : CExpr)
  | sub (a b : CExpr)
  | mul (a b : CExpr)
  /-- `a / b` without a mask -/
  | divRaw (a b : CExpr)
  /-- NaN where `g == 0`, else `a` -/
  | guard (g a : CExpr)
  | sqrt (a : CExpr)
  deriving DecidableEq, Repr, Inhabited

def vmul : Val → Val → Val
  | .bad, _ => .bad
  | .nan, .bad => .bad
  | .nan, _ => .nan
  | .num _, .bad => .bad
  | .num _, .nan => .nan
  | .num a, .num b => .num (a * b)

def vsqrt (sq : Rat → Option Rat) : Val → Val
  | .bad => .bad
  | .nan => .nan
  | .num x => match sq x with
    | some r => .num r
    | none => .bad

def CExpr.eval (c n z : Rat) (sq : Rat → Option Rat) : CExpr → Val
  | .count => .num c
  | .nobs => .num n
  | .z => .num z
  | .const k => .num k
  | .add a b => (a.eval c n z sq).add (b.eval c n z sq)
  | .sub a b => (a.eval c n z sq).sub (b.eval c n z sq)
  | .mul a b => vmul (a.eval c n z sq) (b.eval c n z sq)
  | .divRaw a b => (a.eval c n z sq).div (b.eval c n z sq)
  | .guard g a => (g.eval c n z sq).whereNZ (a.eval c n z sq) .nan
  | .sqrt a => vsqrt sq (a.eval c n z sq)

structure CIDef where
  lo : CExpr
  hi : CExpr
  /-- the argument handed to `isf` is `isfA * alpha + isfB` -/
  isfA : Rat
  isfB : Rat
  /-- `np.stack([lo, hi], axis=stackAxis)` -/
  stackAxis : Int
  deriving DecidableEq, Repr, Inhabited

/-- `utils.binomial_ci` as the model has it (`SA.binomialCI`, utils.py:24-33) -/
def modelCIDef : CIDef :=
  let p := CExpr.guard .nobs (.divRaw .count .nobs)
  let std := CExpr.sqrt (.guard .nobs (.divRaw (.mul p (.sub (.const 1) p)) .nobs))
  let dist := CExpr.mul .z std
  ⟨.sub p dist, .add p dist, 1 / 2, 0, -1⟩

/-- the exact square root on squares of rationals, undefined elsewhere -/
def wsqrt (x : Rat) : Option Rat :=
  if x < 0 then none
  else
    let a := x.num.toNat
    let b := x.den
    if a.sqrt * a.sqrt = a ∧ b.sqrt * b.sqrt = b then some ((a.sqrt : Rat) / (b.sqrt : Rat)) else none

/-- witnesses `(count, nobs, z)`; the model's radicand is a rational square at each -/
def ciWitnesses : List (Rat × Rat × Rat) := [
  (2, 4, 1), (8, 16, 2), (9, 25, 1), (16, 25, 3), (0, 5, 1), (5, 5, 2), (0, 0, 1), (3, 0, 1), (18, 36, 5)]

def limitsAt (d : CIDef) (w : Rat × Rat × Rat) : Val × Val :=
  (d.lo.eval w.1 w.2.1 w.2.2 wsqrt, d.hi.eval w.1 w.2.1 w.2.2 wsqrt)

def differsAt (d : CIDef) (w : Rat × Rat × Rat) : Bool :=
  let a := limitsAt d w
  let m := limitsAt modelCIDef w
  a.1.differs m.1 || a.2.differs m.2

/-- `mismatch 100`: another `isf` argument; `mismatch 101`: another stacking axis; `mismatch i`, `i < 100`: witness `i` -/
def checkCI (d : CIDef) : SA.CmDefs.Verdict :=
  if d = modelCIDef then .ok
  else if d.isfA ≠ modelCIDef.isfA ∨ d.isfB ≠ modelCIDef.isfB then .mismatch 100
  else if d.stackAxis ≠ modelCIDef.stackAxis then .mismatch 101
  else match SA.CmDefs.firstIdx (differsAt d) ciWitnesses 0 with
    | some i => .mismatch i
    | none => .undecided

def ciReportLines (d : CIDef) : List String :=
  let v := checkCI d
  let wit := match v with
    | .mismatch i => match ciWitnesses[i]? with
      | some w =>
        let a := limitsAt d w
        let m := limitsAt modelCIDef w
        s!" count={SA.CmDefs.ratStr w.1} nobs={SA.CmDefs.ratStr w.2.1} z={SA.CmDefs.ratStr w.2.2} got={a.1.str};{a.2.str} want={m.1.str};{m.2.str}"
      | none => if i = 100 then s!" isf={SA.CmDefs.ratStr d.isfA}*alpha+{SA.CmDefs.ratStr d.isfB}" else s!" axis={d.stackAxis}"
    | _ => ""
  [s!"CI verdict={v.str}{wit}"]

end SA.CIDefs
