/-
C05, second tie: `ConfusionMatrix.one_vs_all` and the construction loop `_assign_from_predictions` of
`score_analysis/cm.py` regenerated from the source on every run (`harness/cmdefs.py`, Python `ast`).

* `OExpr`: what `one_vs_all` stores into one cell of the 2x2 block of class `j` of an N x N matrix `M`, as an
  expression over FOUR generators `M[j, j]`, `rowsum_j`, `colsum_j`, `total` (the only quantities the source reads),
  with `+`, `-` and integer constants.  `OExpr.eval n M j` is its value on ANY rational matrix of ANY size.
  `OLin` = integer combination of the four generators (+ constant) = the normal form; `OExpr.normalize` is total.
  `OvaDef` = the four cells in their positions `[..., j, a, b]`, the axis of the class index in the result (counted
  from the end: -3) and whether the result is built with `binary=True`.
* `modelOva`: the model's table, code-shaped (its block IS `SA.oneVsAll` by `rfl`, `SA/Theorems/C05Defs.lean`),
  `modelOvaNF` its normal forms; separating witnesses; `checkOva`.
* `ConsDef`: the construction loop as data (how the class list is inferred, the binary default, which of label /
  prediction indexes the ROW, `+=` or `=`, the initial value, the default weight), its code-shaped denotation
  `ConsDef.run`, the model's row `modelCons` (whose denotation is `SA.fromPredictions`), witnesses, `checkCons`.

Core Lean only.
-/
import SA.Model.Multiclass

namespace SA.CmDefs
open SA

/-! ### one_vs_all: expressions over four generators -/

inductive OExpr where
  /-- `self.matrix[..., j, j]` -/
  | diag
  /-- `np.sum(self.matrix[..., j, :], axis=-1)` -/
  | rowSum
  /-- `np.sum(self.matrix[..., :, j], axis=-1)` -/
  | colSum
  /-- `np.sum(self.matrix, axis=(-1, -2))` -/
  | total
  | const (c : Int)
  | add (a b : OExpr)
  | sub (a b : OExpr)
  deriving DecidableEq, Repr, Inhabited

/-- value for class `j` of the `n x n` matrix `M` -/
def OExpr.eval (n : Nat) (M : Mat) (j : Nat) : OExpr → Rat
  | .diag => M j j
  | .rowSum => SA.rowSum n M j
  | .colSum => SA.colSum n M j
  | .total => SA.total n M
  | .const c => c
  | .add a b => a.eval n M j + b.eval n M j
  | .sub a b => a.eval n M j - b.eval n M j

/-- `d*M[j,j] + r*rowsum_j + c*colsum_j + t*total + k` -/
structure OLin where
  d : Int
  r : Int
  c : Int
  t : Int
  k : Int
  deriving DecidableEq, Repr, Inhabited

namespace OLin
def add (x y : OLin) : OLin := ⟨x.d + y.d, x.r + y.r, x.c + y.c, x.t + y.t, x.k + y.k⟩
def sub (x y : OLin) : OLin := ⟨x.d - y.d, x.r - y.r, x.c - y.c, x.t - y.t, x.k - y.k⟩
def eval (x : OLin) (n : Nat) (M : Mat) (j : Nat) : Rat :=
  x.d * M j j + x.r * SA.rowSum n M j + x.c * SA.colSum n M j + x.t * SA.total n M + x.k
def str (l : OLin) : String := s!"{l.d},{l.r},{l.c},{l.t},{l.k}"
end OLin

/-- the normal form (total: the IR is linear) -/
def OExpr.normalize : OExpr → OLin
  | .diag => ⟨1, 0, 0, 0, 0⟩
  | .rowSum => ⟨0, 1, 0, 0, 0⟩
  | .colSum => ⟨0, 0, 1, 0, 0⟩
  | .total => ⟨0, 0, 0, 1, 0⟩
  | .const c => ⟨0, 0, 0, 0, c⟩
  | .add a b => a.normalize.add b.normalize
  | .sub a b => a.normalize.sub b.normalize

/-- what `one_vs_all` returns, per class `j`: entry `[..., j, a, b]` of the result is `cab`; `classAxis` is the axis
of the class index in the result counted from the end (`[..., j, a, b]`: -3); `binary` = the result is built by
`ConfusionMatrix(matrix=..., binary=True)` -/
structure OvaDef where
  classAxis : Int
  binary : Bool
  c00 : OExpr
  c01 : OExpr
  c10 : OExpr
  c11 : OExpr
  deriving DecidableEq, Repr, Inhabited

def OvaDef.cells (d : OvaDef) : List OExpr := [d.c00, d.c01, d.c10, d.c11]

/-- the 2x2 block of class `j` as the binary matrix `[[tp, fn], [fp, tn]]` it is read as by `metrics.py` -/
def OvaDef.block (d : OvaDef) (n : Nat) (M : Mat) (j : Nat) : CMq :=
  ⟨d.c00.eval n M j, d.c01.eval n M j, d.c10.eval n M j, d.c11.eval n M j⟩

/-- the model's `oneVsAll` (`SA/Model/Multiclass.lean`) in the IR, in the order of the assignments of cm.py: the
`[1, 1]` cell is the total minus the sum of the block, whose `[1, 1]` cell is still zero at that moment -/
def modelOva : OvaDef :=
  let tp := OExpr.diag
  let fn := OExpr.sub .rowSum tp
  let fp := OExpr.sub .colSum tp
  ⟨-3, true, tp, fn, fp, .sub .total (.add (.add (.add tp fn) fp) (.const 0))⟩

/-- the model's normal forms: TP = M[j,j], FN = rowsum - M[j,j], FP = colsum - M[j,j], TN = total - rowsum - colsum + M[j,j] -/
def modelOvaNF : List OLin := [⟨1, 0, 0, 0, 0⟩, ⟨-1, 1, 0, 0, 0⟩, ⟨-1, 0, 1, 0, 0⟩, ⟨1, -1, -1, 1, 0⟩]

/-- witnesses `(n, entries row by row, j)`.  The last five (the four unit 2x2 matrices and the zero matrix, class 0)
separate ANY two distinct linear forms (`SA/Theorems/C05Defs.lean`: `ovaWitnesses_complete`) -/
def ovaWitnesses : List (Nat × List Rat × Nat) := [
  (2, [2, 3, 5, 7], 0), (2, [2, 3, 5, 7], 1),
  (3, [2, 3, 5, 7, 11, 13, 17, 19, 23], 1), (3, [2, 3, 5, 7, 11, 13, 17, 19, 23], 0),
  (3, [2, 3, 5, 7, 11, 13, 17, 19, 23], 2),
  (2, [1, 0, 0, 0], 0), (2, [0, 1, 0, 0], 0), (2, [0, 0, 1, 0], 0), (2, [0, 0, 0, 1], 0), (2, [0, 0, 0, 0], 0)]

def firstIdx {α : Type} (p : α → Bool) : List α → Nat → Option Nat
  | [], _ => none
  | x :: xs, i => if p x then some i else firstIdx p xs (i + 1)

inductive Verdict where
  | ok
  /-- differs from the model on witness number `i` -/
  | mismatch (i : Nat)
  | undecided
  deriving DecidableEq, Repr

def Verdict.str : Verdict → String
  | .ok => "ok"
  | .mismatch i => s!"mismatch:{i}"
  | .undecided => "undecided"

def wEval (l : OLin) (w : Nat × List Rat × Nat) : Rat := l.eval w.1 (Mat.ofList w.1 w.2.1) w.2.2

/-- one cell against the model's normal form -/
def cellVerdict (e : OExpr) (m : OLin) : Verdict :=
  if e.normalize = m then .ok
  else match firstIdx (fun w => decide (e.eval w.1 (Mat.ofList w.1 w.2.1) w.2.2 ≠ wEval m w)) ovaWitnesses 0 with
    | some i => .mismatch i
    | none => .undecided

structure OvaReport where
  /-- the class index sits at axis -3 of the result -/
  axisOk : Bool
  /-- the result is a binary ConfusionMatrix -/
  binaryOk : Bool
  /-- verdicts of the cells `[0,0]`, `[0,1]`, `[1,0]`, `[1,1]` -/
  cells : List Verdict
  deriving DecidableEq, Repr

def checkOva (d : OvaDef) : OvaReport :=
  ⟨decide (d.classAxis = modelOva.classAxis), d.binary == modelOva.binary,
   (d.cells.zip modelOvaNF).map fun p => cellVerdict p.1 p.2⟩

def ovaAllOk : OvaReport := ⟨true, true, [.ok, .ok, .ok, .ok]⟩

def ratStr (q : Rat) : String := if q.den = 1 then s!"{q.num}" else s!"{q.num}/{q.den}"

def ovaReportLines (d : OvaDef) : List String :=
  let r := checkOva d
  [s!"OVA axis={d.classAxis} axisok={if r.axisOk then 1 else 0} binary={if d.binary then 1 else 0} binaryok={if r.binaryOk then 1 else 0}"] ++
  ((d.cells.zip modelOvaNF).zip [(0, 0), (0, 1), (1, 0), (1, 1)]).map fun p =>
    let e := p.1.1
    let m := p.1.2
    let v := cellVerdict e m
    let wit := match v with
      | .mismatch i => match ovaWitnesses[i]? with
        | some w => s!" n={w.1} matrix={",".intercalate (w.2.1.map ratStr)} j={w.2.2} got={ratStr (e.eval w.1 (Mat.ofList w.1 w.2.1) w.2.2)} want={ratStr (wEval m w)}"
        | none => ""
      | _ => ""
    s!"OVACELL pos={p.2.1}{p.2.2} verdict={v.str} nf={e.normalize.str} model={m.str}{wit}"

/-! ### the construction loop as data -/

inductive Field where
  | label
  | pred
  deriving DecidableEq, Repr, Inhabited

inductive Upd where
  /-- `matrix[i][j] += w` -/
  | addAssign
  /-- `matrix[i][j] = w` -/
  | assign
  deriving DecidableEq, Repr, Inhabited

/-- how the class list is chosen when `classes is None` (non-binary) -/
inductive ClassSrc where
  /-- `np.unique(np.concatenate([np.unique(labels), np.unique(predictions)]))` -/
  | uniqueBoth
  | uniqueLabels
  | uniquePreds
  deriving DecidableEq, Repr, Inhabited

structure ConsDef where
  /-- `classes is None`, not binary -/
  inferred : ClassSrc
  /-- `classes is None`, binary: `[1, 0]` -/
  binaryDefault : List Int
  /-- `classes` given: used as they are (`np.asarray(classes)`) -/
  givenAsIs : Bool
  /-- `idx_map = {c: i for i, c in enumerate(classes)}`: position in the class list, a later duplicate wins -/
  enumerateMap : Bool
  /-- which member of the sample indexes the ROW / the COLUMN -/
  rowBy : Field
  colBy : Field
  upd : Upd
  /-- `np.zeros` -/
  init : Int
  /-- weight of every sample when `weights is None` -/
  defaultWeight : Int
  /-- `len(weights) != len(labels)` raises ValueError -/
  lengthCheck : Bool
  deriving DecidableEq, Repr, Inhabited

def Field.of : Field → Sample → Nat
  | .label, s => s.label
  | .pred, s => s.pred

def Upd.apply : Upd → Mat → Nat → Nat → Rat → Mat
  | .addAssign, M, i, j, w => addAt M i j w
  | .assign, M, i, j, w => fun a b => if a = i ∧ b = j then w else M a b

/-- the loop `for label, pred, weight in zip(labels, predictions, weights): matrix[row, col] <upd> weight` -/
def ConsDef.loop (d : ConsDef) (classes : List Nat) : List Sample → Mat → Except Err Mat
  | [], M => .ok M
  | s :: rest, M =>
    match idxMap classes (d.rowBy.of s) with
    | none => .error .keyError
    | some i =>
      match idxMap classes (d.colBy.of s) with
      | none => .error .keyError
      | some j => ConsDef.loop d classes rest (d.upd.apply M i j s.weight)

def ClassSrc.of : ClassSrc → List Nat → List Nat → List Nat
  | .uniqueBoth, l, p => defaultClasses l p
  | .uniqueLabels, l, _ => uniqueSorted l
  | .uniquePreds, _, p => uniqueSorted p

def ConsDef.samples (d : ConsDef) (labels preds : List Nat) (weights : Option (List Rat)) : Except Err (List Sample) :=
  match weights with
  | some w =>
    if d.lengthCheck && decide (w.length ≠ labels.length) then .error .valueError
    else .ok ((labels.zip (preds.zip w)).map fun x => ⟨x.1, x.2.1, x.2.2⟩)
  | none => .ok ((labels.zip preds).map fun x => ⟨x.1, x.2, d.defaultWeight⟩)

/-- `ConfusionMatrix(labels=, predictions=, weights=, classes=)` (non-binary) as the translated row describes it -/
def ConsDef.run (d : ConsDef) (classes : Option (List Nat)) (labels preds : List Nat)
    (weights : Option (List Rat)) : Except Err CMat :=
  let cls := match classes with
    | none => d.inferred.of labels preds
    | some c => c
  match d.samples labels preds weights with
  | .error e => .error e
  | .ok samples =>
    match d.loop cls samples (fun _ _ => d.init) with
    | .error e => .error e
    | .ok M =>
      match checkClasses cls cls.length with
      | .error e => .error e
      | .ok () => .ok ⟨cls.length, cls, M⟩

/-- the model's row: `SA.fromPredictions` (`SA/Theorems/C05Defs.lean`: `modelCons_run`) -/
def modelCons : ConsDef := ⟨.uniqueBoth, [1, 0], true, true, .label, .pred, .addAssign, 0, 1, true⟩

/-- witness inputs `(classes, labels, predictions, weights)` -/
def consWitnesses : List (Option (List Nat) × List Nat × List Nat × Option (List Rat)) := [
  (some [0, 1], [0, 0, 1], [1, 1, 1], some [2, 3, 5]),
  (some [0, 1], [0, 0, 1], [1, 1, 1], none),
  (none, [3, 3], [1, 3], some [2, 7]),
  (none, [1, 3], [3, 3], some [2, 7]),
  (some [0, 1], [0, 1], [1, 0], some [2, 3, 5]),
  (some [0, 1], [], [], none)]

def outStr : Except Err CMat → String
  | .error .valueError => "ValueError"
  | .error .keyError => "KeyError"
  | .error _ => "error"
  | .ok cm => (s!"classes={cm.classes};matrix={(Mat.toList cm.n cm.m).map ratStr}").replace " " ""

def sameOut (a b : Except Err CMat) : Bool :=
  match a, b with
  | .error e, .error e' => decide (e = e')
  | .ok x, .ok y => decide (x.n = y.n) && decide (x.classes = y.classes) && decide (Mat.toList x.n x.m = Mat.toList y.n y.m)
  | _, _ => false

def runOn (d : ConsDef) (w : Option (List Nat) × List Nat × List Nat × Option (List Rat)) : Except Err CMat :=
  d.run w.1 w.2.1 w.2.2.1 w.2.2.2

/-- as data: `ok` iff the row IS the model's; otherwise the first witness input on which the two differ (the binary
default `[1, 0]` and `givenAsIs` / `enumerateMap` have no denotation here: a difference there is reported as
`mismatch` with the pseudo-witness number `consWitnesses.length`) -/
def checkCons (d : ConsDef) : Verdict :=
  if d = modelCons then .ok
  else match firstIdx (fun w => !sameOut (runOn d w) (runOn modelCons w)) consWitnesses 0 with
    | some i => .mismatch i
    | none =>
      if d.binaryDefault ≠ modelCons.binaryDefault ∨ d.givenAsIs ≠ modelCons.givenAsIs ∨ d.enumerateMap ≠ modelCons.enumerateMap
      then .mismatch consWitnesses.length else .undecided

def consReportLines (d : ConsDef) : List String :=
  let v := checkCons d
  let wit := match v with
    | .mismatch i => match consWitnesses[i]? with
      | some w =>
        let ns := fun (s : String) => (s.replace " " "").replace "(" "" |>.replace ")" ""
        s!" classes={ns (toString w.1)} labels={ns (toString w.2.1)} predictions={ns (toString w.2.2.1)} weights={ns (toString (w.2.2.2.map fun (l : List Rat) => l.map ratStr))} got={outStr (runOn d w)} want={outStr (runOn modelCons w)}"
      | none => " field=binaryDefault/givenAsIs/enumerateMap"
    | _ => ""
  [s!"CONS verdict={v.str}{wit}"]

end SA.CmDefs
