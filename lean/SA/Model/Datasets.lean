/-
Model of `score_analysis/experimental/datasets.py`:
`NormalDataset` (closed-form FNR/FPR/thresholds 83-132, `from_metrics` 27-65, `sample` 67-81),
`BernoulliDataset.sample` (148-182) and `CorrelatedBernoullilDataset.sample` (202-263).

Core Lean only. Numbers are exact rationals. The standard normal cdf / quantile, `np.sqrt` and
the random number generator are oracle parameters; scipy's location-scale forms are defined from
the standard ones exactly as scipy does (`cdf(x, loc, scale) = Phi((x - loc) / scale)`,
`ppf(p, loc, scale) = loc + scale * PhiInv p`, `sf = 1 - cdf`, `isf(p) = ppf(1 - p)`).
-/
import SA.Model.Basic

namespace SA

/-- standard normal cdf `Phi` and quantile `PhiInv` (oracles) -/
structure StdNormal where
  Phi : Rat → Rat
  PhiInv : Rat → Rat

namespace StdNormal

/-- `scipy.stats.norm.cdf(x, loc, scale)` -/
def cdf (N : StdNormal) (x loc scale : Rat) : Rat := N.Phi ((x - loc) / scale)

/-- `scipy.stats.norm.ppf(p, loc, scale)` -/
def ppf (N : StdNormal) (p loc scale : Rat) : Rat := loc + scale * N.PhiInv p

/-- `scipy.stats.norm.sf(x, loc, scale)` (survival function `1 - cdf`) -/
def sf (N : StdNormal) (x loc scale : Rat) : Rat := 1 - N.cdf x loc scale

/-- `scipy.stats.norm.isf(p, loc, scale)` (inverse survival function) -/
def isf (N : StdNormal) (p loc scale : Rat) : Rat := N.ppf (1 - p) loc scale

end StdNormal

/-- exceptions raised by datasets.py (or by the NumPy calls it makes) -/
inductive DsErr where
  | rocNeither  -- ValueError("Must provide either FNR or FPR.")
  | rocBoth     -- ValueError("Cannot provide both FNR and FPR.")
  | nNone       -- ValueError("Dataset size n cannot be None.") / TypeError in NormalDataset.sample
  | negProb     -- ValueError("Dataset parameters lead to negative probabilities.")
  | negCount    -- ValueError of np.repeat / rng.normal / rng.binomial for a negative count
  | zeroDiv     -- ZeroDivisionError in from_metrics
deriving DecidableEq, Repr

/-- the dataclass `NormalDataset` after `__post_init__` (datasets.py:12-24) -/
structure NormalDataset where
  muPos : Rat
  muNeg : Rat
  sigmaPos : Rat
  sigmaNeg : Rat
  pPos : Rat
  n : Option Int
  scoreClass : Label
deriving Repr

/-- constructor with the dataclass defaults; `mu_neg = None` becomes `-mu_pos` -/
def NormalDataset.make (muPos : Rat) (muNeg : Option Rat := none) (sigmaPos : Rat := 15 / 4)
    (sigmaNeg : Rat := 3) (pPos : Rat := 1 / 2) (n : Option Int := none)
    (scoreClass : Label := .pos) : NormalDataset :=
  ⟨muPos, match muNeg with | none => -muPos | some m => m, sigmaPos, sigmaNeg, pPos, n, scoreClass⟩

namespace NormalDataset

/-- `fnr(threshold)` (datasets.py:122-126) -/
def fnr (N : StdNormal) (d : NormalDataset) (t : Rat) : Rat := N.cdf t d.muPos d.sigmaPos

/-- `fpr(threshold)` (datasets.py:128-132) -/
def fpr (N : StdNormal) (d : NormalDataset) (t : Rat) : Rat := N.sf t d.muNeg d.sigmaNeg

/-- `threshold_at_fnr(fnr)` (datasets.py:109-113) -/
def thresholdAtFnr (N : StdNormal) (d : NormalDataset) (r : Rat) : Rat :=
  N.ppf r d.muPos d.sigmaPos

/-- `threshold_at_fpr(fpr)` (datasets.py:115-120) -/
def thresholdAtFpr (N : StdNormal) (d : NormalDataset) (r : Rat) : Rat :=
  N.isf r d.muNeg d.sigmaNeg

end NormalDataset

/-- the three arrays of a `ROCCurve` -/
structure ROC where
  fnr : List Rat
  fpr : List Rat
  thresholds : List Rat
deriving Repr, DecidableEq

/-- lines 104-107: rates recomputed from the thresholds -/
def NormalDataset.rocOf (N : StdNormal) (d : NormalDataset) (th : List Rat) : ROC :=
  ⟨th.map (d.fnr N), th.map (d.fpr N), th⟩

/-- `roc(fnr=..., fpr=...)` (datasets.py:83-107) -/
def NormalDataset.roc (N : StdNormal) (d : NormalDataset) (fnr fpr : Option (List Rat)) :
    Except DsErr ROC :=
  match fnr, fpr with
  | none, none => .error .rocNeither
  | some _, some _ => .error .rocBoth
  | some f, none => .ok (d.rocOf N (f.map fun r => N.ppf r d.muPos d.sigmaPos))
  | none, some g => .ok (d.rocOf N (g.map fun r => N.isf r d.muNeg d.sigmaNeg))

/-- Python `int(x)` on a float: truncation towards zero -/
def truncQ (x : Rat) : Int := if 0 ≤ x then x.floor else -((-x).floor)

/-- `NormalDataset.from_metrics` (datasets.py:27-65). `fnr`, `fpr` are Python floats, so a zero
rate (or `n = 0`) raises ZeroDivisionError. -/
def NormalDataset.fromMetrics (N : StdNormal) (fnr fpr : Rat) (fnrSupport fprSupport : Int)
    (sigmaPos : Rat := 1) (sigmaNeg : Rat := 1) : Except DsErr NormalDataset :=
  let muPos := -(N.PhiInv fnr) * sigmaPos
  if fnr = 0 then .error .zeroDiv
  else
    let nbPos := truncQ ((fnrSupport : Rat) / fnr)
    let muNeg := -(N.PhiInv (1 - fpr)) * sigmaNeg
    if fpr = 0 then .error .zeroDiv
    else
      let nbNeg := truncQ ((fprSupport : Rat) / fpr)
      let n := nbPos + nbNeg
      if n = 0 then .error .zeroDiv
      else
        .ok ⟨muPos, muNeg, sigmaPos, sigmaNeg, (nbPos : Rat) / (n : Rat), some n, .pos⟩

/-- responses of the generator used by `NormalDataset.sample`, in call order -/
structure SampleRng where
  /-- `rng.binomial(n, p)` -/
  binomial : Nat → Rat → Nat
  /-- first `rng.normal(loc, scale, size)` call -/
  normalPos : Rat → Rat → Nat → List Rat
  /-- second `rng.normal(loc, scale, size)` call -/
  normalNeg : Rat → Rat → Nat → List Rat

/-- `n = n if n is not None else self.n` (datasets.py:74) -/
def NormalDataset.pickN (d : NormalDataset) (n : Option Int) : Option Int :=
  match n with
  | some k => some k
  | none => d.n

/-- `p_pos = p_pos if p_pos is not None else self.p_pos` (datasets.py:75) -/
def NormalDataset.pickP (d : NormalDataset) (pPos : Option Rat) : Rat :=
  match pPos with
  | some p => p
  | none => d.pPos

/-- `NormalDataset.sample(n, p_pos=..., rng=...)` (datasets.py:67-81). -/
def NormalDataset.sample (d : NormalDataset) (rng : SampleRng) (n : Option Int)
    (pPos : Option Rat) : Except DsErr Scores :=
  match d.pickN n with
  | none => .error .nNone
  | some n =>
    if n < 0 then .error .negCount
    else
      let p := d.pickP pPos
      let nbPos : Int := rng.binomial n.toNat p
      let nbNeg : Int := n - nbPos
      if nbNeg < 0 then .error .negCount
      else
        let pos := rng.normalPos d.muPos d.sigmaPos nbPos.toNat
        let neg := rng.normalNeg d.muNeg d.sigmaNeg nbNeg.toNat
        .ok (Scores.make pos neg 0 0 ⟨d.scoreClass, .pos⟩ false)

/-! ### Bernoulli datasets -/

/-- `n = n or self.n; if n is None: raise ValueError` (datasets.py:168-170, 236-238) -/
def resolveN (n selfN : Option Nat) : Except DsErr Nat :=
  let m := match n with
    | none => selfN
    | some 0 => selfN
    | some k => some k
  match m with
  | none => .error .nNone
  | some k => .ok k

/-- responses of the generator used by the Bernoulli datasets -/
structure BernRng where
  /-- `rng.binomial(1, p, size=n)` -/
  binomial1 : Rat → Nat → List Nat
  /-- `rng.choice(4, size=n, p=p)` -/
  choice4 : List Rat → Nat → List Nat
  /-- `rng.shuffle(data)` (the shuffled array) -/
  shuffle : List Nat → List Nat

/-- `np.repeat(np.arange(i, i + len(nb)), nb)` for non-negative counts -/
def repeatFrom (i : Nat) : List Int → List Nat
  | [] => []
  | k :: ks => List.replicate k.toNat i ++ repeatFrom (i + 1) ks

/-- `BernoulliDataset(p, selfN).sample(n, random=..., rng=...)` (datasets.py:148-182) -/
def bernoulliSample (rng : BernRng) (p : Rat) (selfN n : Option Nat) (random : Bool) :
    Except DsErr (List Nat) :=
  match resolveN n selfN with
  | .error e => .error e
  | .ok n =>
    if random then .ok (rng.binomial1 p n)
    else
      let pos : Int := ((n : Rat) * p).floor
      let neg : Int := (n : Int) - pos
      if neg < 0 ∨ pos < 0 then .error .negCount
      else .ok (rng.shuffle (repeatFrom 0 [neg, pos]))

/-- the four joint probabilities `P(0,0), P(1,0), P(0,1), P(1,1)` (datasets.py:241-244) -/
def correlatedJoint (sqrt : Rat → Rat) (p1 p2 rho : Rat) : List Rat :=
  let c := (1 - p1) * (1 - p2)
  let a := c + rho * sqrt (p1 * p2 * c)
  [a, 1 - p2 - a, 1 - p1 - a, p1 + p2 + a - 1]

/-- `nb = floor(n * p); nb[-1] = n - sum(nb[:-1])` (datasets.py:252-253) -/
def jointCounts (n : Nat) (p : List Rat) : List Int :=
  let nb := p.map fun q => ((n : Rat) * q).floor
  nb.dropLast ++ [(n : Int) - nb.dropLast.sum]

/-- `CorrelatedBernoullilDataset(p1, p2, rho, selfN).sample(n, random=..., rng=...)`
(datasets.py:202-263): the two rows of the `(2, n)` array. -/
def correlatedSample (sqrt : Rat → Rat) (rng : BernRng) (p1 p2 rho : Rat) (selfN n : Option Nat)
    (random : Bool) : Except DsErr (List Nat × List Nat) :=
  match resolveN n selfN with
  | .error e => .error e
  | .ok n =>
    let p := correlatedJoint sqrt p1 p2 rho
    if p.any (fun q => decide (q < 0)) then .error .negProb
    else
      let joint : Except DsErr (List Nat) :=
        if random then .ok (rng.choice4 p n)
        else
          let nb := jointCounts n p
          if nb.any (fun k => decide (k < 0)) then .error .negCount
          else .ok (rng.shuffle (repeatFrom 0 nb))
      match joint with
      | .error e => .error e
      | .ok j => .ok (j.map (· % 2), j.map (· / 2))

end SA
