/-
Decision tables of `Scores` / `roc_curve` (C01 / C02 / C03 / C08 / C09 / C15).

`harness/dectables.py` regenerates, on every run, one table per function of the CURRENT source
(`scores.py`: `cm`, `swap`, the `threshold_at_*` wrappers, `_threshold_at_ratio`,
`_invert_increasing_function`; `roc_curve.py`: `_find_support_thresholds`, `roc`), keyed by the
flag assignment, in the tiny IR below.  This file gives

* the IR with a DENOTATION for every row (a code-shaped function of scores / thresholds / targets),
* the same tables for the MODEL (`cmRowModel`, `swapRowModel`, `wrapRowModel`, `normRowModel`,
  `invRowModel`, `orientRowModel`, `rocRowModel`).  They are tied to the model's own definitions by the
  `table_eq_model` lemmas of `SA/Theorems/DecTables.lean` (denotation of the model row = the model
  function, for ALL inputs); `orientRowModel` is computed by running `SA.orient` on a probe list,
* the decidable comparison `checkTables`.

Core Lean only.
-/
import SA.Model.Roc

namespace SA.DecTables
open SA

/-! ### (a) `Scores.cm` -/

inductive Part where
  | below | above
deriving DecidableEq, Repr

inductive EasySel where
  | none | pos | neg
deriving DecidableEq, Repr

/-- one cell: `searchsorted(self.<arr>, threshold, side)` (`below`) or `len(self.<arr>) -` that
(`above`), plus an easy count -/
structure Cell where
  arr : Label
  side : Side
  part : Part
  easy : EasySel
deriving DecidableEq, Repr

structure CmRow where
  tp : Cell
  fn : Cell
  fp : Cell
  tn : Cell
deriving DecidableEq, Repr

def selArr (s : Scores) : Label → List Rat
  | .pos => s.pos
  | .neg => s.neg

def selEasy (s : Scores) : Label → Nat
  | .pos => s.easyPos
  | .neg => s.easyNeg

def Cell.eval (c : Cell) (s : Scores) (t : ERat) : Nat :=
  let a := selArr s c.arr
  let b := searchsorted a t c.side
  (match c.part with
    | .below => b
    | .above => a.length - b) +
  (match c.easy with
    | .none => 0
    | .pos => s.easyPos
    | .neg => s.easyNeg)

/-- the code-shaped function a `cm` row describes -/
def CmRow.eval (r : CmRow) (s : Scores) (t : ERat) : CM :=
  ⟨r.tp.eval s t, r.fn.eval s t, r.fp.eval s t, r.tn.eval s t⟩

/-- the row of the model's `Scores.cm`: the side is the model's `cmSide`, the below / above
choice follows `score_class` -/
def cmRowModel (cfg : Cfg) : CmRow :=
  let hi : Part := match cfg.scoreClass with | .pos => .above | .neg => .below
  let lo : Part := match cfg.scoreClass with | .pos => .below | .neg => .above
  ⟨⟨.pos, cmSide cfg, hi, .pos⟩, ⟨.pos, cmSide cfg, lo, .none⟩,
   ⟨.neg, cmSide cfg, hi, .none⟩, ⟨.neg, cmSide cfg, lo, .neg⟩⟩

/-! ### (b) `Scores.swap` -/

/-- constructor arguments of the object `swap()` builds: which field of `self` feeds `pos`, `neg`,
`nb_easy_pos`, `nb_easy_neg`; the two flags; `is_sorted` -/
structure SwapRow where
  pos : Label
  neg : Label
  easyPos : Label
  easyNeg : Label
  scoreClass : Label
  equalClass : Label
  isSorted : Bool
deriving DecidableEq, Repr

def SwapRow.eval (r : SwapRow) (s : Scores) : Scores :=
  Scores.make (selArr s r.pos) (selArr s r.neg) (selEasy s r.easyPos) (selEasy s r.easyNeg)
    ⟨r.scoreClass, r.equalClass⟩ r.isSorted

def swapRowModel (cfg : Cfg) : SwapRow :=
  ⟨.neg, .pos, .neg, .pos, cfg.swap.scoreClass, cfg.swap.equalClass, true⟩

/-! ### (c) the `threshold_at_<metric>` wrappers -/

inductive ArrSel where
  | pos | neg | concat
deriving DecidableEq, Repr

def ArrSel.eval : ArrSel → Scores → List Rat
  | .pos, s => s.pos
  | .neg, s => s.neg
  | .concat, s => s.concat

/-- rescaling expressions over the target `r`, the easy counts and the lengths of the two arrays
(properties such as `nb_all_pos`, `hard_pos_ratio`, `hard_ratio` are inlined by the translator);
`ifPos c a b` is `a if c > 0 else b` -/
inductive RExp where
  | r
  | lit (n : Nat)
  | easyPos | easyNeg | lenPos | lenNeg
  | add (a b : RExp) | sub (a b : RExp) | mul (a b : RExp) | div (a b : RExp)
  | max (a b : RExp) | min (a b : RExp)
  | ifPos (c a b : RExp)
deriving DecidableEq, Repr

/-- value on counts (`lp ln` lengths, `ep en` easy counts) -/
def RExp.evalC (lp ln ep en : Nat) (r : Rat) : RExp → Rat
  | .r => r
  | .lit n => (n : Rat)
  | .easyPos => (ep : Rat)
  | .easyNeg => (en : Rat)
  | .lenPos => (lp : Rat)
  | .lenNeg => (ln : Rat)
  | .add a b => a.evalC lp ln ep en r + b.evalC lp ln ep en r
  | .sub a b => a.evalC lp ln ep en r - b.evalC lp ln ep en r
  | .mul a b => a.evalC lp ln ep en r * b.evalC lp ln ep en r
  | .div a b => a.evalC lp ln ep en r / b.evalC lp ln ep en r
  | .max a b => Max.max (a.evalC lp ln ep en r) (b.evalC lp ln ep en r)
  | .min a b => Min.min (a.evalC lp ln ep en r) (b.evalC lp ln ep en r)
  | .ifPos c a b => if 0 < c.evalC lp ln ep en r then a.evalC lp ln ep en r else b.evalC lp ln ep en r

def RExp.eval (e : RExp) (s : Scores) (r : Rat) : Rat :=
  e.evalC s.pos.length s.neg.length s.easyPos s.easyNeg r

/-- the public names (`threshold_at_<name>`) -/
inductive WName where
  | tpr | fnr | tnr | fpr | topr | tonr | tar | frr | trr | far | acceptanceRate | rejectionRate
deriving DecidableEq, Repr

/-- aliases (documented: tar = tpr, frr = fnr, trr = tnr, far = fpr, acceptance_rate = topr,
rejection_rate = tonr) -/
def WName.metric : WName → Metric
  | .tpr | .tar => .tpr
  | .fnr | .frr => .fnr
  | .tnr | .trr => .tnr
  | .fpr | .far => .fpr
  | .topr | .acceptanceRate => .topr
  | .tonr | .rejectionRate => .tonr

/-- one wrapper: the array whose emptiness raises `ValueError`, the array handed to
`_threshold_at_ratio`, the rescaled target, `increasing`, `ratio_class`, and whether the caller's
`method` is passed on (otherwise the default `"linear"` is used) -/
structure WrapRow where
  guard : ArrSel
  arr : ArrSel
  target : RExp
  increasing : Bool
  ratioClass : Label
  methodPass : Bool
deriving DecidableEq, Repr

def WrapRow.eval (w : WrapRow) (ulp : Ulp) (s : Scores) (r : Rat) (m : Method) : Except Err Rat :=
  if (w.guard.eval s).length = 0 then .error .valueError
  else .ok (thresholdAtRatio ulp s.cfg (w.arr.eval s) (w.target.eval s r) w.increasing w.ratioClass
    (if w.methodPass then m else .linear))

def Metric.arrSel : Metric → ArrSel
  | .tpr | .fnr => .pos
  | .tnr | .fpr => .neg
  | .topr | .tonr => .concat

/-- `hard_pos_ratio`, `hard_neg_ratio`, `nb_all_samples`, `hard_ratio` as the translator inlines
them (operands of `+`, `*`, `max`, `min` in the translator's canonical order) -/
def hardPosRatioE : RExp := .ifPos .easyPos (.div .lenPos (.add .easyPos .lenPos)) (.lit 1)
def hardNegRatioE : RExp := .ifPos .easyNeg (.div .lenNeg (.add .easyNeg .lenNeg)) (.lit 1)
def nbEasyE : RExp := .add .easyNeg .easyPos
def nbAllE : RExp := .add nbEasyE (.add .lenNeg .lenPos)
def hardRatioE : RExp := .sub (.lit 1) (.ifPos nbEasyE (.div nbEasyE nbAllE) (.lit 0))

/-- the rescaling of the model (`Scores.rescale`) as an expression -/
def rescaleE : Metric → RExp
  | .tpr => .min (.div (.max (.lit 0) (.sub (.mul (.add .easyPos .lenPos) .r) .easyPos)) .lenPos) (.lit 1)
  | .fnr => .min (.div .r hardPosRatioE) (.lit 1)
  | .tnr => .min (.div (.max (.lit 0) (.sub (.mul (.add .easyNeg .lenNeg) .r) .easyNeg)) .lenNeg) (.lit 1)
  | .fpr => .min (.div .r hardNegRatioE) (.lit 1)
  | .topr => .min (.div (.max (.lit 0) (.sub .r (.div .easyPos nbAllE))) hardRatioE) (.lit 1)
  | .tonr => .min (.div (.max (.lit 0) (.sub .r (.div .easyNeg nbAllE))) hardRatioE) (.lit 1)

def wrapRowModel (n : WName) : WrapRow :=
  let m := n.metric
  ⟨Metric.arrSel m, Metric.arrSel m, rescaleE m, m.increasing, m.ratioClass, true⟩

/-! ### (d1) `_threshold_at_ratio` -/

structure NormKey where
  increasing : Bool
  ratioClass : Label
  cfg : Cfg
  method : Method
deriving DecidableEq, Repr

/-- arguments of the call of `_invert_increasing_function`: the target is `1 - ·` applied `flips`
times to the requested one -/
structure NormRow where
  flips : Nat
  leftCont : Bool
  method : Method
deriving DecidableEq, Repr

def flipN : Nat → Rat → Rat
  | 0, r => r
  | k + 1, r => 1 - flipN k r

def NormRow.eval (w : NormRow) (ulp : Ulp) (scores : List Rat) (r : Rat) : Rat :=
  invertIncreasing ulp scores (flipN w.flips r) w.leftCont w.method

def b2n (b : Bool) : Nat := if b then 1 else 0

/-- the model's `normalise`, with the number of reflections counted -/
def normRowModel (k : NormKey) : NormRow :=
  let n := normalise k.cfg 0 k.increasing k.ratioClass k.method
  ⟨b2n (!k.increasing) + b2n (k.cfg.scoreClass != .pos), n.2.1, n.2.2⟩

/-! ### (d2) `_invert_increasing_function` -/

inductive IdxKind where
  | floor | ceil
deriving DecidableEq, Repr

inductive Body where
  | atIdx (k : IdxKind)
  | linear
deriving DecidableEq, Repr

/-- the target a sentinel test looks at: the requested ratio, or the one after the `1/N` shift -/
inductive Stage where
  | requested | shifted
deriving DecidableEq, Repr

/-- `thr[stage <= 0] = nextafter(scores[0], -inf)` / `thr[stage >= 1] = nextafter(scores[-1], inf)` -/
inductive Sentinel where
  | low (on : Stage)
  | high (on : Stage)
deriving DecidableEq, Repr

structure InvRow where
  shift : Bool
  body : Body
  stores : List Sentinel
deriving DecidableEq, Repr

def Stage.val (n r : Rat) : Stage → Rat
  | .requested => r
  | .shifted => r - 1 / n

def Sentinel.apply (ulp : Ulp) (s : List Rat) (r : Rat) (acc : Rat) : Sentinel → Rat
  | .low on => if on.val (s.length : Rat) r ≤ 0 then ulp.down (s.getD 0 0) else acc
  | .high on => if 1 ≤ on.val (s.length : Rat) r then ulp.up (s.getD (s.length - 1) 0) else acc

def InvRow.eval (w : InvRow) (ulp : Ulp) (s : List Rat) (r : Rat) : Rat :=
  let n : Rat := (s.length : Rat)
  let r' : Rat := if w.shift then r - 1 / n else r
  let target : Rat := r' * n
  let li := clampIdx target.floor s.length
  let ri := clampIdx (ceilQ target) s.length
  let la : Rat := ((ceilQ target : Int) : Rat) - target
  let thr : Rat := match w.body with
    | .atIdx .floor => s.getD li 0
    | .atIdx .ceil => s.getD ri 0
    | .linear => la * s.getD li 0 + (1 - la) * s.getD ri 0
  w.stores.foldl (fun acc st => st.apply ulp s r acc) thr

def invRowModel (leftCont : Bool) (m : Method) : InvRow :=
  ⟨!leftCont,
   match m with
    | .linear => .linear
    | .lower => .atIdx .floor
    | .higher => .atIdx .ceil,
   [.low (if leftCont then .requested else .shifted), .high .requested]⟩

/-! ### (e) `roc_curve._find_support_thresholds` (orientation) and `roc` (rates) -/

/-- for one `x_axis` value (`none`: a string that is not an axis name) and `score_class`: does the
function raise `ValueError`; is the sorted support list returned reversed -/
structure OrientRow where
  raises : Bool
  reversed : Bool
deriving DecidableEq, Repr

/-- computed from the model's `orient` on a probe list -/
def orientRowModel (x : Option XAxis) (sc : Label) : OrientRow :=
  match x with
  | none => ⟨true, false⟩
  | some x => ⟨false, orient x sc [0, 1] == [1, 0]⟩

/-- the two rates `roc()` evaluates at the support thresholds -/
structure RocRow where
  fnr : Metric
  fpr : Metric
deriving DecidableEq, Repr

def RocRow.eval (w : RocRow) (s : Scores) (ts : List Rat) : RocCurve :=
  ⟨ts.map fun t => (s.cm (.fin t)).rate w.fnr, ts.map fun t => (s.cm (.fin t)).rate w.fpr, ts⟩

def rocRowModel : RocRow := ⟨.fnr, .fpr⟩

/-! ### the translated tables and their comparison -/

structure Translated where
  cm : List (Cfg × Option CmRow)
  swap : List (Cfg × Option SwapRow)
  wrap : List (WName × Option WrapRow)
  norm : List (NormKey × Option NormRow)
  inv : List ((Bool × Method) × Option InvRow)
  orient : List ((Option XAxis × Label) × Option OrientRow)
  roc : List (Unit × Option RocRow)

inductive Verdict where
  | ok | mismatch | unknown
deriving DecidableEq, Repr

def cmp {α : Type} [DecidableEq α] (model : α) : Option α → Verdict
  | none => .unknown
  | some r => if r = model then .ok else .mismatch

/-- probe points for rescaling expressions that are not syntactically the model's: lengths 3 / 5,
easy counts 0 or positive, targets inside, at and outside [0, 1] -/
def probeCounts : List (Nat × Nat) := [(0, 0), (2, 0), (0, 7), (2, 7), (40, 1)]
def probeTargets : List Rat := [0, 1/10, 3/10, 1/2, 7/10, 9/10, 1, -1/5, 6/5, 1/100, 99/100]

def RExp.agreesOnProbes (a b : RExp) : Bool :=
  probeCounts.all fun c => probeTargets.all fun r =>
    a.evalC 3 5 c.1 c.2 r == b.evalC 3 5 c.1 c.2 r

/-- a wrapper row: equal to the model's → ok; all flag-like fields equal and the target expression
different but equal at every probe point → unknown (not covered); else mismatch -/
def cmpWrap (model : WrapRow) : Option WrapRow → Verdict
  | none => .unknown
  | some r =>
    if r = model then .ok
    else if r.guard = model.guard ∧ r.arr = model.arr ∧ r.increasing = model.increasing ∧
        r.ratioClass = model.ratioClass ∧ r.methodPass = model.methodPass ∧
        r.target.agreesOnProbes model.target = true then .unknown
    else .mismatch

/-- result: no mismatch; (table, row index) of the mismatches; number of rows equal to the model's -/
structure Result where
  ok : Bool
  bad : List (Nat × Nat)
  covered : Nat
deriving DecidableEq, Repr

def tally (tbl : Nat) (vs : List Verdict) : List (Nat × Nat) × Nat :=
  ((vs.zipIdx.filter fun p => p.1 = .mismatch).map fun p => (tbl, p.2),
   (vs.filter fun v => v = .ok).length)

def verdicts (t : Translated) : List (List Verdict) :=
  [t.cm.map fun p => cmp (cmRowModel p.1) p.2,
   t.swap.map fun p => cmp (swapRowModel p.1) p.2,
   t.wrap.map fun p => cmpWrap (wrapRowModel p.1) p.2,
   t.norm.map fun p => cmp (normRowModel p.1) p.2,
   t.inv.map fun p => cmp (invRowModel p.1.1 p.1.2) p.2,
   t.orient.map fun p => cmp (orientRowModel p.1.1 p.1.2) p.2,
   t.roc.map fun p => cmp rocRowModel p.2]

def checkTables (t : Translated) : Result :=
  let ts := (verdicts t).zipIdx.map fun p => tally p.2 p.1
  let bad := ts.flatMap fun p => p.1
  ⟨bad.isEmpty, bad, (ts.map fun p => p.2).sum⟩

/-- report lines for the harness (`#eval` in the generated file) -/
def verdictName : Verdict → String
  | .ok => "ok"
  | .mismatch => "mismatch"
  | .unknown => "unknown"

def reportRow {α : Type} [Repr α] (tbl i : Nat) (v : Verdict) (model : α) (got : Option α) : String :=
  s!"ROW table={tbl} idx={i} verdict={verdictName v}" ++
    (if v = .mismatch then s!" model=«{(repr model).pretty 100000}» got=«{(repr got).pretty 100000}»" else "")

def report (t : Translated) : List String :=
  (t.cm.zipIdx.map fun p => reportRow 0 p.2 (cmp (cmRowModel p.1.1) p.1.2) (cmRowModel p.1.1) p.1.2) ++
  (t.swap.zipIdx.map fun p => reportRow 1 p.2 (cmp (swapRowModel p.1.1) p.1.2) (swapRowModel p.1.1) p.1.2) ++
  (t.wrap.zipIdx.map fun p => reportRow 2 p.2 (cmpWrap (wrapRowModel p.1.1) p.1.2) (wrapRowModel p.1.1) p.1.2) ++
  (t.norm.zipIdx.map fun p => reportRow 3 p.2 (cmp (normRowModel p.1.1) p.1.2) (normRowModel p.1.1) p.1.2) ++
  (t.inv.zipIdx.map fun p => reportRow 4 p.2 (cmp (invRowModel p.1.1.1 p.1.1.2) p.1.2) (invRowModel p.1.1.1 p.1.1.2) p.1.2) ++
  (t.orient.zipIdx.map fun p => reportRow 5 p.2 (cmp (orientRowModel p.1.1.1 p.1.1.2) p.1.2) (orientRowModel p.1.1.1 p.1.1.2) p.1.2) ++
  (t.roc.zipIdx.map fun p => reportRow 6 p.2 (cmp rocRowModel p.1.2) rocRowModel p.1.2)

end SA.DecTables
