/-
More decision tables regenerated from the source on every run (`harness/dectables2.py`):

 (f) C11  `Scores._sampling_method` (`smeth`) and the dispatch of `Scores.bootstrap_sample` (`bsample`)
 (g) C13  `utils.bootstrap_ci`: method dispatch, levels, adjusted-level expressions, `p0`, acceleration (`cidisp`)
 (h) C19  `doc_fraud`: the two label translations (`d2b`, `b2d`), what `FraudScores.__init__` hard-wires and
          validates (`fraud`)
 (i) C12  `GroupScores._sampling_method` (`gsmeth`) and the dispatch of `GroupScores.bootstrap_sample` (`gsample`)
 (j) C18  `showbias._apply_normalization` (`norm`)

Same scheme as `SA/Model/DecTables.lean`: a tiny IR with a DENOTATION per row, the MODEL's rows (tied to the
model's own definitions by the `*_eq_model` lemmas of `SA/Theorems/DecTables2.lean`), and the decidable
comparison `checkTables2`.  Expressions (`QExp`) are compared syntactically modulo commutativity of `+` / `*`
(`QExp.eqv`, sound for all inputs); otherwise at probe points (differ -> mismatch, agree -> unknown).

Core Lean only.
-/
import SA.Model.Sampling
import SA.Model.Bootstrap
import SA.Model.Fraud
import SA.Model.Group
import SA.Model.Showbias
import SA.Model.DecTables

namespace SA.DecTables2
open SA SA.DecTables

/-! ### (f) C11: `_sampling_method` -/

/-- `config.sampling_method`: the four known strings, any other string, a callable -/
inductive MKey where
  | replacement | singlePass | proportion | dynamic | unknown | custom
deriving DecidableEq, Repr

def MKey.ofSM : SamplingMethod → MKey
  | .replacement => .replacement
  | .singlePass => .singlePass
  | .dynamic => .dynamic
  | .proportion => .proportion
  | .unknown => .unknown

/-- integer expressions over the numbers of scored positives / negatives -/
inductive SizeExp where
  | lenPos | lenNeg
  | lit (n : Nat)
  | min (a b : SizeExp) | max (a b : SizeExp)
deriving DecidableEq, Repr

def SizeExp.evalC (lp ln : Nat) : SizeExp → Nat
  | .lenPos => lp
  | .lenNeg => ln
  | .lit n => n
  | .min a b => Nat.min (a.evalC lp ln) (b.evalC lp ln)
  | .max a b => Nat.max (a.evalC lp ln) (b.evalC lp ln)

inductive SizeCond where
  | lt (a b : SizeExp) | le (a b : SizeExp)
  | or (a b : SizeCond) | and (a b : SizeCond) | not (a : SizeCond)
deriving DecidableEq, Repr

def SizeCond.evalC (lp ln : Nat) : SizeCond → Bool
  | .lt a b => decide (a.evalC lp ln < b.evalC lp ln)
  | .le a b => decide (a.evalC lp ln ≤ b.evalC lp ln)
  | .or a b => a.evalC lp ln || b.evalC lp ln
  | .and a b => a.evalC lp ln && b.evalC lp ln
  | .not a => !(a.evalC lp ln)

/-- what `_sampling_method` returns for one (sampling_method, smoothing [, stratification]) -/
inductive SmRow where
  | const (m : MKey)
  | cond (c : SizeCond) (a b : MKey)
deriving DecidableEq, Repr

def SmRow.evalC (lp ln : Nat) : SmRow → MKey
  | .const m => m
  | .cond c a b => if c.evalC lp ln then a else b

def SmRow.eval (r : SmRow) (s : Scores) : MKey := r.evalC s.pos.length s.neg.length

/-- operands of `or` in the translator's canonical order -/
def smallCond : SizeCond :=
  .or (.lt .lenNeg (.lit singlePassSampleThreshold)) (.lt .lenPos (.lit singlePassSampleThreshold))

/-- the row of the model's `samplingMethod` -/
def smRowModel (m : MKey) (smoothing : Bool) : SmRow :=
  if m ≠ .dynamic then .const m
  else if smoothing then .const .replacement
  else .cond smallCond .replacement .singlePass

def probeSizes : List Nat := [0, 1, 50, 99, 100, 101, 150, 1000]

def SmRow.agreesOnProbes (a b : SmRow) : Bool :=
  probeSizes.all fun lp => probeSizes.all fun ln => a.evalC lp ln == b.evalC lp ln

def cmpSm (model : SmRow) : Option SmRow → Verdict
  | none => .unknown
  | some r => if r = model then .ok else if r.agreesOnProbes model then .unknown else .mismatch

/-! ### (f) C11: dispatch of `bootstrap_sample` -/

inductive StratKey where
  | none | byLabel | other
deriving DecidableEq, Repr

def StratKey.ofBool : Bool → StratKey
  | true => .byLabel
  | false => .none

/-- where a flag of the constructed object comes from -/
inductive FlagSrc where
  | selfScore | selfEqual | pos | neg
deriving DecidableEq, Repr

def FlagSrc.eval (s : Scores) : FlagSrc → Label
  | .selfScore => s.cfg.scoreClass
  | .selfEqual => s.cfg.equalClass
  | .pos => .pos
  | .neg => .neg

def selIdx (r : Indices) : Label → List Nat
  | .pos => r.idxPos
  | .neg => r.idxNeg

def selEasyI (r : Indices) : Label → Nat
  | .pos => r.easyPos
  | .neg => r.easyNeg

/-- `_sample_indices(by_label, single_pass)`, `self.<posArr>[<posIdx> indices]`, optional noise (two
`np.random.normal` requests, positives first), `Scores(pos, neg, nb_easy_pos=<easyPos component>, ...,
is_sorted)` -/
structure SampledRow where
  byLabel : Bool
  singlePass : Bool
  smooth : Bool
  posArr : Label
  posIdx : Label
  negArr : Label
  negIdx : Label
  easyPos : Label
  easyNeg : Label
  scoreClass : FlagSrc
  equalClass : FlagSrc
  isSorted : Bool
deriving DecidableEq, Repr

def SampledRow.eval (w : SampledRow) (s : Scores) (st : RngState) : Except Err Scores × RngState :=
  let r := sampleIndices s w.byLabel w.singlePass st
  let pos := gather (selArr s w.posArr) (selIdx r.1 w.posIdx)
  let neg := gather (selArr s w.negArr) (selIdx r.1 w.negIdx)
  let st' := if w.smooth then (draw (.normal neg.length) (draw (.normal pos.length) r.2).2).2 else r.2
  (.ok (Scores.make pos neg (selEasyI r.1 w.easyPos) (selEasyI r.1 w.easyNeg)
    ⟨w.scoreClass.eval s, w.equalClass.eval s⟩ w.isSorted), st')

/-- proportion sampling: `np.random.choice(self.<posArr>, size=max(int(ratio * self.<sizePos>.size), minSize),
replace)`, easy counts `int(ratio * self.nb_easy_<easyPos>)` -/
structure PropRow where
  posArr : Label
  negArr : Label
  sizePos : Label
  sizeNeg : Label
  minSize : Nat
  replace : Bool
  easyPos : Label
  easyNeg : Label
  scoreClass : FlagSrc
  equalClass : FlagSrc
  isSorted : Bool
deriving DecidableEq, Repr

def PropRow.eval (w : PropRow) (s : Scores) (c : BootCfg) (ratio : Rat) (st : RngState) :
    Except Err Scores × RngState :=
  let nbPos := max (truncNat (c.fmul ratio (selArr s w.sizePos).length)) w.minSize
  let nbNeg := max (truncNat (c.fmul ratio (selArr s w.sizeNeg).length)) w.minSize
  let rq1 := Req.choiceFrom (selArr s w.posArr).length (some nbPos) w.replace
  let rq2 := Req.choiceFrom (selArr s w.negArr).length (some nbNeg) w.replace
  if !rq1.feasible then (.error .valueError, ⟨st.responses, (rq1, []) :: st.trace, st.ok⟩)
  else
    let d1 := draw rq1 st
    if !rq2.feasible then (.error .valueError, ⟨d1.2.responses, (rq2, []) :: d1.2.trace, d1.2.ok⟩)
    else
      let d2 := draw rq2 d1.2
      (.ok (Scores.make (gather (selArr s w.posArr) d1.1) (gather (selArr s w.negArr) d2.1)
        (truncNat (c.fmul ratio (selEasy s w.easyPos))) (truncNat (c.fmul ratio (selEasy s w.easyNeg)))
        ⟨w.scoreClass.eval s, w.equalClass.eval s⟩ w.isSorted), d2.2)

/-- one row of the dispatch, keyed by the RESOLVED method, smoothing, stratification, `ratio is not None`.
`raises (some (bl, sp))`: `ValueError` after `_sample_indices(bl, sp)` has consumed its draws;
`custom`: the callable is applied to `self` and its result returned (not modelled further) -/
inductive BsRow where
  | sampled (r : SampledRow)
  | proportion (r : PropRow)
  | custom
  | raises (after : Option (Bool × Bool))
deriving DecidableEq, Repr

def BsRow.eval (row : BsRow) (s : Scores) (c : BootCfg) (st : RngState) : Except Err Scores × RngState :=
  match row with
  | .sampled w => w.eval s st
  | .proportion w =>
    match c.ratio with
    | some ratio => w.eval s c ratio st
    | none => (.error .other, st)
  | .custom => (.error .other, st)
  | .raises none => (.error .valueError, st)
  | .raises (some p) => (.error .valueError, (sampleIndices s p.1 p.2 st).2)

def bsRowModel (m : MKey) (smoothing : Bool) (strat : StratKey) (ratioGiven : Bool) : BsRow :=
  let bl : Bool := strat == .byLabel
  match m with
  | .replacement =>
    .sampled ⟨bl, false, smoothing, .pos, .pos, .neg, .neg, .pos, .neg, .selfScore, .selfEqual, false⟩
  | .singlePass =>
    if smoothing then .raises (some (bl, true))
    else .sampled ⟨bl, true, false, .pos, .pos, .neg, .neg, .pos, .neg, .selfScore, .selfEqual, true⟩
  | .proportion =>
    if ratioGiven then .proportion ⟨.pos, .neg, .pos, .neg, 1, false, .pos, .neg, .selfScore, .selfEqual, false⟩
    else .raises none
  | .unknown => .raises none
  | .custom => .custom
  | .dynamic => .raises none

structure BsKey where
  method : MKey
  smoothing : Bool
  strat : StratKey
  ratioGiven : Bool
deriving DecidableEq, Repr

/-- two `raises` rows that differ only in the draws consumed before the error: not covered -/
def cmpBs (model : BsRow) : Option BsRow → Verdict
  | none => .unknown
  | some r =>
    if r = model then .ok
    else match r, model with
      | .raises _, .raises _ => .unknown
      | _, _ => .mismatch

/-! ### expressions (levels of `bootstrap_ci`) -/

inductive Atom where
  | alpha | z0 | zAlpha | a
deriving DecidableEq, Repr

inductive QExp where
  | atom (x : Atom)
  | lit (n : Nat)
  | add (a b : QExp) | sub (a b : QExp) | mul (a b : QExp) | div (a b : QExp)
  | neg (a : QExp)
deriving DecidableEq, Repr

structure QEnv where
  alpha : Rat
  z0 : Rat
  zAlpha : Rat
  a : Rat

def QEnv.get (e : QEnv) : Atom → Rat
  | .alpha => e.alpha
  | .z0 => e.z0
  | .zAlpha => e.zAlpha
  | .a => e.a

def QExp.eval (env : QEnv) : QExp → Rat
  | .atom x => env.get x
  | .lit n => (n : Rat)
  | .add a b => a.eval env + b.eval env
  | .sub a b => a.eval env - b.eval env
  | .mul a b => a.eval env * b.eval env
  | .div a b => a.eval env / b.eval env
  | .neg a => -(a.eval env)

/-- `none` when a division by zero occurs (such probe points are skipped) -/
def QExp.evalS (env : QEnv) : QExp → Option Rat
  | .atom x => some (env.get x)
  | .lit n => some (n : Rat)
  | .add a b => do let x ← a.evalS env; let y ← b.evalS env; pure (x + y)
  | .sub a b => do let x ← a.evalS env; let y ← b.evalS env; pure (x - y)
  | .mul a b => do let x ← a.evalS env; let y ← b.evalS env; pure (x * y)
  | .div a b => do let x ← a.evalS env; let y ← b.evalS env; if y = 0 then none else pure (x / y)
  | .neg a => do let x ← a.evalS env; pure (-x)

/-- syntactic equality modulo commutativity of `+` and `*` -/
def QExp.eqv : QExp → QExp → Bool
  | .atom x, .atom y => x == y
  | .lit n, .lit m => n == m
  | .add a b, .add c d => (a.eqv c && b.eqv d) || (a.eqv d && b.eqv c)
  | .mul a b, .mul c d => (a.eqv c && b.eqv d) || (a.eqv d && b.eqv c)
  | .sub a b, .sub c d => a.eqv c && b.eqv d
  | .div a b, .div c d => a.eqv c && b.eqv d
  | .neg a, .neg c => a.eqv c
  | _, _ => false

def probeEnvs : List QEnv :=
  [⟨1/20, 3/10, -49/25, 1/50⟩, ⟨1/10, -1/4, 33/20, -3/100⟩, ⟨1/5, 7/10, -32/25, 1/7⟩,
   ⟨1/2, -6/5, 17/25, -1/9⟩, ⟨1/100, 1/3, 129/50, 2/5⟩, ⟨3/10, 0, 26/25, 0⟩, ⟨1/20, 11/10, 49/25, 1/3⟩]

def QExp.agreesOnProbes (a b : QExp) : Bool :=
  probeEnvs.all fun env =>
    match a.evalS env, b.evalS env with
    | some x, some y => x == y
    | _, _ => true

/-- verdict of one expression field -/
def cmpQ (model got : QExp) : Verdict :=
  if got.eqv model then .ok else if got.agreesOnProbes model then .unknown else .mismatch

def vmeet : Verdict → Verdict → Verdict
  | .mismatch, _ => .mismatch
  | _, .mismatch => .mismatch
  | .unknown, _ => .unknown
  | _, .unknown => .unknown
  | .ok, .ok => .ok

def vOfBool (b : Bool) : Verdict := if b then .ok else .mismatch

/-! ### (g) C13: `utils.bootstrap_ci` -/

inductive CmpOp where
  | lt | le | gt | ge | eq | ne
deriving DecidableEq, Repr

def CmpOp.eval : CmpOp → Rat → Rat → Bool
  | .lt, x, y => decide (x < y)
  | .le, x, y => decide (x ≤ y)
  | .gt, x, y => decide (x > y)
  | .ge, x, y => decide (x ≥ y)
  | .eq, x, y => decide (x = y)
  | .ne, x, y => decide (x ≠ y)

inductive Denom where
  | notNan | total
deriving DecidableEq, Repr

/-- `p0 = #(theta <cmp> theta_hat) / #(not NaN)` (or `/ N`) -/
structure P0Row where
  cmp : CmpOp
  denom : Denom
deriving DecidableEq, Repr

def P0Row.eval (w : P0Row) (vals : List (Option Rat)) (thetaHat : Rat) : Option Rat :=
  let fin := vals.filterMap id
  let d : Nat := match w.denom with | .notNan => fin.length | .total => vals.length
  if d = 0 then none
  else some (((fin.countP (fun x => w.cmp.eval x thetaHat) : Nat) : Rat) / (d : Rat))

def p0RowModel : P0Row := ⟨.le, .notNan⟩

def powN (x : Rat) : Nat → Rat
  | 0 => 1
  | n + 1 => powN x n * x

/-- `a = nansum(d^numPow) / (denCoef * nansum(d^denPow) ** 1.5)`, `d = theta - theta_hat`; `guarded`: the
division is `np.divide(..., out=zeros, where=den != 0)` -/
structure AccRow where
  numPow : Nat
  denCoef : Nat
  denPow : Nat
  outer15 : Bool
  guarded : Bool
deriving DecidableEq, Repr

def AccRow.eval (w : AccRow) (pow15 : Rat → Rat) (vals : List (Option Rat)) (thetaHat : Rat) : Rat :=
  let fin := vals.filterMap id
  let num := (fin.map fun x => powN (x - thetaHat) w.numPow).sum
  let inner := (fin.map fun x => powN (x - thetaHat) w.denPow).sum
  let den := (w.denCoef : Rat) * (if w.outer15 then pow15 inner else inner)
  if w.guarded then (if den = 0 then 0 else num / den) else num / den

def accRowModel : AccRow := ⟨3, 6, 2, true, true⟩

inductive CiMethod where
  | quantile | bc | bca | other
deriving DecidableEq, Repr

/-- `quantile lo hi`: `nanquantile(theta, [lo, hi])`, levels as expressions over `alpha`;
`adjusted`: `p0`, optional acceleration, the arguments of `ppf` giving `z_alpha` (lower / upper), the adjusted
levels over (`z0`, `zAlpha`, `a`), `masked`: applied only where `z0` is finite (else the level is `z0`),
`nanGuard`: a component without finite replicate gives NaN -/
inductive CiRow where
  | quantile (lo hi : QExp)
  | adjusted (p0 : P0Row) (acc : Option AccRow) (loArg hiArg zLo zHi : QExp) (masked nanGuard : Bool)
  | raises
deriving DecidableEq, Repr

def alphaLoE : QExp := .div (.atom .alpha) (.lit 2)
def alphaHiE : QExp := .sub (.lit 1) (.div (.atom .alpha) (.lit 2))
def bcE : QExp := .add (.mul (.lit 2) (.atom .z0)) (.atom .zAlpha)
def sE : QExp := .add (.atom .z0) (.atom .zAlpha)
def bcaE : QExp := .add (.atom .z0) (.div sE (.sub (.lit 1) (.mul (.atom .a) sE)))

def ciRowModel (m : CiMethod) (thetaHatGiven : Bool) : CiRow :=
  match m with
  | .quantile => .quantile alphaLoE alphaHiE
  | .bc => if thetaHatGiven then .adjusted p0RowModel none alphaLoE alphaHiE bcE bcE false true else .raises
  | .bca =>
    if thetaHatGiven then .adjusted p0RowModel (some accRowModel) alphaLoE alphaHiE bcaE bcaE true true
    else .raises
  | .other => .raises

def cmpCi (model : CiRow) : Option CiRow → Verdict
  | none => .unknown
  | some r =>
    match r, model with
    | .raises, .raises => .ok
    | .quantile lo hi, .quantile lo' hi' => vmeet (cmpQ lo' lo) (cmpQ hi' hi)
    | .adjusted p0 acc la ha zl zh mk ng, .adjusted p0' acc' la' ha' zl' zh' mk' ng' =>
      vmeet (vOfBool (p0 == p0' && acc == acc' && mk == mk' && ng == ng'))
        (vmeet (vmeet (cmpQ la' la) (cmpQ ha' ha)) (vmeet (cmpQ zl' zl) (cmpQ zh' zh)))
    | _, _ => .mismatch

/-! ### (h) C19: `doc_fraud` -/

/-- `np.any(self.<arr> <lowOp> low) or np.any(self.<arr> <highOp> high)` raises `ValueError` -/
structure RangeCheck where
  arr : Label
  lowOp : CmpOp
  low : Nat
  highOp : CmpOp
  high : Nat
deriving DecidableEq, Repr

def RangeCheck.fails (c : RangeCheck) (s : Scores) : Bool :=
  (selArr s c.arr).any (fun x => c.lowOp.eval x (c.low : Rat)) ||
    (selArr s c.arr).any (fun x => c.highOp.eval x (c.high : Rat))

/-- what `FraudScores.__init__` passes to `Scores.__init__` (`genuine` = the genuines / nb_easy_genuines
argument), the two flags for this `score_class`, `is_sorted`, and the range checks in order -/
structure FraudRow where
  pos : DocLabel
  neg : DocLabel
  easyPos : DocLabel
  easyNeg : DocLabel
  scoreClass : Label
  equalClass : Label
  isSorted : Bool
  checks : List RangeCheck
deriving DecidableEq, Repr

def selDoc {α : Type} (g f : α) : DocLabel → α
  | .genuine => g
  | .fraud => f

def FraudRow.eval (w : FraudRow) (genuines frauds : List Rat) (easyG easyF : Nat) : Except Err Scores :=
  let s := Scores.make (selDoc genuines frauds w.pos) (selDoc genuines frauds w.neg)
    (selDoc easyG easyF w.easyPos) (selDoc easyG easyF w.easyNeg) ⟨w.scoreClass, w.equalClass⟩ w.isSorted
  if w.checks.any (fun c => c.fails s) then .error .valueError else .ok s

def fraudRowModel (sc : DocLabel) : FraudRow :=
  ⟨.genuine, .fraud, .genuine, .fraud, docToBinary sc, docToBinary .genuine, false,
   [⟨.pos, .lt, 0, .gt, 1⟩, ⟨.neg, .lt, 0, .gt, 1⟩]⟩

/-! ### (i) C12: `GroupScores` -/

structure GsmKey where
  method : MKey
  strat : Strat
deriving DecidableEq, Repr

def gsmRowModel (k : GsmKey) : SmRow :=
  if k.method ≠ .dynamic then .const k.method
  else if k.strat = .byGroup then .const .replacement
  else .cond smallCond .replacement .singlePass

/-- `whole`: `_sample_indices(by_label, single_pass)` on the whole object, group labels gathered with the same
indices, `group_names=self.groups`; `perGroup`: the `by_group` loop -/
inductive GsRow where
  | whole (byLabel singlePass isSorted : Bool)
  | perGroup (byLabel singlePass isSorted : Bool)
  | custom
  | raises
deriving DecidableEq, Repr

structure GsKey where
  method : MKey
  smoothing : Bool
  strat : Strat
deriving DecidableEq, Repr

def GsRow.eval (row : GsRow) (g : GScores) (st : RngState) : Except Err GScores × RngState :=
  match row with
  | .whole bl sp srt =>
    let r := sampleIndices g.toScores bl sp st
    (.ok (GScores.make (c12_gatherPairs g.pos r.1.idxPos) (c12_gatherPairs g.neg r.1.idxNeg)
      g.cfg (some g.groups) srt), r.2)
  | .perGroup false sp srt =>
    let r := c12_byGroupLoop g sp g.groups st
    if g.groups.isEmpty then (.error .valueError, r.2)
    else (.ok (GScores.make r.1.1 r.1.2 g.cfg (some g.groups) srt), r.2)
  | .perGroup true _ _ => (.error .other, st)
  | .custom => (.error .other, st)
  | .raises => (.error .valueError, st)

def gsRowModel (k : GsKey) : GsRow :=
  if k.smoothing then .raises
  else
    let res (sp : Bool) : GsRow :=
      match k.strat with
      | .none => .whole false sp sp
      | .byLabel => .whole true sp sp
      | .byGroup => .perGroup false sp false
      | .unknown => .raises
    match k.method with
    | .replacement => res false
    | .singlePass => res true
    | .custom => .custom
    | _ => .raises

/-! ### (j) C18: `showbias._apply_normalization` -/

inductive NormKey2 where
  | byOverall | byMin | other
deriving DecidableEq, Repr

inductive Divisor where
  | overall | minGroups
deriving DecidableEq, Repr

/-- `divide d zeroKeeps`: `np.where(den != 0, group_metrics / den, group_metrics)` (`zeroKeeps`: a zero divisor
leaves the entry unchanged) -/
inductive NmRow where
  | divide (d : Divisor) (zeroKeeps : Bool)
  | raises
deriving DecidableEq, Repr

def NmRow.eval (row : NmRow) (col : List (Option Rat)) (overall : Option Rat) : Except Err (List (Option Rat)) :=
  match row with
  | .raises => .error .valueError
  | .divide d true =>
    let den := match d with | .overall => overall | .minGroups => colMin col
    .ok (col.map (divNorm · den))
  | .divide _ false => .error .other

def nmRowModel : NormKey2 → NmRow
  | .byOverall => .divide .overall true
  | .byMin => .divide .minGroups true
  | .other => .raises

/-! ### the translated tables and their comparison -/

structure Translated2 where
  smeth : List ((MKey × Bool) × Option SmRow)
  bsample : List (BsKey × Option BsRow)
  cidisp : List ((CiMethod × Bool) × Option CiRow)
  d2b : List (DocLabel × Option Label)
  b2d : List (Label × Option DocLabel)
  fraud : List (DocLabel × Option FraudRow)
  gsmeth : List (GsmKey × Option SmRow)
  gsample : List (GsKey × Option GsRow)
  norm : List (NormKey2 × Option NmRow)

def verdicts2 (t : Translated2) : List (List Verdict) :=
  [t.smeth.map fun p => cmpSm (smRowModel p.1.1 p.1.2) p.2,
   t.bsample.map fun p => cmpBs (bsRowModel p.1.method p.1.smoothing p.1.strat p.1.ratioGiven) p.2,
   t.cidisp.map fun p => cmpCi (ciRowModel p.1.1 p.1.2) p.2,
   t.d2b.map fun p => cmp (docToBinary p.1) p.2,
   t.b2d.map fun p => cmp (binaryToDoc p.1) p.2,
   t.fraud.map fun p => cmp (fraudRowModel p.1) p.2,
   t.gsmeth.map fun p => cmpSm (gsmRowModel p.1) p.2,
   t.gsample.map fun p => cmp (gsRowModel p.1) p.2,
   t.norm.map fun p => cmp (nmRowModel p.1) p.2]

def checkTables2 (t : Translated2) : Result :=
  let ts := (verdicts2 t).zipIdx.map fun p => tally p.2 p.1
  let bad := ts.flatMap fun p => p.1
  ⟨bad.isEmpty, bad, (ts.map fun p => p.2).sum⟩

def reportRow2 {α : Type} [Repr α] (tbl i : Nat) (v : Verdict) (model : α) (got : Option α) : String :=
  s!"ROW table={tbl} idx={i} verdict={verdictName v}" ++
    (if v = .mismatch then s!" model=«{(repr model).pretty 100000}» got=«{(repr got).pretty 100000}»" else "")

def report2 (t : Translated2) : List String :=
  (t.smeth.zipIdx.map fun p => reportRow2 0 p.2 (cmpSm (smRowModel p.1.1.1 p.1.1.2) p.1.2) (smRowModel p.1.1.1 p.1.1.2) p.1.2) ++
  (t.bsample.zipIdx.map fun p =>
    let m := bsRowModel p.1.1.method p.1.1.smoothing p.1.1.strat p.1.1.ratioGiven
    reportRow2 1 p.2 (cmpBs m p.1.2) m p.1.2) ++
  (t.cidisp.zipIdx.map fun p => reportRow2 2 p.2 (cmpCi (ciRowModel p.1.1.1 p.1.1.2) p.1.2) (ciRowModel p.1.1.1 p.1.1.2) p.1.2) ++
  (t.d2b.zipIdx.map fun p => reportRow2 3 p.2 (cmp (docToBinary p.1.1) p.1.2) (docToBinary p.1.1) p.1.2) ++
  (t.b2d.zipIdx.map fun p => reportRow2 4 p.2 (cmp (binaryToDoc p.1.1) p.1.2) (binaryToDoc p.1.1) p.1.2) ++
  (t.fraud.zipIdx.map fun p => reportRow2 5 p.2 (cmp (fraudRowModel p.1.1) p.1.2) (fraudRowModel p.1.1) p.1.2) ++
  (t.gsmeth.zipIdx.map fun p => reportRow2 6 p.2 (cmpSm (gsmRowModel p.1.1) p.1.2) (gsmRowModel p.1.1) p.1.2) ++
  (t.gsample.zipIdx.map fun p => reportRow2 7 p.2 (cmp (gsRowModel p.1.1) p.1.2) (gsRowModel p.1.1) p.1.2) ++
  (t.norm.zipIdx.map fun p => reportRow2 8 p.2 (cmp (nmRowModel p.1.1) p.1.2) (nmRowModel p.1.1) p.1.2)

end SA.DecTables2
