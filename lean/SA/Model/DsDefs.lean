/-
C20 / C16: the closed-form FORMULAS of `experimental/datasets.py` and of `roc_curve._apply_rule_of_three` regenerated from
the source on every run (`harness/dsdefs.py`, Python `ast`).

IR `DExpr`: a scalar expression over numbered variables, rational constants, `neg + - * /`, UNINTERPRETED unary functions
`fn1 k` (0 `norm.cdf`, 1 `norm.sf`, 2 `norm.ppf`, 3 `norm.isf` - all four STANDARD normal, scipy's `loc=` / `scale=` are
normalised by the translator to `(x - loc) / scale` resp. `loc + scale * q` -, 4 `sqrt`, 5 `int(.)`, 6 `floor`, others: any
function the translator names), binary ones `fn2 k` (0 `pow`, 1 a binomial draw) and `ite op l r t e` = the entry of
`np.where(l <op> r, t, e)`.  `norm.sf(x)` and `1 - norm.cdf(x)` are DIFFERENT expressions (they differ in floating point).

Two semantics.  `eval env F1 F2`: total, over `Rat`, for ARBITRARY interpretations of the function symbols (this is the one
the `*_eq_model` lemmas and `checkRow_ok_sound` speak about).  `evalV w`: the PROBE semantics with ONE named lawful
interpretation (`lawF1` / `lawF2`): `cdf = sig` a strictly increasing rational sigmoid with values in (0,1), `sf = 1 - sig`,
`ppf = sigInv` on (0,1), NaN outside [0,1] (as scipy), outside the fragment (`bad`) at 0 and 1 (infinite), `isf p = ppf (1-p)`,
`sqrt` exact on rational squares / NaN on negatives / `bad` elsewhere, `pow a (1/k)` the exact rational k-th root from a
small table / `bad` elsewhere; values are `SA.MetricExpr.Val` (rational | NaN | bad), a division by zero is `bad`.

A translated item is a `Row` = expressions + integer codes (outcomes of the symbolic run in named concrete configurations).
`checkRow`: `ok` = same codes and every expression equal to the model's modulo commutativity of `+` / `*`;
`mismatch (1000+j)` = code `j` differs; `mismatch i` = probe `i` separates an expression from the model's under the lawful
interpretation, both values inside the fragment; otherwise `undecided` (never an alarm: in particular `1 - cdf` for `sf`).
Core Lean only.
-/
import SA.Model.CIDefs
import SA.Model.Datasets
import SA.Model.RocCI

namespace SA.DsDefs
open SA SA.MetricExpr

inductive DExpr where
  | var (i : Nat)
  | const (num : Int) (den : Nat)
  | neg (a : DExpr)
  | add (a b : DExpr)
  | sub (a b : DExpr)
  | mul (a b : DExpr)
  | div (a b : DExpr)
  | fn1 (k : Nat) (a : DExpr)
  | fn2 (k : Nat) (a b : DExpr)
  /-- `t` where `l <op> r` else `e`; op: 0 `<`, 1 `<=`, 2 `>`, 3 `>=`, 4 `==`, other `!=` -/
  | ite (op : Nat) (l r t e : DExpr)
  deriving DecidableEq, Repr, Inhabited

def cmpOp (op : Nat) (a b : Rat) : Bool :=
  match op with
  | 0 => decide (a < b)
  | 1 => decide (a ≤ b)
  | 2 => decide (b < a)
  | 3 => decide (b ≤ a)
  | 4 => a == b
  | _ => a != b

/-- total semantics for arbitrary interpretations `F1` / `F2` of the function symbols -/
def DExpr.eval (env : List Rat) (F1 : Nat → Rat → Rat) (F2 : Nat → Rat → Rat → Rat) : DExpr → Rat
  | .var i => env.getD i 0
  | .const n d => (n : Rat) / (d : Rat)
  | .neg a => -(a.eval env F1 F2)
  | .add a b => a.eval env F1 F2 + b.eval env F1 F2
  | .sub a b => a.eval env F1 F2 - b.eval env F1 F2
  | .mul a b => a.eval env F1 F2 * b.eval env F1 F2
  | .div a b => a.eval env F1 F2 / b.eval env F1 F2
  | .fn1 k a => F1 k (a.eval env F1 F2)
  | .fn2 k a b => F2 k (a.eval env F1 F2) (b.eval env F1 F2)
  | .ite op l r t e => if cmpOp op (l.eval env F1 F2) (r.eval env F1 F2) then t.eval env F1 F2 else e.eval env F1 F2

/-- syntactic equality modulo commutativity of `+` and `*` -/
def DExpr.eqv : DExpr → DExpr → Bool
  | .var i, .var j => i == j
  | .const a b, .const c d => a == c && b == d
  | .neg a, .neg c => a.eqv c
  | .add a b, .add c d => (a.eqv c && b.eqv d) || (a.eqv d && b.eqv c)
  | .mul a b, .mul c d => (a.eqv c && b.eqv d) || (a.eqv d && b.eqv c)
  | .sub a b, .sub c d => a.eqv c && b.eqv d
  | .div a b, .div c d => a.eqv c && b.eqv d
  | .fn1 k a, .fn1 k' c => k == k' && a.eqv c
  | .fn2 k a b, .fn2 k' c d => k == k' && a.eqv c && b.eqv d
  | .ite op l r t e, .ite op' l' r' t' e' => op == op' && l.eqv l' && r.eqv r' && t.eqv t' && e.eqv e'
  | _, _ => false

/-! ### the lawful interpretation used at the probes -/

def absQ (x : Rat) : Rat := if x < 0 then -x else x

/-- a strictly increasing rational "cdf" with values in (0, 1): `(1 + x / (1 + |x|)) / 2` -/
def sig (x : Rat) : Rat := (1 + x / (1 + absQ x)) / 2

/-- its inverse on (0, 1) -/
def sigInv (p : Rat) : Rat := (2 * p - 1) / (1 - absQ (2 * p - 1))

def lawPpf (p : Rat) : Val :=
  if 0 < p ∧ p < 1 then .num (sigInv p) else if p < 0 ∨ 1 < p then .nan else .bad

def rpow (r : Rat) : Nat → Rat
  | 0 => 1
  | k + 1 => r * rpow r k

def powCands : List Rat := [0, 1, 1 / 2, 1 / 3, 1 / 4, 2 / 3, 3 / 4, 1 / 5, 1 / 10]

/-- `pow a e`: the exact rational root for `e = 1/k` when it is in `powCands`, an integer power, `bad` otherwise -/
def lawPow (a e : Rat) : Val :=
  if e.num = 1 then
    match powCands.find? (fun r => rpow r e.den == a) with
    | some r => .num r
    | none => .bad
  else if e.den = 1 ∧ 0 ≤ e.num then .num (rpow a e.num.toNat) else .bad

def lawF1 (k : Nat) : Val → Val
  | .bad => .bad
  | .nan => .nan
  | .num x =>
    match k with
    | 0 => .num (sig x)
    | 1 => .num (1 - sig x)
    | 2 => lawPpf x
    | 3 => lawPpf (1 - x)
    | 4 => if x < 0 then .nan else match SA.CIDefs.wsqrt x with
      | some r => .num r
      | none => .bad
    | 5 => .num (truncQ x)
    | 6 => .num (x.floor)
    | _ => .bad

def lawF2 (k : Nat) : Val → Val → Val
  | .bad, _ => .bad
  | _, .bad => .bad
  | .num a, .num b => if k = 0 then lawPow a b else .bad
  | _, _ => .nan

def vneg : Val → Val
  | .num a => .num (-a)
  | v => v

/-- `none`: outside the fragment; a NaN operand makes every comparison False except `!=` -/
def vcmp (op : Nat) : Val → Val → Option Bool
  | .bad, _ => none
  | _, .bad => none
  | .num a, .num b => some (cmpOp op a b)
  | _, _ => some (decide (5 ≤ op))

/-- probe semantics under the lawful interpretation -/
def DExpr.evalV (w : List Rat) : DExpr → Val
  | .var i => match w[i]? with
    | some q => .num q
    | none => .bad
  | .const n d => if d = 0 then .bad else .num ((n : Rat) / (d : Rat))
  | .neg a => vneg (a.evalV w)
  | .add a b => (a.evalV w).add (b.evalV w)
  | .sub a b => (a.evalV w).sub (b.evalV w)
  | .mul a b => SA.CIDefs.vmul (a.evalV w) (b.evalV w)
  | .div a b => (a.evalV w).div (b.evalV w)
  | .fn1 k a => lawF1 k (a.evalV w)
  | .fn2 k a b => lawF2 k (a.evalV w) (b.evalV w)
  | .ite op l r t e =>
    match vcmp op (l.evalV w) (r.evalV w) with
    | none => .bad
    | some true => t.evalV w
    | some false => e.evalV w

/-! ### rows and the check -/

structure Row where
  exprs : List DExpr
  /-- outcomes of the symbolic run in named concrete configurations -/
  codes : List Int
  deriving DecidableEq, Repr, Inhabited

def eqvList : List DExpr → List DExpr → Bool
  | [], [] => true
  | a :: as, b :: bs => a.eqv b && eqvList as bs
  | _, _ => false

def differsList : List Val → List Val → Bool
  | a :: as, b :: bs => a.differs b || differsList as bs
  | _, _ => false

def differsAt (model got : Row) (w : List Rat) : Bool :=
  differsList (got.exprs.map (DExpr.evalV w)) (model.exprs.map (DExpr.evalV w))

def firstNe : List Int → List Int → Nat → Option Nat
  | [], [], _ => none
  | a :: as, b :: bs, i => if a = b then firstNe as bs (i + 1) else some i
  | _, _, i => some i

def checkRow (model got : Row) (probes : List (List Rat)) : SA.CmDefs.Verdict :=
  if got.codes = model.codes ∧ eqvList got.exprs model.exprs = true then .ok
  else match firstNe got.codes model.codes 0 with
    | some j => .mismatch (1000 + j)
    | none => match SA.CmDefs.firstIdx (differsAt model got) probes 0 with
      | some i => .mismatch i
      | none => .undecided

/-! ### (n) `NormalDataset`: variables 0 `mu_pos`, 1 `mu_neg`, 2 `sigma_pos`, 3 `sigma_neg`, 4 the argument -/

def c1 : DExpr := .const 1 1

def std (x loc scale : DExpr) : DExpr := .div (.sub x loc) scale
def locScale (loc scale q : DExpr) : DExpr := .add loc (.mul scale q)

def mFnr (t : DExpr) : DExpr := .fn1 0 (std t (.var 0) (.var 2))
def mFpr (t : DExpr) : DExpr := .fn1 1 (std t (.var 1) (.var 3))
def mThrFnr (r : DExpr) : DExpr := locScale (.var 0) (.var 2) (.fn1 2 r)
def mThrFpr (r : DExpr) : DExpr := locScale (.var 1) (.var 3) (.fn1 3 r)

/-- exprs: 0 `fnr(t)`, 1 `fpr(t)`, 2 `threshold_at_fnr(r)`, 3 `threshold_at_fpr(r)`, 4 the default of `mu_neg`,
5-7 `roc(fnr=[r])`: thresholds, reported fnr, reported fpr, 8-10 `roc(fpr=[r])` likewise.
codes: 0-2 `__post_init__` with `mu_neg` = None / 0.0 / 7.0: 1 = replaced by the default, 0 = kept;
3-6 `roc` with (neither, both, fnr only, fpr only): 1 = ValueError, 0 = a curve. -/
def modelNormal : Row :=
  ⟨[mFnr (.var 4), mFpr (.var 4), mThrFnr (.var 4), mThrFpr (.var 4), .neg (.var 0),
    mThrFnr (.var 4), mFnr (mThrFnr (.var 4)), mFpr (mThrFnr (.var 4)),
    mThrFpr (.var 4), mFnr (mThrFpr (.var 4)), mFpr (mThrFpr (.var 4))],
   [1, 0, 0, 1, 1, 0, 0]⟩

def normalProbes : List (List Rat) := [
  [1, -1, 2, 3, 1 / 4], [2, 1 / 2, 3, 1 / 2, 3 / 4], [-1, 3, 1 / 2, 2, 1 / 3], [0, 0, 1, 1, 1 / 2],
  [1, -2, 2, 5, 3 / 2], [3, 1, 4, 2, -1 / 2], [1, -1, 2, 3, 5], [2, 0, 1, 3, -4]]

/-! ### `from_metrics`: variables 0 `fnr`, 1 `fpr`, 2 `fnr_support`, 3 `fpr_support`, 4 `sigma_pos`, 5 `sigma_neg` -/

def mNbPos : DExpr := .fn1 5 (.div (.var 2) (.var 0))
def mNbNeg : DExpr := .fn1 5 (.div (.var 3) (.var 1))

/-- exprs: the constructor arguments `mu_pos, mu_neg, sigma_pos, sigma_neg, p_pos, n`; codes: `score_class` (1 = "pos") -/
def modelFm : Row :=
  ⟨[.mul (.neg (.fn1 2 (.var 0))) (.var 4), .mul (.neg (.fn1 2 (.sub c1 (.var 1)))) (.var 5), .var 4, .var 5,
    .div mNbPos (.add mNbPos mNbNeg), .add mNbPos mNbNeg], [1]⟩

def fmProbes : List (List Rat) := [
  [1 / 4, 1 / 10, 5, 3, 2, 3], [1 / 3, 3 / 4, 7, 2, 1 / 2, 5], [1 / 2, 1 / 2, 1, 1, 1, 1], [2 / 5, 1 / 5, 3, 4, 3, 2]]

/-! ### `CorrelatedBernoullilDataset`: variables 0 `p1`, 1 `p2`, 2 `rho` -/

def mC : DExpr := .mul (.sub c1 (.var 0)) (.sub c1 (.var 1))
def mA : DExpr := .add mC (.mul (.var 2) (.fn1 4 (.mul (.mul (.var 0) (.var 1)) mC)))

/-- exprs: the four joint probabilities; codes: does a vector containing -1 / 0 / 1 raise ValueError (1) or not (0) -/
def modelCorr : Row :=
  ⟨[mA, .sub (.sub c1 (.var 1)) mA, .sub (.sub c1 (.var 0)) mA, .sub (.add (.add (.var 0) (.var 1)) mA) c1], [1, 0, 0]⟩

def corrProbes : List (List Rat) := [
  [1 / 2, 1 / 2, 1 / 2], [1 / 5, 4 / 5, -1 / 2], [1 / 3, 1 / 3, 1], [1 / 2, 1 / 2, -1], [1, 1 / 2, 1 / 3],
  [0, 1 / 4, 1 / 2], [1 / 5, 1 / 5, 3 / 4], [1 / 10, 9 / 10, 1 / 2]]

/-! ### (o) `_apply_rule_of_three`: variables 0 `alpha`, 1 `n`, 2 the rate `p`, 3 / 4 the row of `ci` -/

def mPow : DExpr := .fn2 0 (.var 0) (.div c1 (.var 1))
def mLowT : DExpr := .div c1 (.var 1)
def mUpT : DExpr := .div (.sub (.var 1) c1) (.var 1)

/-- the resulting row: the second `np.where` (rate above `(n-1)/n`) is applied to the result of the first -/
def modelRule3 : Row :=
  ⟨[.ite 2 (.var 2) mUpT mPow (.ite 0 (.var 2) mLowT (.const 0 1) (.var 3)),
    .ite 2 (.var 2) mUpT c1 (.ite 0 (.var 2) mLowT (.sub c1 mPow) (.var 4))], []⟩

def rule3Probes : List (List Rat) := [
  [1 / 4, 2, 0, 1 / 10, 1 / 5], [1 / 4, 2, 1, 7 / 10, 9 / 10], [1 / 4, 2, 1 / 2, 2 / 5, 3 / 5], [1 / 27, 3, 0, 1 / 10, 1 / 5],
  [1 / 27, 3, 1 / 3, 1 / 5, 1 / 2], [1 / 27, 3, 2 / 3, 1 / 2, 4 / 5], [1 / 27, 3, 1, 4 / 5, 9 / 10],
  [1 / 16, 4, 1 / 8, 1 / 20, 3 / 10], [1 / 16, 4, 7 / 8, 3 / 5, 19 / 20], [1 / 4, 1, 0, 1 / 10, 1 / 5],
  [1 / 4, 1, 1, 1 / 10, 1 / 5], [1 / 4, 1, 1 / 2, 1 / 10, 1 / 5], [1 / 16, 4, 1 / 4, 1 / 5, 2 / 5], [1 / 16, 4, 3 / 4, 1 / 2, 4 / 5]]

/-! ### report -/

def valsStr (l : List Val) : String := ";".intercalate (l.map (·.str))

def rowReport (name : String) (model got : Row) (probes : List (List Rat)) : String :=
  let v := checkRow model got probes
  let wit := match v with
    | .mismatch i =>
      if i ≥ 1000 then s!" code={i - 1000} got={got.codes.getD (i - 1000) (-1)} want={model.codes.getD (i - 1000) (-1)}"
      else match probes[i]? with
        | some w => s!" probe={",".intercalate (w.map SA.CmDefs.ratStr)} got={valsStr (got.exprs.map (DExpr.evalV w))} want={valsStr (model.exprs.map (DExpr.evalV w))}"
        | none => ""
    | _ => ""
  s!"DS item={name} verdict={v.str}{wit}"

end SA.DsDefs
