/-
`Scores.eer` and `Scores._find_root` (scores.py:748-801, 854-874), as of the fixed tree
(strict comparisons in the perfect-separation shortcut).
-/
import SA.Model.Threshold

namespace SA

def absQ' (x : Rat) : Rat := if x < 0 then -x else x

/-- `xtol = 1e-10` -/
def xtol : Rat := 1 / 10000000000

/-- the bisection loop of `_find_root`, with explicit fuel (40 halvings of an interval of
length ≤ 1 bring it below `1e-10`; the driver uses 64) -/
def findRootLoop (f : Rat → Rat) (findFirst : Bool) : Nat → Rat → Rat → Rat
  | 0, xa, xe => (xa + xe) / 2
  | fuel + 1, xa, xe =>
    if absQ' (xa - xe) < xtol then (xa + xe) / 2
    else
      let xm := (xa + xe) / 2
      if f xm < 0 then findRootLoop f findFirst fuel xm xe
      else if f xm > 0 then findRootLoop f findFirst fuel xa xm
      else if findFirst then findRootLoop f findFirst fuel xa xm
      else findRootLoop f findFirst fuel xm xe

/-- `_find_root(f, xa, xe, find_first)` -/
def findRoot (f : Rat → Rat) (xa xe : Rat) (findFirst : Bool) (fuel : Nat) : Except Err Rat :=
  if f xa ≤ 0 ∧ 0 ≤ f xe then .ok (findRootLoop f findFirst fuel xa xe) else .error .valueError

/-- `np.isclose(a, b)` with the default tolerances -/
def isClose (a b : Rat) : Bool :=
  decide (absQ' (a - b) ≤ 1 / 100000000 + 1 / 100000 * absQ' b)

/-- value of a successful threshold call (the callers below only use it on non-empty classes) -/
def thrVal (u : Ulp) (s : Scores) (metric : Metric) (r : Rat) : Rat :=
  match s.thresholdAt u metric r .linear with
  | .ok t => t
  | .error _ => 0

/-- `Scores.eer()`; both classes must be non-empty (the Python raises IndexError otherwise). -/
def Scores.eer (u : Ulp) (s : Scores) (fuel : Nat) : Except Err (Rat × Rat) :=
  if s.pos.length = 0 ∨ s.neg.length = 0 then .error .other else
  let pos0 := s.pos.getD 0 0
  let posL := s.pos.getD (s.pos.length - 1) 0
  let neg0 := s.neg.getD 0 0
  let negL := s.neg.getD (s.neg.length - 1) 0
  if pos0 > negL ∧ s.cfg.scoreClass = .pos then .ok ((pos0 + negL) / 2, 0)
  else if posL < neg0 ∧ s.cfg.scoreClass = .neg then .ok ((posL + neg0) / 2, 0)
  else
    let sign := -(thrVal u s .fpr 0 - thrVal u s .fnr 0)
    let f : Rat → Rat := fun x => sign * (thrVal u s .fpr x - thrVal u s .fnr x)
    let maxEer := min s.hardPosRatio s.hardNegRatio
    if f maxEer < 0 then
      if isClose s.hardPosRatio s.hardNegRatio then
        .ok ((thrVal u s .fpr maxEer + thrVal u s .fnr maxEer) / 2, maxEer)
      else if s.hardPosRatio < s.hardNegRatio then .ok (thrVal u s .fpr s.hardPosRatio, s.hardPosRatio)
      else .ok (thrVal u s .fnr s.hardNegRatio, s.hardNegRatio)
    else
      match findRoot f 0 maxEer true fuel, findRoot f 0 maxEer false fuel with
      | .ok left, .ok right =>
        let e := (left + right) / 2
        .ok (thrVal u s .fpr e, e)
      | .error e, _ => .error e
      | _, .error e => .error e

end SA
