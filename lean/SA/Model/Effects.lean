/-
Effect model for C10 ("no query mutates the object or a caller's array").

A tiny effect IR for ONE Python function body, a heap semantics for it, and an executable
checker (a certificate checker over provenances: the abstract environment of a body and the summaries of
the callees are supplied, the checker verifies them statement by statement).  The IR bodies are not written by hand:
`harness/effects.py` regenerates them from the CURRENT source of `score_analysis` on every
`./check C10` run, together with the certificates, and states
`analysis table bodies = ⟨true, violators, covered⟩` about them (`decide +kernel`; on a clean tree `violators = []`).
The soundness theorem of the checker for this semantics is `SA.Effects.C10_effects_no_mutation`, the bridge from the
generated statement to its hypotheses is `SA.Effects.analysis_sound` (`SA/Theorems/C10Effects.lean`).

Vocabulary
* A *cell* is one piece of memory (an ndarray buffer, or a whole Python object with everything
  reachable from it: objects are not split into fields, except `self`).  A heap maps cell ids to
  byte lists; cells `< next` are allocated.
* Every array-valued local NAME (a `Nat` id; the translator keeps the table of spellings) points to a
  cell.  A view (`x[1:]`, `x.T`, `np.reshape(x, ..)`) or an alias (`np.asarray(x)`, `y = x`) of a name points
  to the SAME cell as the name: writing through either changes the cell.
* Provenance of a name (`Src`, as written by the translator): `fresh` (a newly allocated array),
  `param i` (the caller's i-th argument), `selfField f` (the array stored in `self.f`; field 0 is
  the object itself), `viewOf y` / `aliasOf y` (same memory as the local name `y`), `maybeViewOf y` (same memory
  as `y` or a copy, the translator cannot tell: `x[i]`), `unknown` (the translator cannot tell: may be ANY cell).  A binding carries a LIST of provenances (`x = a if
  c else b`): any of them may be the one at run time.
* Statements: `bind`, `writeInPlace x` (subscript assignment, augmented assignment on an array,
  `out=`, `.sort()`, `.fill()`, `np.put`, ...: the bytes of x's cell are replaced by arbitrary bytes),
  `setSelfField f x` (`self.f = x` inside a query), `ret`, `call` (by SUMMARY of the callee, see below),
  `seq`, `branch` (either side may run), `loop` (the body runs any number of times).
* Execution is a function of an `Oracle` (which branch, how many iterations, which of several
  provenances, which bytes are written, which cell an `unknown` is): the theorems quantify over ALL
  oracles and all initial heaps, so the semantics is the nondeterministic one.  A statement that
  reads an unbound name, an absent parameter or self field HALTS the execution (Python raises); `ret`
  halts too.  A halted state is left unchanged by everything that follows.
* Calls are modular: the callee is represented by its `Summary` (which of its parameters it may write
  in place, whether it has any effect on its own `self`, where its result may come from).  Executing
  `call` performs exactly the effects the summary allows, with oracle bytes.  A callee without a
  summary is conservative: it may write every argument (and anything if it is called on `self`), and its
  result is `unknown`.  `summary_conformance` (theorem file) shows that a body that passes the checker
  against its own summary stays inside it, and `tableChecked` makes the kernel check every summary of the table
  against its body (recursive functions included: the table is checked against itself), so a summary is used only
  after it was checked.
* The analysis is FLOW-INSENSITIVE (one environment per body, valid at every program point); the translator gives
  every assignment of a Python name its own IR name and inserts copies at joins, so straight-line rebinding
  (`x = np.array(x); x[0] = 1`) is not confused with writing the parameter.  The soundness theorem does not depend on
  that renaming: it holds for ANY body, certificate and table the checker accepts.

Core Lean only (linked into the generated file, not into the driver).
-/
namespace SA.Effects

/-! ### IR -/

/-- resolved provenance (what the certificates are made of) -/
inductive Root where
  | fresh
  | param (i : Nat)
  | selfField (f : Nat)
  | unknown
  deriving DecidableEq, Repr

/-- provenance as written by the translator -/
inductive Src where
  | fresh
  | param (i : Nat)
  | selfField (f : Nat)
  | viewOf (x : Nat)
  | aliasOf (x : Nat)
  /-- `x[i]` with an integer-like `i`: an element (a copy) or a row (a view) of `x` - the translator cannot tell.
  Same cell as `x` at run time; abstractly the non-fresh roots of `x` become `unknown` (never a definite finding) -/
  | maybeViewOf (x : Nat)
  | unknown
  deriving DecidableEq, Repr

/-- receiver of a call: a plain function / static method, a method of the caller's own `self`, a
method of the object held by a local name -/
inductive Recv where
  | none
  | self
  | obj (x : Nat)
  deriving DecidableEq, Repr

inductive Stmt where
  | skip
  | bind (x : Nat) (srcs : List Src)
  /-- `definite = false`: the translator cannot tell whether the name holds an array (then the statement is a
  rebinding of a scalar, not a write); `site` = index into the translator's table of source locations -/
  | writeInPlace (x : Nat) (definite : Bool) (site : Nat)
  | setSelfField (f : Nat) (x : Nat) (site : Nat)
  | ret (srcs : List Src)
  | call (dst : Option Nat) (callee : Nat) (recv : Recv) (args : List Nat) (site : Nat)
  | seq (a b : Stmt)
  | branch (a b : Stmt)
  | loop (body : Stmt)
  deriving Repr

/-- what a caller may assume about a callee -/
structure Summary where
  /-- indices of the parameters that may be written in place (directly or through callees) -/
  writes : List Nat
  /-- any effect on the callee's own `self`: a store to a field or an in-place write to a field's array -/
  effSelf : Bool
  /-- where the result may come from, in the callee's terms -/
  ret : List Root
  deriving Repr

/-- finite map from `Nat` keys: a binary trie (key 0 at the root, odd keys `2m+1` in the left subtree under `m`, even
keys `2m+2` in the right subtree under `m`).  Lookups cost `log k` steps of `Nat` arithmetic, which matters because
the generated theorem is evaluated by the kernel. -/
inductive Tree (α : Type) where
  | leaf
  | node (l : Tree α) (v : Option α) (r : Tree α)
  deriving Repr

def Tree.get? {α : Type} : Tree α → Nat → Option α
  | .leaf, _ => none
  | .node l v r, k =>
    cond (Nat.beq k 0) v (cond (Nat.beq (k % 2) 1) (l.get? (k / 2)) (r.get? (k / 2 - 1)))

/-- `p key value` for every binding; the subtree holds the keys `a + b * m` (`m` = key inside the subtree) -/
def Tree.allFrom {α : Type} (p : Nat → α → Bool) : Tree α → Nat → Nat → Bool
  | .leaf, _, _ => true
  | .node l v r, a, b =>
    (match v with
      | none => true
      | some x => p a x) && l.allFrom p (a + b) (2 * b) && r.allFrom p (a + 2 * b) (2 * b)

def Tree.all {α : Type} (t : Tree α) (p : Nat → α → Bool) : Bool := t.allFrom p 0 1

/-- insertion (fuel = number of bits; only used to write small examples, the generated file has literal trees) -/
def Tree.insertAux {α : Type} : Nat → Tree α → Nat → α → Tree α
  | 0, t, _, _ => t
  | fuel + 1, t, k, x =>
    let (l, v, r) := match t with
      | .leaf => (Tree.leaf, none, Tree.leaf)
      | .node l v r => (l, v, r)
    if k = 0 then .node l (some x) r
    else if k % 2 = 1 then .node (insertAux fuel l (k / 2) x) v r
    else .node l v (insertAux fuel r (k / 2 - 1) x)

def Tree.ofList {α : Type} (l : List (Nat × α)) : Tree α :=
  l.foldl (fun t p => Tree.insertAux 64 t p.1 p.2) .leaf

abbrev Table := Tree Summary

def Table.find (T : Table) (g : Nat) : Option Summary := T.get? g

/-! ### heap semantics -/

structure Oracle where
  flag : Nat → Bool
  num : Nat → Nat
  bytes : Nat → List UInt8

structure State where
  heap : Nat → List UInt8
  next : Nat
  env : List (Nat × Nat)
  self : List (Nat × Nat)
  ret : Option Nat
  halted : Bool
  tick : Nat

structure Ctx where
  o : Oracle
  params : List Nat
  table : Table

def assoc : List (Nat × Nat) → Nat → Option Nat
  | [], _ => none
  | (k, v) :: t, x => if k = x then some v else assoc t x

def upd (h : Nat → List UInt8) (c : Nat) (v : List UInt8) : Nat → List UInt8 :=
  fun d => if d = c then v else h d

def State.halt (σ : State) : State := { σ with halted := true }

/-- the cell a provenance denotes in a state (a fresh one is allocated) -/
def evalSrc (cx : Ctx) (σ : State) : Src → Option (Nat × State)
  | .fresh => some (σ.next, { σ with next := σ.next + 1, heap := upd σ.heap σ.next (cx.o.bytes σ.tick),
                                     tick := σ.tick + 1 })
  | .param i => (cx.params[i]?).map fun c => (c, σ)
  | .selfField f => (assoc σ.self f).map fun c => (c, σ)
  | .viewOf y => (assoc σ.env y).map fun c => (c, σ)
  | .aliasOf y => (assoc σ.env y).map fun c => (c, σ)
  | .maybeViewOf y => (assoc σ.env y).map fun c => (c, σ)
  | .unknown => some (cx.o.num σ.tick, { σ with tick := σ.tick + 1 })

/-- the oracle picks one of the provenances -/
def pickSrc (cx : Ctx) (σ : State) (srcs : List Src) : Option (Nat × State) :=
  match srcs[cx.o.num σ.tick % srcs.length]? with
  | none => none
  | some s => evalSrc cx { σ with tick := σ.tick + 1 } s

def stepBind (cx : Ctx) (x : Nat) (srcs : List Src) (σ : State) : State :=
  if σ.halted then σ else
  match pickSrc cx σ srcs with
  | none => σ.halt
  | some (c, σ') => { σ' with env := (x, c) :: σ'.env }

def stepBindOpt (cx : Ctx) (dst : Option Nat) (srcs : List Src) (σ : State) : State :=
  match dst with
  | none => σ
  | some x => stepBind cx x srcs σ

/-- in-place write through the name `x`: arbitrary new bytes in its cell -/
def stepWrite (cx : Ctx) (x : Nat) (σ : State) : State :=
  if σ.halted then σ else
  match assoc σ.env x with
  | none => σ.halt
  | some c => { σ with heap := upd σ.heap c (cx.o.bytes σ.tick), tick := σ.tick + 1 }

def stepWrites (cx : Ctx) : List Nat → State → State
  | [], σ => σ
  | x :: t, σ => stepWrites cx t (stepWrite cx x σ)

def stepSetSelf (f : Nat) (x : Nat) (σ : State) : State :=
  if σ.halted then σ else
  match assoc σ.env x with
  | none => σ.halt
  | some c => { σ with self := (f, c) :: σ.self }

/-- an effect on `self` we know nothing about: some field is rebound to some cell and some cell is
overwritten -/
def stepHavocSelf (cx : Ctx) (σ : State) : State :=
  if σ.halted then σ else
  { σ with self := (cx.o.num σ.tick, cx.o.num (σ.tick + 1)) :: σ.self,
           heap := upd σ.heap (cx.o.num (σ.tick + 2)) (cx.o.bytes σ.tick), tick := σ.tick + 3 }

def stepRet (cx : Ctx) (srcs : List Src) (σ : State) : State :=
  if σ.halted then σ else
  match pickSrc cx σ srcs with
  | none => σ.halt
  | some (c, σ') => { σ' with ret := some c, halted := true }

/-- a callee's result provenance in the caller's terms -/
def retSrc (recv : Recv) (args : List Nat) : Root → Src
  | .fresh => .fresh
  | .param i => match args[i]? with
    | some a => .aliasOf a
    | none => .unknown
  | .selfField f => match recv with
    | .self => .selfField f
    | .obj x => .aliasOf x
    | .none => .unknown
  | .unknown => .unknown

/-- the argument names a summary allows the callee to write -/
def writtenArgs (args : List Nat) (ws : List Nat) : List Nat :=
  ws.filterMap fun i => args[i]?

def stepSelfEffect (cx : Ctx) (recv : Recv) (σ : State) : State :=
  match recv with
  | .none => σ
  | .self => stepHavocSelf cx σ
  | .obj x => stepWrite cx x σ

def stepCall (cx : Ctx) (dst : Option Nat) (callee : Nat) (recv : Recv) (args : List Nat) (σ : State) : State :=
  match cx.table.find callee with
  | some s =>
    let σ1 := stepWrites cx (writtenArgs args s.writes) σ
    let σ2 := if s.effSelf then stepSelfEffect cx recv σ1 else σ1
    stepBindOpt cx dst (s.ret.map (retSrc recv args)) σ2
  | none =>
    let σ1 := stepWrites cx args σ
    let σ2 := stepSelfEffect cx recv σ1
    stepBindOpt cx dst [.unknown] σ2

def iter (f : State → State) : Nat → State → State
  | 0, σ => σ
  | n + 1, σ => iter f n (f σ)

def exec (cx : Ctx) : Stmt → State → State
  | .skip, σ => σ
  | .bind x srcs, σ => stepBind cx x srcs σ
  | .writeInPlace x _ _, σ => stepWrite cx x σ
  | .setSelfField f x _, σ => stepSetSelf f x σ
  | .ret srcs, σ => stepRet cx srcs σ
  | .call dst g recv args _, σ => stepCall cx dst g recv args σ
  | .seq a b, σ => exec cx b (exec cx a σ)
  | .branch a b, σ =>
    if σ.halted then σ else
    if cx.o.flag σ.tick then exec cx a { σ with tick := σ.tick + 1 }
    else exec cx b { σ with tick := σ.tick + 1 }
  | .loop b, σ =>
    if σ.halted then σ else
    iter (exec cx b) (cx.o.num σ.tick) { σ with tick := σ.tick + 1 }

/-- the state a body starts from: the caller's heap, no locals -/
def initState (heap : Nat → List UInt8) (next : Nat) (self : List (Nat × Nat)) : State :=
  { heap := heap, next := next, env := [], self := self, ret := none, halted := false, tick := 0 }

/-! ### checker

The checker verifies a CERTIFICATE: one abstract environment `R` per body (name ↦ the roots its cell may have,
at any point of the body: the analysis is flow-insensitive, the translator renames a Python name at every
assignment, so nothing is lost on straight-line code) and one table `T` of callee summaries.  Both are computed
outside the kernel (by `harness/effects.py`); the kernel checks, in one pass over the statements, that `R` is closed
under every binding and that every write is allowed.  A wrong certificate is rejected, never trusted. -/

abbrev AbsEnv := Tree (List Root)

def roots (E : AbsEnv) (x : Nat) : List Root :=
  match E.get? x with
  | some rs => rs
  | none => []

def dedup : List Root → List Root
  | [] => []
  | r :: t => if r ∈ dedup t then dedup t else r :: dedup t

/-- a root the translator is not sure about: `fresh` stays, everything else is `unknown` -/
def weaken : Root → Root
  | .fresh => .fresh
  | _ => .unknown

def srcRoots (E : AbsEnv) : Src → List Root
  | .fresh => [.fresh]
  | .param i => [.param i]
  | .selfField f => [.selfField f]
  | .viewOf y => roots E y
  | .aliasOf y => roots E y
  | .maybeViewOf y => (roots E y).map weaken
  | .unknown => [.unknown]

def srcsRoots (E : AbsEnv) (srcs : List Src) : List Root :=
  srcs.flatMap (srcRoots E)

/-- equality of roots as a `Bool` function on the constructor arguments (cheap for the kernel) -/
def Root.beq : Root → Root → Bool
  | .fresh, .fresh => true
  | .param i, .param j => Nat.beq i j
  | .selfField f, .selfField g => Nat.beq f g
  | .unknown, .unknown => true
  | _, _ => false

def memRoot (r : Root) : List Root → Bool
  | [] => false
  | a :: t => Root.beq r a || memRoot r t

def subset (a b : List Root) : Bool :=
  a.all fun r => memRoot r b

/-- roots of a call's result in the caller's terms -/
def callRet (T : Table) (R : AbsEnv) (g : Nat) (recv : Recv) (args : List Nat) : List Root :=
  match T.find g with
  | some s => srcsRoots R (s.ret.map (retSrc recv args))
  | none => [.unknown]

/-- the certificate is closed under the bindings of the statement -/
def closed (T : Table) (R : AbsEnv) : Stmt → Bool
  | .bind x srcs => subset (srcsRoots R srcs) (roots R x)
  | .call (some x) g recv args _ => subset (callRet T R g recv args) (roots R x)
  | .seq a b => closed T R a && closed T R b
  | .branch a b => closed T R a && closed T R b
  | .loop b => closed T R b
  | _ => true

/-- what the checker reports; `safe` accepts a body iff every finding is allowed -/
inductive Finding where
  /-- in-place write through name `x` whose roots are `rs`; `definite = false` when the write is only
  assumed (an unknown callee got `x` as an argument, or the name may hold a scalar) -/
  | write (site : Nat) (x : Nat) (rs : List Root) (definite : Bool)
  /-- `self.f = ...` inside the body -/
  | selfStore (site : Nat) (f : Nat)
  /-- call of a callee whose summary has an effect on its `self`; `rs` = roots of the receiver
  (`[selfField 0]` for the caller's own self) -/
  | selfEffectCall (site : Nat) (callee : Nat) (rs : List Root)
  /-- call of a callee without summary on the caller's own `self` -/
  | unknownSelfCall (site : Nat) (callee : Nat)
  deriving Repr

def memNat (i : Nat) : List Nat → Bool
  | [] => false
  | a :: t => Nat.beq i a || memNat i t

def rootAllowed (W : List Nat) : Root → Bool
  | .fresh => true
  | .param i => memNat i W
  | _ => false

def Finding.allowed (W : List Nat) : Finding → Bool
  | .write _ _ rs _ => rs.all (rootAllowed W)
  | .selfEffectCall _ _ rs => rs.all (rootAllowed W)
  | _ => false

def selfEffectFindings (E : AbsEnv) (site g : Nat) : Recv → List Finding
  | .none => []
  | .self => [.selfEffectCall site g [.selfField 0]]
  | .obj x => [.selfEffectCall site g (roots E x)]

def unknownRecvFindings (E : AbsEnv) (site g : Nat) : Recv → List Finding
  | .none => []
  | .self => [.unknownSelfCall site g]
  | .obj x => [.write site x (roots E x) false]

def callFindings (T : Table) (E : AbsEnv) (site g : Nat) (recv : Recv) (args : List Nat) : List Finding :=
  match T.find g with
  | some s =>
    (writtenArgs args s.writes).map (fun a => Finding.write site a (roots E a) true)
      ++ (if s.effSelf then selfEffectFindings E site g recv else [])
  | none =>
    args.map (fun a => Finding.write site a (roots E a) false) ++ unknownRecvFindings E site g recv

def findings (T : Table) (R : AbsEnv) : Stmt → List Finding
  | .skip => []
  | .bind _ _ => []
  | .writeInPlace x d site => [.write site x (roots R x) d]
  | .setSelfField f _ site => [.selfStore site f]
  | .ret _ => []
  | .call _ g recv args site => callFindings T R site g recv args
  | .seq a b => findings T R a ++ findings T R b
  | .branch a b => findings T R a ++ findings T R b
  | .loop b => findings T R b

/-- roots of everything the body may return -/
def rets (R : AbsEnv) : Stmt → List Root
  | .ret srcs => srcsRoots R srcs
  | .seq a b => rets R a ++ rets R b
  | .branch a b => rets R a ++ rets R b
  | .loop b => rets R b
  | _ => []

/-- the checker: the certificate is closed, every in-place write (own or a callee's) targets `fresh` or a
parameter in `W`, no store to `self`, no unknown effect on `self` -/
def safe (T : Table) (W : List Nat) (R : AbsEnv) (s : Stmt) : Bool :=
  closed T R s && (findings T R s).all (Finding.allowed W)

/-! ### bodies, the named checkers -/

/-- one analysed function: `code` starts with `bind p [param i]` for its parameters; `cert` is the certificate -/
structure Body where
  name : Nat
  /-- a public query: must not write any parameter -/
  entry : Bool
  code : Stmt
  cert : AbsEnv
  deriving Repr

def Body.run (b : Body) (cx : Ctx) (heap : Nat → List UInt8) (next : Nat) (self : List (Nat × Nat)) : State :=
  exec cx b.code (initState heap next self)

def Body.certClosed (T : Table) (b : Body) : Bool := closed T b.cert b.code

/-- every in-place write targets a name whose provenance resolves to `fresh` only (and the certificate the
resolution is read from is closed) -/
def Body.writesOnlyFresh (T : Table) (b : Body) : Bool :=
  b.certClosed T && (findings T b.cert b.code).all fun f => match f with
    | .write _ _ rs _ => rs.all (rootAllowed [])
    | .selfEffectCall _ _ rs => rs.all (rootAllowed [])
    | _ => true

/-- no store to a field of `self`, no call with an effect on `self` -/
def Body.noSelfStore (T : Table) (b : Body) : Bool :=
  (findings T b.cert b.code).all fun f => match f with
    | .selfStore _ _ => false
    | .selfEffectCall _ _ rs => rs.all (rootAllowed [])
    | .unknownSelfCall _ _ => false
    | _ => true

/-- the result is a new array, never (a view of) a parameter or of a field of `self` -/
def Body.returnsNoInputAlias (_T : Table) (b : Body) : Bool :=
  (rets b.cert b.code).all fun r => Root.beq r .fresh

/-! ### verdicts, table check, report -/

/-- a definite violation of C10 by an ENTRY body: an in-place write that reaches a parameter or a field of
`self` (directly or through a summarised callee), a store to `self`, a call with an effect on the own `self` -/
def Finding.isViolation : Finding → Bool
  | .write _ _ rs definite => definite && rs.any fun r => match r with
    | .param _ => true
    | .selfField _ => true
    | _ => false
  | .selfStore _ _ => true
  | .selfEffectCall _ _ rs => rs.any fun r => match r with
    | .selfField _ => true
    | .param _ => true
    | _ => false
  | _ => false

inductive Verdict where
  | ok
  | violation
  | notCovered
  deriving DecidableEq, Repr

def verdict (T : Table) (b : Body) : Verdict :=
  let fs := findings T b.cert b.code
  if fs.any Finding.isViolation then .violation
  else if b.certClosed T && fs.all (Finding.allowed []) then .ok
  else .notCovered

/-- every summary without an effect on `self` that the table offers was checked against its body: the body is
accepted against the summary's write set and its results have the summary's roots -/
def tableChecked (T : Table) (bs : List Body) : Bool :=
  T.all fun k e => e.effSelf || bs.any fun b => Nat.beq b.name k && safe T e.writes b.cert b.code
      && subset (rets b.cert b.code) e.ret

/-- statement of the generated theorem `generated_c10_effects_ok`: every summary in use was checked against
its body and no entry body has a definite violation -/
def noDefiniteViolation (T : Table) (bs : List Body) : Bool :=
  tableChecked T bs && bs.all fun b => !b.entry || verdict T b != .violation

/-- the covered entry bodies: those the checker accepts outright -/
def coveredBodies (T : Table) (bs : List Body) : List Body :=
  bs.filter fun b => b.entry && verdict T b == .ok

/-- statement of `generated_c10_effects_covered`: the table is checked against `all` and every body in `bs` is
an entry accepted by the two named checkers -/
def allBodiesOk (T : Table) (all : List Body) (bs : List Body) : Bool :=
  tableChecked T all && bs.all fun b => b.entry && b.writesOnlyFresh T && b.noSelfStore T

/-- what the generated theorem states about the current source -/
structure Outcome where
  /-- every summary in use was checked against its body -/
  tableOk : Bool
  /-- names of the entry bodies with a definite violation -/
  violators : List Nat
  /-- names of the entry bodies the checker accepts (verdict `ok`) -/
  covered : List Nat
  deriving DecidableEq, Repr

def violatingBodies (T : Table) (bs : List Body) : List Body :=
  bs.filter fun b => b.entry && verdict T b == .violation

def analysis (T : Table) (bs : List Body) : Outcome :=
  ⟨tableChecked T bs, (violatingBodies T bs).map Body.name, (coveredBodies T bs).map Body.name⟩

/-! ### report (printed by the generated file, parsed by harness/effects.py) -/

def Root.str : Root → String
  | .fresh => "fresh"
  | .param i => s!"param:{i}"
  | .selfField f => s!"self:{f}"
  | .unknown => "unknown"

def rootsStr (rs : List Root) : String := ",".intercalate (rs.map Root.str)

def Finding.str : Finding → String
  | .write st x rs d => s!"kind=write site={st} name={x} roots={rootsStr rs} definite={if d then 1 else 0}"
  | .selfStore st f => s!"kind=selfstore site={st} field={f}"
  | .selfEffectCall st g rs => s!"kind=selfeffectcall site={st} callee={g} roots={rootsStr rs}"
  | .unknownSelfCall st g => s!"kind=unknownselfcall site={st} callee={g}"

def Finding.cls (f : Finding) : String :=
  if f.isViolation then "violation" else if f.allowed [] then "ok" else "unknown"

def Verdict.str : Verdict → String
  | .ok => "ok"
  | .violation => "violation"
  | .notCovered => "notcovered"

def reportLines (T : Table) (bs : List Body) : List String :=
  bs.flatMap fun b =>
    [s!"BODY name={b.name} entry={if b.entry then 1 else 0} verdict={(verdict T b).str} closed={if b.certClosed T then 1 else 0} summary={if (T.find b.name).isSome then 1 else 0} ret={rootsStr (dedup (rets b.cert b.code))} noalias={if b.returnsNoInputAlias T then 1 else 0}"]
    ++ (findings T b.cert b.code).map fun f => s!"FINDING body={b.name} class={f.cls} {f.str}"

end SA.Effects
