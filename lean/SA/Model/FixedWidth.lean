/-
`fixed_width_band_ci` (experimental/roc_ci.py:18-103): the deterministic core, i.e. everything
except the drawing of the bootstrap samples:

* `_displace_curve(x, y, v)`            (roc_ci.py:106-121)  -> `c16f_displaceCurve`
* `np.interp(x, xp, fp)`                (NumPy, compiled)    -> `c16f_interp`
* `_is_contained(delta)`                (roc_ci.py:136-145)  -> `c16f_isContained`
* `_find_tube_radius(x, y, xs, ys, k)`  (roc_ci.py:124-157)  -> `c16f_findTubeRadius`
* the quantile of the radii and the assembly of the two bands (roc_ci.py:82-99)
                                                             -> `c16f_deltaOf`, `c16f_bandFromDelta`,
                                                                `c16f_fixedWidthBand`, `c16f_fixedWidthBandO`

Same case splits and order of operations as the Python.  Core Lean only, exact rationals.

Oracles (not rational arithmetic), parameters of the model:
* `top = np.nextafter(1.0, np.inf)`   (theorems assume `1 ≤ top`, recorded in their statements),
* `k = np.sqrt(len(scores.neg) / len(scores.pos))`   (theorems assume `0 ≤ k`),
* the per-sample tube radii when the band is assembled from given radii (`radii`; they are outputs of
  `c16f_findTubeRadius`, which are proved to lie in `[0, 1)`).

Domain of the model (all call sites satisfy it; stated here, never silently defaulted):
* `np.interp` is modelled for a table `xp` that is non-decreasing (NumPy's documented requirement;
  its compiled search `binary_search_with_guess` then returns the last index `j` with
  `xp[j] ≤ x`, which is what the linear scan `c16f_interpScan` computes; for an unsorted table
  NumPy's answer depends on its search path and is not modelled).  `C16_fwb_displace_sorted` proves
  that every table the band functions build is sorted when the curve is monotone.
* The arrays of one curve have equal lengths (`x`/`y`, `xs`/`ys`); for `xs`/`ys` of different
  lengths NumPy raises a broadcasting `ValueError` or broadcasts a length-1 array, not modelled
  (the comparisons are made on `zip`).
* Rates are defined numbers (`Rat`).  With an empty class (NaN rates) the real function never
  reaches the band assembly: `len(neg) / len(pos)` raises `ZeroDivisionError`, or the threshold
  setting resp. `_find_tube_radius` raise `ValueError`.  `c16f_fixedWidthBandO` is the wrapper on
  possibly-NaN rates.
-/
import SA.Model.Bootstrap
import SA.Model.RocCI

namespace SA

/-- `np.clip(a, 0.0, 1.0)`, i.e. `minimum(maximum(a, 0.0), 1.0)` -/
def c16f_clip01 (a : Rat) : Rat := min (max a 0) 1

/-- `_displace_curve(x, y, v)` (roc_ci.py:106-121) with `v = (v0, v1)` and
`top = np.nextafter(1.0, np.inf)`:
`x = np.clip(x + v[0], 0, 1)`, `y = np.clip(y + v[1], 0, 1)`, then `x[0], y[0] = 0, top` and
`x[-1], y[-1] = top, 0` (in this order, so for one point the result is `([top], [0])`).
`x[0] = ...` on an empty array is an `IndexError` (`Err.other`). -/
def c16f_displaceCurve (top : Rat) (x y : List Rat) (v0 v1 : Rat) :
    Except Err (List Rat × List Rat) :=
  let x1 := x.map fun a => c16f_clip01 (a + v0)
  let y1 := y.map fun b => c16f_clip01 (b + v1)
  if x1.length = 0 ∨ y1.length = 0 then .error .other
  else .ok ((x1.set 0 0).set (x1.length - 1) top, (y1.set 0 top).set (y1.length - 1) 0)

/-- the search loop and the interpolation formula of `np.interp` for one `x` with
`xp[0] ≤ x ≤ xp[-1]`: `(a, b) = (xp[j], fp[j])` is the current table point, the list holds the
points after it.  `for (i = 1; i < len && key >= arr[i]; ++i)` advances while the next abscissa is
`≤ x`; then `j == len - 1 -> fp[j]`, `xp[j] == x -> fp[j]`, else
`slope * (x - xp[j]) + fp[j]` with `slope = (fp[j+1] - fp[j]) / (xp[j+1] - xp[j])`. -/
def c16f_interpScan (x : Rat) : Rat → Rat → List (Rat × Rat) → Rat
  | _, b, [] => b
  | a, b, (a', b') :: rest =>
    if a' ≤ x then c16f_interpScan x a' b' rest
    else if a = x then b
    else (b' - b) / (a' - a) * (x - a) + b

/-- `np.interp(x, xp, fp)` for one `x` on the table `pts = zip(xp, fp)` (non-empty):
`x > xp[-1] -> fp[-1]` (right), `x < xp[0] -> fp[0]` (left), else the scan.  The value `0` for the
empty table is never used: `c16f_interp` raises before. -/
def c16f_interp1 (x : Rat) (pts : List (Rat × Rat)) : Rat :=
  match pts with
  | [] => 0
  | (a, b) :: rest =>
    let last := rest.getLast?.getD (a, b)
    if last.1 < x then last.2
    else if x < a then b
    else c16f_interpScan x a b rest

/-- `np.interp(xs, xp, fp)`: `ValueError` for an empty table ("array of sample points is empty")
and for `len(fp) != len(xp)` ("fp and xp are not of the same length"). -/
def c16f_interp (xs xp fp : List Rat) : Except Err (List Rat) :=
  if xp.length = 0 ∨ xp.length ≠ fp.length then .error .valueError
  else .ok (xs.map fun x => c16f_interp1 x (xp.zip fp))

/-- `np.all(a >= b)` on two arrays of the same length -/
def c16f_allGe (a b : List Rat) : Bool := (a.zip b).all fun p => decide (p.2 ≤ p.1)

/-- `np.all(a <= b)` on two arrays of the same length -/
def c16f_allLe (a b : List Rat) : Bool := (a.zip b).all fun p => decide (p.1 ≤ p.2)

/-- `_is_contained(_delta)` (roc_ci.py:136-145): the curve `(x, y)` displaced by `+delta * (1, k)`
lies on or above the sample curve `(xs, ys)` at every `xs`, and displaced by `-delta * (1, k)` on or
below it. -/
def c16f_isContained (top : Rat) (x y xs ys : List Rat) (k delta : Rat) : Except Err Bool :=
  match c16f_displaceCurve top x y (delta * 1) (delta * k) with
  | .error e => .error e
  | .ok (xp, yp) =>
    match c16f_interp xs xp yp with
    | .error e => .error e
    | .ok ypv =>
      let above := c16f_allGe ypv ys
      match c16f_displaceCurve top x y (-delta * 1) (-delta * k) with
      | .error e => .error e
      | .ok (xm, ym) =>
        match c16f_interp xs xm ym with
        | .error e => .error e
        | .ok ymv =>
          let below := c16f_allLe ymv ys
          .ok (above && below)

/-- `tol = 1e-2` (roc_ci.py:153): the exact value of the float literal -/
def c16f_tol : Rat := 5764607523034235 / 576460752303423488

/-- the `while delta_max - delta_min > tol` loop (roc_ci.py:154-160) on the bracket `(lo, hi)`.
`fuel` bounds the number of iterations for the termination checker; from `(0, 1)` the loop makes
exactly 7 iterations (`1/128 ≤ tol < 1/64`), and `C16_fwb_bisect_fuel` proves that the result does
not depend on `fuel ≥ 7`. -/
def c16f_bisectLoop (contained : Rat → Except Err Bool) : Nat → Rat → Rat → Except Err Rat
  | 0, lo, hi => .ok ((hi + lo) / 2)
  | fuel + 1, lo, hi =>
    if hi - lo > c16f_tol then
      let delta := (hi + lo) / 2
      match contained delta with
      | .error e => .error e
      | .ok true => c16f_bisectLoop contained fuel lo delta
      | .ok false => c16f_bisectLoop contained fuel delta hi
    else .ok ((hi + lo) / 2)

/-- `_find_tube_radius(x, y, xs, ys, k)` (roc_ci.py:124-161): `0.0` if the undisplaced curve
contains the sample curve; `ValueError` if radius `4.0` does not; else the midpoint of the final
bisection bracket started at `(0.0, 1.0)`. -/
def c16f_findTubeRadius (top : Rat) (x y xs ys : List Rat) (k : Rat) : Except Err Rat :=
  match c16f_isContained top x y xs ys k 0 with
  | .error e => .error e
  | .ok true => .ok 0
  | .ok false =>
    match c16f_isContained top x y xs ys k 4 with
    | .error e => .error e
    | .ok false => .error .valueError
    | .ok true => c16f_bisectLoop (c16f_isContained top x y xs ys k) 7 0 1

/-- `bootstrap_ci(theta=delta_samples, alpha=2 * alpha, method="quantile")[1]`
(roc_ci.py:82; utils.py:77-82): the linear quantile of the radii at level `1 - (2 alpha) / 2`.
`none` = NaN (no radii, `nb_samples = 0`). -/
def c16f_deltaOf (radii : List Rat) (alpha : Rat) : Option Rat :=
  quantileLinear (radii.map some) (1 - 2 * alpha / 2)

/-- the band of `fixed_width_band_ci` (roc_ci.py:84-95) from the curve `(f, g) = (fnr, fpr)`, the
slope `k` and the radius `delta`:
`v = (delta, delta * k)`; the curve displaced by `+v` and by `-v`;
`fnr_ci = stack([interp(fpr, fpr_minus[::-1], fnr_minus[::-1]), interp(fpr, fpr_plus[::-1], fnr_plus[::-1])])`,
`fpr_ci = stack([interp(fnr, fnr_minus, fpr_minus), interp(fnr, fnr_plus, fpr_plus)])`.
Returns `(fnr_ci, fpr_ci)` as rows `(lower, upper)`. -/
def c16f_bandFromDelta (top : Rat) (f g : List Rat) (k delta : Rat) :
    Except Err (List Iv × List Iv) :=
  match c16f_displaceCurve top f g delta (delta * k) with
  | .error e => .error e
  | .ok (fP, gP) =>
    match c16f_displaceCurve top f g (-delta) (-(delta * k)) with
    | .error e => .error e
    | .ok (fM, gM) =>
      match c16f_interp g gM.reverse fM.reverse with
      | .error e => .error e
      | .ok fnrLo =>
        match c16f_interp g gP.reverse fP.reverse with
        | .error e => .error e
        | .ok fnrHi =>
          match c16f_interp f fM gM with
          | .error e => .error e
          | .ok fprLo =>
            match c16f_interp f fP gP with
            | .error e => .error e
            | .ok fprHi => .ok (fnrLo.zip fnrHi, fprLo.zip fprHi)

/-- `fixed_width_band_ci` after the bootstrap loop (roc_ci.py:82-99), on defined rates and at
least one radius.  `none` when there is no radius (`delta` is NaN then, see
`c16f_fixedWidthBandO`). -/
def c16f_fixedWidthBand (top : Rat) (f g : List Rat) (k : Rat) (radii : List Rat) (alpha : Rat) :
    Option (Except Err (List Iv × List Iv)) :=
  match c16f_deltaOf radii alpha with
  | none => none
  | some delta => some (c16f_bandFromDelta top f g k delta)

/-- all entries defined? -/
def c16f_defined : List (Option Rat) → Option (List Rat)
  | [] => some []
  | none :: _ => none
  | some a :: rest =>
    match c16f_defined rest with
    | none => none
    | some l => some (a :: l)

/-- the same on possibly-NaN rates (`none` = NaN).  On defined rates with at least one radius
this is `c16f_fixedWidthBand` with the rows lifted.
NOT a model of NumPy when a rate or `delta` is NaN: `np.interp` on a table containing NaN depends on
its search path.  Every row is reported as NaN then (an empty curve is the `IndexError` of
`_displace_curve`).  This branch is not reached by `fixed_width_band_ci` for an object with both
classes non-empty and `nb_samples ≥ 1` (`C16_fwb_defined`). -/
def c16f_fixedWidthBandO (top : Rat) (f g : List (Option Rat)) (k : Rat) (radii : List Rat)
    (alpha : Rat) : Except Err (List OIv × List OIv) :=
  match c16f_defined f, c16f_defined g, c16f_deltaOf radii alpha with
  | some f', some g', some delta =>
    match c16f_bandFromDelta top f' g' k delta with
    | .error e => .error e
    | .ok b => .ok (b.1.map Iv.lift, b.2.map Iv.lift)
  | _, _, _ =>
    if f.length = 0 ∨ g.length = 0 then .error .other
    else .ok (g.map fun _ => (none, none), f.map fun _ => (none, none))

end SA
