/-
Floating-point versions of the two interpolation formulas and executable error bounds.

* `interpFl`, `indexTargetFl`, `invertIncreasingFl`: `_invert_increasing_function`
  (scores.py:610-648) with a rounding function `fl` applied after EVERY arithmetic operation the
  Python performs (`1.0 / len`, `target_ratio - min_ratio`, `target_ratio * len`,
  `right_idx - target`, `la * s[l]`, `1 - la`, `(1 - la) * s[r]`, the final `+`).  `np.floor`,
  `np.ceil`, the integer conversions, comparisons and the array accesses are exact.
* `segPointFl`: the per-segment formula of `utils.invert_pl_function` (utils.py:207-208).
* `FExpr`: arithmetic expressions over float inputs with a running error bound `FExpr.err`
  (used for the target rescaling of `threshold_at_*` and the normalisation of
  `_threshold_at_ratio`, i.e. everything that happens to a requested target before it reaches
  `_invert_increasing_function`).
* `interpEps`, `interpEpsR`, `interpEpsLip`, `plEps`: closed-form bounds; the theorems in
  `SA/Theorems/FloatBounds.lean` show that they bound the distance between the float versions
  and the exact models for every `fl` with `|fl x - x| ≤ u * |x|`.

Core Lean only (linked into the driver).  With `fl = id` every float version is the exact model
(`SA/Theorems/FloatBounds.lean`, `*_id`).
-/
import SA.Model.InvertPL

namespace SA

/-- `|x|` -/
def fabs (x : Rat) : Rat := if x < 0 then -x else x

/-- `(1+u)^2 - 1` -/
def gam2 (u : Rat) : Rat := u * (2 + u)

/-- `(1+u)^3 - 1` -/
def gam3 (u : Rat) : Rat := u * (3 + 3 * u + u * u)

/-- `(1+u)^2 / (1-u) - 1`: relative error of `fl (fl p / fl q)` for exact `p`, `q` -/
def gamDiv (u : Rat) : Rat := (1 + u) * (1 + u) / (1 - u) - 1

/-! ### float versions of the model functions -/

/-- `la * a + (1 - la) * b` as the Python evaluates it: two products, one `1 - la`, one sum -/
def interpEval (fl : Rat → Rat) (la a b : Rat) : Rat := fl (fl (la * a) + fl (fl (1 - la) * b))

/-- the `linear` branch for a (float) index target `x`: `la = right_idx - target`,
`la * s[l] + (1 - la) * s[r]`; floor / ceil / clamping are exact -/
def interpFl (fl : Rat → Rat) (s : List Rat) (x : Rat) : Rat :=
  let la := fl (((ceilQ x : Int) : Rat) - x)
  fl (fl (la * s.getD (clampIdx x.floor s.length) 0) +
    fl (fl (1 - la) * s.getD (clampIdx (ceilQ x) s.length) 0))

/-- `target = target_ratio * len(scores)` after the optional shift by `min_ratio = 1.0 / len` -/
def indexTargetFl (fl : Rat → Rat) (s : List Rat) (r : Rat) (leftCont : Bool) : Rat :=
  fl ((if leftCont then r else fl (r - fl (1 / (s.length : Rat)))) * (s.length : Rat))

/-- `_invert_increasing_function` for one target with every arithmetic result rounded by `fl`
(same case splits as `invertIncreasing`) -/
def invertIncreasingFl (fl : Rat → Rat) (ulp : Ulp) (s : List Rat) (r : Rat) (leftCont : Bool)
    (m : Method) : Rat :=
  let n : Rat := (s.length : Rat)
  let isMax : Bool := decide (1 ≤ r)
  let r' : Rat := if leftCont then r else fl (r - fl (1 / n))
  let target : Rat := fl (r' * n)
  let li := clampIdx target.floor s.length
  let ri := clampIdx (ceilQ target) s.length
  let la : Rat := fl (((ceilQ target : Int) : Rat) - target)
  let thr : Rat := match m with
    | .linear => fl (fl (la * s.getD li 0) + fl (fl (1 - la) * s.getD ri 0))
    | .lower => s.getD li 0
    | .higher => s.getD ri 0
  let thr : Rat := if r' ≤ 0 then ulp.down (s.getD 0 0) else thr
  if isMax then ulp.up (s.getD (s.length - 1) 0) else thr

/-- utils.py:207-208 with rounding: `la = (t - y[j]) / (y[j+1] - y[j])`,
`z = (1 - la) * x[j] + la * x[j+1]` -/
def segPointFl (fl : Rat → Rat) (x y : List Rat) (t : Rat) (j : Nat) : Rat :=
  let la := fl (fl (t - y.getD j 0) / fl (y.getD (j + 1) 0 - y.getD j 0))
  fl (fl (fl (1 - la) * x.getD j 0) + fl (la * x.getD (j + 1) 0))

/-! ### closed-form bounds -/

/-- bound for `fl (fl (la * a) + fl (fl (1 - la) * b))` against `la * a + (1 - la) * b`
for arbitrary `la` -/
def interpErrW (u la a b : Rat) : Rat :=
  gam2 u * (fabs la * fabs a) + gam3 u * (fabs (1 - la) * fabs b)

/-- the same for `0 ≤ la ≤ 1`: `((1+u)^3 - 1) * max |a| |b|` -/
def interpErr (u a b : Rat) : Rat := gam3 u * max (fabs a) (fabs b)

/-- total bound when the weight used is within `d` of the exact weight `0 ≤ la ≤ 1` -/
def interpEpsW (u d a b : Rat) : Rat :=
  d * fabs (a - b) + gam3 u * ((1 + 2 * d) * max (fabs a) (fabs b))

/-- error of the shifted ratio: `fl (r~ - fl (1/n))` against `r - 1/n` when `|r~ - r| ≤ dr` -/
def shiftErr (u : Rat) (n : Nat) (lc : Bool) (r dr : Rat) : Rat :=
  if lc then dr
  else (dr + u * (1 / (n : Rat))) + u * (fabs (r - 1 / (n : Rat)) + (dr + u * (1 / (n : Rat))))

/-- error of the index target `fl (r'~ * n)` against `r' * n` -/
def targetErr (u : Rat) (n : Nat) (lc : Bool) (r dr : Rat) : Rat :=
  let r' : Rat := if lc then r else r - 1 / (n : Rat)
  let e : Rat := shiftErr u n lc r dr * (n : Rat)
  e + u * (fabs (r' * (n : Rat)) + e)

/-- error of the weight `fl (R - target~)` against `R - target ∈ [0, 1]` when
`|target~ - target| ≤ dt` -/
def weightErr (u dt : Rat) : Rat := dt + u * (1 + dt)

/-- **the bound of `threshold_fl_error`**: float threshold against the exact model's threshold
when both interpolate between the same two neighbours `a`, `b`; `n` samples, exact normalised
target ratio `r`, float ratio within `dr` of it, `lc` = no shift -/
def interpEpsR (u : Rat) (n : Nat) (lc : Bool) (r dr a b : Rat) : Rat :=
  interpEpsW u (weightErr u (targetErr u n lc r dr)) a b

/-- the case of an exactly known ratio and no shift: the weight error is
`u*r*n + u*(1 + u*r*n)` -/
def interpEps (u : Rat) (n : Nat) (r a b : Rat) : Rat := interpEpsR u n true r 0 a b

/-- distance of `x` from the nearest integer -/
def fracDist (x : Rat) : Rat := min (x - (x.floor : Int)) ((x.floor : Int) + 1 - x)

/-- the exact target is interior by a margin that keeps the float computation interior as well
(neither `is_max` nor `target_ratio <= 0` applies on either side) -/
def flInterior (u : Rat) (n : Nat) (lc : Bool) (r dr : Rat) : Bool :=
  decide (r + dr < 1) && decide (shiftErr u n lc r dr < (if lc then r else r - 1 / (n : Rat)))

/-- the exact index target is farther from every integer than the float index target can be
from it: both have the same floor and ceiling, i.e. interpolate between the same neighbours -/
def flSameCell (u : Rat) (s : List Rat) (lc : Bool) (r dr : Rat) : Bool :=
  decide (targetErr u s.length lc r dr < fracDist (indexTarget s r lc))

/-- accumulator loop for `maxAbsL` (tail recursive: the arrays can be long) -/
def maxAbsAux : Rat → List Rat → Rat
  | m, [] => m
  | m, v :: vs => maxAbsAux (max m (fabs v)) vs

/-- largest `|v|` of a list (0 for the empty list) -/
def maxAbsL (l : List Rat) : Rat := maxAbsAux 0 l

/-- accumulator loop for `maxGapL` -/
def maxGapAux : Rat → List Rat → Rat
  | m, a :: b :: rest => maxGapAux (max m (b - a)) (b :: rest)
  | m, _ => m

/-- largest difference of consecutive entries, at least 0 -/
def maxGapL (l : List Rat) : Rat := maxGapAux 0 l

/-- bound without the same-neighbours hypothesis, for a sorted list: the float threshold is the
float interpolation at the float index target (weight error `≤ u`), and the exact interpolation
is Lipschitz in the index target with constant `maxGapL s` -/
def interpEpsLipG (u gap mab dt : Rat) : Rat := gap * dt + (2 * u + gam3 u * (1 + 2 * u)) * mab

/-- `interpEpsLipG` with the list's largest gap and largest magnitude -/
def interpEpsLip (u : Rat) (s : List Rat) (dt : Rat) : Rat :=
  interpEpsLipG u (maxGapL s) (maxAbsL s) dt

/-- **the bound for one segment of `invert_pl_function`** between the sample positions
`x0 = x[j]`, `x1 = x[j+1]` -/
def plEps (u x0 x1 : Rat) : Rat := interpEpsW u (gamDiv u) x1 x0

/-! ### expressions with a running error bound -/

/-- arithmetic on float inputs; `lit` is an input (a float or an integer, exactly known) -/
inductive FExpr where
  | lit (c : Rat)
  | add (x y : FExpr)
  | sub (x y : FExpr)
  | mul (x y : FExpr)
  | div (x y : FExpr)
  | maxE (x y : FExpr)
  | minE (x y : FExpr)
deriving Repr, Inhabited

namespace FExpr

/-- exact value -/
def val : FExpr → Rat
  | lit c => c
  | add x y => x.val + y.val
  | sub x y => x.val - y.val
  | mul x y => x.val * y.val
  | div x y => x.val / y.val
  | maxE x y => max x.val y.val
  | minE x y => min x.val y.val

/-- value computed with rounding after every arithmetic operation (`np.maximum` /
`np.minimum` select one of their arguments: no rounding) -/
def evalFl (fl : Rat → Rat) : FExpr → Rat
  | lit c => c
  | add x y => fl (x.evalFl fl + y.evalFl fl)
  | sub x y => fl (x.evalFl fl - y.evalFl fl)
  | mul x y => fl (x.evalFl fl * y.evalFl fl)
  | div x y => fl (x.evalFl fl / y.evalFl fl)
  | maxE x y => max (x.evalFl fl) (y.evalFl fl)
  | minE x y => min (x.evalFl fl) (y.evalFl fl)

/-- one rounding of a quantity with exact value `v` known to within `e` -/
def roundErr (u v e : Rat) : Rat := e + u * (fabs v + e)

/-- running bound on `|evalFl - val|` -/
def err (u : Rat) : FExpr → Rat
  | lit _ => 0
  | add x y => roundErr u (x.val + y.val) (x.err u + y.err u)
  | sub x y => roundErr u (x.val - y.val) (x.err u + y.err u)
  | mul x y =>
    roundErr u (x.val * y.val) (x.err u * fabs y.val + y.err u * fabs x.val + x.err u * y.err u)
  | div x y =>
    roundErr u (x.val / y.val)
      ((x.err u * fabs y.val + y.err u * fabs x.val) / (fabs y.val * (fabs y.val - y.err u)))
  | maxE x y => max (x.err u) (y.err u)
  | minE x y => max (x.err u) (y.err u)

/-- every divisor is bounded away from zero by more than its own error bound -/
def ok (u : Rat) : FExpr → Bool
  | lit _ => true
  | add x y => x.ok u && y.ok u
  | sub x y => x.ok u && y.ok u
  | mul x y => x.ok u && y.ok u
  | div x y => x.ok u && y.ok u && decide (y.err u < fabs y.val)
  | maxE x y => x.ok u && y.ok u
  | minE x y => x.ok u && y.ok u

end FExpr

/-! ### the target's way to `_invert_increasing_function` as an expression -/

/-- `hard_pos_ratio` (scores.py:146-152) -/
def Scores.hardPosRatioE (s : Scores) : FExpr :=
  if s.easyPos > 0 then .div (.lit (s.pos.length : Rat)) (.lit ((s.pos.length + s.easyPos : Nat) : Rat))
  else .lit 1

/-- `hard_neg_ratio` (scores.py:154-160) -/
def Scores.hardNegRatioE (s : Scores) : FExpr :=
  if s.easyNeg > 0 then .div (.lit (s.neg.length : Rat)) (.lit ((s.neg.length + s.easyNeg : Nat) : Rat))
  else .lit 1

/-- `hard_ratio = 1.0 - easy_ratio` (scores.py:198-208) -/
def Scores.hardRatioE (s : Scores) : FExpr :=
  .sub (.lit 1) (if s.nbEasy > 0 then .div (.lit (s.nbEasy : Rat)) (.lit (s.nbAll : Rat)) else .lit 0)

/-- the rescaling of the requested target in `threshold_at_<metric>` (scores.py:413-537) -/
def Scores.rescaleE (s : Scores) : Metric → Rat → FExpr
  | .tpr, r => .minE (.div (.maxE (.sub (.mul (.lit r) (.lit (s.nbAllPos : Rat))) (.lit (s.easyPos : Rat)))
      (.lit 0)) (.lit (s.pos.length : Rat))) (.lit 1)
  | .fnr, r => .minE (.div (.lit r) s.hardPosRatioE) (.lit 1)
  | .tnr, r => .minE (.div (.maxE (.sub (.mul (.lit r) (.lit (s.nbAllNeg : Rat))) (.lit (s.easyNeg : Rat)))
      (.lit 0)) (.lit (s.neg.length : Rat))) (.lit 1)
  | .fpr, r => .minE (.div (.lit r) s.hardNegRatioE) (.lit 1)
  | .topr, r => .minE (.div (.maxE (.sub (.lit r) (.div (.lit (s.easyPos : Rat)) (.lit (s.nbAll : Rat))))
      (.lit 0)) s.hardRatioE) (.lit 1)
  | .tonr, r => .minE (.div (.maxE (.sub (.lit r) (.div (.lit (s.easyNeg : Rat)) (.lit (s.nbAll : Rat))))
      (.lit 0)) s.hardRatioE) (.lit 1)

/-- the two `target_ratio = 1.0 - target_ratio` steps of `_threshold_at_ratio`
(scores.py:596-603) -/
def normaliseE (cfg : Cfg) (e : FExpr) (increasing : Bool) : FExpr :=
  let e1 : FExpr := if !increasing then .sub (.lit 1) e else e
  if cfg.scoreClass != .pos then .sub (.lit 1) e1 else e1

/-- the ratio handed to `_invert_increasing_function` by `threshold_at_<metric>(r)` -/
def Scores.ratioE (s : Scores) (metric : Metric) (r : Rat) : FExpr :=
  normaliseE s.cfg (s.rescaleE metric r) metric.increasing

/-- `Scores.threshold_at_<metric>(r, method=m)` computed in floating point -/
def Scores.thresholdAtFl (fl : Rat → Rat) (ulp : Ulp) (s : Scores) (metric : Metric) (r : Rat)
    (m : Method) : Rat :=
  let n := normalise s.cfg 0 metric.increasing metric.ratioClass m
  invertIncreasingFl fl ulp (s.metricArray metric) ((s.ratioE metric r).evalFl fl) n.2.1 n.2.2

end SA
