/-
C04, floating point: `utils.binomial_ci` (utils.py:24-33) and the `*_ci` wrappers of metrics.py
evaluated with a rounding after every operation NumPy performs, and an executable error bound.

Float model:
* `count`, `nobs` are expressions (`FExpr`): a cell is an exactly known number, the class total
  `np.sum(matrix[..., r, :])` is ONE rounded addition of two cells (exact for integers);
* `p = np.divide(count, nobs)`, `1 - p`, `p * (1 - p)`, `/ nobs`: one rounding each (`FExpr.evalFl`);
* `np.sqrt` is an ORACLE rounded once: `sqf x ≥ 0` and `|sqf x ^ 2 - x| ≤ ((1+u)^2 - 1) x`
  (`sqf x = sqrt x (1 + δ)`, `|δ| ≤ u`) for `x ≥ 0`;
* `z = scipy.stats.norm.isf(alpha / 2)` is an exactly known double (recorded oracle);
  `z * std`, `p - dist`, `p + dist`: one rounding each.

The exact model `binomialCI z sq count nobs` uses a square-root oracle `sq`; all that is used of it
is the value `σ = sq v` at the exact radicand `v = p (1 - p) / nobs`, with `0 < σ` and
`|σ^2 - v| ≤ κ v` (a rational approximation of `sqrt v`; the bound is continuous in `κ`).

Core Lean only (linked into the driver).
-/
import SA.Model.Metrics
import SA.Model.FloatBound

namespace SA

/-- `p = count / nobs` -/
def ciPE (cE nE : FExpr) : FExpr := .div cE nE

/-- the radicand `p * (1 - p) / nobs` -/
def ciVarE (cE nE : FExpr) : FExpr := .div (.mul (ciPE cE nE) (.sub (.lit 1) (ciPE cE nE))) nE

/-- `utils.binomial_ci` in floating point for one entry with `nobs != 0` -/
def ciFl (fl sqf : Rat → Rat) (z : Rat) (cE nE : FExpr) : Rat × Rat :=
  let p := (ciPE cE nE).evalFl fl
  let std := sqf ((ciVarE cE nE).evalFl fl)
  let dist := fl (z * std)
  (fl (p - dist), fl (p + dist))

/-- bound on `|σ~^2 - σ^2|`: the rounding of the float square root, the error of the float
radicand and the accuracy `κ` of the exact side's square root -/
def ciSqErr (u kap v ev : Rat) : Rat := gam2 u * (v + ev) + ev + kap * v

/-- bound on `|σ~ - σ|` from `|σ~^2 - σ^2| ≤ E`: `E / (2 σ - E / σ)` -/
def ciSigErr (sig E : Rat) : Rat := E / (2 * sig - E / sig)

/-- bound on `|fl (z σ~) - z σ|` -/
def ciDistErr (u z sig esig : Rat) : Rat := FExpr.roundErr u (z * sig) (fabs z * esig)

/-- **the bounds of `ci_fl_error`** for the lower and the upper limit -/
def ciEps (u kap z sig : Rat) (cE nE : FExpr) : Rat × Rat :=
  let p := (ciPE cE nE).val
  let ep := (ciPE cE nE).err u
  let v := (ciVarE cE nE).val
  let ev := (ciVarE cE nE).err u
  let ed := ciDistErr u z sig (ciSigErr sig (ciSqErr u kap v ev))
  (FExpr.roundErr u (p - z * sig) (ep + ed), FExpr.roundErr u (p + z * sig) (ep + ed))

/-- the executable guard of `ci_fl_error`: divisors safely non-zero, the float radicand stays
non-negative, `σ` approximates `sqrt v` to relative accuracy `κ` (squared), and the perturbation of
the square is small against `σ^2` -/
def ciOKGuard (u kap sig : Rat) (cE nE : FExpr) : Bool :=
  let v := (ciVarE cE nE).val
  let ev := (ciVarE cE nE).err u
  (ciVarE cE nE).ok u && decide (0 < sig) && decide (fabs (sig * sig - v) ≤ kap * v) &&
    decide (ev ≤ v) && decide (ciSqErr u kap v ev < 2 * (sig * sig))

/-- `count` and `nobs` of the four wrappers `tpr_ci`, `tnr_ci`, `fpr_ci`, `fnr_ci` (metrics.py):
a cell and the ROUNDED sum of its row -/
def CMq.ciExprs (m : CMq) : List (FExpr × FExpr) :=
  [(.lit m.tp, .add (.lit m.tp) (.lit m.fn)), (.lit m.tn, .add (.lit m.fp) (.lit m.tn)),
   (.lit m.fp, .add (.lit m.fp) (.lit m.tn)), (.lit m.fn, .add (.lit m.tp) (.lit m.fn))]

end SA
