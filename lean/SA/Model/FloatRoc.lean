/-
C15, floating point: the support thresholds of `roc()` (roc_curve.py:256-277) are results of
`threshold_at_fnr` / `threshold_at_fpr` for targets that are either supplied by the caller (exact
doubles) or produced by `np.linspace(0.0, 1.0, k)`, i.e. THEMSELVES rounded:
`linspace[i] = fl (i * fl (1 / (k - 1)))` for `i < k - 1`, the last entry is set to `stop = 1.0`,
`[0.0]` for `k = 1` (NumPy `linspace`: `step = delta / div`, `y = arange(0, num) * step + start`,
`y[-1] = stop`).

* `linspaceE k i`: that target as an expression with a running error bound (`FExpr`)
* `Scores.rescaleEx` / `Scores.ratioEx`: the target's way to `_invert_increasing_function` for a
  target that is an expression (generalises `Scores.rescaleE` / `Scores.ratioE`, which take an exactly
  known double)
* `Scores.thresholdAtFlE`: `threshold_at_<metric>` in floating point on such a target

Core Lean only (linked into the driver).
-/
import SA.Model.FloatBound
import SA.Model.Roc

namespace SA

/-- entry `i` of `np.linspace(0.0, 1.0, k)` as NumPy computes it -/
def linspaceE (k i : Nat) : FExpr :=
  if k ≤ 1 then .lit 0
  else if i + 1 = k then .lit 1
  else .mul (.lit (i : Rat)) (.div (.lit 1) (.lit ((k - 1 : Nat) : Rat)))

/-- `np.linspace(0.0, 1.0, k)` as expressions -/
def linspaceEs (k : Nat) : List FExpr := (List.range k).map (linspaceE k)

/-- the rescaling of the requested target in `threshold_at_<metric>` (scores.py:413-537) for a
target given as an expression -/
def Scores.rescaleEx (s : Scores) : Metric → FExpr → FExpr
  | .tpr, e => .minE (.div (.maxE (.sub (.mul e (.lit (s.nbAllPos : Rat))) (.lit (s.easyPos : Rat)))
      (.lit 0)) (.lit (s.pos.length : Rat))) (.lit 1)
  | .fnr, e => .minE (.div e s.hardPosRatioE) (.lit 1)
  | .tnr, e => .minE (.div (.maxE (.sub (.mul e (.lit (s.nbAllNeg : Rat))) (.lit (s.easyNeg : Rat)))
      (.lit 0)) (.lit (s.neg.length : Rat))) (.lit 1)
  | .fpr, e => .minE (.div e s.hardNegRatioE) (.lit 1)
  | .topr, e => .minE (.div (.maxE (.sub e (.div (.lit (s.easyPos : Rat)) (.lit (s.nbAll : Rat))))
      (.lit 0)) s.hardRatioE) (.lit 1)
  | .tonr, e => .minE (.div (.maxE (.sub e (.div (.lit (s.easyNeg : Rat)) (.lit (s.nbAll : Rat))))
      (.lit 0)) s.hardRatioE) (.lit 1)

/-- the ratio handed to `_invert_increasing_function` by `threshold_at_<metric>(e)` -/
def Scores.ratioEx (s : Scores) (metric : Metric) (e : FExpr) : FExpr :=
  normaliseE s.cfg (s.rescaleEx metric e) metric.increasing

/-- `Scores.threshold_at_<metric>(e, method=m)` computed in floating point, the target `e` itself
computed in floating point -/
def Scores.thresholdAtFlE (fl : Rat → Rat) (ulp : Ulp) (s : Scores) (metric : Metric) (e : FExpr)
    (m : Method) : Rat :=
  let n := normalise s.cfg 0 metric.increasing metric.ratioClass m
  invertIncreasingFl fl ulp (s.metricArray metric) ((s.ratioEx metric e).evalFl fl) n.2.1 n.2.2

end SA
