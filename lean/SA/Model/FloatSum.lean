/-
Floating-point summation in ANY order, and the float evaluation of `Scores.auc`'s trapezoid part.

* `SumTree`: a summation order = a binary tree whose leaves are positions of the summed array;
  every inner node is one rounded addition.  Left-to-right accumulation (`seqTree`), NumPy's
  pairwise summation with its eight unrolled accumulators, blocked / buffered reductions and every
  other way `np.sum` may add up an array are all trees whose leaves are a permutation of
  `0 .. n-1`.  The bound proved for such a tree (`SA/Proofs/FloatSum.lean`) depends only on `n`:
  `((1+u)^(n-1) - 1) * Σ|a_i|`.
* `gamPow u k = (1+u)^k - 1` (exact) and the cheap executable majorant `gamK u k = k u / (1 - k u)`.
* `trapTermsFl`: the terms `d * (y[1:] + y[:-1]) / 2.0` of `np.trapezoid` with a rounding after
  each of the four operations (`np.diff`, `+`, `*`, `/ 2.0`); `trapTE`: exact term and error bound
  of each term for inputs that carry one rounding each (rates `count / N`, limits `k / N`).
* `aucEps`: the executable bound for the whole of `np.abs(np.trapezoid(y, x))`.
* `Scores.aucArrays` / `Scores.aucFl`: the arrays handed to `np.trapezoid` by `Scores.auc` (exact
  model), and `Scores.auc` evaluated in floating point: every rate is `fl (count / N)`, the limits
  are `fl lower`, `fl upper`, the comparisons (`x[-1] < x[0]`, the two `searchsorted`) act on the
  rounded values, the summation order is a parameter.
* `aucCmpOK`: executable guard under which every comparison has the same outcome on the rounded
  values as on the exact ones, for EVERY rounding function of the model.

Core Lean only (linked into the driver).
-/
import SA.Model.Auc
import SA.Model.FloatBound

namespace SA

/-! ### summation orders -/

/-- a summation order: `leaf i` is the array entry at position `i`, `node l r` is one rounded
addition of the two partial sums -/
inductive SumTree where
  | leaf (i : Nat)
  | node (l r : SumTree)
deriving Repr, Inhabited

namespace SumTree

/-- the positions summed, left to right -/
def leaves : SumTree → List Nat
  | leaf i => [i]
  | node l r => l.leaves ++ r.leaves

/-- longest chain of additions an entry passes through -/
def depth : SumTree → Nat
  | leaf _ => 0
  | node l r => max l.depth r.depth + 1

/-- the sum as computed: one rounding per addition -/
def evalFl (fl : Rat → Rat) (a : List Rat) : SumTree → Rat
  | leaf i => a.getD i 0
  | node l r => fl (l.evalFl fl a + r.evalFl fl a)

/-- the exact sum of the entries at the leaves -/
def exact (a : List Rat) : SumTree → Rat
  | leaf i => a.getD i 0
  | node l r => l.exact a + r.exact a

/-- `Σ |a_i|` over the leaves -/
def absSum (a : List Rat) : SumTree → Rat
  | leaf i => fabs (a.getD i 0)
  | node l r => l.absSum a + r.absSum a

end SumTree

/-- left-to-right accumulation `((a_0 + a_1) + a_2) + ...` of `n + 1` entries
(the order of a Python loop and of `np.sum` on fewer than 8 entries) -/
def seqTree : Nat → SumTree
  | 0 => .leaf 0
  | n + 1 => .node (seqTree n) (.leaf (n + 1))

/-- `b ^ k` by repeated multiplication (core `Rat` only) -/
def powN (b : Rat) : Nat → Rat
  | 0 => 1
  | k + 1 => powN b k * b

/-- `(1+u)^k - 1`: relative error of `k` successive roundings -/
def gamPow (u : Rat) (k : Nat) : Rat := powN (1 + u) k - 1

/-- `k u / (1 - k u)`: the classical majorant of `(1+u)^k - 1` for `k u < 1`, cheap to evaluate -/
def gamK (u : Rat) (k : Nat) : Rat := (k : Rat) * u / (1 - (k : Rat) * u)

/-- `Σ v_i` -/
def sumL : List Rat → Rat
  | [] => 0
  | v :: vs => v + sumL vs

/-- `Σ |v_i|` -/
def sumAbsL : List Rat → Rat
  | [] => 0
  | v :: vs => fabs v + sumAbsL vs

/-! ### the terms of `np.trapezoid` -/

/-- `(x1 - x0) * (y0 + y1) / 2`, the exact term (as in `SA.trapezoid`) -/
def trapTerm (x0 x1 y0 y1 : Rat) : Rat := (x1 - x0) * (y0 + y1) / 2

/-- the term as NumPy evaluates it: `d = np.diff(x)`, `y[1:] + y[:-1]`, the product, `/ 2.0` -/
def trapTermFl (fl : Rat → Rat) (x0 x1 y0 y1 : Rat) : Rat :=
  fl (fl (fl (x1 - x0) * fl (y1 + y0)) / 2)

/-- bound on `|trapTermFl fl x0~ x1~ y0~ y1~ - trapTerm x0 x1 y0 y1|` when every input carries
one rounding (`|v~ - v| ≤ u |v|`): the running error through `-`, `+`, `*`, `/ 2` -/
def trapTermErr (u x0 x1 y0 y1 : Rat) : Rat :=
  let d := x1 - x0
  let s := y0 + y1
  let ed := FExpr.roundErr u d (u * fabs x1 + u * fabs x0)
  let es := FExpr.roundErr u s (u * fabs y1 + u * fabs y0)
  let ep := FExpr.roundErr u (d * s) (ed * fabs s + es * fabs d + ed * es)
  FExpr.roundErr u (d * s / 2) (ep / 2)

/-- the exact terms of `np.trapezoid(y, x)` -/
def trapTerms : List Rat → List Rat → List Rat
  | x0 :: x1 :: xs, y0 :: y1 :: ys => trapTerm x0 x1 y0 y1 :: trapTerms (x1 :: xs) (y1 :: ys)
  | _, _ => []

/-- the rounded terms -/
def trapTermsFl (fl : Rat → Rat) : List Rat → List Rat → List Rat
  | x0 :: x1 :: xs, y0 :: y1 :: ys =>
    trapTermFl fl x0 x1 y0 y1 :: trapTermsFl fl (x1 :: xs) (y1 :: ys)
  | _, _ => []

/-- per term: (exact value, error bound of the rounded term) -/
def trapTE (u : Rat) : List Rat → List Rat → List (Rat × Rat)
  | x0 :: x1 :: xs, y0 :: y1 :: ys =>
    (trapTerm x0 x1 y0 y1, trapTermErr u x0 x1 y0 y1) :: trapTE u (x1 :: xs) (y1 :: ys)
  | _, _ => []

/-- `Σ e_i`: the rounding errors of the terms themselves -/
def sumErrTE : List (Rat × Rat) → Rat
  | [] => 0
  | p :: ps => p.2 + sumErrTE ps

/-- `Σ (|T_i| + e_i)`: majorant of `Σ |rounded term|` -/
def sumMagTE : List (Rat × Rat) → Rat
  | [] => 0
  | p :: ps => (fabs p.1 + p.2) + sumMagTE ps

/-- the bound with a given growth factor `g ≥ (1+u)^(n-1) - 1` for the summation -/
def aucEpsWith (g : Rat) (te : List (Rat × Rat)) : Rat := g * sumMagTE te + sumErrTE te

/-- **the bound of `auc_fl_error`, exact growth factor** `(1+u)^(n-1) - 1` for `n` terms -/
def aucEpsPow (u : Rat) (x y : List Rat) : Rat :=
  let te := trapTE u x y
  aucEpsWith (gamPow u (te.length - 1)) te

/-- the same with the cheap growth factor `(n-1) u / (1 - (n-1) u)` (exact term errors) -/
def aucEpsTE (u : Rat) (x y : List Rat) : Rat :=
  let te := trapTE u x y
  aucEpsWith (gamK u (te.length - 1)) te

/-- first-order coefficient of a term's error: `trapTermErr ≤ (1+u)^4 u (K + u K2)` with
`K = (A |S| + B |D| + 4 |D| |S|) / 2`, `A = |x1| + |x0|`, `B = |y1| + |y0|`, `D = x1 - x0`,
`S = y0 + y1` -/
def trapTermK (x0 x1 y0 y1 : Rat) : Rat :=
  ((fabs x1 + fabs x0) * fabs (y0 + y1) + (fabs y1 + fabs y0) * fabs (x1 - x0) +
    4 * (fabs (x1 - x0) * fabs (y0 + y1))) / 2

/-- second-order coefficient `A B / 2` (present even when `D = S = 0`: the rounded inputs need
not cancel) -/
def trapTermK2 (x0 x1 y0 y1 : Rat) : Rat := (fabs x1 + fabs x0) * (fabs y1 + fabs y0) / 2

/-- `(Σ |T_i|, Σ K_i, Σ K2_i)` over the terms: small rationals, no power of `u` inside -/
def trapSums : List Rat → List Rat → Rat × Rat × Rat
  | x0 :: x1 :: xs, y0 :: y1 :: ys =>
    let r := trapSums (x1 :: xs) (y1 :: ys)
    (fabs (trapTerm x0 x1 y0 y1) + r.1, trapTermK x0 x1 y0 y1 + r.2.1,
      trapTermK2 x0 x1 y0 y1 + r.2.2)
  | _, _ => (0, 0, 0)

/-- **the executable bound of `auc_fl_error`**:
`g (Σ|T_i| + E) + E`, `E = (1+u)^4 u (Σ K_i + u Σ K2_i)`, `g = (n-1) u / (1 - (n-1) u)`, `n` terms -/
def aucEps (u : Rat) (x y : List Rat) : Rat :=
  let r := trapSums x y
  let e := powN (1 + u) 4 * u * (r.2.1 + u * r.2.2)
  gamK u (min x.length y.length - 1 - 1) * (r.1 + e) + e

/-- `np.trapezoid(y, x)` in floating point with summation order `t` -/
def trapezoidFl (fl : Rat → Rat) (t : SumTree) (x y : List Rat) : Rat :=
  t.evalFl fl (trapTermsFl fl x y)

/-! ### `Scores.auc` -/

/-- the exact rate arrays `x`, `y` of `Scores.auc` (scores.py:834-840) -/
def Scores.aucRates (u : Ulp) (s : Scores) (xm ym : Metric) : Option (List Rat × List Rat) :=
  let sc := s.pos ++ s.neg
  let points := sortQ (sc.map u.down ++ sc.map u.up)
  match allSome (points.map fun t => (s.cm (.fin t)).rate xm),
        allSome (points.map fun t => (s.cm (.fin t)).rate ym) with
  | some x, some y => some (x, y)
  | _, _ => none

/-- scores.py:842-853: reversal, the two `searchsorted`, index clamping, window cut with flat
extension; returns the two arrays handed to `np.trapezoid` -/
def aucCut (x y : List Rat) (lower upper : Rat) : List Rat × List Rat :=
  let rev : Bool := decide (x.getD (x.length - 1) 0 < x.getD 0 0)
  let x := if rev then x.reverse else x
  let y := if rev then y.reverse else y
  let left := bisect (fun v => decide (v < lower)) x
  let right := bisect (fun v => decide (v ≤ upper)) x
  let left := min left (y.length - 1)
  let right := max right 1
  ([lower] ++ (x.drop left).take (right - left) ++ [upper],
    [y.getD left 0] ++ (y.drop left).take (right - left) ++ [y.getD (right - 1) 0])

/-- the two arrays handed to `np.trapezoid` by `Scores.auc`;
`Scores.auc = absR (trapezoid xs ys)` (`SA.Scores.auc_eq_arrays`) -/
def Scores.aucArrays (u : Ulp) (s : Scores) (lower upper : Rat) (xm ym : Metric) :
    Option (List Rat × List Rat) :=
  match s.aucRates u xm ym with
  | some (x, y) => if x.length = 0 then none else some (aucCut x y lower upper)
  | none => none

/-- `Scores.auc` in floating point: rates `fl (count / N)` (one rounded division each), limits
`fl lower` / `fl upper`, all comparisons on the rounded values, `np.trapezoid` with a rounding
after every operation and the summation order `order n` for `n` terms, `np.abs` (exact) -/
def Scores.aucFl (fl : Rat → Rat) (order : Nat → SumTree) (u : Ulp) (s : Scores)
    (lower upper : Rat) (xm ym : Metric) : Option Rat :=
  match s.aucRates u xm ym with
  | some (x, y) =>
    if x.length = 0 then none else
    let w := aucCut (x.map fl) (y.map fl) (fl lower) (fl upper)
    some (absR (trapezoidFl fl (order (w.1.length - 1)) w.1 w.2))
  | none => none

/-- two exact values compare the same way after rounding, whatever the rounding function:
equal, or farther apart than the two rounding errors together -/
def flSep (u a b : Rat) : Bool := decide (a = b) || decide (u * (fabs a + fabs b) < fabs (a - b))

/-- every comparison `Scores.auc` makes (`x[-1] < x[0]`, `x[i] < lower`, `x[i] ≤ upper`) is
between separated values -/
def aucCmpOK (u : Rat) (x : List Rat) (lower upper : Rat) : Bool :=
  flSep u (x.getD (x.length - 1) 0) (x.getD 0 0) &&
    x.all fun v => flSep u v lower && flSep u v upper

end SA
