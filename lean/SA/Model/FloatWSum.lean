/-
C05, floating point: the weighted construction `matrix[idx_map[label]][idx_map[pred]] += weight`
(cm.py:239-241) with float weights: every cell is the LEFT-TO-RIGHT sum, in input order, of the
weights of its samples.

Float model: `acc += w` is `fl (acc + w)`, except that adding to an accumulator that is still `0`
is exact (IEEE: `0.0 + w = w`; the matrix starts as `np.zeros`): a cell with `k` samples carries
`k - 1` rounded additions.

* `addFl`, `cellSumFl`, `addAtFl`, `accumulateFl`: the float versions of `+=`, of one cell's total,
  of `addAt` and of the loop `accumulate`
* `cellWeights`: the weights of the samples of one cell, in input order
* `wsumEpsPow u ws = ((1+u)^(k-1) - 1) * Σ|w|`, `wsumEps u ws = ((k-1) u / (1 - (k-1) u)) * Σ|w|`
  (the cheap executable majorant), `k = len ws`

Core Lean only (linked into the driver).
-/
import SA.Model.Multiclass
import SA.Model.FloatSum

namespace SA

/-- `acc + w` in IEEE arithmetic: exact on a zero accumulator, rounded once otherwise -/
def addFl (fl : Rat → Rat) (acc w : Rat) : Rat := if acc = 0 then w else fl (acc + w)

/-- one cell: the weights added one after the other to an accumulator that starts at 0 -/
def cellSumFl (fl : Rat → Rat) (ws : List Rat) : Rat := ws.foldl (addFl fl) 0

/-- `matrix[i][j] += w` in floating point -/
def addAtFl (fl : Rat → Rat) (M : Mat) (i j : Nat) (w : Rat) : Mat :=
  fun a b => if a = i ∧ b = j then addFl fl (M a b) w else M a b

/-- the loop of `_assign_from_predictions` in floating point (same case splits as `accumulate`) -/
def accumulateFl (fl : Rat → Rat) (classes : List Nat) : List Sample → Mat → Except Err Mat
  | [], M => .ok M
  | s :: rest, M =>
    match idxMap classes s.label with
    | none => .error .keyError
    | some i =>
      match idxMap classes s.pred with
      | none => .error .keyError
      | some j => accumulateFl fl classes rest (addAtFl fl M i j s.weight)

/-- the weights, in input order, of the samples with label `l` and prediction `p` -/
def cellWeights (samples : List Sample) (l p : Nat) : List Rat :=
  (samples.filter fun s => decide (s.label = l ∧ s.pred = p)).map (·.weight)

/-- `((1+u)^(k-1) - 1) * Σ|w|` -/
def wsumEpsPow (u : Rat) (ws : List Rat) : Rat := gamPow u (ws.length - 1) * sumAbsL ws

/-- **the executable bound of `cellSum_fl_error`**: `((k-1) u / (1 - (k-1) u)) * Σ|w|` -/
def wsumEps (u : Rat) (ws : List Rat) : Rat := gamK u (ws.length - 1) * sumAbsL ws

end SA
