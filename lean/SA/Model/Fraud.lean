/-
Model of `score_analysis.applications.doc_fraud` (doc_fraud.py): the genuine/fraud label
translations and `FraudScores`, a `Scores` object built from genuine and fraud scores with a
fixed `equal_class` and a range validation.

Core Lean only.  Same order of operations as the Python: delegate to the `Scores`
constructor (which sorts), then validate the *held* (sorted) arrays, genuines first.

Not modelled: the median heuristic of doc_fraud.py:66-74.  It only emits a `warnings.warn`
and changes neither the object nor the control flow, so it has no counterpart here.
-/
import SA.Model.Threshold

namespace SA

/-- `DocLabel` (doc_fraud.py:13-17): `pos = "genuine"`, `neg = "fraud"`. -/
inductive DocLabel where
  | genuine
  | fraud
deriving DecidableEq, Repr, Inhabited

/-- `doc_to_binary_label` (doc_fraud.py:20-22): `BinaryLabel(DocLabel(label).name)`; the
member whose value is "genuine" is named `pos`, the one whose value is "fraud" is named `neg`. -/
def docToBinary : DocLabel → Label
  | .genuine => .pos
  | .fraud => .neg

/-- `binary_to_doc_label` (doc_fraud.py:25-28). -/
def binaryToDoc (b : Label) : DocLabel :=
  if b = .pos then .genuine else .fraud

/-- `np.any(a < 0) or np.any(a > 1)` (doc_fraud.py:61, 63). -/
def outOfRange (a : List Rat) : Bool :=
  a.any (fun x => decide (x < 0)) || a.any (fun x => decide (x > 1))

/-- `FraudScores.__init__` (doc_fraud.py:33-64).  The super-constructor is called with
`pos=genuines, neg=frauds, nb_easy_pos=nb_easy_genuines, nb_easy_neg=nb_easy_frauds,
score_class=doc_to_binary_label(score_class), equal_class=doc_to_binary_label("genuine")`
and `is_sorted` left at its default `False`; afterwards the held arrays are validated,
genuines before frauds.  Both failures are `ValueError`. -/
def FraudScores.make (genuines frauds : List Rat) (easyG easyF : Nat) (sc : DocLabel) :
    Except Err Scores :=
  let s := Scores.make genuines frauds easyG easyF ⟨docToBinary sc, docToBinary .genuine⟩ false
  if outOfRange s.pos then .error .valueError
  else if outOfRange s.neg then .error .valueError
  else .ok s

/-- Which of the two checks fires (`none`: neither); used by the driver to name the message. -/
def FraudScores.failing (genuines frauds : List Rat) : Option DocLabel :=
  if outOfRange (sortQ genuines) then some .genuine
  else if outOfRange (sortQ frauds) then some .fraud
  else none

/-- `FraudScores.genuines` (doc_fraud.py:76-79): alias for the positive scores. -/
def FraudScores.genuines (s : Scores) : List Rat := s.pos

/-- `FraudScores.frauds` (doc_fraud.py:85-88): alias for the negative scores. -/
def FraudScores.frauds (s : Scores) : List Rat := s.neg

/-- `FraudScores.from_labels` (doc_fraud.py:94-130) with the labels already compared to
`genuine_label` (`true` = `label == genuine_label`); samples in the order given. -/
def FraudScores.fromLabels (samples : List (Bool × Rat)) (easyG easyF : Nat) (sc : DocLabel) :
    Except Err Scores :=
  FraudScores.make ((samples.filter (fun s => s.1)).map (·.2))
    ((samples.filter (fun s => !s.1)).map (·.2)) easyG easyF sc

end SA
