/-
Model of `score_analysis.group_scores.GroupScores` (group_scores.py): scores that carry a group
label through sorting, `swap()`, per-group extraction with a cache, per-group confusion matrices
and every bootstrap sampling mode.  Used by C12.

Core Lean only.

Representation
* a labelled score is a pair `(score, group code)`; the two parallel arrays `pos`/`pos_groups` of
  the Python object are the two projections of ONE list of pairs.  The harness maps group names
  (strings, ints, ...) to `Nat` codes preserving their Python sort order, so `sorted(set(..))` is
  "sorted distinct codes".
* `np.argsort` is not stable: the model sorts with the (stable) `List.mergeSort` on the score.
  `C12_tie_order_irrelevant` (SA/Theorems/C12Ties.lean) proves that every admissible joint order
  (a permutation of the input pairs, sorted by score) has the same observables, so the choice is
  immaterial; the harness compares the held label arrays inside tied blocks as multisets, which is
  exactly admissibility.
* the cache `_grouped_scores` is explicit state (`GState`); queries are a transition function.
* sampling runs on a scripted RNG (SA/Model/Rng.lean) and reuses `sampleIndices`
  (SA/Model/Sampling.lean = `Scores._sample_indices`, which `GroupScores` inherits).
-/
import SA.Model.Sampling
import SA.Model.History

namespace SA

/-- joint `argsort` of the scores, applied to scores and labels (group_scores.py:101-108) -/
def c12_sortPairs (l : List (Rat × Nat)) : List (Rat × Nat) :=
  l.mergeSort (fun a b => decide (a.1 ≤ b.1))

/-- insertion into a strictly increasing list, dropping duplicates -/
def c12_insertU (x : Nat) : List Nat → List Nat
  | [] => [x]
  | y :: ys => if x < y then x :: y :: ys else if x = y then y :: ys else y :: c12_insertU x ys

/-- `sorted(set(l))` -/
def c12_codes (l : List Nat) : List Nat := l.foldr c12_insertU []

/-- A `GroupScores` object: `pos`/`neg` are the pairs `(self.pos[i], self.pos_groups[i])`,
`groups` is `self.groups`.  Easy counts are always 0 (group_scores.py:91-92). -/
structure GScores where
  pos : List (Rat × Nat)
  neg : List (Rat × Nat)
  cfg : Cfg
  groups : List Nat
deriving DecidableEq, Repr

/-- the default group list `sorted(set(pos_groups) | set(neg_groups))` (group_scores.py:114) -/
def c12_defaultGroups (pos neg : List (Rat × Nat)) : List Nat :=
  c12_codes ((pos ++ neg).map (·.2))

/-- Constructor (group_scores.py:61-120): sorts both classes by score unless `isSorted`, carrying
the labels along; `groupNames = some l` is used as is (not sorted, not checked). -/
def GScores.make (pos neg : List (Rat × Nat)) (cfg : Cfg) (groupNames : Option (List Nat))
    (isSorted : Bool) : GScores :=
  let groups := match groupNames with
    | some l => l
    | none => c12_defaultGroups pos neg
  if isSorted then ⟨pos, neg, cfg, groups⟩
  else ⟨c12_sortPairs pos, c12_sortPairs neg, cfg, groups⟩

/-- `GroupScores.from_labels` (group_scores.py:122-161) with labels already compared to
`pos_label`: boolean masks keep the order. -/
def GScores.fromLabels (samples : List (Bool × Rat × Nat)) (cfg : Cfg) (isSorted : Bool) :
    GScores :=
  GScores.make ((samples.filter (fun s => s.1)).map (·.2))
    ((samples.filter (fun s => !s.1)).map (·.2)) cfg none isSorted

/-- `GroupScores.swap` (group_scores.py:186-202).  NOTE: `group_names` is not forwarded, so the
swapped object carries the DEFAULT group list of the data. -/
def GScores.swap (g : GScores) : GScores :=
  GScores.make g.neg g.pos g.cfg.swap none true

/-- the object seen as a plain `Scores` (the inherited `pos`, `neg`, flags; no easy samples) -/
def GScores.toScores (g : GScores) : Scores :=
  ⟨g.pos.map (·.1), g.neg.map (·.1), 0, 0, g.cfg⟩

/-- `self.pos[self.pos_groups == group]` -/
def c12_filterGroup (l : List (Rat × Nat)) (grp : Nat) : List Rat :=
  (l.filter (fun p => p.2 == grp)).map (·.1)

/-- the `Scores` object built for one group (group_scores.py:218-226): filtered arrays, no easy
samples, same flags, `is_sorted=True` -/
def GScores.groupScores (g : GScores) (grp : Nat) : Scores :=
  Scores.make (c12_filterGroup g.pos grp) (c12_filterGroup g.neg grp) 0 0 g.cfg true

/-- `gs[group]` without the cache (group_scores.py:204-227) -/
def GScores.getItem (g : GScores) (grp : Nat) : Except Err Scores :=
  if g.groups.contains grp then .ok (g.groupScores grp) else .error .valueError

/-- `group_cm(t)` at one threshold: one matrix per entry of `groups` (group_scores.py:229-242) -/
def GScores.groupCm (g : GScores) (t : ERat) : List CM :=
  g.groups.map (fun grp => (g.groupScores grp).cm t)

/-- `group_<name>(t)` (group_scores.py:244-315): the rate of each group matrix -/
def GScores.groupRate (g : GScores) (n : RateName) (t : ERat) : List (Option Rat) :=
  (g.groupCm t).map (fun m => m.rate n.metric)

/-- the inherited `cm(t)` of the whole object -/
def GScores.overallCm (g : GScores) (t : ERat) : CM := g.toScores.cm t

/-- `groupwise(metric)(gs)` without the cache (group_scores.py:35-57) -/
def GScores.groupwise {α : Type} (metric : Scores → α) (g : GScores) : List α :=
  g.groups.map (fun grp => metric (g.groupScores grp))

/-- cell-wise sum of matrices (`matrix.sum(axis=0)`) -/
def c12_sumCM (l : List CM) : CM := l.foldr CM.add ⟨0, 0, 0, 0⟩

/-! ### the cache as explicit state -/

/-- object + `_grouped_scores` (most recent insertion first) -/
structure GState where
  g : GScores
  cache : List (Nat × Scores)
deriving Repr

/-- a freshly constructed object: empty cache -/
def GState.fresh (g : GScores) : GState := ⟨g, []⟩

/-- `self[group]` (group_scores.py:204-227): membership test, cache hit returns the cached object,
a miss computes and inserts. -/
def GState.fetch (st : GState) (grp : Nat) : GState × Except Err Scores :=
  if st.g.groups.contains grp then
    match st.cache.lookup grp with
    | some s => (st, .ok s)
    | none =>
      let s := st.g.groupScores grp
      (⟨st.g, (grp, s) :: st.cache⟩, .ok s)
  else (st, .error .valueError)

/-- `[self[group] for group in grps]`, left to right, stopping at the first exception -/
def GState.fetchAll (st : GState) : List Nat → GState × Except Err (List Scores)
  | [] => (st, .ok [])
  | grp :: rest =>
    let r := st.fetch grp
    match r.2 with
    | .error e => (r.1, .error e)
    | .ok s =>
      let rr := GState.fetchAll r.1 rest
      (rr.1, rr.2.map (fun l => s :: l))

inductive GQuery where
  | getItem (grp : Nat)
  | groupCm (t : ERat)
  | groupRate (n : RateName) (t : ERat)
  | overallCm (t : ERat)
deriving DecidableEq, Repr

inductive GOut where
  | scores (r : Except Err Scores)
  | cms (r : Except Err (List CM))
  | rates (r : Except Err (List (Option Rat)))
  | cm (m : CM)
deriving Repr

/-- one query on the object with its cache -/
def GState.step (st : GState) : GQuery → GState × GOut
  | .getItem grp => let r := st.fetch grp; (r.1, .scores r.2)
  | .groupCm t =>
    let r := st.fetchAll st.g.groups
    (r.1, .cms (r.2.map (fun l => l.map (fun s => s.cm t))))
  | .groupRate n t =>
    let r := st.fetchAll st.g.groups
    (r.1, .rates (r.2.map (fun l => l.map (fun s => (s.cm t).rate n.metric))))
  | .overallCm t => (st, .cm (st.g.overallCm t))

/-- the answer a query gets from the data alone (no cache) -/
def GScores.answer (g : GScores) : GQuery → GOut
  | .getItem grp => .scores (g.getItem grp)
  | .groupCm t => .cms (.ok (g.groupCm t))
  | .groupRate n t => .rates (.ok (g.groupRate n t))
  | .overallCm t => .cm (g.overallCm t)

/-- any sequence of queries; outputs in call order -/
def GState.run (st : GState) : List GQuery → GState × List GOut
  | [] => (st, [])
  | q :: qs =>
    let r := st.step q
    let rest := GState.run r.1 qs
    (rest.1, r.2 :: rest.2)

/-- `groupwise(metric)(gs)` through the cache -/
def GState.groupwise {α : Type} (metric : Scores → α) (st : GState) :
    GState × Except Err (List α) :=
  let r := st.fetchAll st.g.groups
  (r.1, r.2.map (fun l => l.map metric))

/-! ### sampling -/

/-- `config.stratified_sampling` (`none`: `None`/falsy; `unknown`: any other value) -/
inductive Strat where
  | none
  | byLabel
  | byGroup
  | unknown
deriving DecidableEq, Repr, Inhabited

/-- the part of `BootstrapConfig` that `GroupScores.bootstrap_sample` reads -/
structure GBootCfg where
  method : SamplingMethod
  strat : Strat
  smoothing : Bool
deriving Repr

/-- `GroupScores._sampling_method` (group_scores.py:317-334) -/
def GScores.samplingMethod (g : GScores) (c : GBootCfg) : SamplingMethod :=
  if c.method ≠ .dynamic then c.method
  else if c.strat = .byGroup then .replacement
  else if g.pos.length < singlePassSampleThreshold ∨ g.neg.length < singlePassSampleThreshold
    then .replacement
  else .singlePass

/-- fancy indexing of a label array -/
def c12_gatherN (a : List Nat) (idx : List Nat) : List Nat := idx.map (fun i => a.getD i 0)

/-- `(self.pos[idx], self.pos_groups[idx])`: scores and labels gathered by the SAME index list -/
def c12_gatherPairs (a : List (Rat × Nat)) (idx : List Nat) : List (Rat × Nat) :=
  (gather (a.map (·.1)) idx).zip (c12_gatherN (a.map (·.2)) idx)

/-- the `by_group` loop (group_scores.py:380-389): for each entry of `groups`, in order, sample the
group's `Scores` object without label stratification and label everything drawn with the group -/
def c12_byGroupLoop (g : GScores) (sp : Bool) :
    List Nat → RngState → (List (Rat × Nat) × List (Rat × Nat)) × RngState
  | [], st => (([], []), st)
  | grp :: rest, st =>
    let gs := g.groupScores grp
    let r := sampleIndices gs false sp st
    let p := (gather gs.pos r.1.idxPos).map (fun x => (x, grp))
    let n := (gather gs.neg r.1.idxNeg).map (fun x => (x, grp))
    let rr := c12_byGroupLoop g sp rest r.2
    ((p ++ rr.1.1, n ++ rr.1.2), rr.2)

/-- the replacement / single-pass branch of `bootstrap_sample` (group_scores.py:357-405).
`np.concatenate([])` (an empty `groups` list under `by_group`) raises `ValueError`. -/
def GScores.resample (g : GScores) (strat : Strat) (sp : Bool) (st : RngState) :
    Except Err GScores × RngState :=
  match strat with
  | .none | .byLabel =>
    let r := sampleIndices g.toScores (strat == .byLabel) sp st
    (.ok (GScores.make (c12_gatherPairs g.pos r.1.idxPos) (c12_gatherPairs g.neg r.1.idxNeg)
      g.cfg (some g.groups) sp), r.2)
  | .byGroup =>
    let r := c12_byGroupLoop g sp g.groups st
    if g.groups.isEmpty then (.error .valueError, r.2)
    else (.ok (GScores.make r.1.1 r.1.2 g.cfg (some g.groups) false), r.2)
  | .unknown => (.error .valueError, st)

/-- `GroupScores.bootstrap_sample` (group_scores.py:336-416) for string sampling methods:
smoothing is rejected first, proportion sampling and unknown methods are rejected. -/
def GScores.bootstrapSample (g : GScores) (c : GBootCfg) (st : RngState) :
    Except Err GScores × RngState :=
  if c.smoothing then (.error .valueError, st)
  else
    match g.samplingMethod c with
    | .replacement => g.resample c.strat false st
    | .singlePass => g.resample c.strat true st
    | .proportion => (.error .valueError, st)
    | .unknown => (.error .valueError, st)
    | .dynamic => (.error .other, st)  -- unreachable: `samplingMethod` never returns `dynamic`

/-- a run on a script -/
def GScores.runSample (g : GScores) (c : GBootCfg) (script : List (List Nat)) :
    Except Err GScores × RngState :=
  g.bootstrapSample c (RngState.init script)

end SA
