/-
C10 — queries as a state machine over the existing model, and the vectorised forms.

* `QState`, `Query`, `Out`, `step`, `runHistory`: the deterministic public queries the model
  has (`cm`, the six rates and their six aliases, `threshold_at_*` and aliases, `swap`) as one
  transition function `QState → Query → QState × Out`.  The model is a pure function, so the
  state component is returned unchanged; `swap` returns the swapped object as its *output*
  (scores.py:278-294 builds a new object), never as the new state.
* `Arr`: an n-d array as `shape : List Nat` plus the flat row-major `data`; well-formed when
  `numel shape = data.length`.  `cmV`, `rateV`, `thresholdAtV`, `pointwiseV` are the
  vectorised queries: the shape is carried over (with `[2,2]` appended for matrices) and the
  data is `List.map` of the scalar function — this mirrors broadcasting through
  `np.searchsorted` and the `(*threshold.shape, 2, 2)` allocation of scores.py:306-336, the
  elementwise ufunc arithmetic of scores.py:583-648 and the flatten / restore of
  `pointwise_cm` (scores.py:1173-1212).

What this file can NOT express: NumPy aliasing, in-place writes, dtype, scalar-vs-0-d-array
distinctions.  Those clauses of C10 are decided by the history run in harness/props/c10.py.

Core Lean only.
-/
import SA.Model.Threshold

namespace SA

/-! ### names of the rate queries (scores.py:340-412: six metrics, six aliases) -/

/-- The twelve public rate names of `Scores` (and of the `threshold_at_<name>` family). -/
inductive RateName where
  | tpr | fnr | tnr | fpr | topr | tonr
  | tar | frr | trr | far | acceptanceRate | rejectionRate
deriving DecidableEq, Repr, Inhabited

/-- The alias table (scores.py:365-412 and 650-697): every alias method is a one-line
delegation to the metric it names. -/
def RateName.metric : RateName → Metric
  | .tpr => .tpr | .fnr => .fnr | .tnr => .tnr | .fpr => .fpr | .topr => .topr | .tonr => .tonr
  | .tar => .tpr | .frr => .fnr | .trr => .tnr | .far => .fpr
  | .acceptanceRate => .topr | .rejectionRate => .tonr

/-- the name a metric is defined under -/
def Metric.toName : Metric → RateName
  | .tpr => .tpr | .fnr => .fnr | .tnr => .tnr | .fpr => .fpr | .topr => .topr | .tonr => .tonr

/-- the defining (non-alias) name of a rate name -/
def RateName.base (n : RateName) : RateName := n.metric.toName

/-- `Scores.<metric>(t)` = `self.cm(t).<metric>()` (scores.py:340-362). -/
def Scores.rate (s : Scores) (m : Metric) (t : ERat) : Option Rat := (s.cm t).rate m

/-- `Scores.<name>(t)` for any of the twelve names. -/
def Scores.rateByName (s : Scores) (n : RateName) (t : ERat) : Option Rat := s.rate n.metric t

/-- `Scores.threshold_at_<name>(r, method=m)` for any of the twelve names. -/
def Scores.thresholdAtByName (u : Ulp) (s : Scores) (n : RateName) (r : Rat) (m : Method) :
    Except Err Rat := s.thresholdAt u n.metric r m

/-! ### the state machine -/

/-- State of a history: the object being queried (the model has no cache). -/
structure QState where
  s : Scores
deriving Repr

/-- Deterministic public queries that the model covers. -/
inductive Query where
  | cm (t : ERat)
  | rate (n : RateName) (t : ERat)
  | thresholdAt (n : RateName) (r : Rat) (m : Method)
  | swap
deriving DecidableEq, Repr

/-- A query with aliases resolved: two queries with the same normal form are the same
question put to the object. -/
def Query.norm : Query → Query
  | .cm t => .cm t
  | .rate n t => .rate n.base t
  | .thresholdAt n r m => .thresholdAt n.base r m
  | .swap => .swap

/-- Results of the queries. -/
inductive Out where
  | cm (m : CM)
  | rate (v : Option Rat)
  | thr (v : Except Err Rat)
  | scores (s : Scores)
deriving Repr

/-- One query.  The first component is the state *after* the call. -/
def step (u : Ulp) (st : QState) : Query → QState × Out
  | .cm t => (st, .cm (st.s.cm t))
  | .rate n t => (st, .rate (st.s.rateByName n t))
  | .thresholdAt n r m => (st, .thr (st.s.thresholdAtByName u n r m))
  | .swap => (st, .scores st.s.swap)

/-- A history: any sequence of queries on one object; returns the final state and the
outputs in call order. -/
def runHistory (u : Ulp) (st : QState) : List Query → QState × List Out
  | [] => (st, [])
  | q :: qs =>
    let r := step u st q
    let rest := runHistory u r.1 qs
    (rest.1, r.2 :: rest.2)

/-! ### n-d arrays as shape + flat data -/

/-- number of elements of a shape (`np.prod(shape)`; `1` for the 0-d shape `[]`). -/
def numel : List Nat → Nat
  | [] => 1
  | d :: ds => d * numel ds

structure Arr (α : Type) where
  shape : List Nat
  data : List α
deriving Repr

/-- well-formedness: the flat data has exactly `prod shape` entries. -/
def Arr.WF {α : Type} (a : Arr α) : Prop := numel a.shape = a.data.length

/-- elementwise map, shape kept (a NumPy ufunc / fancy-indexing with an index array). -/
def Arr.map {α β : Type} (f : α → β) (a : Arr α) : Arr β := ⟨a.shape, a.data.map f⟩

/-- the four cells in the order of the trailing `(2, 2)` axes -/
def CM.cells (m : CM) : List Nat := [m.tp, m.fn, m.fp, m.tn]

/-- `Scores.cm(threshold)` for a threshold array, as an array of matrices (shape `X`). -/
def Scores.cmV (s : Scores) (ts : Arr ERat) : Arr CM := ts.map s.cm

/-- … and as the integer array `ConfusionMatrix.matrix` of shape `X + (2, 2)`
(scores.py:330-334). -/
def Scores.cmMatrix (s : Scores) (ts : Arr ERat) : Arr Nat :=
  ⟨ts.shape ++ [2, 2], (s.cmV ts).data.flatMap CM.cells⟩

/-- `Scores.<name>(threshold)` for a threshold array. -/
def Scores.rateV (s : Scores) (n : RateName) (ts : Arr ERat) : Arr (Option Rat) :=
  ts.map (s.rateByName n)

/-- `Scores.threshold_at_<name>(targets, method=m)` for a target array: the emptiness check
comes first and does not look at the targets (scores.py:426-427 etc.), the rest is
elementwise. -/
def Scores.thresholdAtV (u : Ulp) (s : Scores) (n : RateName) (m : Method) (rs : Arr Rat) :
    Except Err (Arr Rat) :=
  if (s.metricArray n.metric).length = 0 then .error .valueError
  else .ok (rs.map fun r => thresholdAtRatio u s.cfg (s.metricArray n.metric)
    (s.rescale n.metric r) n.metric.increasing n.metric.ratioClass m)

/-- `pointwise_cm(labels, scores, threshold)` (scores.py:1173-1212): samples of shape `A`,
thresholds of shape `X`, result of shape `A + X + (2, 2)`, row-major. -/
def pointwiseV (cfg : Cfg) (samples : Arr (Bool × Rat)) (ts : Arr ERat) : Arr Nat :=
  ⟨samples.shape ++ ts.shape ++ [2, 2],
   samples.data.flatMap fun smp => ts.data.flatMap fun t =>
     (pointwiseCell cfg smp.1 smp.2 t).cells⟩

end SA
