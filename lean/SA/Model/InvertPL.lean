/-
`utils.invert_pl_function` (utils.py:143-222) for one target, and `Scores.threshold_at_metric`
(scores.py:698-752).  Core Lean only.  `l.getD j 0` is `l[j]` (all indices used are in range).
-/
import SA.Model.Threshold

namespace SA

/-- `np.abs` -/
def absPL (a : Rat) : Rat := if a < 0 then -a else a

/-- utils.py:187-189, one segment:
`crossing_up = (y[j] <= t) & (y[j+1] > t)`, `crossing_down = (y[j] >= t) & (y[j+1] < t)` -/
def isCrossing (a b t : Rat) : Bool :=
  (decide (a ≤ t) && decide (b > t)) || (decide (a ≥ t) && decide (b < t))

/-- utils.py:193 `np.nonzero(crossing.T)` for one target: the crossing segments `0 ≤ j < n-1`
in increasing order -/
def crossIdx (y : List Rat) (t : Rat) : List Nat :=
  (List.range (y.length - 1)).filter fun j => isCrossing (y.getD j 0) (y.getD (j + 1) 0) t

/-- utils.py:207-208: `la = (t - y[j]) / (y[j+1] - y[j])`, `z = (1 - la) * x[j] + la * x[j+1]` -/
def segPoint (x y : List Rat) (t : Rat) (j : Nat) : Rat :=
  let la := (t - y.getD j 0) / (y.getD (j + 1) 0 - y.getD j 0)
  (1 - la) * x.getD j 0 + la * x.getD (j + 1) 0

/-- `np.argmin` of a list: the first index holding the minimum (0 on the empty list, where
numpy raises; callers exclude it) -/
def argminL : List Rat → Nat
  | [] => 0
  | v :: vs =>
    let i := argminL vs  -- bound once: evaluated once in compiled code
    if vs.isEmpty || decide (v ≤ vs.getD i 0) then 0 else i + 1

/-- utils.py:196 `np.argmin(np.abs(y - t))` -/
def argminAbs (y : List Rat) (t : Rat) : Nat := argminL (y.map fun v => absPL (v - t))

/-- `invert_pl_function(x, y, t)[k]` for the single target `t = t[k]` (utils.py:186-214):
the interpolated point of every crossing segment, in increasing segment order; if there is none,
the single sample `x[argmin |y - t|]`. -/
def invertPL (x y : List Rat) (t : Rat) : List Rat :=
  let js := crossIdx y t
  if js.isEmpty then [x.getD (argminAbs y t) 0] else js.map (segPoint x y t)

/-- all targets; `np.argmin` raises `ValueError` on an empty sample vector (for any number of
targets, as the reduction is over the sample axis) -/
def invertPLAll (x y ts : List Rat) : Except Err (List (List Rat)) :=
  if y.isEmpty then .error .valueError else .ok (ts.map (invertPL x y))

/-! ### NaN in `y` (a rate with zero denominator): every comparison with NaN is false and
`np.argmin` returns the index of the first NaN. -/

def isCrossingO : Option Rat → Option Rat → Rat → Bool
  | some a, some b, t => isCrossing a b t
  | _, _, _ => false

def allSomePL : List (Option Rat) → Option (List Rat)
  | [] => some []
  | some v :: r => (allSomePL r).map (v :: ·)
  | none :: _ => none

def firstNone : List (Option Rat) → Nat
  | [] => 0
  | none :: _ => 0
  | some _ :: r => firstNone r + 1

def invertPLO (x : List Rat) (y : List (Option Rat)) (t : Rat) : List Rat :=
  match allSomePL y with
  | some y' => invertPL x y' t
  | none =>
    let js := (List.range (y.length - 1)).filter fun j =>
      isCrossingO (y.getD j none) (y.getD (j + 1) none) t
    if js.isEmpty then [x.getD (firstNone y) 0]
    else js.map (segPoint x (y.map fun o => o.getD 0) t)

def invertPLAllO (x : List Rat) (y : List (Option Rat)) (ts : List Rat) :
    Except Err (List (List Rat)) :=
  if y.isEmpty then .error .valueError else .ok (ts.map (invertPLO x y))

/-! ### `Scores.threshold_at_metric` -/

/-- the `points` argument: `None`, an `int`, or an array -/
inductive PointsArg where
  | none
  | int (k : Nat)
  | arr (p : List Rat)
deriving Repr

/-- `np.linspace(a, b, k, endpoint=True)`: `arange(k) * ((b - a) / (k - 1)) + a` with the last
entry overwritten by `b` when `k > 1` -/
def linspace (a b : Rat) : Nat → List Rat
  | 0 => []
  | 1 => [a]
  | k + 2 =>
    (List.range (k + 1)).map (fun (i : Nat) => (i : Rat) * ((b - a) / ((k + 1 : Nat) : Rat)) + a) ++ [b]

/-- scores.py:739-742 (`pos`, `neg` are held sorted) -/
def Scores.minScore (s : Scores) : Option Rat :=
  match s.pos.head?, s.neg.head? with
  | some a, some b => some (if b < a then b else a)
  | some a, none => some a
  | none, some b => some b
  | none, none => none

/-- scores.py:743-746 -/
def Scores.maxScore (s : Scores) : Option Rat :=
  match s.pos.getLast?, s.neg.getLast? with
  | some a, some b => some (if a < b then b else a)
  | some a, none => some a
  | none, some b => some b
  | none, none => none

/-- evaluation-point selection (scores.py:734-749) -/
def Scores.thresholdAtMetricPoints (s : Scores) : PointsArg → Except Err (List Rat)
  | .none =>
    let p := sortQ (s.pos ++ s.neg)
    if p.length < 2 then .error .valueError else .ok p
  | .int k =>
    match s.minScore, s.maxScore with
    | some a, some b => if a ≥ b then .error .valueError else .ok (linspace a b k)
    | _, _ => .error .valueError  -- inf >= -inf
  | .arr p => .ok p

/-- the metric evaluated at one point -/
def Scores.metricAt (s : Scores) (m : Metric) (p : Rat) : Option Rat := (s.cm (.fin p)).rate m

/-- scores.py:751 on given evaluation points -/
def Scores.thresholdOnPoints (s : Scores) (m : Metric) (pts ts : List Rat) :
    Except Err (List (List Rat)) :=
  invertPLAllO pts (pts.map (s.metricAt m)) ts

/-- `Scores.threshold_at_metric(target, metric, points)` for the six rate metrics -/
def Scores.thresholdAtMetric (s : Scores) (m : Metric) (pa : PointsArg) (ts : List Rat) :
    Except Err (List (List Rat)) := do
  let pts ← s.thresholdAtMetricPoints pa
  s.thresholdOnPoints m pts ts

end SA
