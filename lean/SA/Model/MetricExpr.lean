/-
C04, second tie: the DEFINITIONS of `score_analysis/metrics.py` regenerated from the source on every run.

`harness/metricdefs.py` (Python `ast`) turns every function of `metrics.py` that is a plain function of one
2x2 matrix (and every `ConfusionMatrix` wrapper of `cm.py`) into an expression of the small IR below and writes a
generated Lean file whose single theorem `generated_c04_defs_ok : checkAll translated = ⟨true, [], covered⟩` is
checked by the kernel.  This file (core Lean only) has

* the IR `Expr` (cells, the sums the source writes, `+`, `-`, an unguarded division, `np.where(c != 0, a, b)`,
  NaN, calls of sibling definitions) and its value semantics `eval` on one matrix with rational cells; values are
  `Val` = a rational | NaN | `bad` (outside the fragment: a division by zero that NumPy would actually evaluate —
  `inf` / `nan` plus a warning — or a call of an undefined name);
* the NORMAL FORM `NF`: a linear form with integer coefficients in (tp, fn, fp, tn, 1) (the counts), or a quotient
  `num / den` of two such forms that is NaN exactly when `den` evaluates to 0 (the rates), and `normalize`;
* the table semantics `sem` / `semCI` (definitions in source order, keyed by NUMBER — `nameIds` numbers the public names —,
  a call refers to an earlier definition);
* the MODEL's table (`modelNF`, `modelCI`: written from `SA.CMq.*` in `SA/Model/Metrics.lean`, proved equal to
  those functions for all matrices in `SA/Theorems/C04Defs.lean`), the separating witness matrices, `verdict` and
  `checkAll`.

Soundness (`SA/Theorems/C04Defs.lean`): `normalize_sound`, `nf_eq_model`, `checkAll_covered_sound`,
`checkAll_mismatch_sound`.
-/
import SA.Model.Metrics

namespace SA.MetricExpr
open SA

/-! ### values -/

/-- the value of an expression on one matrix: a rational, NaN, or `bad` = outside the fragment (NumPy would
evaluate a division by zero: `inf` / `nan` and a RuntimeWarning, or raise under `np.errstate(all="raise")`;
or an undefined name is called).  `bad` is never equal to a model value and never counts as a witness. -/
inductive Val where
  | num (q : Rat)
  | nan
  | bad
  deriving DecidableEq, Repr, Inhabited

def Val.ofOpt : Option Rat → Val
  | some q => .num q
  | none => .nan

def Val.isBad : Val → Bool
  | .bad => true
  | _ => false

/-- NaN propagates through arithmetic; `bad` absorbs everything -/
def Val.add : Val → Val → Val
  | .bad, _ => .bad
  | .nan, .bad => .bad
  | .nan, _ => .nan
  | .num _, .bad => .bad
  | .num _, .nan => .nan
  | .num a, .num b => .num (a + b)

def Val.sub : Val → Val → Val
  | .bad, _ => .bad
  | .nan, .bad => .bad
  | .nan, _ => .nan
  | .num _, .bad => .bad
  | .num _, .nan => .nan
  | .num a, .num b => .num (a - b)

/-- `a / b` as NumPy evaluates it WITHOUT a mask: a zero divisor is outside the fragment -/
def Val.div : Val → Val → Val
  | .bad, _ => .bad
  | .nan, .bad => .bad
  | .nan, .nan => .nan
  | .nan, .num b => if b = 0 then .bad else .nan
  | .num _, .bad => .bad
  | .num _, .nan => .nan
  | .num a, .num b => if b = 0 then .bad else .num (a / b)

/-- `np.where(c != 0, a, b)` (value-wise: the branch not selected is discarded; `nan != 0` is True) -/
def Val.whereNZ : Val → Val → Val → Val
  | .bad, _, _ => .bad
  | .nan, a, _ => a
  | .num c, a, b => if c = 0 then b else a

/-! ### the expression IR -/

/-- what a function of `metrics.py` computes from ONE matrix `[[tp, fn], [fp, tn]]`
(`matrix[..., 0, 0]` = tp, `[..., 0, 1]` = fn, `[..., 1, 0]` = fp, `[..., 1, 1]` = tn) -/
inductive Expr where
  /-- `matrix[..., i, j]` -/
  | cell (i j : Nat)
  /-- `np.sum(matrix[..., i, :], axis=-1)` -/
  | rowSum (i : Nat)
  /-- `np.sum(matrix[..., :, j], axis=-1)` -/
  | colSum (j : Nat)
  /-- `np.sum(matrix, axis=(-1, -2))` -/
  | total
  /-- `np.sum(np.diagonal(matrix, axis1=-1, axis2=-2), axis=-1)` -/
  | diagSum
  | const (c : Int)
  /-- `np.nan` / an `np.full_like(_, np.nan, dtype=float)` buffer -/
  | nan
  | add (a b : Expr)
  | sub (a b : Expr)
  /-- `a / b`, `np.true_divide(a, b)`, `np.divide(a, b)` without a mask -/
  | divRaw (a b : Expr)
  /-- `np.where(c != 0, a, b)` -/
  | whereNZ (c a b : Expr)
  /-- the value of a sibling definition on the same matrix (`1 - ppv(matrix)`) -/
  | call (id : Nat)
  deriving DecidableEq, Repr, Inhabited

/-- the guarded division `np.divide(num, den, out=np.full_like(num, np.nan, dtype=float), where=den != 0)` -/
def Expr.safeDiv (num den : Expr) : Expr := .whereNZ den (.divRaw num den) .nan

/-- the same with a guard that need not be the divisor (`where=guard != 0`) -/
def Expr.divWhere (num den guard : Expr) : Expr := .whereNZ guard (.divRaw num den) .nan

/-- `1 - e` -/
def Expr.oneMinus (e : Expr) : Expr := .sub (.const 1) e

def cellVal (m : CMq) : Nat → Nat → Option Rat
  | 0, 0 => some m.tp
  | 0, 1 => some m.fn
  | 1, 0 => some m.fp
  | 1, 1 => some m.tn
  | _, _ => none

def rowVal (m : CMq) : Nat → Option Rat
  | 0 => some (m.tp + m.fn)
  | 1 => some (m.fp + m.tn)
  | _ => none

def colVal (m : CMq) : Nat → Option Rat
  | 0 => some (m.tp + m.fp)
  | 1 => some (m.fn + m.tn)
  | _ => none

def Val.ofIdx : Option Rat → Val
  | some q => .num q
  | none => .bad

/-- value of an expression on the matrix `m`, given the values `venv` of the definitions it may call -/
def eval (venv : Nat → Val) (m : CMq) : Expr → Val
  | .cell i j => .ofIdx (cellVal m i j)
  | .rowSum i => .ofIdx (rowVal m i)
  | .colSum j => .ofIdx (colVal m j)
  | .total => .num (m.tp + m.fn + m.fp + m.tn)
  | .diagSum => .num (m.tp + m.tn)
  | .const c => .num c
  | .nan => .nan
  | .add a b => (eval venv m a).add (eval venv m b)
  | .sub a b => (eval venv m a).sub (eval venv m b)
  | .divRaw a b => (eval venv m a).div (eval venv m b)
  | .whereNZ c a b => (eval venv m c).whereNZ (eval venv m a) (eval venv m b)
  | .call s => venv s

/-! ### linear forms and the normal form -/

/-- `a*tp + b*fn + c*fp + d*tn + k` with integer coefficients -/
structure Lin where
  a : Int
  b : Int
  c : Int
  d : Int
  k : Int
  deriving DecidableEq, Repr, Inhabited

namespace Lin
def zero : Lin := ⟨0, 0, 0, 0, 0⟩
def add (x y : Lin) : Lin := ⟨x.a + y.a, x.b + y.b, x.c + y.c, x.d + y.d, x.k + y.k⟩
def sub (x y : Lin) : Lin := ⟨x.a - y.a, x.b - y.b, x.c - y.c, x.d - y.d, x.k - y.k⟩
def smul (s : Int) (x : Lin) : Lin := ⟨s * x.a, s * x.b, s * x.c, s * x.d, s * x.k⟩
def eval (x : Lin) (m : CMq) : Rat := x.a * m.tp + x.b * m.fn + x.c * m.fp + x.d * m.tn + x.k
/-- the constant `k` if the form is constant -/
def isConst (x : Lin) : Option Int :=
  if x.a = 0 ∧ x.b = 0 ∧ x.c = 0 ∧ x.d = 0 then some x.k else none
end Lin

/-- normal form: a linear form (never NaN), or `num / den`, NaN exactly when `den` evaluates to 0
(`ratio _ Lin.zero` is the constant NaN) -/
inductive NF where
  | lin (l : Lin)
  | ratio (num den : Lin)
  deriving DecidableEq, Repr, Inhabited

def NF.eval (m : CMq) : NF → Val
  | .lin l => .num (l.eval m)
  | .ratio n d => if d.eval m = 0 then .nan else .num (n.eval m / d.eval m)

def cellLin : Nat → Nat → Option Lin
  | 0, 0 => some ⟨1, 0, 0, 0, 0⟩
  | 0, 1 => some ⟨0, 1, 0, 0, 0⟩
  | 1, 0 => some ⟨0, 0, 1, 0, 0⟩
  | 1, 1 => some ⟨0, 0, 0, 1, 0⟩
  | _, _ => none

def rowLin : Nat → Option Lin
  | 0 => some ⟨1, 1, 0, 0, 0⟩
  | 1 => some ⟨0, 0, 1, 1, 0⟩
  | _ => none

def colLin : Nat → Option Lin
  | 0 => some ⟨1, 0, 1, 0, 0⟩
  | 1 => some ⟨0, 1, 0, 1, 0⟩
  | _ => none

def nfAdd : NF → NF → Option NF
  | .lin x, .lin y => some (.lin (x.add y))
  | .ratio n d, .lin y => y.isConst.map fun k => .ratio (n.add (d.smul k)) d
  | .lin x, .ratio n d => x.isConst.map fun k => .ratio ((d.smul k).add n) d
  | .ratio n d, .ratio n' d' => if d = d' then some (.ratio (n.add n') d) else none

def nfSub : NF → NF → Option NF
  | .lin x, .lin y => some (.lin (x.sub y))
  | .ratio n d, .lin y => y.isConst.map fun k => .ratio (n.sub (d.smul k)) d
  | .lin x, .ratio n d => x.isConst.map fun k => .ratio ((d.smul k).sub n) d
  | .ratio n d, .ratio n' d' => if d = d' then some (.ratio (n.sub n') d) else none

/-- facts about the matrix known on the branch being normalised: `(l, true)` = "`l` is non-zero",
`(l, false)` = "`l` is zero" -/
abbrev Ctx := List (Lin × Bool)

def knows (ctx : Ctx) (l : Lin) (b : Bool) : Bool := ctx.any fun p => decide (p.1 = l) && (p.2 == b)

/-- the facts of `ctx` are true of `m` -/
def Ctx.Holds (ctx : Ctx) (m : CMq) : Prop :=
  ∀ p ∈ ctx, (p.2 = true → p.1.eval m ≠ 0) ∧ (p.2 = false → p.1.eval m = 0)

/-- NaN on every matrix where `l` is zero -/
def nanWhereZero (l : Lin) : NF → Bool
  | .ratio _ d => decide (d = Lin.zero) || decide (d = l)
  | .lin _ => false

/-- combine the two branches of `np.where(l != 0, a, b)` -/
def nfWhere (l : Lin) (na nb : NF) : Option NF :=
  if na = nb then some na
  else match na with
    | .ratio n d => if d = l ∧ nanWhereZero l nb = true then some (.ratio n l) else none
    | .lin _ => none

/-- the normal form of an expression (`none`: outside the fragment the normaliser understands), given the normal
forms `env` of the definitions it may call and the facts `ctx` of the enclosing `np.where` branches -/
def normalize (env : Nat → Option NF) : Ctx → Expr → Option NF
  | _, .cell i j => (cellLin i j).map .lin
  | _, .rowSum i => (rowLin i).map .lin
  | _, .colSum j => (colLin j).map .lin
  | _, .total => some (.lin ⟨1, 1, 1, 1, 0⟩)
  | _, .diagSum => some (.lin ⟨1, 0, 0, 1, 0⟩)
  | _, .const c => some (.lin ⟨0, 0, 0, 0, c⟩)
  | _, .nan => some (.ratio Lin.zero Lin.zero)
  | ctx, .add a b =>
    match normalize env ctx a, normalize env ctx b with
    | some x, some y => nfAdd x y
    | _, _ => none
  | ctx, .sub a b =>
    match normalize env ctx a, normalize env ctx b with
    | some x, some y => nfSub x y
    | _, _ => none
  | ctx, .divRaw a b =>
    match normalize env ctx a, normalize env ctx b with
    | some (.lin n), some (.lin d) => if knows ctx d true then some (.ratio n d) else none
    | _, _ => none
  | ctx, .whereNZ c a b =>
    match normalize env ctx c with
    | some (.lin l) =>
      if knows ctx l true then normalize env ctx a
      else if knows ctx l false then normalize env ctx b
      else
        match normalize env ((l, true) :: ctx) a, normalize env ((l, false) :: ctx) b with
        | some na, some nb => nfWhere l na nb
        | _, _ => none
    | _ => none
  | _, .call s => env s

/-! ### tables of definitions -/

inductive Body where
  /-- a function of the matrix -/
  | value (e : Expr)
  /-- `binomial_ci(count, nobs, alpha)` with the function's own `alpha` -/
  | ci (count nobs : Expr)
  /-- forwards the matrix and `alpha` to another interval function -/
  | ciOf (callee : Nat)
  deriving DecidableEq, Repr, Inhabited

structure Def where
  /-- the key: calls and the model's table refer to definitions by this number (`nameIds` for the public names) -/
  id : Nat
  /-- the name in the source (for the report only) -/
  name : String
  body : Body
  deriving DecidableEq, Repr, Inhabited

/-- value of the definition `s` on `m`; `defs` is the table with the LATEST definition first, a call refers to the
definitions after the caller in that list (= before it in the source order the translator emits) -/
def sem : List Def → Nat → CMq → Val
  | [], _, _ => .bad
  | d :: rest, s, m =>
    if d.id = s then
      match d.body with
      | .value e => eval (fun t => sem rest t m) m e
      | _ => .bad
    else sem rest s m

/-- the `(count, nobs)` pair the interval function `s` hands to `binomial_ci` -/
def semCI : List Def → Nat → CMq → Option (Val × Val)
  | [], _, _ => none
  | d :: rest, s, m =>
    if d.id = s then
      match d.body with
      | .ci c n => some (eval (fun t => sem rest t m) m c, eval (fun t => sem rest t m) m n)
      | .ciOf callee => semCI rest callee m
      | .value _ => none
    else semCI rest s m

/-- normal form of the definition `s` (mirrors `sem`) -/
def nfOf : List Def → Nat → Option NF
  | [], _ => none
  | d :: rest, s =>
    if d.id = s then
      match d.body with
      | .value e => normalize (nfOf rest) [] e
      | _ => none
    else nfOf rest s

/-- the two linear forms the interval function `s` hands to `binomial_ci` (mirrors `semCI`) -/
def ciNfOf : List Def → Nat → Option (Lin × Lin)
  | [], _ => none
  | d :: rest, s =>
    if d.id = s then
      match d.body with
      | .ci c n =>
        match normalize (nfOf rest) [] c, normalize (nfOf rest) [] n with
        | some (.lin lc), some (.lin ln) => some (lc, ln)
        | _, _ => none
      | .ciOf callee => ciNfOf rest callee
      | .value _ => none
    else ciNfOf rest s

/-! ### the model's table -/

/-- the numbers of the public names: definitions are keyed by number (the kernel compares numbers much faster than
strings).  0-20 the functions of `metrics.py`, 21-24 its interval functions, 25-34 its documented aliases, 100 + k the
`ConfusionMatrix` method with the name of number k, 198 / 199 `class_accuracy` / `class_error_rate`.  The translator reads
this list from the checker's report and numbers every other definition (private helpers) from 1000. -/
def nameIds : List (String × Nat) := [
  ("tp", 0), ("fn", 1), ("fp", 2), ("tn", 3), ("p", 4), ("n", 5), ("top", 6), ("ton", 7), ("pop", 8),
  ("accuracy", 9), ("error_rate", 10), ("tpr", 11), ("fnr", 12), ("tnr", 13), ("fpr", 14), ("topr", 15),
  ("tonr", 16), ("ppv", 17), ("fdr", 18), ("npv", 19), ("for_", 20), ("tpr_ci", 21), ("tnr_ci", 22), ("fpr_ci", 23),
  ("fnr_ci", 24), ("tar", 25), ("frr", 26), ("trr", 27), ("far", 28), ("acceptance_rate", 29),
  ("rejection_rate", 30), ("tar_ci", 31), ("frr_ci", 32), ("trr_ci", 33), ("far_ci", 34),
  ("ConfusionMatrix.tp", 100), ("ConfusionMatrix.fn", 101), ("ConfusionMatrix.fp", 102), ("ConfusionMatrix.tn", 103),
  ("ConfusionMatrix.p", 104), ("ConfusionMatrix.n", 105), ("ConfusionMatrix.top", 106), ("ConfusionMatrix.ton", 107),
  ("ConfusionMatrix.pop", 108), ("ConfusionMatrix.accuracy", 109), ("ConfusionMatrix.error_rate", 110),
  ("ConfusionMatrix.tpr", 111), ("ConfusionMatrix.fnr", 112), ("ConfusionMatrix.tnr", 113),
  ("ConfusionMatrix.fpr", 114), ("ConfusionMatrix.topr", 115), ("ConfusionMatrix.tonr", 116),
  ("ConfusionMatrix.ppv", 117), ("ConfusionMatrix.fdr", 118), ("ConfusionMatrix.npv", 119),
  ("ConfusionMatrix.for_", 120), ("ConfusionMatrix.tpr_ci", 121), ("ConfusionMatrix.tnr_ci", 122),
  ("ConfusionMatrix.fpr_ci", 123), ("ConfusionMatrix.fnr_ci", 124), ("ConfusionMatrix.tar", 125),
  ("ConfusionMatrix.frr", 126), ("ConfusionMatrix.trr", 127), ("ConfusionMatrix.far", 128),
  ("ConfusionMatrix.acceptance_rate", 129), ("ConfusionMatrix.rejection_rate", 130), ("ConfusionMatrix.tar_ci", 131),
  ("ConfusionMatrix.frr_ci", 132), ("ConfusionMatrix.trr_ci", 133), ("ConfusionMatrix.far_ci", 134),
  ("ConfusionMatrix.class_accuracy", 198), ("ConfusionMatrix.class_error_rate", 199)]

/-- the model's definitions (`SA.CMq.*`, `SA/Model/Metrics.lean`) as normal forms; `SA/Theorems/C04Defs.lean`
proves each equal to the model's function on every matrix (`model_table_sound`) -/
def baseNF : List (Nat × NF) := [
  (/- tp -/ 0, .lin ⟨1, 0, 0, 0, 0⟩), (/- fn -/ 1, .lin ⟨0, 1, 0, 0, 0⟩),
  (/- fp -/ 2, .lin ⟨0, 0, 1, 0, 0⟩), (/- tn -/ 3, .lin ⟨0, 0, 0, 1, 0⟩),
  (/- p -/ 4, .lin ⟨1, 1, 0, 0, 0⟩), (/- n -/ 5, .lin ⟨0, 0, 1, 1, 0⟩),
  (/- top -/ 6, .lin ⟨1, 0, 1, 0, 0⟩), (/- ton -/ 7, .lin ⟨0, 1, 0, 1, 0⟩),
  (/- pop -/ 8, .lin ⟨1, 1, 1, 1, 0⟩), (/- accuracy -/ 9, .ratio ⟨1, 0, 0, 1, 0⟩ ⟨1, 1, 1, 1, 0⟩),
  (/- error_rate -/ 10, .ratio ⟨0, 1, 1, 0, 0⟩ ⟨1, 1, 1, 1, 0⟩), (/- tpr -/ 11, .ratio ⟨1, 0, 0, 0, 0⟩ ⟨1, 1, 0, 0, 0⟩),
  (/- fnr -/ 12, .ratio ⟨0, 1, 0, 0, 0⟩ ⟨1, 1, 0, 0, 0⟩), (/- tnr -/ 13, .ratio ⟨0, 0, 0, 1, 0⟩ ⟨0, 0, 1, 1, 0⟩),
  (/- fpr -/ 14, .ratio ⟨0, 0, 1, 0, 0⟩ ⟨0, 0, 1, 1, 0⟩), (/- topr -/ 15, .ratio ⟨1, 0, 1, 0, 0⟩ ⟨1, 1, 1, 1, 0⟩),
  (/- tonr -/ 16, .ratio ⟨0, 1, 0, 1, 0⟩ ⟨1, 1, 1, 1, 0⟩), (/- ppv -/ 17, .ratio ⟨1, 0, 0, 0, 0⟩ ⟨1, 0, 1, 0, 0⟩),
  (/- fdr -/ 18, .ratio ⟨0, 0, 1, 0, 0⟩ ⟨1, 0, 1, 0, 0⟩), (/- npv -/ 19, .ratio ⟨0, 0, 0, 1, 0⟩ ⟨0, 1, 0, 1, 0⟩),
  (/- for_ -/ 20, .ratio ⟨0, 1, 0, 0, 0⟩ ⟨0, 1, 0, 1, 0⟩)]

/-- the model's functions under the same numbers -/
def baseFn : List (Nat × (CMq → Val)) := [
  (/- tp -/ 0, fun m => .num m.tp), (/- fn -/ 1, fun m => .num m.fn), (/- fp -/ 2, fun m => .num m.fp),
  (/- tn -/ 3, fun m => .num m.tn), (/- p -/ 4, fun m => .num m.p), (/- n -/ 5, fun m => .num m.n),
  (/- top -/ 6, fun m => .num m.top), (/- ton -/ 7, fun m => .num m.ton), (/- pop -/ 8, fun m => .num m.pop),
  (/- accuracy -/ 9, fun m => .ofOpt m.accuracy), (/- error_rate -/ 10, fun m => .ofOpt m.errorRate), (/- tpr -/ 11, fun m => .ofOpt m.tpr),
  (/- fnr -/ 12, fun m => .ofOpt m.fnr), (/- tnr -/ 13, fun m => .ofOpt m.tnr), (/- fpr -/ 14, fun m => .ofOpt m.fpr),
  (/- topr -/ 15, fun m => .ofOpt m.topr), (/- tonr -/ 16, fun m => .ofOpt m.tonr), (/- ppv -/ 17, fun m => .ofOpt m.ppv),
  (/- fdr -/ 18, fun m => .ofOpt m.fdr), (/- npv -/ 19, fun m => .ofOpt m.npv), (/- for_ -/ 20, fun m => .ofOpt m.for_)]

/-- the interval functions of the model: `(count, nobs)` handed to `binomialCI` -/
def baseCI : List (Nat × Lin × Lin) := [
  (/- tpr_ci -/ 21, ⟨1, 0, 0, 0, 0⟩, ⟨1, 1, 0, 0, 0⟩), (/- tnr_ci -/ 22, ⟨0, 0, 0, 1, 0⟩, ⟨0, 0, 1, 1, 0⟩),
  (/- fpr_ci -/ 23, ⟨0, 0, 1, 0, 0⟩, ⟨0, 0, 1, 1, 0⟩), (/- fnr_ci -/ 24, ⟨0, 1, 0, 0, 0⟩, ⟨1, 1, 0, 0, 0⟩)]

def baseCIFn : List (Nat × (Rat → (Rat → Rat) → CMq → Option (Rat × Rat))) := [
  (/- tpr_ci -/ 21, fun z sq m => m.tprCI z sq), (/- tnr_ci -/ 22, fun z sq m => m.tnrCI z sq),
  (/- fpr_ci -/ 23, fun z sq m => m.fprCI z sq), (/- fnr_ci -/ 24, fun z sq m => m.fnrCI z sq)]

/-- public names that are documented aliases, and the `ConfusionMatrix` methods (binary matrices: the method is the
`metrics` function of the same name applied to `self.matrix`; `class_accuracy` / `class_error_rate` are the accuracy
of the binary matrix): number of the name ↦ number of the base definition it must equal -/
def aliasOf : List (Nat × Nat) := [
  (/- tar -/ 25, /- tpr -/ 11), (/- frr -/ 26, /- fnr -/ 12), (/- trr -/ 27, /- tnr -/ 13),
  (/- far -/ 28, /- fpr -/ 14), (/- acceptance_rate -/ 29, /- topr -/ 15), (/- rejection_rate -/ 30, /- tonr -/ 16),
  (/- tar_ci -/ 31, /- tpr_ci -/ 21), (/- frr_ci -/ 32, /- fnr_ci -/ 24), (/- trr_ci -/ 33, /- tnr_ci -/ 22),
  (/- far_ci -/ 34, /- fpr_ci -/ 23), (/- CM.tp -/ 100, /- tp -/ 0), (/- CM.fn -/ 101, /- fn -/ 1),
  (/- CM.fp -/ 102, /- fp -/ 2), (/- CM.tn -/ 103, /- tn -/ 3), (/- CM.p -/ 104, /- p -/ 4),
  (/- CM.n -/ 105, /- n -/ 5), (/- CM.top -/ 106, /- top -/ 6), (/- CM.ton -/ 107, /- ton -/ 7),
  (/- CM.pop -/ 108, /- pop -/ 8), (/- CM.accuracy -/ 109, /- accuracy -/ 9), (/- CM.error_rate -/ 110, /- error_rate -/ 10),
  (/- CM.tpr -/ 111, /- tpr -/ 11), (/- CM.fnr -/ 112, /- fnr -/ 12), (/- CM.tnr -/ 113, /- tnr -/ 13),
  (/- CM.fpr -/ 114, /- fpr -/ 14), (/- CM.topr -/ 115, /- topr -/ 15), (/- CM.tonr -/ 116, /- tonr -/ 16),
  (/- CM.ppv -/ 117, /- ppv -/ 17), (/- CM.fdr -/ 118, /- fdr -/ 18), (/- CM.npv -/ 119, /- npv -/ 19),
  (/- CM.for_ -/ 120, /- for_ -/ 20), (/- CM.tpr_ci -/ 121, /- tpr_ci -/ 21), (/- CM.tnr_ci -/ 122, /- tnr_ci -/ 22),
  (/- CM.fpr_ci -/ 123, /- fpr_ci -/ 23), (/- CM.fnr_ci -/ 124, /- fnr_ci -/ 24), (/- CM.tar -/ 125, /- tpr -/ 11),
  (/- CM.frr -/ 126, /- fnr -/ 12), (/- CM.trr -/ 127, /- tnr -/ 13), (/- CM.far -/ 128, /- fpr -/ 14),
  (/- CM.acceptance_rate -/ 129, /- topr -/ 15), (/- CM.rejection_rate -/ 130, /- tonr -/ 16), (/- CM.tar_ci -/ 131, /- tpr_ci -/ 21),
  (/- CM.frr_ci -/ 132, /- fnr_ci -/ 24), (/- CM.trr_ci -/ 133, /- tnr_ci -/ 22), (/- CM.far_ci -/ 134, /- fpr_ci -/ 23),
  (/- CM.class_accuracy -/ 198, /- accuracy -/ 9), (/- CM.class_error_rate -/ 199, /- error_rate -/ 10)]

/-- the base definition the public name number `s` must equal -/
def canon (s : Nat) : Nat := (aliasOf.lookup s).getD s

/-- normal form the MODEL lists for the public name number `s` -/
def modelNF (s : Nat) : Option NF := baseNF.lookup (canon s)
/-- the MODEL's function for the public name number `s` -/
def modelFn (s : Nat) : Option (CMq → Val) := baseFn.lookup (canon s)
def modelCI (s : Nat) : Option (Lin × Lin) := baseCI.lookup (canon s)
def modelCIFn (s : Nat) : Option (Rat → (Rat → Rat) → CMq → Option (Rat × Rat)) := baseCIFn.lookup (canon s)

/-! ### witnesses, verdicts, the statement of the generated theorem -/

/-- separating matrices: the 16 zero patterns of four distinct primes, and three more without zeros.  Two distinct
normal forms with small coefficients differ on at least one of them (not needed for soundness: a mismatch is only
reported with a witness in hand) -/
def witnesses : List CMq := [
  ⟨2, 3, 5, 7⟩, ⟨0, 3, 5, 7⟩, ⟨2, 0, 5, 7⟩, ⟨2, 3, 0, 7⟩, ⟨2, 3, 5, 0⟩,
  ⟨0, 0, 5, 7⟩, ⟨0, 3, 0, 7⟩, ⟨0, 3, 5, 0⟩, ⟨2, 0, 0, 7⟩, ⟨2, 0, 5, 0⟩, ⟨2, 3, 0, 0⟩,
  ⟨2, 0, 0, 0⟩, ⟨0, 3, 0, 0⟩, ⟨0, 0, 5, 0⟩, ⟨0, 0, 0, 7⟩, ⟨0, 0, 0, 0⟩,
  ⟨11, 13, 17, 19⟩, ⟨29, 23, 3, 5⟩, ⟨1, 1, 1, 1⟩]

/-- index of the first element satisfying `p` -/
def firstIdx {α : Type} (p : α → Bool) : List α → Nat → Option Nat
  | [], _ => none
  | x :: xs, i => if p x then some i else firstIdx p xs (i + 1)

/-- two values that are both inside the fragment and differ -/
def Val.differs (a b : Val) : Bool := !a.isBad && !b.isBad && decide (a ≠ b)

/-- the intervals `binomial_ci(c, n, ·)` and `binomial_ci(c', n', ·)` differ for sure: the pair is inside the
fragment and centre or radicand differ (`binomialCIParts`; e.g. 0 of 5 and 0 of 7 are both `[0, 0]`: no witness) -/
def ciDiffers (a : Val × Val) (c' n' : Rat) : Bool :=
  match a with
  | (.num c, .num n) => decide (binomialCIParts c n ≠ binomialCIParts c' n')
  | _ => false

inductive Verdict where
  /-- same normal form as the model's: equal on every matrix -/
  | ok
  /-- differs from the model on `witnesses[i]` -/
  | mismatch (i : Nat)
  /-- normal forms differ (or there is none) and no witness separates the two -/
  | undecided
  /-- the model lists nothing under this name (private helper, a metric the property does not name) -/
  | noModel
  deriving DecidableEq, Repr

/-- `defs`: latest definition first -/
def verdict (defs : List Def) (s : Nat) : Verdict :=
  match modelNF s, modelCI s with
  | some mnf, _ =>
    if nfOf defs s = some mnf then .ok
    else match firstIdx (fun w => (sem defs s w).differs (mnf.eval w)) witnesses 0 with
      | some i => .mismatch i
      | none => .undecided
  | none, some (mc, mn) =>
    if ciNfOf defs s = some (mc, mn) then .ok
    else match firstIdx (fun w => match semCI defs s w with
                                  | some a => ciDiffers a (mc.eval w) (mn.eval w)
                                  | none => false) witnesses 0 with
      | some i => .mismatch i
      | none => .undecided
  | none, none => .noModel

def callsIn : Expr → List Nat
  | .add a b | .sub a b | .divRaw a b => callsIn a ++ callsIn b
  | .whereNZ c a b => callsIn c ++ callsIn a ++ callsIn b
  | .call s => [s]
  | _ => []

def Body.isValue : Body → Bool
  | .value _ => true
  | _ => false

/-- numbers are unique and every call refers to an earlier definition of the right kind (`defs`: latest first) -/
def closedFrom : List Def → Bool
  | [] => true
  | d :: rest =>
    closedFrom rest && !(rest.any fun r => r.id == d.id) &&
    (let valueDefined := fun s => rest.any fun r => r.id == s && r.body.isValue
     match d.body with
     | .value e => (callsIn e).all valueDefined
     | .ci c n => (callsIn c ++ callsIn n).all valueDefined
     | .ciOf s => rest.any fun r => r.id == s && !r.body.isValue)

/-- what the generated theorem states about the current source -/
structure Report where
  /-- numbers unique, calls refer to earlier definitions -/
  closed : Bool
  /-- (number of a definition that differs from the model's, index of the witness matrix on which it does) -/
  mismatches : List (Nat × Nat)
  /-- numbers of the definitions with the model's normal form -/
  covered : List Nat
  deriving DecidableEq, Repr

/-- `table`: the translated definitions in source (dependency) order -/
def checkAll (table : List Def) : Report :=
  let defs := table.reverse
  let names := table.map Def.id
  ⟨closedFrom defs,
   names.filterMap (fun s => match verdict defs s with
                             | .mismatch i => some (s, i)
                             | _ => none),
   names.filter (fun s => verdict defs s == .ok)⟩

/-! ### report (printed by the generated file, parsed by harness/metricdefs.py) -/

def Lin.str (l : Lin) : String := s!"{l.a},{l.b},{l.c},{l.d},{l.k}"

def NF.str : NF → String
  | .lin l => s!"lin:{l.str}"
  | .ratio n d => s!"ratio:{n.str}/{d.str}"

def optNFStr : Option NF → String
  | some nf => nf.str
  | none => "none"

def optCIStr : Option (Lin × Lin) → String
  | some (c, n) => s!"ci:{c.str}/{n.str}"
  | none => "none"

def Verdict.str : Verdict → String
  | .ok => "ok"
  | .mismatch i => s!"mismatch:{i}"
  | .undecided => "undecided"
  | .noModel => "nomodel"

def Val.str : Val → String
  | .num q => s!"{q.num}/{q.den}"
  | .nan => "nan"
  | .bad => "bad"

def witnessStr (defs : List Def) (s : Nat) (i : Nat) : String :=
  match witnesses[i]? with
  | none => ""
  | some w =>
    let cells := s!"{w.tp.num},{w.fn.num},{w.fp.num},{w.tn.num}"
    match modelNF s, modelCI s with
    | some mnf, _ => s!" witness={cells} got={(sem defs s w).str} want={(mnf.eval w).str}"
    | none, some (mc, mn) =>
      let got := match semCI defs s w with
        | some (c, n) => s!"{c.str};{n.str}"
        | none => "none"
      s!" witness={cells} got={got} want={(Val.num (mc.eval w)).str};{(Val.num (mn.eval w)).str}"
    | none, none => ""


def reportLines (table : List Def) : List String :=
  let defs := table.reverse
  [s!"TABLE closed={if closedFrom defs then 1 else 0} defs={table.length}", "MODEL " ++ ",".intercalate (nameIds.map fun p => s!"{p.1}:{p.2}")] ++
  table.map fun d =>
    let v := verdict defs d.id
    let kind := match d.body with
      | .value _ => "value"
      | _ => "ci"
    let got := match d.body with
      | .value _ => optNFStr (nfOf defs d.id)
      | _ => optCIStr (ciNfOf defs d.id)
    let want := match modelNF d.id, modelCI d.id with
      | some mnf, _ => mnf.str
      | none, some c => optCIStr (some c)
      | none, none => "none"
    let wit := match v with
      | .mismatch i => witnessStr defs d.id i
      | _ => ""
    s!"DEF id={d.id} name={d.name} kind={kind} verdict={v.str} nf={got} model={want}{wit}"

end SA.MetricExpr
