/-
`score_analysis.metrics` on one binary matrix with rational (float-valued or integer) cells,
and `utils.binomial_ci`.  `none` is NaN.
-/
import SA.Model.Basic

namespace SA

/-- a 2x2 matrix `[[tp, fn], [fp, tn]]` with rational cells -/
structure CMq where
  tp : Rat
  fn : Rat
  fp : Rat
  tn : Rat
deriving DecidableEq, Repr, Inhabited

def CM.toQ (m : CM) : CMq := ⟨m.tp, m.fn, m.fp, m.tn⟩

/-- `np.divide(a, b, out=nan, where=b != 0)` -/
def divQ (a b : Rat) : Option Rat := if b = 0 then none else some (a / b)

namespace CMq
def p (m : CMq) : Rat := m.tp + m.fn
def n (m : CMq) : Rat := m.fp + m.tn
def top (m : CMq) : Rat := m.tp + m.fp
def ton (m : CMq) : Rat := m.fn + m.tn
/-- `np.sum(matrix, axis=(-1, -2))` -/
def pop (m : CMq) : Rat := m.tp + m.fn + m.fp + m.tn

def accuracy (m : CMq) : Option Rat := divQ (m.tp + m.tn) m.pop
def errorRate (m : CMq) : Option Rat := m.accuracy.map (fun a => 1 - a)
def tpr (m : CMq) : Option Rat := divQ m.tp m.p
def tnr (m : CMq) : Option Rat := divQ m.tn m.n
def fpr (m : CMq) : Option Rat := divQ m.fp m.n
def fnr (m : CMq) : Option Rat := divQ m.fn m.p
def topr (m : CMq) : Option Rat := divQ m.top m.pop
def tonr (m : CMq) : Option Rat := divQ m.ton m.pop
def ppv (m : CMq) : Option Rat := divQ m.tp m.top
def npv (m : CMq) : Option Rat := divQ m.tn m.ton
def fdr (m : CMq) : Option Rat := m.ppv.map (fun a => 1 - a)
def for_ (m : CMq) : Option Rat := m.npv.map (fun a => 1 - a)
end CMq

/-- `utils.binomial_ci(count, nobs, alpha)` for one entry, given `z = norm.isf(alpha/2)` and
the square-root function as oracles (utils.py:24-33). -/
def binomialCI (z : Rat) (sqrt : Rat → Rat) (count nobs : Rat) : Option (Rat × Rat) :=
  match divQ count nobs with
  | none => none
  | some p =>
    let std := sqrt (p * (1 - p) / nobs)
    let dist := z * std
    some (p - dist, p + dist)

/-- centre and radicand of the interval: what the interval is, up to the square root -/
def binomialCIParts (count nobs : Rat) : Option (Rat × Rat) :=
  match divQ count nobs with
  | none => none
  | some p => some (p, p * (1 - p) / nobs)

namespace CMq
def tprCI (z : Rat) (sqrt : Rat → Rat) (m : CMq) := binomialCI z sqrt m.tp m.p
def tnrCI (z : Rat) (sqrt : Rat → Rat) (m : CMq) := binomialCI z sqrt m.tn m.n
def fprCI (z : Rat) (sqrt : Rat → Rat) (m : CMq) := binomialCI z sqrt m.fp m.n
def fnrCI (z : Rat) (sqrt : Rat → Rat) (m : CMq) := binomialCI z sqrt m.fn m.p
end CMq

end SA
