/-
`score_analysis.cm.ConfusionMatrix` for N >= 2 classes (cm.py): the four construction routes
(labels / predictions / weights, array, dict of dicts, DataFrame), class reordering,
`one_vs_all`, the per-class metric wrapper with `as_dict`, and `accuracy`.

Classes are `Nat` codes (the harness maps the hashable Python labels to codes; when the default
class list is used the codes respect the sort order of the labels).  A matrix is a function
`Nat → Nat → Rat` together with its size; only entries below the size are meaningful.
A vectorised matrix of shape X+(N,N) is a family of such matrices, the operations below act on
each member (all numpy operations in cm.py are over the last two axes).

Core Lean only.
-/
import SA.Model.Metrics
import SA.Model.Threshold

namespace SA

abbrev Mat := Nat → Nat → Rat

def Mat.zero : Mat := fun _ _ => 0

/-- one sample of `zip(labels, predictions, weights)` -/
structure Sample where
  label : Nat
  pred : Nat
  weight : Rat
deriving DecidableEq, Repr, Inhabited

/-- a `ConfusionMatrix` object: `.matrix` (of shape `(n, n)`) and `.classes` -/
structure CMat where
  n : Nat
  classes : List Nat
  m : Mat

/-! ### construction from labels and predictions (cm.py:212-241) -/

/-- `idx_map = {c: i for i, c in enumerate(classes)}` then `idx_map[x]`: a later duplicate
overwrites an earlier one, a missing key is `none` (KeyError). `k` is the index of the head. -/
def idxMapFrom : List Nat → Nat → Nat → Option Nat
  | [], _, _ => none
  | c :: cs, k, x =>
    match idxMapFrom cs (k + 1) x with
    | some i => some i
    | none => if x = c then some k else none

def idxMap (classes : List Nat) (x : Nat) : Option Nat := idxMapFrom classes 0 x

/-- `matrix[i][j] += w` on the functional matrix -/
def addAt (M : Mat) (i j : Nat) (w : Rat) : Mat :=
  fun a b => if a = i ∧ b = j then M a b + w else M a b

/-- the loop `for label, pred, weight in zip(...): matrix[idx_map[label]][idx_map[pred]] += weight`
(cm.py:238-239); `KeyError` as soon as a label or prediction is not a class. -/
def accumulate (classes : List Nat) : List Sample → Mat → Except Err Mat
  | [], M => .ok M
  | s :: rest, M =>
    match idxMap classes s.label with
    | none => .error .keyError
    | some i =>
      match idxMap classes s.pred with
      | none => .error .keyError
      | some j => accumulate classes rest (addAt M i j s.weight)

/-- the input checks at the end of `__init__` (cm.py:145-156) for a non-binary matrix whose last
two dimensions are `n`: at least two classes, as many classes as rows, unique names. -/
def checkClasses (classes : List Nat) (n : Nat) : Except Err Unit :=
  if classes.length < 2 then .error .valueError
  else if classes.length ≠ n then .error .valueError
  else if ¬ classes.Nodup then .error .valueError
  else .ok ()

/-- `_assign_from_predictions` with explicit classes, followed by the input checks. -/
def fromSamples (classes : List Nat) (samples : List Sample) : Except Err CMat :=
  match accumulate classes samples Mat.zero with
  | .error e => .error e
  | .ok M =>
    match checkClasses classes classes.length with
    | .error e => .error e
    | .ok () => .ok ⟨classes.length, classes, M⟩

/-- insertion into a strictly increasing list (no duplicates kept) -/
def insertU (x : Nat) : List Nat → List Nat
  | [] => [x]
  | y :: ys => if x < y then x :: y :: ys else if x = y then y :: ys else y :: insertU x ys

/-- `np.unique` -/
def uniqueSorted (l : List Nat) : List Nat := l.foldr insertU []

/-- `np.unique(np.concatenate([np.unique(labels), np.unique(predictions)]))` (cm.py:220-222) -/
def defaultClasses (labels preds : List Nat) : List Nat :=
  uniqueSorted (uniqueSorted labels ++ uniqueSorted preds)

/-- `zip(labels, predictions, weights)` with the length check of cm.py:230-235; the default
weight is 1. -/
def mkSamples (labels preds : List Nat) (weights : Option (List Rat)) : Except Err (List Sample) :=
  match weights with
  | some w =>
    if w.length ≠ labels.length then .error .valueError
    else .ok ((labels.zip (preds.zip w)).map fun x => ⟨x.1, x.2.1, x.2.2⟩)
  | none => .ok ((labels.zip preds).map fun x => ⟨x.1, x.2, 1⟩)

/-- `ConfusionMatrix(labels=, predictions=, weights=, classes=)` (non-binary). -/
def fromPredictions (classes : Option (List Nat)) (labels preds : List Nat)
    (weights : Option (List Rat)) : Except Err CMat :=
  let cls := match classes with
    | none => defaultClasses labels preds
    | some c => c
  match mkSamples labels preds weights with
  | .error e => .error e
  | .ok samples => fromSamples cls samples

/-! ### construction from a matrix (cm.py:158-210) -/

/-- `set(a) != set(b)` negated -/
def sameSet (a b : List Nat) : Bool := a.all (fun x => b.contains x) && b.all (fun x => a.contains x)

/-- entry `(i, j)` of the matrix re-indexed by labels: the value stored at the source position of
`classes[i]` (row names `rows`) and of `classes[j]` (column names `cols`). This is
`[[matrix[r][c] for c in classes] for r in classes]` and `matrix.loc[classes, classes]`. -/
def reorder2 (rows cols : List Nat) (M : Mat) (classes : List Nat) : Mat :=
  fun i j => M (rows.idxOf (classes.getD i 0)) (cols.idxOf (classes.getD j 0))

/-- reordering when rows and columns of the source are in the same order -/
def reorder (src : List Nat) (M : Mat) (classes : List Nat) : Mat := reorder2 src src M classes

/-- array route (`np.asarray(matrix)`, last two dimensions `n`): the classes default to
`0..n-1`, no reordering. -/
def fromArray (n : Nat) (M : Mat) (classes : Option (List Nat)) : Except Err CMat :=
  let cls := match classes with
    | none => List.range n
    | some c => c
  match checkClasses cls n with
  | .error e => .error e
  | .ok () => .ok ⟨n, cls, M⟩

/-- a dict of dicts: outer keys in insertion order (unique, being dict keys), the inner keys of
every row in their own insertion order, and `val r k` = the `k`-th value of the `r`-th row. -/
structure DictMat where
  keys : List Nat
  rowKeys : List (List Nat)
  val : Mat

/-- `matrix[r][c]` by key -/
def DictMat.get (d : DictMat) (r c : Nat) : Rat :=
  let ri := d.keys.idxOf r
  d.val ri ((d.rowKeys.getD ri []).idxOf c)

/-- dict-of-dicts route (cm.py:161-175) followed by the input checks. -/
def fromDict (d : DictMat) (classes : Option (List Nat)) : Except Err CMat :=
  let clsE : Except Err (List Nat) := match classes with
    | some c => if sameSet c d.keys then .ok c else .error .valueError
    | none => .ok d.keys
  match clsE with
  | .error e => .error e
  | .ok cls =>
    if ¬ (d.rowKeys.all fun rk => sameSet rk cls) then .error .valueError
    else
      match checkClasses cls cls.length with
      | .error e => .error e
      | .ok () => .ok ⟨cls.length, cls, fun i j => d.get (cls.getD i 0) (cls.getD j 0)⟩

/-- DataFrame route (cm.py:177-194) followed by the input checks; `M` is `matrix.values`,
`rows` / `cols` are `matrix.index` / `matrix.columns`. -/
def fromFrame (rows cols : List Nat) (M : Mat) (classes : Option (List Nat)) : Except Err CMat :=
  if ¬ sameSet rows cols then .error .valueError
  else if ¬ rows.Nodup then .error .valueError
  else if ¬ cols.Nodup then .error .valueError
  else
    let clsE : Except Err (List Nat) := match classes with
      | some c => if sameSet c rows then .ok c else .error .valueError
      | none => .ok rows
    match clsE with
    | .error e => .error e
    | .ok cls =>
      match checkClasses cls cls.length with
      | .error e => .error e
      | .ok () => .ok ⟨cls.length, cls, reorder2 rows cols M cls⟩

/-! ### one-vs-all (cm.py:279-308), accuracy (metrics.py:136-154), per-class metrics -/

/-- `Σ_{k<n} f k` (`np.sum` along one axis of length `n`) -/
def sumTo : Nat → (Nat → Rat) → Rat
  | 0, _ => 0
  | n + 1, f => sumTo n f + f n

/-- `np.sum(matrix[..., i, :], axis=-1)` -/
def rowSum (n : Nat) (M : Mat) (i : Nat) : Rat := sumTo n (fun k => M i k)
/-- `np.sum(matrix[..., :, j], axis=-1)` -/
def colSum (n : Nat) (M : Mat) (j : Nat) : Rat := sumTo n (fun k => M k j)
/-- `np.sum(matrix, axis=(-1, -2))` -/
def total (n : Nat) (M : Mat) : Rat := sumTo n (fun i => rowSum n M i)
/-- `np.sum(np.diagonal(matrix), axis=-1)` -/
def trace (n : Nat) (M : Mat) : Rat := sumTo n (fun i => M i i)

/-- the 2x2 matrix of class `j` against the rest, in the order of the assignments of
cm.py:298-307: the `tn` cell is the total minus the sum of the 2x2 block, whose `[1,1]` cell is
still zero at that moment. -/
def oneVsAll (n : Nat) (M : Mat) (j : Nat) : CMq :=
  let tp := M j j
  let fn := rowSum n M j - tp
  let fp := colSum n M j - tp
  let tn := total n M - (tp + fn + fp + 0)
  ⟨tp, fn, fp, tn⟩

/-- `metrics.accuracy` on an N x N matrix -/
def accuracy (n : Nat) (M : Mat) : Option Rat := divQ (trace n M) (total n M)

/-- `metrics.error_rate` on an N x N matrix -/
def errorRate (n : Nat) (M : Mat) : Option Rat := (accuracy n M).map (fun a => 1 - a)

/-- the `cm_class_metric` wrapper (cm.py:16-47) on a non-binary matrix: the binary metric `f`
evaluated on `one_vs_all()`, one value per class. -/
def classMetric {α} (f : CMq → α) (n : Nat) (M : Mat) : List α :=
  (List.range n).map fun j => f (oneVsAll n M j)

/-- `_class_metric_as_dict` (cm.py:310-319): `{c: np.take(arr, j) for j, c in enumerate(classes)}`
as an association list. -/
def asDict {α} (classes : List Nat) (vals : List α) : List (Nat × α) := classes.zip vals

/-- the matrix with rows and columns permuted by `p`: class `i` of the result is class `p[i]`
of `M` -/
def permute (p : List Nat) (M : Mat) : Mat := fun i j => M (p.getD i 0) (p.getD j 0)

/-! ### flattening (wire format) -/

def Mat.ofList (n : Nat) (l : List Rat) : Mat := fun i j => l.getD (i * n + j) 0

def Mat.toList (n : Nat) (M : Mat) : List Rat :=
  (List.range n).flatMap fun i => (List.range n).map fun j => M i j

end SA
