/-
A small row-major (C order) N-d array model, by NumPy's documented meaning.

`Nd α` is a shape and the flat row-major buffer.  Everything except `reshape` / `ravel` is defined
through the *multi-index* meaning of the NumPy function (`ofFn shape f` is the array whose entry
at multi-index `i` is `f i`); `reshape` keeps the flat buffer and only replaces the shape — which
is exactly why the order of the axes before a `reshape` matters.

Core Lean only (linked into the driver).
-/
import SA.Model.Bootstrap

namespace SA

structure Nd (α : Type) where
  shape : List Nat
  data : List α
deriving Repr

/-- number of entries of an array of the given shape (`np.prod(shape)`, 1 for `()`) -/
def shapeProd : List Nat → Nat
  | [] => 1
  | d :: ds => d * shapeProd ds

/-- row-major flat position of a multi-index (`np.ravel_multi_index`, C order) -/
def flatIndex : List Nat → List Nat → Nat
  | _ :: ds, i :: is => i * shapeProd ds + flatIndex ds is
  | _, _ => 0

/-- the multi-index at a flat position (`np.unravel_index`, C order) -/
def unravel : List Nat → Nat → List Nat
  | [], _ => []
  | _ :: ds, t => (t / shapeProd ds) :: unravel ds (t % shapeProd ds)

/-- `idx` is a valid multi-index of an array of shape `shape` -/
def InRange : List Nat → List Nat → Prop
  | [], [] => True
  | d :: ds, i :: is => i < d ∧ InRange ds is
  | _, _ => False

namespace Nd
variable {α β : Type}

def size (a : Nd α) : Nat := shapeProd a.shape

/-- the buffer has as many entries as the shape says -/
def WF (a : Nd α) : Prop := a.data.length = shapeProd a.shape

/-- entry at a multi-index (`a[i0, i1, ...]`); `default` outside the buffer -/
def get [Inhabited α] (a : Nd α) (idx : List Nat) : α := a.data.getD (flatIndex a.shape idx) default

/-- the array of shape `shape` whose entry at multi-index `i` is `f i` -/
def ofFn (shape : List Nat) (f : List Nat → α) : Nd α :=
  ⟨shape, (List.range (shapeProd shape)).map fun t => f (unravel shape t)⟩

/-- elementwise operation (`alpha / 2.0`, `1 - alpha / 2.0`) -/
def map (f : α → β) (a : Nd α) : Nd β := ⟨a.shape, a.data.map f⟩

/-- `np.reshape(a, shape)`: same flat buffer, new shape; ValueError if the sizes differ -/
def reshape (a : Nd α) (shape : List Nat) : Except Err (Nd α) :=
  if shapeProd shape = a.size then .ok ⟨shape, a.data⟩ else .error .valueError

/-- `np.reshape(a, -1)` -/
def ravel (a : Nd α) : Nd α := ⟨[a.size], a.data⟩

/-- `np.reshape(a, (lead, -1))`: ValueError when the unknown dimension cannot be inferred -/
def reshapeInfer (a : Nd α) (lead : Nat) : Except Err (Nd α) :=
  if lead = 0 then .error .valueError
  else if a.size % lead ≠ 0 then .error .valueError
  else .ok ⟨[lead, a.size / lead], a.data⟩

/-- `a[np.newaxis]` -/
def newaxis0 (a : Nd α) : Nd α := ⟨1 :: a.shape, a.data⟩

/-- `np.transpose(a, perm)` for a permutation `perm` of the axes: axis `k` of the result is axis
`perm[k]` of `a`, i.e. `result[j] = a[i]` with `i[perm[k]] = j[k]`. -/
def transpose [Inhabited α] (a : Nd α) (perm : List Nat) : Nd α :=
  ofFn (perm.map fun ax => a.shape.getD ax 0) fun j =>
    a.get ((List.range a.shape.length).map fun ax => j.getD (perm.idxOf ax) 0)

end Nd

/-- `normalize_axis_index`: negative axes count from the end; AxisError (a ValueError) outside
`[-rank, rank)` -/
def normAxis (rank : Nat) (ax : Int) : Except Err Nat :=
  if -(rank : Int) ≤ ax ∧ ax < (rank : Int) then
    .ok (if ax < 0 then ax + (rank : Int) else ax).toNat
  else .error .valueError

/-- insertion into a list of `(destination, source)` pairs sorted by destination -/
def insertPair (p : Nat × Nat) : List (Nat × Nat) → List (Nat × Nat)
  | [] => [p]
  | q :: qs => if p.1 ≤ q.1 then p :: q :: qs else q :: insertPair p qs

/-- `sorted(zip(destination, source))` (destinations are distinct) -/
def sortPairs : List (Nat × Nat) → List (Nat × Nat)
  | [] => []
  | p :: ps => insertPair p (sortPairs ps)

/-- the axis order `np.moveaxis` hands to `transpose`
(numpy/_core/numeric.py: `order = [n for n in range(a.ndim) if n not in source]`,
`for dest, src in sorted(zip(destination, source)): order.insert(dest, src)`) -/
def moveaxisOrder (rank : Nat) (src dst : List Nat) : List Nat :=
  (sortPairs (dst.zip src)).foldl (fun o p => o.insertIdx p.1 p.2)
    ((List.range rank).filter fun n => !src.contains n)

/-- `np.moveaxis(a, source, destination)`; ValueError for axes out of range, repeated axes or
lists of different lengths -/
def Nd.moveaxis {α : Type} [Inhabited α] (a : Nd α) (source destination : List Int) :
    Except Err (Nd α) := do
  let src ← source.mapM (normAxis a.shape.length)
  let dst ← destination.mapM (normAxis a.shape.length)
  if src.length ≠ dst.length then throw .valueError
  if ¬ src.Nodup ∨ ¬ dst.Nodup then throw .valueError
  pure (a.transpose (moveaxisOrder a.shape.length src dst))

/-- `np.swapaxes(a, 0, 1)` (used by one of the excluded variants); AxisError below rank 2 -/
def Nd.swapaxes01 {α : Type} [Inhabited α] (a : Nd α) : Except Err (Nd α) :=
  if a.shape.length < 2 then .error .valueError
  else .ok (a.transpose (1 :: 0 :: (List.range (a.shape.length - 2)).map (· + 2)))

/-- `np.stack(arrays, axis=0)`: ValueError for no arrays or different shapes -/
def stack0 {α : Type} [Inhabited α] (l : List (Nd α)) : Except Err (Nd α) :=
  match l with
  | [] => .error .valueError
  | a :: rest =>
    if rest.all (fun b => b.shape == a.shape) then
      .ok (Nd.ofFn (l.length :: a.shape) fun idx => (l.getD (idx.headD 0) a).get idx.tail)
    else .error .valueError

/-- `np.stack(arrays, axis=-1)` (used by the excluded variants) -/
def stackLast {α : Type} [Inhabited α] (l : List (Nd α)) : Except Err (Nd α) :=
  match l with
  | [] => .error .valueError
  | a :: rest =>
    if rest.all (fun b => b.shape == a.shape) then
      .ok (Nd.ofFn (a.shape ++ [l.length]) fun idx =>
        (l.getD (idx.getLastD 0) a).get idx.dropLast)
    else .error .valueError

/-- `theta[:, y...]`: the replicates of metric component `y` -/
def Nd.column {α : Type} [Inhabited α] (a : Nd α) (y : List Nat) : List α :=
  (List.range (a.shape.headD 0)).map fun n => a.get (n :: y)

/-- `np.nanquantile(theta, q=q, axis=0)` (linear method) by its documented meaning: shape
`q.shape + theta.shape[1:]`, entry `[qi..., y...]` is the `q[qi...]`-quantile of the non-NaN
values of `theta[:, y...]` (NaN if there is none). -/
def nanquantileAxis0 (theta : Nd (Option Rat)) (q : Nd Rat) : Nd (Option Rat) :=
  Nd.ofFn (q.shape ++ theta.shape.tail) fun idx =>
    quantileLinear (theta.column (idx.drop q.shape.length)) (q.get (idx.take q.shape.length))

/-- The call `np.nanquantile(theta, q=q, axis=0)` as NumPy 2.x executes it for a `q` of rank ≥ 2
(numpy/lib/_nanfunctions_impl.py): rank-0 `theta` has no axis 0 (AxisError); the range check
`q.min() >= 0 and q.max() <= 1` comes first (ValueError for an empty `q`: reduction of a
zero-size array; ValueError "Quantiles must be in the range [0, 1]"); a zero-size `theta` is
short-circuited to `np.nanmean(theta, axis=0)`, which has shape `theta.shape[1:]` only — the
quantile axes are dropped (all NaN). -/
def npNanquantileAxis0 (theta : Nd (Option Rat)) (q : Nd Rat) : Except Err (Nd (Option Rat)) :=
  if q.data.isEmpty then .error .valueError
  else if ¬ q.data.all (fun x => decide (0 ≤ x) && decide (x ≤ 1)) then .error .valueError
  else if theta.shape = [] then .error .valueError
  else if theta.size = 0 then
    .ok ⟨theta.shape.tail, List.replicate (shapeProd theta.shape.tail) none⟩
  else .ok (nanquantileAxis0 theta q)

end SA
