/-
Scripted random number generator: the model of `np.random.*` (module-level functions of the
global `RandomState`) used by score_analysis.scores.  Shared by C11, C12, C14, C16, C18.

Core Lean only.

The library never looks at the generator's state; it only *asks* for draws.  A run of a sampling
routine is therefore a function of the list of answers it receives.  The model makes that
explicit:

* `Req`       one call of a primitive, with its parameters,
* `RngState`  the unread answers (`responses`), the requests issued so far with the answer each
              received (`trace`, most recent first; `RngState.paired` / `RngState.requests` give
              them in call order) and a flag `ok` that stays
              `true` as long as every request found an answer lying in the support of the
              requested distribution (`Req.inRange`),
* `draw`      consumes the next answer.

Theorems about sampling are stated "for every script such that the run is `ok`", i.e. for every
sequence of answers NumPy could possibly give.  The Python side (`harness/rng_script.py`)
records the requests and answers of the real implementation in the same vocabulary.
-/
import SA.Model.Basic

namespace SA

/-- One call of a NumPy random primitive.  `size = none` is the scalar form (`size=None`). -/
inductive Req where
  /-- `np.random.binomial(n, p, size)` -/
  | binomial (n : Nat) (p : Rat) (size : Option Nat)
  /-- `np.random.poisson(lam, size)` -/
  | poisson (lam : Rat) (size : Option Nat)
  /-- `np.random.choice(n, size, replace)` with an integer population: indices `< n` -/
  | choice (n : Nat) (size : Option Nat) (replace : Bool)
  /-- `np.random.choice(array, size, replace)` with an array of length `n`: the answer is the
  list of chosen *positions*; the caller gathers the values -/
  | choiceFrom (n : Nat) (size : Option Nat) (replace : Bool)
  /-- `np.random.normal(loc, scale, size)`: answers are not naturals; the script carries `[]` and
  the noise is not modelled -/
  | normal (size : Nat)
deriving DecidableEq, Repr, Inhabited

/-- number of values a request returns -/
def sizeLen : Option Nat → Nat
  | none => 1
  | some k => k

/-- one binomial outcome lies in the support of `Bin(n, p)` -/
def binomialInSupport (n : Nat) (p : Rat) (x : Nat) : Bool :=
  decide (x ≤ n) && (decide (0 < p) || x == 0) && (decide (p < 1) || x == n)

/-- The answer lies in the support of the requested distribution and has the requested length:
binomial outcomes `≤ n` (`= 0` when `p ≤ 0`, `= n` when `p ≥ 1`), Poisson outcomes any naturals
(`0` when `lam ≤ 0`), choices `< n`, pairwise distinct when drawn without replacement. -/
def Req.inRange : Req → List Nat → Bool
  | .binomial n p size, r => r.length == sizeLen size && r.all (binomialInSupport n p)
  | .poisson lam size, r => r.length == sizeLen size && r.all (fun x => decide (0 < lam) || x == 0)
  | .choice n size repl, r =>
    r.length == sizeLen size && r.all (fun x => decide (x < n)) && (repl || decide r.Nodup)
  | .choiceFrom n size repl, r =>
    r.length == sizeLen size && r.all (fun x => decide (x < n)) && (repl || decide r.Nodup)
  | .normal _, _ => true

/-- NumPy accepts the request (otherwise it raises `ValueError`): a probability in `[0,1]`,
`lam ≥ 0`, a non-empty population unless nothing is drawn, and no more draws than elements when
drawing without replacement. -/
def Req.feasible : Req → Bool
  | .binomial _ p _ => decide (0 ≤ p) && decide (p ≤ 1)
  | .poisson lam _ => decide (0 ≤ lam)
  | .choice n size repl => (decide (0 < n) || sizeLen size == 0) && (repl || decide (sizeLen size ≤ n))
  | .choiceFrom n size repl => (decide (0 < n) || sizeLen size == 0) && (repl || decide (sizeLen size ≤ n))
  | .normal _ => true

/-- Script state. -/
structure RngState where
  /-- answers not yet consumed, in order -/
  responses : List (List Nat)
  /-- requests issued so far with the answer each received, most recent first -/
  trace : List (Req × List Nat)
  /-- every request so far found an answer, and the answer was `inRange` -/
  ok : Bool
deriving Repr

/-- start of a run on a script -/
def RngState.init (script : List (List Nat)) : RngState := ⟨script, [], true⟩

/-- (request, answer) pairs in call order -/
def RngState.paired (st : RngState) : List (Req × List Nat) := st.trace.reverse

/-- requests in call order -/
def RngState.requests (st : RngState) : List Req := st.paired.map (·.1)

/-- Consume the next answer.  An exhausted script yields `[]` and clears `ok`. -/
def draw (r : Req) (st : RngState) : List Nat × RngState :=
  match st.responses with
  | [] => ([], ⟨[], (r, []) :: st.trace, false⟩)
  | x :: rest => (x, ⟨rest, (r, x) :: st.trace, st.ok && r.inRange x⟩)

/-- Scalar form (`size=None`): the single value of the answer (`0` if the script is exhausted). -/
def drawScalar (r : Req) (st : RngState) : Nat × RngState :=
  let d := draw r st
  (d.1.headD 0, d.2)

end SA
