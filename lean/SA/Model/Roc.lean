/-
ROC curves: `roc`, `_find_support_thresholds` on the `nb_extra_points = None` path and the
derived views of `ROCCurve` (roc_curve.py:39-97, 101-141, 226-311).
Same case splits and order of operations as the Python. Core Lean only.
-/
import SA.Model.Threshold

namespace SA

/-- `Scores.threshold_at_<metric>(array, method=m)`: the emptiness check is made once, then the
vectorised computation (scores.py:435-486 for FNR / FPR). -/
def Scores.thresholdAtArr (ulp : Ulp) (s : Scores) (metric : Metric) (rs : List Rat) (m : Method) :
    Except Err (List Rat) :=
  if (s.metricArray metric).length = 0 then .error .valueError
  else .ok (rs.map fun r => thresholdAtRatio ulp s.cfg (s.metricArray metric) (s.rescale metric r)
    metric.increasing metric.ratioClass m)

/-- The eight accepted values of `x_axis` (roc_curve.py:303). -/
inductive XAxis where
  | fnr | fpr | tnr | tpr | far | frr | tar | trr
deriving DecidableEq, Repr, Inhabited

def XAxis.ofString : String → Option XAxis
  | "fnr" => some .fnr
  | "fpr" => some .fpr
  | "tnr" => some .tnr
  | "tpr" => some .tpr
  | "far" => some .far
  | "frr" => some .frr
  | "tar" => some .tar
  | "trr" => some .trr
  | _ => none

def XAxis.all : List XAxis := [.fnr, .fpr, .tnr, .tpr, .far, .frr, .tar, .trr]

/-- `x_axis in {"fpr", "tpr", "far", "tar"}` (roc_curve.py:305): decreasing metrics if
`score_class = pos`. -/
def XAxis.decreasing : XAxis → Bool
  | .fpr | .tpr | .far | .tar => true
  | .fnr | .tnr | .frr | .trr => false

/-- the rate an axis name denotes (aliases resolved) -/
def XAxis.metric : XAxis → Metric
  | .fnr | .frr => .fnr
  | .fpr | .far => .fpr
  | .tnr | .trr => .tnr
  | .tpr | .tar => .tpr

/-- `np.linspace(0.0, 1.0, k, endpoint=True)`: `i / (k - 1)` for `i < k`; `[0]` for `k = 1`;
empty for `k = 0`. -/
def linspace01 (k : Nat) : List Rat :=
  if k = 1 then [0] else (List.range k).map fun (i : Nat) => ((i : Nat) : Rat) / ((k - 1 : Nat) : Rat)

/-- thresholds of an optional array of target rates (`if fnr is not None: ...`) -/
def optThresholds (u : Ulp) (s : Scores) (metric : Metric) : Option (List Rat) → Except Err (List Rat)
  | none => .ok []
  | some rs => s.thresholdAtArr u metric rs .linear

/-- roc_curve.py:257-264: the supplied thresholds followed by the thresholds of the supplied
FNR values, then of the supplied FPR values. -/
def suppliedPoints (u : Ulp) (s : Scores) (fnr fpr thresholds : Option (List Rat)) :
    Except Err (List Rat) :=
  match optThresholds u s .fnr fnr with
  | .error e => .error e
  | .ok a =>
    match optThresholds u s .fpr fpr with
    | .error e => .error e
    | .ok b => .ok ((thresholds.getD [] ++ a) ++ b)

/-- roc_curve.py:266-277: all scores, or `nb_points // 2` points along the FNR axis and the
rest along the FPR axis. -/
def defaultPoints (u : Ulp) (s : Scores) : Option Nat → Except Err (List Rat)
  | none => .ok (s.pos ++ s.neg)
  | some k =>
    let nbFnr := k / 2
    let nbFpr := k - nbFnr
    match s.thresholdAtArr u .fnr (linspace01 nbFnr) .linear with
    | .error e => .error e
    | .ok a =>
      match s.thresholdAtArr u .fpr (linspace01 nbFpr) .linear with
      | .error e => .error e
      | .ok b => .ok (a ++ b)

/-- the unsorted support thresholds (roc_curve.py:257-277) -/
def supportPoints (u : Ulp) (s : Scores) (fnr fpr thresholds : Option (List Rat))
    (nbPoints : Option Nat) : Except Err (List Rat) :=
  match suppliedPoints u s fnr fpr thresholds with
  | .error e => .error e
  | .ok l => if l.length = 0 then defaultPoints u s nbPoints else .ok l

/-- the two reversals (roc_curve.py:305-308) -/
def orient (x : XAxis) (scoreClass : Label) (l : List Rat) : List Rat :=
  let l1 := if x.decreasing then l.reverse else l
  if scoreClass = .neg then l1.reverse else l1

/-- `_find_support_thresholds(scores, fnr, fpr, thresholds, nb_points, None, x_axis)`
(roc_curve.py:226-311). The `x_axis` check comes after the thresholds have been computed and
sorted, as in the Python. -/
def findSupportThresholds (u : Ulp) (s : Scores) (fnr fpr thresholds : Option (List Rat))
    (nbPoints : Option Nat) (xAxis : String) : Except Err (List Rat) :=
  match supportPoints u s fnr fpr thresholds nbPoints with
  | .error e => .error e
  | .ok l =>
    let sorted := sortQ l
    match XAxis.ofString xAxis with
    | none => .error .valueError
    | some x => .ok (orient x s.cfg.scoreClass sorted)

/-- `ROCCurve` without confidence bands (roc_curve.py:19-37). -/
structure RocCurve where
  fnr : List (Option Rat)
  fpr : List (Option Rat)
  thresholds : List Rat
deriving Repr

/-- `roc` (roc_curve.py:101-141). -/
def roc (u : Ulp) (s : Scores) (fnr fpr thresholds : Option (List Rat)) (nbPoints : Option Nat)
    (xAxis : String) : Except Err RocCurve :=
  match findSupportThresholds u s fnr fpr thresholds nbPoints xAxis with
  | .error e => .error e
  | .ok ts =>
    .ok ⟨ts.map fun t => (s.cm (.fin t)).fnr, ts.map fun t => (s.cm (.fin t)).fpr, ts⟩

/-- `1.0 - x` on a possibly-NaN value -/
def oneMinus : Option Rat → Option Rat
  | none => none
  | some x => some (1 - x)

/-! Derived views (roc_curve.py:39-67). -/
def RocCurve.tpr (c : RocCurve) : List (Option Rat) := c.fnr.map oneMinus
def RocCurve.tnr (c : RocCurve) : List (Option Rat) := c.fpr.map oneMinus
def RocCurve.frr (c : RocCurve) : List (Option Rat) := c.fnr
def RocCurve.far (c : RocCurve) : List (Option Rat) := c.fpr
def RocCurve.tar (c : RocCurve) : List (Option Rat) := c.tpr
def RocCurve.trr (c : RocCurve) : List (Option Rat) := c.tnr

/-- `getattr(curve, x_axis)` -/
def RocCurve.view (c : RocCurve) : XAxis → List (Option Rat)
  | .fnr => c.fnr
  | .fpr => c.fpr
  | .tnr => c.tnr
  | .tpr => c.tpr
  | .far => c.far
  | .frr => c.frr
  | .tar => c.tar
  | .trr => c.trr

end SA
