/-
ROC confidence bands: `roc_with_ci`, `_find_support_thresholds` on the `nb_extra_points = 20`
path, `_add_extra_points`, `_apply_rule_of_three`, `_aggregate_rectangles`
(roc_curve.py:144-387) and the two experimental band functions that are compositions of the
same pieces, `pointwise_band_ci` and `simultaneous_joint_region_ci`
(experimental/roc_ci.py:160-309).  Same case splits and order of operations as the Python.
Core Lean only.

Oracles (not rational arithmetic): `np.nextafter` (`Ulp`), `math.pow(alpha, 1 / n)` (`powA`),
`scipy.stats.ksone.ppf` (`delta`), and the joint bootstrap interval
`scores.bootstrap_ci(metric=[fnr(threshold_at_fpr(fpr)), fpr(threshold_at_fnr(fnr))])`, which is
a parameter `boot` of the band functions (a function of the two rate arrays of the curve).

`fixed_width_band_ci` (tube-radius bisection on `np.interp` curves) is modelled separately in
SA/Model/FixedWidth.lean (theorems: SA/Theorems/C16Fwb.lean).
-/
import SA.Model.Roc

namespace SA

/-- `ROC_CI_EXTRA_POINTS` (roc_curve.py:16) -/
def rocCIExtraPoints : Nat := 20

/-- `np.linspace(start, stop, num, endpoint=False)`: `start + i * ((stop - start) / num)`. -/
def linspaceOpen (start stop : Rat) (num : Nat) : List Rat :=
  (List.range num).map fun (i : Nat) => start + ((i : Nat) : Rat) * ((stop - start) / ((num : Nat) : Rat))

/-- `np.min` / `np.max` of two possibly-NaN values (NaN propagates) -/
def nanMin2 : Option Rat → Option Rat → Option Rat
  | some a, some b => some (min a b)
  | _, _ => none

def nanMax2 : Option Rat → Option Rat → Option Rat
  | some a, some b => some (max a b)
  | _, _ => none

/-- `_add_extra_points(x_min, x_max, nb_points)` (roc_curve.py:314-326).  A NaN bound fails both
comparisons, so it adds nothing. -/
def addExtraPoints (xMin xMax : Option Rat) (nb : Nat) : List Rat :=
  let nbBefore := nb / 2
  let nbAfter := nb - nbBefore
  let before : List Rat := match xMin with
    | some m => if m > 0 then linspaceOpen 0 m nbBefore else []
    | none => []
  let after : List Rat := match xMax with
    | some m => if m < 1 then linspaceOpen 1 m nbAfter else []
    | none => []
  before ++ after

/-- the four thresholds just outside the score ranges (roc_curve.py:291-299) -/
def sentinelThresholds (u : Ulp) (s : Scores) : List Rat :=
  [u.down (s.pos.getD 0 0), u.up (s.pos.getD (s.pos.length - 1) 0),
   u.down (s.neg.getD 0 0), u.up (s.neg.getD (s.neg.length - 1) 0)]

/-- the extra FNR (resp. FPR) targets beyond the range spanned by the first and last sorted
support threshold (roc_curve.py:279-289) -/
def extraTargets (s : Scores) (metric : Metric) (t0 t1 : Rat) (nb : Nat) : List Rat :=
  let r0 := (s.cm (.fin t0)).rate metric
  let r1 := (s.cm (.fin t1)).rate metric
  addExtraPoints (nanMin2 r0 r1) (nanMax2 r0 r1) nb

/-- the `nb_extra_points is not None` block and the tail of `_find_support_thresholds`
(roc_curve.py:279-311) applied to the plain support `l` (unsorted): sort, FNR / FPR at the first
and last threshold, thresholds of the extra targets, the four sentinels, final sort, the
`x_axis` check and the two reversals.
`thresholds[[0, -1]]` of an empty array is an `IndexError` (`Err.other`). With an empty class
`threshold_at_fnr` / `threshold_at_fpr` raise `ValueError` before `scores.pos[0]` is reached. -/
def extendSupport (u : Ulp) (s : Scores) (l : List Rat) (nbExtra : Nat) (xAxis : String) :
    Except Err (List Rat) :=
  let nbExtraFnr := (nbExtra - 4) / 2
  let nbExtraFpr := nbExtra - 4 - nbExtraFnr
  let sorted := sortQ l
  match sorted.head?, sorted.getLast? with
  | some t0, some t1 =>
    match s.thresholdAtArr u .fnr (extraTargets s .fnr t0 t1 nbExtraFnr) .linear with
    | .error e => .error e
    | .ok a =>
      match s.thresholdAtArr u .fpr (extraTargets s .fpr t0 t1 nbExtraFpr) .linear with
      | .error e => .error e
      | .ok b =>
        let all := sortQ (((sorted ++ a) ++ b) ++ sentinelThresholds u s)
        match XAxis.ofString xAxis with
        | none => .error .valueError
        | some x => .ok (orient x s.cfg.scoreClass all)
  | _, _ => .error .other

/-- `_find_support_thresholds(scores, fnr, fpr, thresholds, nb_points, nb_extra, x_axis)` with
`nb_extra` an integer `≥ 4` (roc_curve.py:226-311; `roc_with_ci` passes 20): the plain support of
`roc` (roc_curve.py:257-277, `supportPoints`) extended by `extendSupport`. -/
def findSupportThresholdsCI (u : Ulp) (s : Scores) (fnr fpr thresholds : Option (List Rat))
    (nbPoints : Option Nat) (nbExtra : Nat) (xAxis : String) : Except Err (List Rat) :=
  match supportPoints u s fnr fpr thresholds nbPoints with
  | .error e => .error e
  | .ok l => extendSupport u s l nbExtra xAxis

/-! ### intervals -/

/-- an interval `(lower, upper)` of defined numbers -/
abbrev Iv := Rat × Rat

/-- a row of an `(N, 2)` float array: each entry possibly NaN -/
abbrev OIv := Option Rat × Option Rat

def Iv.lift (r : Iv) : OIv := (some r.1, some r.2)

/-! ### rule of three -/

/-- one row of the two `np.where` calls of `_apply_rule_of_three` (roc_curve.py:343-344), the
second applied to the result of the first. `powA` is the oracle value `math.pow(alpha, 1 / n)`. -/
def ruleOfThreeRow (powA : Rat) (n : Nat) (p : Rat) (c : Iv) : Iv :=
  let c1 : Iv := if p < 1 / ((n : Nat) : Rat) then (0, 1 - powA) else c
  if p > (((n : Nat) : Rat) - 1) / ((n : Nat) : Rat) then (powA, 1) else c1

/-- the same on float rows: a NaN rate fails both comparisons and keeps the row -/
def ruleOfThreeRowO (powA : Rat) (n : Nat) : Option Rat → OIv → OIv
  | none, c => c
  | some p, c =>
    let c1 : OIv := if p < 1 / ((n : Nat) : Rat) then (some 0, some (1 - powA)) else c
    if p > (((n : Nat) : Rat) - 1) / ((n : Nat) : Rat) then (some powA, some 1) else c1

/-- all rows (`p` and `ci` have the same number of rows at every call site) -/
def ruleOfThreeRows (powA : Rat) (n : Nat) (p : List Rat) (ci : List Iv) : List Iv :=
  (p.zip ci).map fun r => ruleOfThreeRow powA n r.1 r.2

/-- `_apply_rule_of_three(p, ci, alpha, n)` on defined values; `1 / n` with `n = 0` is a
`ZeroDivisionError`. -/
def applyRuleOfThree (powA : Rat) (p : List Rat) (ci : List Iv) (n : Nat) : Except Err (List Iv) :=
  if n = 0 then .error .zeroDivisionError
  else .ok (ruleOfThreeRows powA n p ci)

def applyRuleOfThreeO (powA : Rat) (p : List (Option Rat)) (ci : List OIv) (n : Nat) :
    Except Err (List OIv) :=
  if n = 0 then .error .zeroDivisionError
  else .ok ((p.zip ci).map fun r => ruleOfThreeRowO powA n r.1 r.2)

/-! ### rectangle aggregation -/

/-- `(dxp[i, 0] <= x) & (x <= dxp[i, 1])` -/
def coversQ (r : Iv) (x : Rat) : Bool := decide (r.1 ≤ x) && decide (x ≤ r.2)

/-- one iteration of the loop of `_aggregate_rectangles` (roc_curve.py:377-382): `own` is row
`j` of `dyp`, `rects` the pairs `(dxp[i], dyp[i])`.
`np.min(dyp[inside, 0], initial=lower[j])` is a left fold of `min` started at `lower[j]`. -/
def envelopeAt (x : Rat) (own : Iv) (rects : List (Iv × Iv)) : Iv :=
  let ins := rects.filter fun r => coversQ r.1 x
  let lowerRect := (ins.map fun r => r.2.1).foldl min own.1
  let upperRect := (ins.map fun r => r.2.2).foldl max own.2
  (min own.1 lowerRect, max own.2 upperRect)

/-- `_aggregate_rectangles(x, dxp, dyp)` (roc_curve.py:348-387) on defined values, for arrays
with the same number of rows (all call sites; for unequal lengths NumPy raises `IndexError` or
leaves rows unaggregated, which is not modelled). -/
def aggregateRectangles (x : List Rat) (dxp dyp : List Iv) : List Iv :=
  (x.zip dyp).map fun p => envelopeAt p.1 p.2 (dxp.zip dyp)

/-! the same with NaN entries, as NumPy and the Python builtins treat them -/

/-- `a <= b` on floats: false if either is NaN -/
def leN : Option Rat → Option Rat → Bool
  | some a, some b => decide (a ≤ b)
  | _, _ => false

/-- `a < b` on floats: false if either is NaN -/
def ltN : Option Rat → Option Rat → Bool
  | some a, some b => decide (a < b)
  | _, _ => false

def coversO (r : OIv) (x : Option Rat) : Bool := leN r.1 x && leN x r.2

/-- Python's builtin `min(a, b)`: `b` if `b < a` else `a` -/
def pyMin (a b : Option Rat) : Option Rat := if ltN b a then b else a

/-- Python's builtin `max(a, b)`: `b` if `b > a` else `a` -/
def pyMax (a b : Option Rat) : Option Rat := if ltN a b then b else a

def envelopeAtO (x : Option Rat) (own : OIv) (rects : List (OIv × OIv)) : OIv :=
  let ins := rects.filter fun r => coversO r.1 x
  let lowerRect := (ins.map fun r => r.2.1).foldl nanMin2 own.1
  let upperRect := (ins.map fun r => r.2.2).foldl nanMax2 own.2
  (pyMin own.1 lowerRect, pyMax own.2 upperRect)

def aggregateRectanglesO (x : List (Option Rat)) (dxp dyp : List OIv) : List OIv :=
  (x.zip dyp).map fun p => envelopeAtO p.1 p.2 (dxp.zip dyp)

/-! ### the band functions -/

/-- `ROCCurve` with confidence bands (roc_curve.py:19-37). -/
structure RocCICurve where
  fnr : List (Option Rat)
  fpr : List (Option Rat)
  thresholds : List Rat
  fnrCI : List OIv
  fprCI : List OIv
deriving Repr

/-- the joint bootstrap interval as a function of the curve's FNR and FPR arrays: FNR intervals
and FPR intervals, one row per point -/
abbrev BootCI := List (Option Rat) → List (Option Rat) → List OIv × List OIv

/-- `roc_with_ci` after the thresholds have been found (roc_curve.py:196-218).
`scores.bootstrap_ci` first evaluates the metric on the object itself, which raises `ValueError`
if a class has no scored sample (`threshold_at_fpr` / `threshold_at_fnr`). -/
def rocCIFrom (s : Scores) (ts : List Rat) (powPos powNeg : Rat) (boot : BootCI) :
    Except Err RocCICurve :=
  let f := ts.map fun t => (s.cm (.fin t)).fnr
  let g := ts.map fun t => (s.cm (.fin t)).fpr
  if s.neg.length = 0 ∨ s.pos.length = 0 then .error .valueError
  else
    let joint := boot f g
    match applyRuleOfThreeO powPos f joint.1 s.pos.length with
    | .error e => .error e
    | .ok fnrCI =>
      match applyRuleOfThreeO powNeg g joint.2 s.neg.length with
      | .error e => .error e
      | .ok fprCI =>
        let fprBand := aggregateRectanglesO f fnrCI fprCI
        let fnrBand := aggregateRectanglesO g fprCI fnrCI
        .ok ⟨f, g, ts, fnrBand, fprBand⟩

/-- `roc_with_ci(scores, fnr=, fpr=, thresholds=, nb_points=, x_axis=, alpha=, config=)`
(roc_curve.py:144-223). `powPos = math.pow(alpha, 1 / len(scores.pos))`,
`powNeg = math.pow(alpha, 1 / len(scores.neg))`. -/
def rocWithCI (u : Ulp) (s : Scores) (fnr fpr thresholds : Option (List Rat))
    (nbPoints : Option Nat) (xAxis : String) (powPos powNeg : Rat) (boot : BootCI) :
    Except Err RocCICurve :=
  match findSupportThresholdsCI u s fnr fpr thresholds nbPoints rocCIExtraPoints xAxis with
  | .error e => .error e
  | .ok ts => rocCIFrom s ts powPos powNeg boot

/-- `pointwise_band_ci` (experimental/roc_ci.py:249-309): `roc_with_ci` on the plain support
(`nb_extra_points=None, x_axis="fnr"`) without the aggregation. -/
def pointwiseBandCI (u : Ulp) (s : Scores) (fnr fpr thresholds : Option (List Rat))
    (nbPoints : Option Nat) (powPos powNeg : Rat) (boot : BootCI) : Except Err RocCICurve :=
  match findSupportThresholds u s fnr fpr thresholds nbPoints "fnr" with
  | .error e => .error e
  | .ok ts =>
    let f := ts.map fun t => (s.cm (.fin t)).fnr
    let g := ts.map fun t => (s.cm (.fin t)).fpr
    if s.neg.length = 0 ∨ s.pos.length = 0 then .error .valueError
    else
      let joint := boot f g
      match applyRuleOfThreeO powPos f joint.1 s.pos.length with
      | .error e => .error e
      | .ok fnrCI =>
        match applyRuleOfThreeO powNeg g joint.2 s.neg.length with
        | .error e => .error e
        | .ok fprCI => .ok ⟨f, g, ts, fnrCI, fprCI⟩

/-- `p - delta, p + delta` on a possibly-NaN rate -/
def sjrRow (delta : Rat) : Option Rat → OIv
  | none => (none, none)
  | some p => (some (p - delta), some (p + delta))

/-- `simultaneous_joint_region_ci` (experimental/roc_ci.py:160-246).
`deltaPos = ksone.ppf(1 - alpha / 2, nb_all_pos)`, `deltaNeg = ksone.ppf(1 - alpha / 2, nb_all_neg)`
(defined numbers for non-empty classes). -/
def simultaneousJointRegionCI (u : Ulp) (s : Scores) (fnr fpr thresholds : Option (List Rat))
    (nbPoints : Option Nat) (deltaPos deltaNeg : Rat) : Except Err RocCICurve :=
  match findSupportThresholds u s fnr fpr thresholds nbPoints "fnr" with
  | .error e => .error e
  | .ok ts =>
    let f := ts.map fun t => (s.cm (.fin t)).fnr
    let g := ts.map fun t => (s.cm (.fin t)).fpr
    let fnrCI := f.map (sjrRow deltaPos)
    let fprCI := g.map (sjrRow deltaNeg)
    .ok ⟨f, g, ts, aggregateRectanglesO g fprCI fnrCI, aggregateRectanglesO f fnrCI fprCI⟩

/-- the identity sampler's joint interval: every replicate equals the point estimate, so each
interval is `(estimate, estimate)`; the estimates are
`fnr(threshold_at_fpr(fpr))` and `fpr(threshold_at_fnr(fnr))` of the object itself -/
def identityBoot (estFnr estFpr : List (Option Rat)) : BootCI :=
  fun _ _ => (estFnr.map fun e => (e, e), estFpr.map fun e => (e, e))

end SA
