/-
`roc_with_ci` / `pointwise_band_ci` end to end on the scripted RNG: the joint bootstrap interval,
which `SA/Model/RocCI.lean` takes as a parameter (`boot : BootCI`), computed inside the model by
composing
* `bootstrapSample` (SA/Model/Sampling.lean) on a script of RNG answers (SA/Model/Rng.lean),
* `bootstrapCIOf` (SA/Model/BootMetric.lean) = `bootstrapCI` (SA/Model/Bootstrap.lean) per component,
* `thresholdAtArr`, `cm`, the rates (SA/Model/Roc.lean, Threshold.lean, Basic.lean).

Python modelled: roc_curve.py:196-223 and experimental/roc_ci.py:260-276 (the `_metric` closure and
the `scores.bootstrap_ci(metric=_metric, alpha=alpha, config=config)` call), scores.py:1066-1148
(`bootstrap_metric`: `m = metric(self)`, then `nb_samples` times `sample = self.bootstrap_sample(config)`;
`res[j] = metric(sample)`; `bootstrap_ci`: `utils.bootstrap_ci(theta=samples, theta_hat=metric(self), ...)`).
Same statement order as the Python: the metric is evaluated on the object first, then the samples are
drawn one after the other from the one RNG stream, the metric of a sample being evaluated before the
next sample is drawn.

Core Lean only.

Oracles: those of the composed models (`Ulp`, `Normal`, `pow15`, `BootCfg.fmul`, the two
`math.pow(alpha, 1 / n)` values) and `rnd`, the float rounding of a rate `fn / (tp + fn)`: the
targets handed to `threshold_at_fpr` / `threshold_at_fnr` inside `_metric` are the curve's FLOAT
rates.  With exact arithmetic `rnd = id`.  (No theorem needs a hypothesis on `rnd`.)
Smoothing is outside (the noise is not modelled, SA/Model/Sampling.lean).
-/
import SA.Model.RocCI
import SA.Model.Sampling
import SA.Model.BootMetric
import SA.Model.Auc

namespace SA

/-- the value of `_metric`: `np.stack([_fnr, _fpr], axis=0)`, NaN as `none` -/
abbrev JointVal := List (Option Rat) × List (Option Rat)

/-- `_metric(_scores)` (roc_curve.py:200-203) for the target arrays `fT` (the curve's FNR) and `gT`
(the curve's FPR): `_fnr = _scores.fnr(_scores.threshold_at_fpr(fpr))` first, then
`_fpr = _scores.fpr(_scores.threshold_at_fnr(fnr))`; a `ValueError` of `threshold_at_*` (no scored
sample of the class) propagates. -/
def jointMetric (u : Ulp) (fT gT : List Rat) (s : Scores) : Except Err JointVal :=
  match s.thresholdAtArr u .fpr gT .linear with
  | .error e => .error e
  | .ok tg =>
    let a := tg.map fun t => (s.cm (.fin t)).fnr
    match s.thresholdAtArr u .fnr fT .linear with
    | .error e => .error e
    | .ok tf => .ok (a, tf.map fun t => (s.cm (.fin t)).fpr)

/-- the loop of `bootstrap_metric` (scores.py:1100-1104): `n` times draw a sample from the RNG
stream and evaluate `k` on it; the first error (of the sampler or of `k`) ends the loop, and the
state is the one reached at that point. -/
def drawMapped {α : Type} (s : Scores) (c : BootCfg) (k : Scores → Except Err α) :
    Nat → RngState → Except Err (List α) × RngState
  | 0, st => (.ok [], st)
  | n + 1, st =>
    match bootstrapSample s c st with
    | (.error e, st1) => (.error e, st1)
    | (.ok smp, st1) =>
      match k smp with
      | .error e => (.error e, st1)
      | .ok a =>
        match drawMapped s c k n st1 with
        | (.error e, st2) => (.error e, st2)
        | (.ok rest, st2) => (.ok (a :: rest), st2)

/-- `nb_samples` consecutive `bootstrap_sample` runs threading one `RngState` -/
def drawSamples (s : Scores) (c : BootCfg) (n : Nat) (st : RngState) :
    Except Err (List Scores) × RngState :=
  drawMapped s c (fun smp => .ok smp) n st

/-- the state after `n` consecutive `bootstrap_sample` calls (whatever they return) -/
def sampleStates (s : Scores) (c : BootCfg) : Nat → RngState → RngState
  | 0, st => st
  | n + 1, st => sampleStates s c n (bootstrapSample s c st).2

/-- flattened metric value (row-major `(2, n)` array) -/
def jointFlat (v : JointVal) : List (Option Rat) := v.1 ++ v.2

/-- `utils.bootstrap_ci(theta=replicates, theta_hat=estimate, alpha, method)` on the `(2, n)` metric:
`bootstrapCIOf` (one `bootstrapCI` per component, SA/Model/BootMetric.lean) with sample `j` = the
`j`-th replicate and the point estimate = the metric of the object itself; `joint_ci[0]` are the
first `n` rows (FNR), `joint_ci[1]` the rest (FPR). -/
def jointBootCI (nrm : Normal) (pow15 : Rat → Rat) (m : BootMethod) (alpha : Rat) (est : JointVal)
    (reps : List JointVal) : List OIv × List OIv :=
  let all := bootstrapCIOf nrm pow15 m (fun j => reps.getD j est) jointFlat est reps.length alpha
  (all.take est.1.length, all.drop est.1.length)

/-- what `roc_with_ci` reads of its `alpha` / `config` arguments, with the oracles -/
structure BootParams where
  cfg : BootCfg
  nbSamples : Nat
  method : BootMethod
  alpha : Rat
  nrm : Normal
  pow15 : Rat → Rat
  /-- float rounding of a rate (see the header) -/
  rnd : Rat → Rat

/-- `scores.bootstrap_ci(metric=_metric, alpha=alpha, config=config)` for the targets `fT`, `gT`
(scores.py:1106-1148): `metric(self)` first (an error leaves the RNG untouched), then the
replicates, then the interval. -/
def scriptBootRun (u : Ulp) (s : Scores) (p : BootParams) (fT gT : List Rat) (st : RngState) :
    Except Err (List OIv × List OIv) × RngState :=
  match jointMetric u fT gT s with
  | .error e => (.error e, st)
  | .ok est =>
    match drawMapped s p.cfg (jointMetric u fT gT) p.nbSamples st with
    | (.error e, st1) => (.error e, st1)
    | (.ok reps, st1) => (.ok (jointBootCI p.nrm p.pow15 p.method p.alpha est reps), st1)

/-- the targets of `_metric`: the curve's rates as floats.  A NaN rate needs a class without any
sample, and then `_metric(self)` raises before the targets matter (`rocCIScriptFrom`); `none` is
returned for a NaN entry (`allSome`: SA/Model/Auc.lean). -/
def metricTargets (rnd : Rat → Rat) (rates : List (Option Rat)) : Option (List Rat) :=
  (allSome rates).map fun l => l.map rnd

/-- `roc_with_ci` after the thresholds have been found (roc_curve.py:196-218), the joint interval
computed from the script.  As in `rocCIFrom`, a class without scored samples makes `_metric(self)`
raise `ValueError` before anything is drawn.  (`Err.other`: unreachable, see
`c16s_targets_defined`.) -/
def rocCIScriptFrom (u : Ulp) (s : Scores) (p : BootParams) (ts : List Rat) (powPos powNeg : Rat)
    (st : RngState) : Except Err RocCICurve × RngState :=
  let f := ts.map fun t => (s.cm (.fin t)).fnr
  let g := ts.map fun t => (s.cm (.fin t)).fpr
  if s.neg.length = 0 ∨ s.pos.length = 0 then (.error .valueError, st)
  else
    match metricTargets p.rnd f, metricTargets p.rnd g with
    | some fT, some gT =>
      match scriptBootRun u s p fT gT st with
      | (.error e, st1) => (.error e, st1)
      | (.ok joint, st1) =>
        match applyRuleOfThreeO powPos f joint.1 s.pos.length with
        | .error e => (.error e, st1)
        | .ok fnrCI =>
          match applyRuleOfThreeO powNeg g joint.2 s.neg.length with
          | .error e => (.error e, st1)
          | .ok fprCI =>
            let fprBand := aggregateRectanglesO f fnrCI fprCI
            let fnrBand := aggregateRectanglesO g fprCI fnrCI
            (.ok ⟨f, g, ts, fnrBand, fprBand⟩, st1)
    | _, _ => (.error .other, st)

/-- `roc_with_ci(scores, fnr=, fpr=, thresholds=, nb_points=, x_axis=, alpha=, config=)`
(roc_curve.py:144-223) on a scripted RNG: `rocWithCI` with the joint bootstrap interval computed by
the model.  Returns the curve (or the error) and the RNG state afterwards. -/
def rocWithCIScript (u : Ulp) (s : Scores) (p : BootParams) (fnr fpr thresholds : Option (List Rat))
    (nbPoints : Option Nat) (xAxis : String) (powPos powNeg : Rat) (st : RngState) :
    Except Err RocCICurve × RngState :=
  match findSupportThresholdsCI u s fnr fpr thresholds nbPoints rocCIExtraPoints xAxis with
  | .error e => (.error e, st)
  | .ok ts => rocCIScriptFrom u s p ts powPos powNeg st

/-- `pointwise_band_ci` after the thresholds (experimental/roc_ci.py:260-281): no aggregation. -/
def pointwiseScriptFrom (u : Ulp) (s : Scores) (p : BootParams) (ts : List Rat) (powPos powNeg : Rat)
    (st : RngState) : Except Err RocCICurve × RngState :=
  let f := ts.map fun t => (s.cm (.fin t)).fnr
  let g := ts.map fun t => (s.cm (.fin t)).fpr
  if s.neg.length = 0 ∨ s.pos.length = 0 then (.error .valueError, st)
  else
    match metricTargets p.rnd f, metricTargets p.rnd g with
    | some fT, some gT =>
      match scriptBootRun u s p fT gT st with
      | (.error e, st1) => (.error e, st1)
      | (.ok joint, st1) =>
        match applyRuleOfThreeO powPos f joint.1 s.pos.length with
        | .error e => (.error e, st1)
        | .ok fnrCI =>
          match applyRuleOfThreeO powNeg g joint.2 s.neg.length with
          | .error e => (.error e, st1)
          | .ok fprCI => (.ok ⟨f, g, ts, fnrCI, fprCI⟩, st1)
    | _, _ => (.error .other, st)

/-- `pointwise_band_ci` (experimental/roc_ci.py:249-309) on a scripted RNG -/
def pointwiseBandCIScript (u : Ulp) (s : Scores) (p : BootParams)
    (fnr fpr thresholds : Option (List Rat)) (nbPoints : Option Nat) (powPos powNeg : Rat)
    (st : RngState) : Except Err RocCICurve × RngState :=
  match findSupportThresholds u s fnr fpr thresholds nbPoints "fnr" with
  | .error e => (.error e, st)
  | .ok ts => pointwiseScriptFrom u s p ts powPos powNeg st

/-- the script-driven joint interval as a `BootCI` (a total function of the curve's rate arrays):
the result of `scriptBootRun` started in state `st`; `([], [])` where it raises (then
`rocWithCIScript` raises too and `rocWithCI` is not consulted). -/
def scriptBoot (u : Ulp) (s : Scores) (p : BootParams) (st : RngState) : BootCI :=
  fun f g =>
    match metricTargets p.rnd f, metricTargets p.rnd g with
    | some fT, some gT =>
      match (scriptBootRun u s p fT gT st).1 with
      | .ok joint => joint
      | .error _ => ([], [])
    | _, _ => ([], [])

end SA
