/-
Bootstrap sampling of a `Scores` object: `_sampling_method`, `_sample_indices`,
`bootstrap_sample` (scores.py:883-1076), as functions of a scripted RNG (SA/Model/Rng.lean).
Same case splits, same order of the random calls as the Python.  Shared by C11, C12, C14.

Core Lean only.

Conventions
* counts are `Nat`; the Python subtractions (`nb_all_samples - nb_pos`, `nb_pos - 1`, ...) can
  only go negative for answers outside the support of the requested distribution, i.e. only on
  runs whose `ok` flag is false; theorems are stated for `ok` runs.
* NumPy would raise (`ValueError` / `IndexError`) on requests / indices that cannot arise on
  `ok` runs of `sampleIndices` (e.g. `choice(0, size=3)`); those branches are not modelled there.
  In proportion sampling the infeasible draws are reachable (empty class, ratio > 1) and are
  modelled as `ValueError`.
* smoothing: the two `np.random.normal` requests are issued, the noise is NOT modelled: with
  smoothing the arrays of the returned object are the pre-noise gather and only lengths, easy
  counts and flags are meaningful.
-/
import SA.Model.Threshold
import SA.Model.Rng

namespace SA

/-- `config.sampling_method` when it is a string (`unknown`: any other string). -/
inductive SamplingMethod where
  | replacement
  | singlePass
  | dynamic
  | proportion
  | unknown
deriving DecidableEq, Repr, Inhabited

/-- The part of `BootstrapConfig` that `bootstrap_sample` reads.  `byLabel` is
`stratified_sampling == "by_label"`.  `fmul r n` is the IEEE product `ratio * n` (an oracle: the
harness supplies the correctly rounded value; with exact arithmetic `fmul r n = r * n`). -/
structure BootCfg where
  method : SamplingMethod
  byLabel : Bool
  smoothing : Bool
  ratio : Option Rat
  fmul : Rat → Nat → Rat

/-- `SINGLE_PASS_SAMPLE_THRESHOLD` -/
def singlePassSampleThreshold : Nat := 100

/-- `_sampling_method` (scores.py:883-899). -/
def samplingMethod (s : Scores) (c : BootCfg) : SamplingMethod :=
  if c.method ≠ .dynamic then c.method
  else if s.pos.length < singlePassSampleThreshold ∨ s.neg.length < singlePassSampleThreshold
      ∨ c.smoothing = true then .replacement
  else .singlePass

def Scores.easyPosRatio (s : Scores) : Rat := 1 - s.hardPosRatio
def Scores.easyNegRatio (s : Scores) : Rat := 1 - s.hardNegRatio

/-- `pos_neg_ratio` (scores.py:914-918) -/
def Scores.posNegRatio (s : Scores) : Rat :=
  if s.nbAll > 0 then (s.nbAllPos : Rat) / (s.nbAll : Rat) else 0

/-- The four stratum sizes of the sample being drawn. -/
structure Strata where
  hardPos : Nat
  hardNeg : Nat
  easyPos : Nat
  easyNeg : Nat
deriving Repr, DecidableEq

/-- "Try to have at least one hard sample" (scores.py:934-938): number of scored samples to draw
for a class, from the class size `n` of the sample, the binomial answer `e` for its easy part and
the number `k` of scored samples the source has. -/
def hardDrawn (n e k : Nat) : Nat := if n - e = 0 ∧ k > 0 then 1 else n - e

/-- the matching easy count -/
def easyDrawn (n e k : Nat) : Nat := if n - e = 0 ∧ k > 0 then n - 1 else e

/-- class sizes after the two "at least one positive and one negative" corrections
(scores.py:919-926), from the binomial answer `b`. -/
def classSizes (s : Scores) (b : Nat) : Nat × Nat :=
  let N := s.nbAll
  let p0 := b
  let n0 := N - b
  let p1 := if p0 = 0 ∧ s.nbAllPos > 0 then 1 else p0
  let n1 := if p0 = 0 ∧ s.nbAllPos > 0 then N - 1 else n0
  let p2 := if n1 = 0 ∧ s.nbAllNeg > 0 then N - 1 else p1
  let n2 := if n1 = 0 ∧ s.nbAllNeg > 0 then 1 else n1
  (p2, n2)

/-- Non-stratified branch of `_sample_indices` (scores.py:911-938): three scalar binomials. -/
def drawStrata (s : Scores) (st : RngState) : Strata × RngState :=
  let d1 := drawScalar (.binomial s.nbAll s.posNegRatio none) st
  let cs := classSizes s d1.1
  let d2 := drawScalar (.binomial cs.1 s.easyPosRatio none) d1.2
  let d3 := drawScalar (.binomial cs.2 s.easyNegRatio none) d2.2
  (⟨hardDrawn cs.1 d2.1 s.pos.length, hardDrawn cs.2 d3.1 s.neg.length,
    easyDrawn cs.1 d2.1 s.pos.length, easyDrawn cs.2 d3.1 s.neg.length⟩, d3.2)

/-- `_single_pass_sampling(size, n, p)` with `p = 1.0 / max(size, 1)` (scores.py:942-963):
how often each of the `size` scored samples is selected. -/
def singlePassReq (size n : Nat) : Req :=
  let p : Rat := 1 / ((max size 1 : Nat) : Rat)
  if n < 100 then .binomial n p (some size) else .poisson ((n : Rat) * p) (some size)

def singlePassCounts (size n : Nat) (st : RngState) : List Nat × RngState :=
  draw (singlePassReq size n) st

/-- "Try to have at least one hard sample" for single-pass sampling (scores.py:965-969):
`if n > 0 and not np.any(counts): counts[np.random.choice(k)] = 1`. -/
def forceOne (k n : Nat) (counts : List Nat) (st : RngState) : List Nat × RngState :=
  if n > 0 ∧ counts.all (· == 0) = true then
    let d := drawScalar (.choice k none true) st
    (counts.set d.1 1, d.2)
  else (counts, st)

/-- `np.repeat(np.arange(start, start + len counts), counts)` -/
def repeatArange (start : Nat) : List Nat → List Nat
  | [] => []
  | c :: cs => List.replicate c start ++ repeatArange (start + 1) cs

/-- `np.repeat(np.arange(k), counts)` (with `len(counts) = k`) -/
def repeatIdx (counts : List Nat) : List Nat := repeatArange 0 counts

/-- The result of `_sample_indices`. -/
structure Indices where
  idxPos : List Nat
  idxNeg : List Nat
  easyPos : Nat
  easyNeg : Nat
deriving Repr

/-- stratum sizes: stratified sampling keeps the source's (scores.py:905-910) -/
def strataFor (s : Scores) (byLabel : Bool) (st : RngState) : Strata × RngState :=
  if byLabel then (⟨s.pos.length, s.neg.length, s.easyPos, s.easyNeg⟩, st) else drawStrata s st

/-- `_sample_indices` (scores.py:901-977). -/
def sampleIndices (s : Scores) (byLabel singlePass : Bool) (st : RngState) : Indices × RngState :=
  let a := strataFor s byLabel st
  if singlePass then
    let c1 := singlePassCounts s.pos.length a.1.hardPos a.2
    let c2 := singlePassCounts s.neg.length a.1.hardNeg c1.2
    let f1 := forceOne s.pos.length a.1.hardPos c1.1 c2.2
    let f2 := forceOne s.neg.length a.1.hardNeg c2.1 f1.2
    (⟨repeatIdx f1.1, repeatIdx f2.1, a.1.easyPos, a.1.easyNeg⟩, f2.2)
  else
    let d1 := draw (.choice s.pos.length (some a.1.hardPos) true) a.2
    let d2 := draw (.choice s.neg.length (some a.1.hardNeg) true) d1.2
    (⟨d1.1, d2.1, a.1.easyPos, a.1.easyNeg⟩, d2.2)

/-- fancy indexing `a[idx]` (indices are in range on `ok` runs) -/
def gather (a : List Rat) (idx : List Nat) : List Rat := idx.map (fun i => a.getD i 0)

/-- `int(x)` for `x ≥ 0`, clipped at 0 -/
def truncNat (x : Rat) : Nat := x.floor.toNat

/-- number of scored samples of a class in proportion sampling: `max(int(ratio * n), 1)` -/
def proportionSize (c : BootCfg) (ratio : Rat) (n : Nat) : Nat := max (truncNat (c.fmul ratio n)) 1

/-- `bootstrap_sample` (scores.py:979-1076) for string sampling methods. -/
def bootstrapSample (s : Scores) (c : BootCfg) (st : RngState) : Except Err Scores × RngState :=
  match samplingMethod s c with
  | .replacement =>
    let r := sampleIndices s c.byLabel false st
    let pos := gather s.pos r.1.idxPos
    let neg := gather s.neg r.1.idxNeg
    let st' := if c.smoothing then (draw (.normal neg.length) (draw (.normal pos.length) r.2).2).2
      else r.2
    (.ok (Scores.make pos neg r.1.easyPos r.1.easyNeg s.cfg false), st')
  | .singlePass =>
    let r := sampleIndices s c.byLabel true st
    let pos := gather s.pos r.1.idxPos
    let neg := gather s.neg r.1.idxNeg
    if c.smoothing then (.error .valueError, r.2)
    else (.ok (Scores.make pos neg r.1.easyPos r.1.easyNeg s.cfg true), r.2)
  | .proportion =>
    match c.ratio with
    | none => (.error .valueError, st)
    | some ratio =>
      let nbPos := proportionSize c ratio s.pos.length
      let nbNeg := proportionSize c ratio s.neg.length
      let rq1 := Req.choiceFrom s.pos.length (some nbPos) false
      let rq2 := Req.choiceFrom s.neg.length (some nbNeg) false
      if !rq1.feasible then (.error .valueError, ⟨st.responses, (rq1, []) :: st.trace, st.ok⟩)
      else
        let d1 := draw rq1 st
        if !rq2.feasible then (.error .valueError, ⟨d1.2.responses, (rq2, []) :: d1.2.trace, d1.2.ok⟩)
        else
          let d2 := draw rq2 d1.2
          (.ok (Scores.make (gather s.pos d1.1) (gather s.neg d2.1)
            (truncNat (c.fmul ratio s.easyPos)) (truncNat (c.fmul ratio s.easyNeg)) s.cfg false), d2.2)
  | .unknown => (.error .valueError, st)
  | .dynamic => (.error .other, st)  -- unreachable: `samplingMethod` never returns `dynamic`

/-- a run on a script -/
def runSample (s : Scores) (c : BootCfg) (script : List (List Nat)) : Except Err Scores × RngState :=
  bootstrapSample s c (RngState.init script)

end SA
