/-
`Scores._sample_indices` (scores.py:901-977) written ONCE, generically over a monad `M` that offers a
single primitive `draw : Req → M (List Nat)` (one call of `np.random.binomial / poisson / choice`).

Two instances are used:

* the script-state monad `StateM RngState` with `draw = SA.draw` — this gives back, definitionally,
  the existing model `SA.sampleIndices` (SA/Model/Sampling.lean), which is the one the harness
  compares with the real code request by request (`c11u_sampleIndicesM_state` in
  SA/Theorems/C11Unbiased.lean);
* the expectation monad `Ex α = (α → ℚ) → ℚ` with `draw r = fun k => E r k` for an oracle
  `E : Req → (List Nat → ℚ) → ℚ` ("the mean of `k` over one call of the primitive `r`").  The laws
  the oracle has to satisfy are collected in ONE structure `Lawful` (linearity, normalisation,
  support, and the textbook means of Binomial / Poisson / uniform choice): they are an explicit
  part of the trusted base of the "resampling is unbiased" clause of C11.

`sampleIndicesM` mirrors `sampleIndices`: same requests in the same order, same case splits.
`sampleIndicesU` is the same program with every "try to have at least one ..." correction removed
(scores.py:919-926, 934-938, 965-969).

Core Lean only.
-/
import SA.Model.Sampling

namespace SA.C11U

open SA

/-- A monad with the one random primitive the library uses. -/
structure RngM (M : Type → Type) where
  draw : Req → M (List Nat)

section generic

variable {M : Type → Type} [Monad M] (R : RngM M)

/-- scalar form (`size=None`): the single value of the answer -/
def drawScalarM (r : Req) : M Nat := do
  let x ← R.draw r
  pure (x.headD 0)

/-! ### the program as written (with the at-least-one corrections) -/

/-- Non-stratified branch (scores.py:911-938): three scalar binomials, the two class corrections
(`classSizes`) and the two hard-sample corrections (`hardDrawn` / `easyDrawn`). -/
def drawStrataM (s : Scores) : M Strata := do
  let b ← drawScalarM R (.binomial s.nbAll s.posNegRatio none)
  let cs := classSizes s b
  let e1 ← drawScalarM R (.binomial cs.1 s.easyPosRatio none)
  let e2 ← drawScalarM R (.binomial cs.2 s.easyNegRatio none)
  pure ⟨hardDrawn cs.1 e1 s.pos.length, hardDrawn cs.2 e2 s.neg.length,
    easyDrawn cs.1 e1 s.pos.length, easyDrawn cs.2 e2 s.neg.length⟩

/-- stratum sizes: stratified sampling keeps the source's (scores.py:905-910) -/
def strataForM (s : Scores) (byLabel : Bool) : M Strata :=
  if byLabel then pure ⟨s.pos.length, s.neg.length, s.easyPos, s.easyNeg⟩ else drawStrataM R s

/-- `if n > 0 and not np.any(counts): counts[np.random.choice(k)] = 1` (scores.py:965-969) -/
def forceOneM (k n : Nat) (counts : List Nat) : M (List Nat) :=
  if n > 0 ∧ counts.all (· == 0) = true then do
    let j ← drawScalarM R (.choice k none true)
    pure (counts.set j 1)
  else pure counts

/-- single-pass part of `_sample_indices` for given stratum sizes (scores.py:940-973) -/
def singlePassPartM (s : Scores) (a : Strata) : M Indices := do
  let c1 ← R.draw (singlePassReq s.pos.length a.hardPos)
  let c2 ← R.draw (singlePassReq s.neg.length a.hardNeg)
  let f1 ← forceOneM R s.pos.length a.hardPos c1
  let f2 ← forceOneM R s.neg.length a.hardNeg c2
  pure ⟨repeatIdx f1, repeatIdx f2, a.easyPos, a.easyNeg⟩

/-- replacement part of `_sample_indices` for given stratum sizes (scores.py:974-976); it contains
no correction -/
def replacementPartM (s : Scores) (a : Strata) : M Indices := do
  let d1 ← R.draw (.choice s.pos.length (some a.hardPos) true)
  let d2 ← R.draw (.choice s.neg.length (some a.hardNeg) true)
  pure ⟨d1, d2, a.easyPos, a.easyNeg⟩

/-- `_sample_indices` (scores.py:901-977), generic in the monad. -/
def sampleIndicesM (s : Scores) (byLabel singlePass : Bool) : M Indices := do
  let a ← strataForM R s byLabel
  if singlePass then singlePassPartM R s a else replacementPartM R s a

/-! ### the same program with every at-least-one correction removed -/

/-- Non-stratified branch without scores.py:919-926 and 934-938:
`nb_neg = N - nb_pos`, `nb_hard = nb - nb_easy`. -/
def drawStrataU (s : Scores) : M Strata := do
  let b ← drawScalarM R (.binomial s.nbAll s.posNegRatio none)
  let e1 ← drawScalarM R (.binomial b s.easyPosRatio none)
  let e2 ← drawScalarM R (.binomial (s.nbAll - b) s.easyNegRatio none)
  pure ⟨b - e1, (s.nbAll - b) - e2, e1, e2⟩

def strataForU (s : Scores) (byLabel : Bool) : M Strata :=
  if byLabel then pure ⟨s.pos.length, s.neg.length, s.easyPos, s.easyNeg⟩ else drawStrataU R s

/-- single-pass part without scores.py:965-969 -/
def singlePassPartU (s : Scores) (a : Strata) : M Indices := do
  let c1 ← R.draw (singlePassReq s.pos.length a.hardPos)
  let c2 ← R.draw (singlePassReq s.neg.length a.hardNeg)
  pure ⟨repeatIdx c1, repeatIdx c2, a.easyPos, a.easyNeg⟩

/-- `_sample_indices` without any at-least-one correction. -/
def sampleIndicesU (s : Scores) (byLabel singlePass : Bool) : M Indices := do
  let a ← strataForU R s byLabel
  if singlePass then singlePassPartU R s a else replacementPartM R s a

end generic

/-! ### instance 1: scripts -/

/-- the scripted generator of SA/Model/Rng.lean as an `RngM` -/
def stateRng : RngM (StateM RngState) := ⟨fun r st => SA.draw r st⟩

/-! ### which scripts trigger no correction

An explicit decidable predicate on the drawn values (the answers of the script, read in the order
the program asks for them). -/

/-- `i`-th answer as a scalar -/
def scalarAt (script : List (List Nat)) (i : Nat) : Nat := (script.getD i []).headD 0

/-- none of the four corrections of the non-stratified branch fires for the three scalar answers
`b`, `e1`, `e2` (conditions of scores.py:920, 922, 935, 937 negated) -/
def strataUncorrected (s : Scores) (b e1 e2 : Nat) : Bool :=
  !(decide (b = 0) && decide (s.nbAllPos > 0)) &&
  !(decide (s.nbAll - b = 0) && decide (s.nbAllNeg > 0)) &&
  !(decide (b - e1 = 0) && decide (s.pos.length > 0)) &&
  !(decide ((s.nbAll - b) - e2 = 0) && decide (s.neg.length > 0))

/-- `forceOne` does not fire (conditions of scores.py:966, 968 negated) -/
def countsUncorrected (n : Nat) (counts : List Nat) : Bool :=
  !(decide (n > 0) && counts.all (· == 0))

/-- No at-least-one correction fires when `_sample_indices` reads the answers `script`. -/
def noCorrection (s : Scores) (byLabel singlePass : Bool) (script : List (List Nat)) : Bool :=
  let k := if byLabel then 0 else 3
  let b := scalarAt script 0
  let e1 := scalarAt script 1
  let e2 := scalarAt script 2
  let hp := if byLabel then s.pos.length else b - e1
  let hn := if byLabel then s.neg.length else (s.nbAll - b) - e2
  (byLabel || strataUncorrected s b e1 e2) &&
  (!singlePass ||
    (countsUncorrected hp (script.getD k []) && countsUncorrected hn (script.getD (k + 1) [])))

/-! ### instance 2: expectations -/

/-- Expectation functional of a random `α`: the continuation monad with answer type `ℚ`. -/
def Ex (α : Type) : Type := (α → Rat) → Rat

instance : Monad Ex where
  pure a := fun k => k a
  bind m f := fun k => m (fun a => f a k)

/-- An expectation oracle: `E r k` is the mean of `k answer` over one call of the primitive `r`. -/
abbrev Oracle : Type := Req → (List Nat → Rat) → Rat

/-- the oracle as an `RngM` -/
def exRng (E : Oracle) : RngM Ex := ⟨fun r k => E r k⟩

/-- What is assumed about the oracle — the "textbook means" of the NumPy primitives, for the
requests NumPy accepts (`Req.feasible`; otherwise the call raises and has no mean):

* `lin`      linearity in the integrand,
* `norm`     a constant has itself as mean,
* `supp`     only the values in the support of the requested distribution matter,
* `binomial_scalar`, `binomial_vec`   mean of `Bin(n, p)` (each component) is `n p`,
* `poisson_vec`                       mean of each `Poisson(lam)` component is `lam`,
* `choice_count`                      in `choice(n, size=k, replace=True)` every `j < n` occurs
                                      `k / n` times on average. -/
structure Lawful (E : Oracle) : Prop where
  lin : ∀ (r : Req) (f g : List Nat → Rat) (a b : Rat),
    E r (fun x => a * f x + b * g x) = a * E r f + b * E r g
  norm : ∀ (r : Req) (c : Rat), r.feasible = true → E r (fun _ => c) = c
  supp : ∀ (r : Req) (f g : List Nat → Rat),
    (∀ x, r.inRange x = true → f x = g x) → E r f = E r g
  binomial_scalar : ∀ (n : Nat) (p : Rat), 0 ≤ p → p ≤ 1 →
    E (.binomial n p none) (fun x => ((x.headD 0 : Nat) : Rat)) = (n : Rat) * p
  binomial_vec : ∀ (n : Nat) (p : Rat) (size i : Nat), 0 ≤ p → p ≤ 1 → i < size →
    E (.binomial n p (some size)) (fun x => ((x.getD i 0 : Nat) : Rat)) = (n : Rat) * p
  poisson_vec : ∀ (lam : Rat) (size i : Nat), 0 ≤ lam → i < size →
    E (.poisson lam (some size)) (fun x => ((x.getD i 0 : Nat) : Rat)) = lam
  choice_count : ∀ (n k j : Nat), j < n →
    E (.choice n (some k) true) (fun x => ((x.count j : Nat) : Rat)) = (k : Rat) / (n : Rat)

/-! ### oracles given by finite mixtures

`mix r` lists weighted answers; the mean is the weighted sum.  Used (a) to exhibit a concrete
lawful oracle (non-vacuity of `Lawful`) and (b) by the driver to evaluate exact expectations. -/

/-- weighted sum -/
def mixSum (m : List (Rat × List Nat)) (f : List Nat → Rat) : Rat :=
  (m.map (fun wx => wx.1 * f wx.2)).sum

/-- the oracle of a family of finite mixtures -/
def ofMix (mix : Req → List (Rat × List Nat)) : Oracle := fun r f => mixSum (mix r) f

/-- two-point mixture with mean `m ≥ 0`: `⌊m⌋` with weight `1 - frac m`, `⌊m⌋ + 1` with weight
`frac m`, both as constant vectors of length `len` -/
def twoPoint (m : Rat) (len : Nat) : List (Rat × List Nat) :=
  let lo := m.floor.toNat
  let fr := m - (lo : Rat)
  [(1 - fr, List.replicate len lo), (fr, List.replicate len (lo + 1))]

/-- A concrete family of mixtures (NOT the true distributions, only lawful ones):
binomial / Poisson components are two-point mixtures around the mean (all components equal);
`choice` with replacement is the uniform mixture of the `n` constant sequences; `choice` without
replacement returns `0, 1, ..., size-1`; `normal` returns `[]`; infeasible requests have the empty
mixture. -/
def simpleMix : Req → List (Rat × List Nat)
  | .binomial n p size =>
    if 0 ≤ p ∧ p ≤ 1 then twoPoint ((n : Rat) * p) (sizeLen size) else []
  | .poisson lam size => if 0 ≤ lam then twoPoint lam (sizeLen size) else []
  | .choice n size true =>
    if sizeLen size = 0 then [(1, [])]
    else (List.range n).map (fun j => (1 / (n : Rat), List.replicate (sizeLen size) j))
  | .choice n size false => if sizeLen size ≤ n then [(1, List.range (sizeLen size))] else []
  | .choiceFrom n size true =>
    if sizeLen size = 0 then [(1, [])]
    else (List.range n).map (fun j => (1 / (n : Rat), List.replicate (sizeLen size) j))
  | .choiceFrom n size false => if sizeLen size ≤ n then [(1, List.range (sizeLen size))] else []
  | .normal _ => [(1, [])]

/-- the concrete oracle -/
def simpleOracle : Oracle := ofMix simpleMix

end SA.C11U
