/-
The TRUE distributions of the NumPy primitives with finite support, as finite mixtures
(`SA.C11U.ofMix`, SA/Model/SamplingM.lean): scalar and vector binomial (independent components),
`choice` with replacement (independent uniform draws).  Poisson has infinite support and is NOT
covered (`[]`); it is only requested for 100 or more draws.  Used by the driver op `c11expect` to
evaluate exact expectations of the sampling program on small sources.  Nothing is proved about
`trueMix` (in particular not that it is `Lawful`): the op is a numerical cross-check of the
expectation semantics against Monte-Carlo runs of the real code.

Core Lean only.
-/
import SA.Model.SamplingM

namespace SA.C11U
open SA

/-- pmf of `Bin(n+1, p)` from the pmf of `Bin(n, p)` -/
def binomStep (p : Rat) (l : List Rat) : List Rat :=
  List.zipWith (· + ·) (l.map (· * (1 - p)) ++ [0]) (0 :: l.map (· * p))

/-- `[P(X = 0), ..., P(X = n)]` for `X ~ Bin(n, p)` -/
def binomWeights : Nat → Rat → List Rat
  | 0, _ => [1]
  | n + 1, p => binomStep p (binomWeights n p)

/-- a distribution on `Nat` as weighted points, zero weights dropped -/
def binomPoints (n : Nat) (p : Rat) : List (Rat × Nat) :=
  ((binomWeights n p).zip (List.range (n + 1))).filter (fun wx => wx.1 != 0)

def uniformPoints (n : Nat) : List (Rat × Nat) :=
  (List.range n).map (fun j => (1 / (n : Rat), j))

/-- `k` independent copies -/
def iidMix (single : List (Rat × Nat)) : Nat → List (Rat × List Nat)
  | 0 => [(1, [])]
  | k + 1 =>
    let rest := iidMix single k
    single.flatMap (fun wx => rest.map (fun wxs => (wx.1 * wxs.1, wx.2 :: wxs.2)))

/-- the true mixtures (finite supports only) -/
def trueMix : Req → List (Rat × List Nat)
  | .binomial n p size => iidMix (binomPoints n p) (sizeLen size)
  | .choice n size true => iidMix (uniformPoints n) (sizeLen size)
  | _ => []

def trueOracle : Oracle := ofMix trueMix

end SA.C11U
