/-
Model of `score_analysis.showbias.showbias` (showbias.py:79-270) and of the parts of
`GroupScores` it uses (group_scores.py:113-116, 204-242).  Core Lean only.

A data row is `(key, isPos, score)`: `key` has one code per group column (the harness maps the
string values of each group column to their rank among the sorted distinct values of that column
and checks that this map is a bijection), `isPos` is `label == pos_label`, `score` is finite.

* showbias.py:131-141 + group_scores.py:113-116: the groups are the distinct keys in sorted
  (lexicographic) order (`keys.unique().sort_values()`, resp. `sorted(set(groups))`)  -> `groupKeys`
* group_scores.py:204-242: the matrix of a group is `Scores.cm` of the scores of the rows with
  that key, no easy samples (C01: this is counting by the decision rule)           -> `groupCM`
* showbias.py:165-170: the entry is the named `ConfusionMatrix` metric of it        -> `sbEntry`
* showbias.py:225-270 `_apply_normalization`                                        -> `normaliseCol`
* showbias.py:177-197 the bootstrap path for one (group, threshold) component        -> `sbCI`
-/
import SA.Model.Basic
import SA.Model.Metrics
import SA.Model.Threshold
import SA.Model.Bootstrap

namespace SA

/-- one row of the data frame -/
structure SbRow where
  key : List Nat
  isPos : Bool
  score : Rat
deriving Repr, DecidableEq

/-- insert a key into a strictly increasing list of keys (no duplicates are created) -/
def sbInsertKey (k : List Nat) : List (List Nat) → List (List Nat)
  | [] => [k]
  | x :: xs =>
    if k < x then k :: x :: xs
    else if k = x then x :: xs
    else x :: sbInsertKey k xs

/-- `sorted(set(keys))`: the distinct keys, lexicographically sorted.  This is the row order of
the returned frame. -/
def sortedDistinct (ks : List (List Nat)) : List (List Nat) :=
  ks.foldr sbInsertKey []

/-- the row labels of the frame -/
def groupKeys (rows : List SbRow) : List (List Nat) := sortedDistinct (rows.map (·.key))

/-- the rows carrying a given label -/
def groupRows (rows : List SbRow) (key : List Nat) : List SbRow :=
  rows.filter (fun r => r.key == key)

/-- `GroupScores.from_labels`: scores of the positive / negative rows -/
def sbPos (rows : List SbRow) : List Rat := (rows.filter (·.isPos)).map (·.score)
def sbNeg (rows : List SbRow) : List Rat := (rows.filter (fun r => !r.isPos)).map (·.score)

/-- confusion matrix of a set of rows at one threshold: counting with the decision rule
(`Scores.cm` is proved equal to this in C01), no easy samples -/
def rowsCM (cfg : Cfg) (rows : List SbRow) (t : ERat) : CM :=
  countCM (sbPos rows) (sbNeg rows) 0 0 cfg t

/-- `score_object[group].cm(threshold)` -/
def groupCM (cfg : Cfg) (rows : List SbRow) (key : List Nat) (t : ERat) : CM :=
  rowsCM cfg (groupRows rows key) t

/-- the `ConfusionMatrix` methods usable as `metric` (aliases are resolved by `parseSbMetric`) -/
inductive SbMetric where
  | tp | tn | fp | fn | p | n | top | ton | pop
  | accuracy | errorRate | tpr | tnr | fpr | fnr | topr | tonr | ppv | npv | fdr | for_
deriving DecidableEq, Repr, Inhabited

/-- method names of `ConfusionMatrix(binary=True)`, aliases included -/
def parseSbMetric (s : String) : Option SbMetric :=
  match s with
  | "tp" => some .tp | "tn" => some .tn | "fp" => some .fp | "fn" => some .fn
  | "p" => some .p | "n" => some .n | "top" => some .top | "ton" => some .ton
  | "pop" => some .pop
  | "accuracy" => some .accuracy | "class_accuracy" => some .accuracy
  | "error_rate" => some .errorRate | "class_error_rate" => some .errorRate
  | "tpr" => some .tpr | "tar" => some .tpr
  | "tnr" => some .tnr | "trr" => some .tnr
  | "fpr" => some .fpr | "far" => some .fpr
  | "fnr" => some .fnr | "frr" => some .fnr
  | "topr" => some .topr | "acceptance_rate" => some .topr
  | "tonr" => some .tonr | "rejection_rate" => some .tonr
  | "ppv" => some .ppv | "npv" => some .npv | "fdr" => some .fdr | "for_" => some .for_
  | _ => none

/-- the metric of one matrix; `none` is NaN (counts are never NaN) -/
def CMq.sbMetric (m : CMq) : SbMetric → Option Rat
  | .tp => some m.tp | .tn => some m.tn | .fp => some m.fp | .fn => some m.fn
  | .p => some m.p | .n => some m.n | .top => some m.top | .ton => some m.ton
  | .pop => some m.pop
  | .accuracy => m.accuracy | .errorRate => m.errorRate
  | .tpr => m.tpr | .tnr => m.tnr | .fpr => m.fpr | .fnr => m.fnr
  | .topr => m.topr | .tonr => m.tonr
  | .ppv => m.ppv | .npv => m.npv | .fdr => m.fdr | .for_ => m.for_

/-- entry of the un-normalised frame: `getattr(score_object.group_cm(threshold), metric)()` -/
def sbEntry (metric : SbMetric) (cfg : Cfg) (rows : List SbRow) (key : List Nat) (t : ERat) :
    Option Rat :=
  (groupCM cfg rows key t).toQ.sbMetric metric

/-- `getattr(score_object.cm(threshold), metric)()`: the metric of the whole data set -/
def sbOverall (metric : SbMetric) (cfg : Cfg) (rows : List SbRow) (t : ERat) : Option Rat :=
  (rowsCM cfg rows t).toQ.sbMetric metric

/-- `normalize` argument -/
inductive NormMode where
  | none | byOverall | byMin
deriving DecidableEq, Repr, Inhabited

/-- showbias.py:172 and 254-259: any other string raises `ValueError` -/
def parseNormMode : Option String → Except Err NormMode
  | Option.none => .ok .none
  | some "by_overall" => .ok .byOverall
  | some "by_min" => .ok .byMin
  | some _ => .error .valueError

/-- `np.where(den != 0, value / den, value)` for one entry.  NaN divisor: `NaN != 0` holds and
the quotient is NaN. -/
def divNorm (v den : Option Rat) : Option Rat :=
  match den with
  | Option.none => Option.none
  | some d => if d = 0 then v else v.map (· / d)

/-- minimum of two floats as `np.min` sees them: NaN propagates -/
def minO : Option Rat → Option Rat → Option Rat
  | some a, some b => some (if a ≤ b then a else b)
  | _, _ => Option.none

/-- `np.min(column)`; NaN if any entry is NaN.  (The empty column does not occur: `np.stack`
raises before, see `sbTable`.) -/
def colMin : List (Option Rat) → Option Rat
  | [] => Option.none
  | [x] => x
  | x :: y :: rest => minO x (colMin (y :: rest))

/-- `_apply_normalization` on one column (one threshold) of the frame.  `overall` is the metric
of the whole data set at that threshold. -/
def normaliseCol (mode : NormMode) (col : List (Option Rat)) (overall : Option Rat) :
    List (Option Rat) :=
  match mode with
  | .none => col
  | .byOverall => col.map (divNorm · overall)
  | .byMin => col.map (divNorm · (colMin col))

/-- un-normalised column of the frame at one threshold, rows in `groupKeys` order -/
def sbRawCol (metric : SbMetric) (cfg : Cfg) (rows : List SbRow) (t : ERat) : List (Option Rat) :=
  (groupKeys rows).map fun k => sbEntry metric cfg rows k t

/-- column of the returned frame at one threshold -/
def sbCol (metric : SbMetric) (cfg : Cfg) (mode : NormMode) (rows : List SbRow) (t : ERat) :
    List (Option Rat) :=
  normaliseCol mode (sbRawCol metric cfg rows t) (sbOverall metric cfg rows t)

/-- index of a key among the row labels -/
def keyIndex (rows : List SbRow) (key : List Nat) : Option Nat :=
  let i := (groupKeys rows).findIdx (· == key)
  if i < (groupKeys rows).length then some i else Option.none

/-- the cell of the returned frame in the row labelled `key`; outer `none`: no such row -/
def sbCell (metric : SbMetric) (cfg : Cfg) (mode : NormMode) (rows : List SbRow) (key : List Nat)
    (t : ERat) : Option (Option Rat) :=
  match keyIndex rows key with
  | Option.none => Option.none
  | some i => some ((sbCol metric cfg mode rows t).getD i Option.none)

/-- `values` of the returned frame: one row per group (in `groupKeys` order), one column per
threshold.  An empty data frame makes `np.stack` raise `ValueError` (group_scores.py:241). -/
def sbTable (metric : SbMetric) (cfg : Cfg) (mode : NormMode) (rows : List SbRow)
    (ts : List ERat) : Except Err (List (List (Option Rat))) :=
  if rows = [] then .error .valueError
  else
    .ok ((List.range (groupKeys rows).length).map fun i =>
      ts.map fun t => (sbCol metric cfg mode rows t).getD i Option.none)

/-! ### bootstrap path (showbias.py:177-197) for one (group, threshold) component

`repsG` are the replicates of the un-normalised group metric of that component, `estNorm` the
reported (normalised) value, `overall` the whole-data metric of the ORIGINAL data at the threshold.
-/

/-- normalisation of the replicates as coded: `_apply_normalization(samples, ...)` with `samples`
of shape (N, G, T).  For `by_overall` the divisor is the overall metric of the original data
(the same for every replicate); for `by_min`, `np.min(samples, axis=0)` is the minimum over the
BOOTSTRAP axis of this component (known finding; the documented divisor is the minimum over the
groups). -/
def sbRepsNorm (mode : NormMode) (repsG : List (Option Rat)) (overall : Option Rat) :
    List (Option Rat) :=
  match mode with
  | .none => repsG
  | .byOverall => repsG.map (divNorm · overall)
  | .byMin => repsG.map (divNorm · (colMin repsG))

/-- interval of one component as coded -/
def sbCI (nrm : Normal) (pow15 : Rat → Rat) (m : BootMethod) (mode : NormMode)
    (repsG : List (Option Rat)) (estNorm : Rat) (overall : Option Rat) (alpha : Rat) :
    Option Rat × Option Rat :=
  bootstrapCI nrm pow15 m (sbRepsNorm mode repsG overall) estNorm alpha

end SA
