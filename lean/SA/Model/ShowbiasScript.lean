/-
`showbias(..., bootstrap_ci=True)` end to end on the scripted RNG (showbias.py:79-215): the model
of SA/Model/Showbias.lean takes the bootstrap replicates of one (group, threshold) component as a
parameter; here they are computed inside the model by composing

* the frame -> `GroupScores` construction (`GroupScores.from_labels`, SA/Model/Group.lean),
* `GroupScores.bootstrap_sample` on a script of RNG answers (SA/Model/Group.lean, Rng.lean),
* the loop of `Scores.bootstrap_metric` (scores.py:1102-1113) with `metric = calculate_group_metric`,
* `_apply_normalization` on the point estimate (G, T) and on the replicates (N, G, T) as coded,
* `utils.bootstrap_ci` per component (`ciComponent` / `bootstrapCI`, SA/Model/BootMetric.lean,
  Bootstrap.lean).

Statement order of the Python (showbias.py):
  131-145  group ids: the position of the row's key among the sorted distinct keys       `sbKeyCode`
  153-160  `score_object = GroupScores.from_labels(scores, labels, groups, ...)`           `sbObject`
  168-170  `group_metrics = getattr(score_object.group_cm(threshold), metric)()`  (G, T)   `sbGroupMetric`
  172-175  `_apply_normalization(group_metrics, ...)`                                      `sbNormalise`
  178-182  `samples = score_object.bootstrap_metric(calculate_group_metric, config, ...)`:
           `m = metric(self)` (no RNG), then `nb_samples` times
           `sample = self.bootstrap_sample(config)`; `res[j] = metric(sample)`               `gDrawMapped`
  184-191  `_apply_normalization(samples, ...)`: `by_overall` divides every replicate by the
           overall metric of the ORIGINAL object, `by_min` by `np.min(samples, axis=0)`, the
           minimum over the BOOTSTRAP axis of each component (known finding)                `sbRepsNorm`
  192-197  `get_bootstrap_ci(theta=samples, theta_hat=group_metrics, alpha, method)`         `ciComponent`
  198-215  the three frames `values / lower / upper`, index = group keys, columns = thresholds

A group that is absent from a sample (or lacks the class a rate is conditioned on) is still listed
in the sample's `groups` (the list is forwarded, group_scores.py:371/398); its `Scores` object is
empty, its matrix is 0 and a rate of it is 0/0 = NaN (`none`), a count is 0: this is what
`sbGroupMetric` gives on the sample, no special case is needed.

Single group column: the real code passes the raw column values as group ids and `GroupScores`
sorts the distinct values; the harness codes the values by their rank, so the id of a row is again
the position of its key among the sorted distinct keys.

`by_min` with the bootstrap is modelled AS CODED (minimum over the bootstrap axis); one corner is
outside the model: `ciComponent` returns NaN limits for a NaN value with the bc / bca methods, which
is what the implementation returns when the replicates are NaN too — always the case for `None` /
`by_overall` on in-support scripts (`C18_script_nan_value`), not for `by_min`, where the value can be NaN
(another group's entry is NaN) while the component's replicates are finite.

Core Lean only.
-/
import SA.Model.Showbias
import SA.Model.Group
import SA.Model.BootMetric

namespace SA

/-- the group id of a row: position of its key among the sorted distinct keys
(`group_keys.get_indexer(keys)`, showbias.py:139-141) -/
def sbKeyCode (rows : List SbRow) (key : List Nat) : Nat := (groupKeys rows).findIdx (· == key)

/-- `(label == pos_label, score, group id)` per row, in frame order -/
def sbSamples (rows : List SbRow) : List (Bool × Rat × Nat) :=
  rows.map fun r => (r.isPos, r.score, sbKeyCode rows r.key)

/-- `score_object` (showbias.py:153-160) -/
def sbObject (cfg : Cfg) (rows : List SbRow) : GScores :=
  GScores.fromLabels (sbSamples rows) cfg false

/-- `calculate_group_metric(sample, threshold=ts)` (showbias.py:165-166): the metric of every
matrix of `sample.group_cm(ts)`, shape (G, T) -/
def sbGroupMetric (metric : SbMetric) (ts : List ERat) (g : GScores) : List (List (Option Rat)) :=
  g.groups.map fun grp => ts.map fun t => ((g.groupScores grp).cm t).toQ.sbMetric metric

/-- `calculate_metric(score_object, threshold=ts)` (showbias.py:162-163), shape (T,) -/
def sbOverallMetric (metric : SbMetric) (ts : List ERat) (g : GScores) : List (Option Rat) :=
  ts.map fun t => (g.overallCm t).toQ.sbMetric metric

/-- entry `[i, j]` of a (G, T) array (NaN outside) -/
def sbCellAt (a : List (List (Option Rat))) (i j : Nat) : Option Rat := (a.getD i []).getD j none

/-- column `j` of a (G, T) array -/
def sbColAt (a : List (List (Option Rat))) (j : Nat) : List (Option Rat) :=
  a.map fun r => r.getD j none

/-- `_apply_normalization(group_metrics, ...)` on the (G, T) point estimate (showbias.py:225-270):
the divisor has shape (T,) — the overall metric, resp. the minimum over the groups — and
`np.where(den != 0, x / den, x)` is applied entry-wise -/
def sbNormalise (mode : NormMode) (a : List (List (Option Rat))) (overall : List (Option Rat)) :
    List (List (Option Rat)) :=
  match mode with
  | .none => a
  | .byOverall => a.map fun row =>
      (List.range row.length).map fun j => divNorm (row.getD j none) (overall.getD j none)
  | .byMin => a.map fun row =>
      (List.range row.length).map fun j => divNorm (row.getD j none) (colMin (sbColAt a j))

/-- the loop of `bootstrap_metric` (scores.py:1109-1111) on a `GroupScores` object with a metric
that cannot raise: `n` times draw a sample from the RNG stream and evaluate `k` on it; an error of
the sampler ends the loop in the state reached at that point -/
def gDrawMapped {α : Type} (g : GScores) (c : GBootCfg) (k : GScores → α) :
    Nat → RngState → Except Err (List α) × RngState
  | 0, st => (.ok [], st)
  | n + 1, st =>
    match g.bootstrapSample c st with
    | (.error e, st1) => (.error e, st1)
    | (.ok smp, st1) =>
      match gDrawMapped g c k n st1 with
      | (.error e, st2) => (.error e, st2)
      | (.ok rest, st2) => (.ok (k smp :: rest), st2)

/-- `nb_samples` consecutive `GroupScores.bootstrap_sample` runs threading one `RngState` -/
def gDrawSamples (g : GScores) (c : GBootCfg) (n : Nat) (st : RngState) :
    Except Err (List GScores) × RngState :=
  gDrawMapped g c id n st

/-- the state after `n` consecutive `bootstrap_sample` calls (whatever they return) -/
def gSampleStates (g : GScores) (c : GBootCfg) : Nat → RngState → RngState
  | 0, st => st
  | n + 1, st => gSampleStates g c n (g.bootstrapSample c st).2

/-- what `showbias` reads of `bootstrap_config` / `alpha`, with the oracles of `utils.bootstrap_ci` -/
structure SbBootParams where
  cfg : GBootCfg
  nbSamples : Nat
  method : BootMethod
  alpha : Rat
  nrm : Normal
  pow15 : Rat → Rat

/-- the `BiasFrame`: row labels, column labels and the three (G, T) frames -/
structure SbFrames where
  keys : List (List Nat)
  cols : List ERat
  values : List (List (Option Rat))
  lower : List (List (Option Rat))
  upper : List (List (Option Rat))
deriving Repr

/-- the replicates of component `(i, j)`: `samples[:, i, j]` -/
def sbRepsCol (reps : List (List (List (Option Rat)))) (i j : Nat) : List (Option Rat) :=
  reps.map fun r => sbCellAt r i j

/-- interval of component `(i, j)` as coded (showbias.py:184-197): replicates normalised by
`sbRepsNorm`, point estimate = the reported (normalised) value -/
def sbScriptCI (p : SbBootParams) (mode : NormMode) (reps : List (List (List (Option Rat))))
    (values : List (List (Option Rat))) (overall : List (Option Rat)) (i j : Nat) :
    Option Rat × Option Rat :=
  ciComponent p.nrm p.pow15 p.method (sbRepsNorm mode (sbRepsCol reps i j) (overall.getD j none))
    (sbCellAt values i j) p.alpha

/-- the frames from the point estimate and the replicate array -/
def sbFramesOf (p : SbBootParams) (mode : NormMode) (keys : List (List Nat)) (ts : List ERat)
    (est : List (List (Option Rat))) (overall : List (Option Rat))
    (reps : List (List (List (Option Rat)))) : SbFrames :=
  let values := sbNormalise mode est overall
  let ci := (List.range est.length).map fun i => (List.range ts.length).map fun j =>
    sbScriptCI p mode reps values overall i j
  ⟨keys, ts, values, ci.map fun r => r.map (·.1), ci.map fun r => r.map (·.2)⟩

/-- showbias.py:168-215 on a constructed `score_object` `g`: point estimate, the replicate loop
on the RNG stream, normalisation, intervals, frames.  `g` is a parameter because `np.argsort` is not
stable: the implementation's object holds SOME admissible joint order of the rows
(`c12_TieEq (sbObject cfg rows) g`, SA/Theorems/C12Ties.lean), not necessarily the stable one, and
under one and the same script the index-carried labels of a sample depend on that order. -/
def sbScriptFrom (metric : SbMetric) (mode : NormMode) (keys : List (List Nat)) (ts : List ERat)
    (p : SbBootParams) (g : GScores) (st : RngState) : Except Err SbFrames × RngState :=
  let est := sbGroupMetric metric ts g
  let overall := sbOverallMetric metric ts g
  match gDrawMapped g p.cfg (sbGroupMetric metric ts) p.nbSamples st with
  | (.error e, st1) => (.error e, st1)
  | (.ok reps, st1) => (.ok (sbFramesOf p mode keys ts est overall reps), st1)

/-- `showbias(data, ..., metric, normalize, bootstrap_ci=True, bootstrap_config, alpha, threshold=ts)`
on a scripted RNG, with the model's (stably sorted) `score_object`.  An empty frame makes `np.stack`
raise in the point estimate (group_scores.py:241) before anything is drawn; an error of
`bootstrap_sample` propagates.  Returns the frames (or the error) and the RNG state afterwards. -/
def showbiasScript (metric : SbMetric) (cfg : Cfg) (mode : NormMode) (rows : List SbRow)
    (ts : List ERat) (p : SbBootParams) (st : RngState) : Except Err SbFrames × RngState :=
  if rows = [] then (.error .valueError, st)
  else sbScriptFrom metric mode (groupKeys rows) ts p (sbObject cfg rows) st

end SA
