/-
Threshold setting: `Scores.threshold_at_{tpr,fnr,tnr,fpr,topr,tonr}`, `_threshold_at_ratio`,
`_invert_increasing_function` (scores.py:413-645, as of the fixed tree).
Same case splits and order of operations as the Python.
-/
import SA.Model.Basic

namespace SA

/-- `np.nextafter(x, -inf)` / `np.nextafter(x, +inf)` as an oracle. -/
structure Ulp where
  down : Rat → Rat
  up : Rat → Rat

inductive Method where
  | linear
  | lower
  | higher
deriving DecidableEq, Repr, Inhabited

/-- `reverse_method` (scores.py:578). -/
def Method.reverse : Method → Method
  | .linear => .linear
  | .lower => .higher
  | .higher => .lower

/-- `np.ceil` on rationals. (`Rat.ceil` is not definitionally `⌈x⌉`; this one is bridged to
Mathlib's `Int.ceil` by `ceilQ_eq`.) -/
def ceilQ (x : Rat) : Int := -((-x).floor)

/-- `np.maximum(np.minimum(i, n - 1), 0)` -/
def clampIdx (i : Int) (n : Nat) : Nat := (max (min i ((n : Int) - 1)) 0).toNat

/-- `_invert_increasing_function` for one target (scores.py:614-648).  `s` is the sorted
array, `r` the (normalised) target ratio. -/
def invertIncreasing (ulp : Ulp) (s : List Rat) (r : Rat) (leftCont : Bool) (m : Method) : Rat :=
  let n : Rat := (s.length : Rat)
  let isMax : Bool := decide (1 ≤ r)
  let r' : Rat := if leftCont then r else r - 1 / n
  let target : Rat := r' * n
  let li := clampIdx target.floor s.length
  let ri := clampIdx (ceilQ target) s.length
  let la : Rat := ((ceilQ target : Int) : Rat) - target
  let thr : Rat := match m with
    | .linear => la * s.getD li 0 + (1 - la) * s.getD ri 0
    | .lower => s.getD li 0
    | .higher => s.getD ri 0
  let thr : Rat := if r' ≤ 0 then ulp.down (s.getD 0 0) else thr
  if isMax then ulp.up (s.getD (s.length - 1) 0) else thr

/-- The normalisation step of `_threshold_at_ratio` (scores.py:583-604): every metric is
turned into an increasing one; returns the normalised target, continuity flag and method. -/
def normalise (cfg : Cfg) (r : Rat) (increasing : Bool) (ratioClass : Label) (m : Method) :
    Rat × Bool × Method :=
  let lc : Bool := ratioClass == .pos
  let lc : Bool := if cfg.equalClass != .pos then !lc else lc
  let r1 : Rat := if !increasing then 1 - r else r
  let m1 : Method := if !increasing then m.reverse else m
  let r2 : Rat := if cfg.scoreClass != .pos then 1 - r1 else r1
  let lc2 : Bool := if cfg.scoreClass != .pos then !lc else lc
  let m2 : Method := if cfg.scoreClass != .pos then m1.reverse else m1
  (r2, lc2, m2)

/-- `_threshold_at_ratio` (scores.py:539-608). -/
def thresholdAtRatio (ulp : Ulp) (cfg : Cfg) (scores : List Rat) (r : Rat) (increasing : Bool)
    (ratioClass : Label) (m : Method) : Rat :=
  let n := normalise cfg r increasing ratioClass m
  invertIncreasing ulp scores n.1 n.2.1 n.2.2

/-- index target `x` of `_invert_increasing_function` (after the optional shift) -/
def indexTarget (s : List Rat) (r : Rat) (leftCont : Bool) : Rat :=
  (if leftCont then r else r - 1 / (s.length : Rat)) * (s.length : Rat)

/-! Ratio properties (scores.py:145-207). -/
def Scores.nbAllPos (s : Scores) : Nat := s.easyPos + s.pos.length
def Scores.nbAllNeg (s : Scores) : Nat := s.easyNeg + s.neg.length
def Scores.nbEasy (s : Scores) : Nat := s.easyPos + s.easyNeg
def Scores.nbHard (s : Scores) : Nat := s.pos.length + s.neg.length
def Scores.nbAll (s : Scores) : Nat := s.nbEasy + s.nbHard

def Scores.hardPosRatio (s : Scores) : Rat :=
  if s.easyPos > 0 then (s.pos.length : Rat) / ((s.pos.length + s.easyPos : Nat) : Rat) else 1
def Scores.hardNegRatio (s : Scores) : Rat :=
  if s.easyNeg > 0 then (s.neg.length : Rat) / ((s.neg.length + s.easyNeg : Nat) : Rat) else 1
def Scores.easyRatio (s : Scores) : Rat :=
  if s.nbEasy > 0 then (s.nbEasy : Rat) / (s.nbAll : Rat) else 0
def Scores.hardRatio (s : Scores) : Rat := 1 - s.easyRatio

inductive Err where
  | valueError
  | typeError
  | zeroDivisionError
  | other
  | keyError
deriving DecidableEq, Repr

/-- The array a metric's threshold is set on, its `increasing` flag and `ratio_class`. -/
def Scores.concat (s : Scores) : List Rat := sortQ (s.neg ++ s.pos)

/-- Target rescaling for easy samples, per metric (scores.py:426-537). -/
def Scores.rescale (s : Scores) : Metric → Rat → Rat
  | .tpr, r => min ((max (r * (s.nbAllPos : Rat) - (s.easyPos : Rat)) 0) / (s.pos.length : Rat)) 1
  | .fnr, r => min (r / s.hardPosRatio) 1
  | .tnr, r => min ((max (r * (s.nbAllNeg : Rat) - (s.easyNeg : Rat)) 0) / (s.neg.length : Rat)) 1
  | .fpr, r => min (r / s.hardNegRatio) 1
  | .topr, r => min ((max (r - (s.easyPos : Rat) / (s.nbAll : Rat)) 0) / s.hardRatio) 1
  | .tonr, r => min ((max (r - (s.easyNeg : Rat) / (s.nbAll : Rat)) 0) / s.hardRatio) 1

def Scores.metricArray (s : Scores) : Metric → List Rat
  | .tpr => s.pos
  | .fnr => s.pos
  | .tnr => s.neg
  | .fpr => s.neg
  | .topr => s.concat
  | .tonr => s.concat

def Metric.increasing : Metric → Bool
  | .tpr => false
  | .fnr => true
  | .tnr => true
  | .fpr => false
  | .topr => false
  | .tonr => true

def Metric.ratioClass : Metric → Label
  | .tpr => .pos
  | .fnr => .pos
  | .tnr => .neg
  | .fpr => .neg
  | .topr => .pos
  | .tonr => .neg

/-- `Scores.threshold_at_<metric>(r, method=m)` for a scalar target. -/
def Scores.thresholdAt (ulp : Ulp) (s : Scores) (metric : Metric) (r : Rat) (m : Method) :
    Except Err Rat :=
  if (s.metricArray metric).length = 0 then .error .valueError
  else .ok (thresholdAtRatio ulp s.cfg (s.metricArray metric) (s.rescale metric r)
    metric.increasing metric.ratioClass m)

/-! ### float64 `nextafter` on rationals, for the driver (the theorems quantify over any
`Ulp` satisfying their hypotheses). -/

/-- `2^e` as a rational for an integer exponent. -/
def pow2 (e : Int) : Rat := if e ≥ 0 then ((2 ^ e.toNat : Nat) : Rat) else 1 / ((2 ^ (-e).toNat : Nat) : Rat)

/-- exponent `e` with `2^e ≤ |x| < 2^(e+1)` for `x ≠ 0`. -/
def binade (x : Rat) : Int :=
  let a := if x < 0 then -x else x
  let e0 : Int := (Nat.log2 a.num.natAbs : Int) - (Nat.log2 a.den : Int)
  if pow2 e0 ≤ a then (if pow2 (e0 + 1) ≤ a then e0 + 1 else e0) else e0 - 1

/-- next double above a non-negative double -/
def nextUpPos (x : Rat) : Rat :=
  if x = 0 then pow2 (-1074)
  else
    let e := max (binade x) (-1022)
    x + pow2 (e - 52)

/-- next double below a positive double -/
def nextDownPos (x : Rat) : Rat :=
  let e := max (binade x) (-1022)
  if x = pow2 e ∧ e > -1022 then x - pow2 (e - 53) else x - pow2 (e - 52)

def f64Up (x : Rat) : Rat := if 0 ≤ x then nextUpPos x else -(nextDownPos (-x))
def f64Down (x : Rat) : Rat := if 0 < x then nextDownPos x else -(nextUpPos (-x))

def Ulp.float64 : Ulp := ⟨f64Down, f64Up⟩

end SA
