/-
Helper lemmas for C07 (AUC): interval overlaps, the step-area reference, the Mann–Whitney
reference, double counting, and the structure of the code-shaped `Scores.auc`.
-/
import SA.Model.Auc
import SA.Proofs.Bisect
import SA.Proofs.Counts
import Mathlib.Tactic.Linarith
import Mathlib.Tactic.Ring
import Mathlib.Tactic.FieldSimp
import Mathlib.Tactic.Positivity

namespace SA

/-! ### overlap of intervals -/

theorem overlap_nonneg (a b lo hi : ℚ) : 0 ≤ overlap a b lo hi := le_max_left _ _

/-- splitting the window -/
theorem overlap_split_window (a b lo mid hi : ℚ) (hab : a ≤ b) (h1 : lo ≤ mid) (h2 : mid ≤ hi) :
    overlap a b lo mid + overlap a b mid hi = overlap a b lo hi := by
  unfold overlap
  simp only [max_def, min_def]
  split_ifs <;> linarith

/-- splitting the interval -/
theorem overlap_split_interval (a b c lo hi : ℚ) (hab : a ≤ b) (hbc : b ≤ c) (h : lo ≤ hi) :
    overlap a b lo hi + overlap b c lo hi = overlap a c lo hi := by
  unfold overlap
  simp only [max_def, min_def]
  split_ifs <;> linarith

theorem overlap_le_length (a b lo hi : ℚ) (hab : a ≤ b) : overlap a b lo hi ≤ b - a := by
  unfold overlap
  simp only [max_def, min_def]
  split_ifs <;> linarith

theorem overlap_le_window (a b lo hi : ℚ) (h : lo ≤ hi) : overlap a b lo hi ≤ hi - lo := by
  unfold overlap
  simp only [max_def, min_def]
  split_ifs <;> linarith

theorem overlap_of_subset (a b lo hi : ℚ) (hab : a ≤ b) (h1 : lo ≤ a) (h2 : b ≤ hi) :
    overlap a b lo hi = b - a := by
  unfold overlap
  simp only [max_def, min_def]
  split_ifs <;> linarith

theorem overlap_window_subset (a b lo hi : ℚ) (h : lo ≤ hi) (h1 : a ≤ lo) (h2 : hi ≤ b) :
    overlap a b lo hi = hi - lo := by
  unfold overlap
  simp only [max_def, min_def]
  split_ifs <;> linarith

/-! ### the step-area reference -/

theorem winsOver_le (s : Scores) (q : ℚ) : winsOver s q ≤ s.pos.length := List.countP_le_length

theorem div_step_le (j : ℕ) (n : ℚ) (hn : 0 ≤ n) : (j : ℚ) / n ≤ ((j + 1 : ℕ) : ℚ) / n := by
  apply div_le_div_of_nonneg_right _ hn
  push_cast; linarith

theorem stepAreaAux_additive (s : Scores) (lo mid hi : ℚ) (h1 : lo ≤ mid) (h2 : mid ≤ hi)
    (l : List ℚ) (j : ℕ) :
    stepAreaAux s lo mid l j + stepAreaAux s mid hi l j = stepAreaAux s lo hi l j := by
  induction l generalizing j with
  | nil => simp [stepAreaAux]
  | cons q rest ih =>
    simp only [stepAreaAux]
    rw [← ih (j + 1), ← overlap_split_window _ _ lo mid hi (div_step_le j _ (by positivity)) h1 h2]
    ring

theorem stepAreaAux_nonneg (s : Scores) (lo hi : ℚ) (l : List ℚ) (j : ℕ) :
    0 ≤ stepAreaAux s lo hi l j := by
  induction l generalizing j with
  | nil => simp [stepAreaAux]
  | cons q rest ih =>
    simp only [stepAreaAux]
    have := ih (j + 1)
    have := overlap_nonneg ((j : ℚ) / ((s.neg.length + s.easyNeg : ℕ) : ℚ))
      (((j + 1 : ℕ) : ℚ) / ((s.neg.length + s.easyNeg : ℕ) : ℚ)) lo hi
    have : 0 ≤ ((s.easyPos + winsOver s q : ℕ) : ℚ) / ((s.pos.length + s.easyPos : ℕ) : ℚ) := by
      positivity
    positivity

/-- every level of the step function is at most 1 -/
theorem level_le_one (s : Scores) (q : ℚ) :
    ((s.easyPos + winsOver s q : ℕ) : ℚ) / ((s.pos.length + s.easyPos : ℕ) : ℚ) ≤ 1 := by
  have h := winsOver_le s q
  by_cases h0 : s.pos.length + s.easyPos = 0
  · rw [h0]; simp
  · have hpos : (0 : ℚ) < ((s.pos.length + s.easyPos : ℕ) : ℚ) := by
      exact_mod_cast Nat.pos_of_ne_zero h0
    rw [div_le_one hpos]
    exact_mod_cast (by omega : s.easyPos + winsOver s q ≤ s.pos.length + s.easyPos)

theorem stepAreaAux_le (s : Scores) (lo hi : ℚ) (h : lo ≤ hi) (l : List ℚ) (j : ℕ) :
    stepAreaAux s lo hi l j ≤
      overlap ((j : ℚ) / ((s.neg.length + s.easyNeg : ℕ) : ℚ))
        (((j + l.length : ℕ) : ℚ) / ((s.neg.length + s.easyNeg : ℕ) : ℚ)) lo hi := by
  induction l generalizing j with
  | nil =>
    simp only [stepAreaAux, List.length_nil, Nat.add_zero]
    exact overlap_nonneg _ _ _ _
  | cons q rest ih =>
    simp only [stepAreaAux, List.length_cons]
    have hN : (0 : ℚ) ≤ ((s.neg.length + s.easyNeg : ℕ) : ℚ) := by positivity
    have h1 := ih (j + 1)
    have h2 := overlap_split_interval ((j : ℚ) / ((s.neg.length + s.easyNeg : ℕ) : ℚ))
      (((j + 1 : ℕ) : ℚ) / ((s.neg.length + s.easyNeg : ℕ) : ℚ))
      (((j + 1 + rest.length : ℕ) : ℚ) / ((s.neg.length + s.easyNeg : ℕ) : ℚ)) lo hi
      (div_step_le j _ hN)
      (by apply div_le_div_of_nonneg_right _ hN; push_cast; linarith [(Nat.cast_nonneg rest.length : (0:ℚ) ≤ _)])
      h
    have h3 := level_le_one s q
    have h4 := overlap_nonneg ((j : ℚ) / ((s.neg.length + s.easyNeg : ℕ) : ℚ))
      (((j + 1 : ℕ) : ℚ) / ((s.neg.length + s.easyNeg : ℕ) : ℚ)) lo hi
    have h5 : j + (rest.length + 1) = j + 1 + rest.length := by omega
    rw [h5, ← h2]
    nlinarith

theorem negsByRank_perm (s : Scores) : (negsByRank s).Perm s.neg := by
  unfold negsByRank
  split
  · exact (List.reverse_perm _).trans (sortQ_perm _)
  · exact sortQ_perm _

theorem negsByRank_length (s : Scores) : (negsByRank s).length = s.neg.length :=
  (negsByRank_perm s).length_eq

/-! ### double counting -/

theorem countP_eq_sum_ite {α : Type} (p : α → Bool) (l : List α) :
    l.countP p = (l.map fun b => if p b then 1 else 0).sum := by
  induction l with
  | nil => rfl
  | cons a l ih =>
    simp only [List.countP_cons, List.map_cons, List.sum_cons, ih]
    split <;> omega

theorem sum_map_add_nat {α : Type} (f g : α → ℕ) (l : List α) :
    (l.map fun a => f a + g a).sum = (l.map f).sum + (l.map g).sum := by
  induction l with
  | nil => rfl
  | cons a l ih => simp only [List.map_cons, List.sum_cons, ih]; omega

/-- Σ_{a ∈ l₁} #{b ∈ l₂ : r a b} = Σ_{b ∈ l₂} #{a ∈ l₁ : r a b} -/
theorem double_count {α β : Type} (r : α → β → Bool) (l₁ : List α) (l₂ : List β) :
    (l₁.map fun a => l₂.countP fun b => r a b).sum =
      (l₂.map fun b => l₁.countP fun a => r a b).sum := by
  induction l₁ with
  | nil => simp
  | cons a l₁ ih =>
    simp only [List.map_cons, List.sum_cons, ih, List.countP_cons]
    rw [sum_map_add_nat, countP_eq_sum_ite]
    omega

theorem sum_map_const_add {α : Type} (c : ℕ) (g : α → ℕ) (l : List α) :
    (l.map fun a => c + g a).sum = l.length * c + (l.map g).sum := by
  induction l with
  | nil => simp
  | cons a l ih =>
    simp only [List.map_cons, List.sum_cons, ih, List.length_cons]
    rw [Nat.add_mul]; omega

/-! ### full step area -/

theorem stepAreaAux_full (s : Scores) (l : List ℚ) (j : ℕ)
    (hlen : j + l.length ≤ s.neg.length + s.easyNeg) :
    stepAreaAux s 0 1 l j =
      (((l.map fun q => s.easyPos + winsOver s q).sum : ℕ) : ℚ) /
        (((s.neg.length + s.easyNeg : ℕ) : ℚ) * ((s.pos.length + s.easyPos : ℕ) : ℚ)) := by
  induction l generalizing j with
  | nil => simp [stepAreaAux]
  | cons q rest ih =>
    simp only [stepAreaAux, List.length_cons, List.map_cons, List.sum_cons] at hlen ⊢
    rw [ih (j + 1) (by omega)]
    have hNpos : (0 : ℚ) < ((s.neg.length + s.easyNeg : ℕ) : ℚ) := by
      exact_mod_cast (by omega : 0 < s.neg.length + s.easyNeg)
    have hov : overlap ((j : ℚ) / ((s.neg.length + s.easyNeg : ℕ) : ℚ))
        (((j + 1 : ℕ) : ℚ) / ((s.neg.length + s.easyNeg : ℕ) : ℚ)) 0 1
        = 1 / ((s.neg.length + s.easyNeg : ℕ) : ℚ) := by
      rw [overlap_of_subset _ _ _ _ (div_step_le j _ hNpos.le) (by positivity)]
      · push_cast; field_simp; ring
      · rw [div_le_one hNpos]; exact_mod_cast (by omega : j + 1 ≤ s.neg.length + s.easyNeg)
    rw [hov]
    by_cases hP : s.pos.length + s.easyPos = 0
    · have : s.easyPos + winsOver s q = 0 := by have := winsOver_le s q; omega
      rw [this, hP]; simp
    · have hPpos : (0 : ℚ) < ((s.pos.length + s.easyPos : ℕ) : ℚ) := by
        exact_mod_cast Nat.pos_of_ne_zero hP
      push_cast
      field_simp

/-! ### the Mann–Whitney reference -/

def mwWins (s : Scores) : ℕ :=
  (s.pos.map fun p => s.neg.countP fun q => ranksAbove s.cfg.scoreClass p q).sum
def mwTies (s : Scores) : ℕ := (s.pos.map fun p => s.neg.countP fun q => decide (p = q)).sum

theorem mannWhitney_eq (s : Scores) : mannWhitney s =
    if s.pos.length + s.easyPos = 0 ∨ s.neg.length + s.easyNeg = 0 then none else
    some ((((mwWins s + (s.easyPos * (s.neg.length + s.easyNeg) + s.pos.length * s.easyNeg) : ℕ) : ℚ)
      + (mwTies s : ℚ) / 2) /
      (((s.pos.length + s.easyPos) * (s.neg.length + s.easyNeg) : ℕ) : ℚ)) := rfl

theorem mwWins_eq_sum_winsOver (s : Scores) : mwWins s = (s.neg.map fun q => winsOver s q).sum := by
  unfold mwWins winsOver
  exact double_count (fun p q => ranksAbove s.cfg.scoreClass p q) s.pos s.neg

theorem mwTies_eq_zero (s : Scores) (h : noCrossTies s = true) : mwTies s = 0 := by
  unfold mwTies
  apply List.sum_eq_zero
  intro x hx
  rw [List.mem_map] at hx
  obtain ⟨p, hp, rfl⟩ := hx
  rw [List.countP_eq_zero]
  intro q hq
  simp only [decide_eq_true_eq]
  intro hpq
  unfold noCrossTies at h
  rw [List.all_eq_true] at h
  have := h p hp
  simp only [Bool.not_eq_true', List.contains_eq_mem, decide_eq_false_iff_not] at this
  exact this (hpq ▸ hq)

theorem wins_ties_pair_le (sc : Label) (p : ℚ) (l : List ℚ) :
    (l.countP fun q => ranksAbove sc p q) + (l.countP fun q => decide (p = q)) ≤ l.length := by
  induction l with
  | nil => simp
  | cons q l ih =>
    simp only [List.countP_cons, List.length_cons]
    have : ¬ (ranksAbove sc p q = true ∧ decide (p = q) = true) := by
      rintro ⟨h1, h2⟩
      simp only [decide_eq_true_eq] at h2
      subst h2
      cases sc <;> simp [ranksAbove] at h1
    by_cases h1 : ranksAbove sc p q = true <;> by_cases h2 : decide (p = q) = true
    · exact absurd ⟨h1, h2⟩ this
    all_goals (simp only [h1, h2, if_true, if_false, Bool.false_eq_true]; omega)

theorem mwWins_add_ties_le (s : Scores) : mwWins s + mwTies s ≤ s.pos.length * s.neg.length := by
  unfold mwWins mwTies
  generalize s.pos = l
  induction l with
  | nil => simp
  | cons p l ih =>
    simp only [List.map_cons, List.sum_cons, List.length_cons]
    have := wins_ties_pair_le s.cfg.scoreClass p s.neg
    rw [Nat.add_mul]; omega

end SA
