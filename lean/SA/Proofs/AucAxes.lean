/-
Other axis pairs of `Scores.auc`: exchanged axes over the full range, complemented y-axis,
complemented x-axis (helper lemmas for C07).
-/
import SA.Proofs.AucPartial
import Mathlib.Tactic.LinearCombination

namespace SA

/-- summation by parts for the trapezoid rule -/
theorem trapF_parts (f g : ℚ → ℚ) (t0 : ℚ) (rest : List ℚ) :
    trapF g f (t0 :: rest) + trapF f g (t0 :: rest) =
      f ((t0 :: rest).getLast (by simp)) * g ((t0 :: rest).getLast (by simp)) - f t0 * g t0 := by
  induction rest generalizing t0 with
  | nil => simp [trapF_single]
  | cons t1 rest ih =>
    have := ih t1
    rw [trapF_cons_cons, trapF_cons_cons, List.getLast_cons (l := t1 :: rest) (by simp)]
    linarith

/-- exchanged axes over the full range along a sweep: one minus the Mann–Whitney value -/
theorem aucWindow_exchange_sweep (s : Scores) (ts : List ℚ) (hw : Sweep s ts)
    (hP : s.pos.length + s.easyPos ≠ 0) (hN : s.neg.length + s.easyNeg ≠ 0) :
    aucWindow (ts.map (tpQ s)) (ts.map (fpQ s)) 0 1 =
      1 - (((mwWins s + (s.easyPos * (s.neg.length + s.easyNeg) + s.pos.length * s.easyNeg) : ℕ) : ℚ)
        + (mwTies s : ℚ) / 2) /
      (((s.pos.length + s.easyPos) * (s.neg.length + s.easyNeg) : ℕ) : ℚ) := by
  have h0 := accCount_first s ts hw s.neg (fun x hx => List.mem_append_right _ hx)
  have h1 := accCount_last s ts hw s.neg (fun x hx => List.mem_append_right _ hx)
  have h2 := accCount_last s ts hw s.pos (fun x hx => List.mem_append_left _ hx)
  have hr := trapF_rates s ts hw
  have hPq : (0 : ℚ) < ((s.pos.length + s.easyPos : ℕ) : ℚ) := by
    exact_mod_cast Nat.pos_of_ne_zero hP
  have hNq : (0 : ℚ) < ((s.neg.length + s.easyNeg : ℕ) : ℚ) := by
    exact_mod_cast Nat.pos_of_ne_zero hN
  have hwt : ((mwWins s + mwTies s : ℕ) : ℚ) ≤ ((s.pos.length * s.neg.length : ℕ) : ℚ) := by
    exact_mod_cast mwWins_add_ties_le s
  have hties : (0 : ℚ) ≤ (mwTies s : ℚ) := by positivity
  obtain ⟨_, hne, _, _, _⟩ := hw
  cases ts with
  | nil => exact absurd rfl hne
  | cons t0 rest =>
    simp only [List.head_cons] at h0
    have hparts := trapF_parts (fpQ s) (tpQ s) t0 rest
    rw [aucWindow_full _ _ _ _ (fun t _ => tpQ_nonneg s t) (fun t _ => tpQ_le_one s t)]
    have f0 : fpQ s t0 = 0 := by unfold fpQ; rw [h0]; simp
    have f1 : fpQ s ((t0 :: rest).getLast hne) =
        (s.neg.length : ℚ) / ((s.neg.length + s.easyNeg : ℕ) : ℚ) := by unfold fpQ; rw [h1]
    have g1 : tpQ s ((t0 :: rest).getLast hne) = 1 := by
      unfold tpQ; rw [h2]; exact div_self hPq.ne'
    rw [f0, f1, g1, hr] at hparts
    rw [f0, g1]
    have hval : tpQ s t0 * 0 + trapF (tpQ s) (fpQ s) (t0 :: rest) +
        (1 - 1) * fpQ s ((t0 :: rest).getLast hne) =
      1 - (((mwWins s + (s.easyPos * (s.neg.length + s.easyNeg) + s.pos.length * s.easyNeg) : ℕ) : ℚ)
        + (mwTies s : ℚ) / 2) /
      (((s.pos.length + s.easyPos) * (s.neg.length + s.easyNeg) : ℕ) : ℚ) := by
      have : trapF (tpQ s) (fpQ s) (t0 :: rest) =
          (s.neg.length : ℚ) / ((s.neg.length + s.easyNeg : ℕ) : ℚ) * 1 - 0 * tpQ s t0 -
          ((mwWins s : ℚ) + (mwTies s : ℚ) / 2 + (s.easyPos : ℚ) * (s.neg.length : ℚ)) /
            (((s.pos.length + s.easyPos : ℕ) : ℚ) * ((s.neg.length + s.easyNeg : ℕ) : ℚ)) := by
        linarith
      rw [this]
      push_cast at hPq hNq ⊢
      field_simp
      ring
    rw [hval]
    apply absR_of_nonneg
    have hD : (0 : ℚ) < (((s.pos.length + s.easyPos) * (s.neg.length + s.easyNeg) : ℕ) : ℚ) := by
      exact_mod_cast Nat.mul_pos (Nat.pos_of_ne_zero hP) (Nat.pos_of_ne_zero hN)
    rw [sub_nonneg, div_le_one hD]
    push_cast at hwt ⊢
    nlinarith

/-! ### complemented y-axis -/

theorem trapF_sub_right (f g : ℚ → ℚ) (c : ℚ) (ts : List ℚ) :
    trapF f (fun t => c - g t) ts = trapF f (fun _ => c) ts - trapF f g ts := by
  induction ts using trapF_induction with
  | h0 => simp [trapF_nil]
  | h1 t => simp [trapF_single]
  | h2 t0 t1 ts ih => simp only [trapF_cons_cons, ih]; ring

theorem horizStep_compl (f g : ℚ → ℚ) (c : ℚ) (ts : List ℚ) (h : HorizStep f g ts) :
    HorizStep f (fun t => c - g t) ts := by
  induction ts using trapF_induction with
  | h0 => trivial
  | h1 t => trivial
  | h2 t0 t1 ts ih =>
    refine ⟨fun hlt => ?_, ih h.2⟩
    show c - g t0 = c - g t1
    rw [h.1 hlt]

/-- the total step area over a window inside `[0, 1]` is at most the window length -/
theorem step_total_le (s : Scores) (lo hi : ℚ) (h0 : 0 ≤ lo) (h : lo ≤ hi) (h1 : hi ≤ 1)
    (hN : s.neg.length + s.easyNeg ≠ 0) :
    stepAreaAux s lo hi (negsByRank s) 0 +
      overlap ((s.neg.length : ℚ) / ((s.neg.length + s.easyNeg : ℕ) : ℚ)) 1 lo hi ≤ hi - lo := by
  have hNq : (0 : ℚ) < ((s.neg.length + s.easyNeg : ℕ) : ℚ) := by
    exact_mod_cast Nat.pos_of_ne_zero hN
  have hle : (s.neg.length : ℚ) / ((s.neg.length + s.easyNeg : ℕ) : ℚ) ≤ 1 := by
    rw [div_le_one hNq]; push_cast; linarith [(Nat.cast_nonneg s.easyNeg : (0 : ℚ) ≤ _)]
  have h2 := stepAreaAux_le s lo hi h (negsByRank s) 0
  rw [negsByRank_length] at h2
  have h3 := overlap_split_interval
    (((0 : ℕ) : ℚ) / ((s.neg.length + s.easyNeg : ℕ) : ℚ))
    (((0 + s.neg.length : ℕ) : ℚ) / ((s.neg.length + s.easyNeg : ℕ) : ℚ)) 1 lo hi
    (by apply div_le_div_of_nonneg_right _ hNq.le; push_cast
        linarith [(Nat.cast_nonneg s.neg.length : (0 : ℚ) ≤ _)])
    (by rw [Nat.zero_add]; exact hle) h
  have h4 : overlap (((0 : ℕ) : ℚ) / ((s.neg.length + s.easyNeg : ℕ) : ℚ)) 1 lo hi = hi - lo := by
    apply overlap_window_subset _ _ _ _ h
    · simp only [Nat.cast_zero, zero_div]; exact h0
    · exact h1
  rw [Nat.zero_add] at h2 h3
  linarith

/-- FNR against FPR over a window along the sweep of a tie-free data set: window length minus
the step area -/
theorem aucWindow_ycompl_sweep (s : Scores) (hnt : noCrossTies s = true) (ts : List ℚ)
    (hw : Sweep s ts) (hP : s.pos.length + s.easyPos ≠ 0) (hN : s.neg.length + s.easyNeg ≠ 0)
    (lo hi : ℚ) (h0 : 0 ≤ lo) (hlh : lo ≤ hi) (h1 : hi ≤ 1) :
    aucWindow (ts.map (fpQ s)) (ts.map (fun t => 1 - tpQ s t)) lo hi =
      (hi - lo) - (stepAreaAux s lo hi (negsByRank s) 0 +
        overlap ((s.neg.length : ℚ) / ((s.neg.length + s.easyNeg : ℕ) : ℚ)) 1 lo hi) := by
  have hPq : (0 : ℚ) < ((s.pos.length + s.easyPos : ℕ) : ℚ) := by
    exact_mod_cast Nat.pos_of_ne_zero hP
  have hNq : (0 : ℚ) < ((s.neg.length + s.easyNeg : ℕ) : ℚ) := by
    exact_mod_cast Nat.pos_of_ne_zero hN
  have hle : (s.neg.length : ℚ) / ((s.neg.length + s.easyNeg : ℕ) : ℚ) ≤ 1 := by
    rw [div_le_one hNq]; push_cast; linarith [(Nat.cast_nonneg s.easyNeg : (0 : ℚ) ≤ _)]
  have hf0 := accCount_first s ts hw s.neg (fun x hx => List.mem_append_right _ hx)
  have hf1 := accCount_last s ts hw s.neg (fun x hx => List.mem_append_right _ hx)
  have hg1 := accCount_last s ts hw s.pos (fun x hx => List.mem_append_left _ hx)
  have hzero : ∃ t ∈ ts, fpQ s t = 0 :=
    ⟨ts.head hw.ne, List.head_mem _, by unfold fpQ; rw [hf0]; simp⟩
  have htot := step_total_le s lo hi h0 hlh h1 hN
  rw [window_eq_clip (fpQ s) (fun t => 1 - tpQ s t) lo hi h0 hlh h1 ts hw.ne (sweep_fpQ_mono s ts hw)
    (horizStep_compl _ _ 1 ts (sweep_horiz_tail s hnt ts [] hw)) hzero, trapF_sub_right,
    trapF_clip_sweep s hnt lo hi hlh ts hw]
  have e1 : fpQ s (ts.getLast hw.ne) = (s.neg.length : ℚ) / ((s.neg.length + s.easyNeg : ℕ) : ℚ) := by
    unfold fpQ; rw [hf1]
  have e2 : tpQ s (ts.getLast hw.ne) = 1 := by
    unfold tpQ; rw [hg1]; exact div_self hPq.ne'
  have hov := overlap_eq_clip ((s.neg.length : ℚ) / ((s.neg.length + s.easyNeg : ℕ) : ℚ)) 1 lo hi
    hle hlh
  rw [clipQ_of_ge lo hi 1 hlh h1] at hov
  have hne := hw.ne
  cases ts with
  | nil => exact absurd rfl hne
  | cons t0 rest =>
    simp only [List.head_cons] at hf0
    have f0 : fpQ s t0 = 0 := by unfold fpQ; rw [hf0]; simp
    rw [trapF_const_right, e1, e2, f0, clipQ_of_le lo hi 0 hlh h0]
    have : 1 * (clipQ lo hi ((s.neg.length : ℚ) / ((s.neg.length + s.easyNeg : ℕ) : ℚ)) - lo) -
        stepAreaAux s lo hi (negsByRank s) 0 +
        overlap ((s.neg.length : ℚ) / ((s.neg.length + s.easyNeg : ℕ) : ℚ)) 1 lo hi * (1 - 1) =
        (hi - lo) - (stepAreaAux s lo hi (negsByRank s) 0 +
        overlap ((s.neg.length : ℚ) / ((s.neg.length + s.easyNeg : ℕ) : ℚ)) 1 lo hi) := by
      rw [hov]; ring
    rw [this]
    apply absR_of_nonneg
    linarith

/-! ### two-sided version of the window lemma (curve need not start at `f = 0`) -/

/-- (iv) the window lies before the first point -/
theorem aucWindow_before (f g : ℚ → ℚ) (lo hi : ℚ) (c0 : ℚ) (C' : List ℚ)
    (hL : bisect (fun v => decide (v < lo)) (([] ++ [] ++ (c0 :: C')).map f) = ([] : List ℚ).length)
    (hR : bisect (fun v => decide (v ≤ hi)) (([] ++ [] ++ (c0 :: C')).map f) =
      ([] : List ℚ).length + ([] : List ℚ).length) :
    aucWindow (([] ++ [] ++ (c0 :: C')).map f) (([] ++ [] ++ (c0 :: C')).map g) lo hi =
      absR (trapezoid [lo, f c0, hi] [g c0, g c0, g c0]) := by
  unfold aucWindow
  simp only [hL, hR]
  simp only [List.length_nil, List.nil_append, List.map_cons, List.length_cons, List.length_map,
    Nat.zero_min, Nat.zero_max, Nat.sub_zero, List.drop_zero, List.take_succ_cons,
    List.take_zero, Nat.sub_self, List.getD_cons_zero, Nat.add_zero]
  rfl

theorem overlap_head_inside (b lo hi : ℚ) (h0 : 0 ≤ lo) (h1 : lo ≤ b) (h2 : b ≤ hi) :
    overlap 0 b lo hi = b - lo := by
  unfold overlap
  simp only [max_def, min_def]
  split_ifs <;> linarith

theorem overlap_head_below (b lo hi : ℚ) (h0 : 0 ≤ lo) (h1 : b < lo) :
    overlap 0 b lo hi = 0 := by
  unfold overlap
  simp only [max_def, min_def]
  split_ifs <;> linarith

theorem overlap_head_above (b lo hi : ℚ) (h0 : 0 ≤ lo) (h1 : lo ≤ hi) (h2 : hi < b) :
    overlap 0 b lo hi = hi - lo := by
  unfold overlap
  simp only [max_def, min_def]
  split_ifs <;> linarith

/-- entering the window, with the flat piece before the first point -/
theorem trapF_clip_enter2 (f g : ℚ → ℚ) (lo hi : ℚ) (h0 : 0 ≤ lo) (hlh : lo ≤ hi) (A : List ℚ)
    (b0 : ℚ) (hA : ∀ t ∈ A, f t < lo) (hb : lo ≤ f b0 ∧ f b0 ≤ hi)
    (hhor : ∀ A' al, A = A' ++ [al] → g al = g b0) :
    overlap 0 (f ((A ++ [b0]).head (by simp))) lo hi * g ((A ++ [b0]).head (by simp)) +
      trapF (fun t => clipQ lo hi (f t)) g (A ++ [b0]) = (f b0 - lo) * g b0 := by
  cases A with
  | nil =>
    simp only [List.nil_append, List.head_cons, trapF_single]
    rw [overlap_head_inside _ lo hi h0 hb.1 hb.2]; ring
  | cons a A =>
    have ha : f a < lo := hA a (by simp)
    simp only [List.cons_append, List.head_cons]
    rw [overlap_head_below _ lo hi h0 ha]
    have := trapF_clip_enter f g lo hi hlh (a :: A) b0 hA hb (fun h => by cases h) hhor
    simp only [List.cons_append] at this
    rw [this]; ring

theorem head_append3 (A : List ℚ) (b0 : ℚ) (B' C : List ℚ) (h1 : A ++ (b0 :: B') ++ C ≠ [])
    (h2 : A ++ [b0] ≠ []) : (A ++ (b0 :: B') ++ C).head h1 = (A ++ [b0]).head h2 := by
  cases A <;> simp

/-- **window = flat head + clipped sum + flat tail**, for a monotone curve whose segments are
horizontal or vertical -/
theorem window_eq_clip2 (f g : ℚ → ℚ) (lo hi : ℚ) (h0 : 0 ≤ lo) (hlh : lo ≤ hi) (h1 : hi ≤ 1)
    (ts : List ℚ) (hne : ts ≠ []) (hs : ts.Pairwise (fun t t' => f t ≤ f t'))
    (hh : HorizStep f g ts) :
    aucWindow (ts.map f) (ts.map g) lo hi =
      absR (overlap 0 (f (ts.head hne)) lo hi * g (ts.head hne) +
        trapF (fun t => clipQ lo hi (f t)) g ts +
        overlap (f (ts.getLast hne)) 1 lo hi * g (ts.getLast hne)) := by
  obtain ⟨A, B, C, rfl, hA, hB, hC⟩ := mono_decomp f lo hi ts hs
  have hL := bisect_lo_decomp f lo hi A B C hs hA hB hC hlh
  have hR := bisect_hi_decomp f lo hi A B C hs hA hB hC hlh
  cases B with
  | cons b0 B' =>
    have hb0 := hB b0 (by simp)
    have hhor : ∀ A' al, A = A' ++ [al] → g al = g b0 := by
      intro A' al hAe
      subst hAe
      have e : A' ++ [al] ++ (b0 :: B') ++ C = A' ++ al :: b0 :: (B' ++ C) := by simp
      rw [e] at hh
      exact horizStep_at f g A' al b0 (B' ++ C) hh
        (lt_of_lt_of_le (hA al (by simp)) hb0.1)
    have hbl := hB ((b0 :: B').getLast (by simp)) (List.getLast_mem _)
    have hhead := trapF_clip_enter2 f g lo hi h0 hlh A b0 hA hb0 hhor
    have hmid := trapF_clip_inside f g lo hi _ hB
    rw [aucWindow_mid f g lo hi A b0 B' C hL hR, trapezoid_both, trapF_split3,
      head_append3 A b0 B' C hne (by simp)]
    cases C with
    | nil =>
      have hgl : (A ++ (b0 :: B') ++ []).getLast hne = (b0 :: B').getLast (by simp) := by
        simp only [List.append_nil]
        exact List.getLast_append_of_ne_nil _ (by simp)
      rw [hgl, overlap_tail_inside _ lo hi hbl.1 hbl.2 h1, trapF_single]
      congr 1
      linear_combination -hhead - hmid
    | cons c0 C' =>
      have hgl : (A ++ (b0 :: B') ++ (c0 :: C')).getLast hne = (c0 :: C').getLast (by simp) :=
        List.getLast_append_of_ne_nil _ (by simp)
      have hlast := hC ((c0 :: C').getLast (by simp)) (List.getLast_mem _)
      obtain ⟨D, bl, hD⟩ : ∃ D bl, b0 :: B' = D ++ [bl] :=
        ⟨(b0 :: B').dropLast, (b0 :: B').getLast (by simp),
          (List.dropLast_append_getLast (by simp)).symm⟩
      have hblD : (b0 :: B').getLast (by simp) = bl := by simp [hD]
      have hhor2 : g ((b0 :: B').getLast (by simp)) = g c0 := by
        rw [hblD]
        have e : A ++ (b0 :: B') ++ (c0 :: C') = (A ++ D) ++ bl :: c0 :: C' := by
          rw [hD]; simp
        rw [e] at hh
        apply horizStep_at f g (A ++ D) bl c0 C' hh
        rw [← hblD]
        exact lt_of_le_of_lt hbl.2 (hC c0 (by simp))
      have hleave := trapF_clip_leave f g lo hi hlh _ c0 C' hC hbl hhor2
      rw [hgl, overlap_tail_above _ lo hi hlast]
      congr 1
      linear_combination -hhead - hmid - hleave
  | nil =>
    cases C with
    | cons c0 C' =>
      have hgl : (A ++ [] ++ (c0 :: C')).getLast hne = (c0 :: C').getLast (by simp) :=
        List.getLast_append_of_ne_nil _ (by simp)
      have hlast := hC ((c0 :: C').getLast (by simp)) (List.getLast_mem _)
      cases A with
      | nil =>
        have hc0 := hC c0 (by simp)
        have hhd : ([] ++ [] ++ (c0 :: C')).head hne = c0 := by simp
        rw [aucWindow_before f g lo hi c0 C' hL hR, hgl, overlap_tail_above _ lo hi hlast, hhd,
          overlap_head_above _ lo hi h0 hlh hc0]
        have e : ([] : List ℚ) ++ [] ++ (c0 :: C') = c0 :: C' := by simp
        rw [e, trapF_clip_above f g lo hi hlh _ hC]
        congr 1
        simp only [trapezoid]
        ring
      | cons a A₀ =>
        have hAne : a :: A₀ ≠ [] := by simp
        obtain ⟨A', al, hAe⟩ : ∃ A' al, a :: A₀ = A' ++ [al] :=
          ⟨(a :: A₀).dropLast, (a :: A₀).getLast hAne, (List.dropLast_append_getLast hAne).symm⟩
        have hal : (a :: A₀).getLast hAne = al := by simp [hAe]
        have hhd : (a :: A₀ ++ [] ++ (c0 :: C')).head hne = a := by simp
        rw [aucWindow_gap f g lo hi (a :: A₀) hAne c0 C' hL hR, hgl,
          overlap_tail_above _ lo hi hlast, hal, hhd,
          overlap_head_below _ lo hi h0 (hA a (by simp))]
        have e : a :: A₀ ++ [] ++ (c0 :: C') = A' ++ al :: c0 :: C' := by rw [hAe]; simp
        rw [e, trapF_clip_jump f g lo hi hlh A' al c0 C' (by rw [← hAe]; exact hA) hC]
        congr 1
        simp only [trapezoid]
        ring
    | nil =>
      have hAne : A ≠ [] := by simpa using hne
      have hgl : (A ++ [] ++ []).getLast hne = A.getLast hAne := by
        simp only [List.append_nil]
      have hhd : (A ++ [] ++ []).head hne = A.head hAne := by
        simp only [List.append_nil]
      have hal := hA (A.getLast hAne) (List.getLast_mem _)
      have hah := hA (A.head hAne) (List.head_mem _)
      rw [aucWindow_beyond f g lo hi A hAne hL hR, hgl, hhd, overlap_tail_below _ lo hi hal hlh h1,
        overlap_head_below _ lo hi h0 hah]
      have e : A ++ [] ++ [] = A := by simp
      rw [e, trapF_clip_below f g lo hi hlh A hA]
      congr 1
      simp only [trapezoid]
      ring

/-! ### complemented x-axis: the mirrored curve -/

theorem horizStep_snoc (F g : ℚ → ℚ) (l : List ℚ) (a b : ℚ) (h : HorizStep F g (l ++ [a]))
    (hab : F a < F b → g a = g b) : HorizStep F g (l ++ [a, b]) := by
  induction l with
  | nil => exact ⟨hab, trivial⟩
  | cons c l ih =>
    cases l with
    | nil => exact ⟨h.1, ih h.2⟩
    | cons d l => exact ⟨h.1, ih h.2⟩

theorem horizStep_reverse (f g : ℚ → ℚ) (c : ℚ) (ts : List ℚ) (h : HorizStep f g ts) :
    HorizStep (fun t => c - f t) g ts.reverse := by
  induction ts using trapF_induction with
  | h0 => trivial
  | h1 t => trivial
  | h2 t0 t1 ts ih =>
    have e : (t0 :: t1 :: ts).reverse = ts.reverse ++ [t1, t0] := by simp
    rw [e]
    apply horizStep_snoc
    · have := ih h.2
      rwa [List.reverse_cons] at this
    · intro hlt
      have hlt' : c - f t1 < c - f t0 := hlt
      have : f t0 < f t1 := by linarith
      exact (h.1 this).symm

theorem clipQ_mirror (lo hi v : ℚ) (h : lo ≤ hi) :
    clipQ lo hi (1 - v) = 1 - clipQ (1 - hi) (1 - lo) v := by
  unfold clipQ
  simp only [max_def, min_def]
  split_ifs <;> linarith

theorem overlap_mirror (a b lo hi : ℚ) :
    overlap (1 - b) (1 - a) lo hi = overlap a b (1 - hi) (1 - lo) := by
  unfold overlap
  simp only [max_def, min_def]
  split_ifs <;> linarith

theorem trapF_sub_left (f g : ℚ → ℚ) (c : ℚ) (ts : List ℚ) :
    trapF (fun t => c - f t) g ts = - trapF f g ts := by
  induction ts using trapF_induction with
  | h0 => simp [trapF_nil]
  | h1 t => simp [trapF_single]
  | h2 t0 t1 ts ih => simp only [trapF_cons_cons, ih]; ring

/-- TPR against TNR over `[lo, hi]` along the reversed sweep of a tie-free data set: the step
area over the mirrored window `[1 - hi, 1 - lo]` -/
theorem aucWindow_xcompl_sweep (s : Scores) (hnt : noCrossTies s = true) (ts : List ℚ)
    (hw : Sweep s ts) (hP : s.pos.length + s.easyPos ≠ 0)
    (lo hi : ℚ) (h0 : 0 ≤ lo) (hlh : lo ≤ hi) (h1 : hi ≤ 1) :
    aucWindow (ts.reverse.map (fun t => 1 - fpQ s t)) (ts.reverse.map (tpQ s)) lo hi =
      stepAreaAux s (1 - hi) (1 - lo) (negsByRank s) 0 +
        overlap ((s.neg.length : ℚ) / ((s.neg.length + s.easyNeg : ℕ) : ℚ)) 1 (1 - hi) (1 - lo) := by
  have hPq : (0 : ℚ) < ((s.pos.length + s.easyPos : ℕ) : ℚ) := by
    exact_mod_cast Nat.pos_of_ne_zero hP
  have hf0 := accCount_first s ts hw s.neg (fun x hx => List.mem_append_right _ hx)
  have hf1 := accCount_last s ts hw s.neg (fun x hx => List.mem_append_right _ hx)
  have hg1 := accCount_last s ts hw s.pos (fun x hx => List.mem_append_left _ hx)
  have hne' : ts.reverse ≠ [] := by simpa using hw.ne
  have hmono : ts.reverse.Pairwise (fun t t' => (1 - fpQ s t) ≤ (1 - fpQ s t')) := by
    rw [List.pairwise_reverse]
    exact (sweep_fpQ_mono s ts hw).imp (fun {a b} hab => by linarith)
  have hhor := horizStep_reverse (fpQ s) (tpQ s) 1 ts (sweep_horiz_tail s hnt ts [] hw)
  rw [window_eq_clip2 (fun t => 1 - fpQ s t) (tpQ s) lo hi h0 hlh h1 ts.reverse hne' hmono hhor]
  have e1 : fpQ s (ts.getLast hw.ne) = (s.neg.length : ℚ) / ((s.neg.length + s.easyNeg : ℕ) : ℚ) := by
    unfold fpQ; rw [hf1]
  have e2 : tpQ s (ts.getLast hw.ne) = 1 := by
    unfold tpQ; rw [hg1]; exact div_self hPq.ne'
  have e0 : fpQ s (ts.head hw.ne) = 0 := by unfold fpQ; rw [hf0]; simp
  have hh : ts.reverse.head hne' = ts.getLast hw.ne := List.head_reverse _
  have hl : ts.reverse.getLast hne' = ts.head hw.ne := List.getLast_reverse _
  have hclip : (fun t => clipQ lo hi (1 - fpQ s t)) =
      fun t => 1 - clipQ (1 - hi) (1 - lo) (fpQ s t) := by
    funext t; exact clipQ_mirror lo hi _ hlh
  rw [hh, hl, e0, e1, e2, hclip, trapF_reverse, trapF_sub_left,
    trapF_clip_sweep s hnt (1 - hi) (1 - lo) (by linarith) ts hw, sub_zero, overlap_self]
  have hov := overlap_mirror ((s.neg.length : ℚ) / ((s.neg.length + s.easyNeg : ℕ) : ℚ)) 1 lo hi
  rw [sub_self] at hov
  rw [hov]
  have : overlap ((s.neg.length : ℚ) / ((s.neg.length + s.easyNeg : ℕ) : ℚ)) 1 (1 - hi) (1 - lo) * 1 +
      - -stepAreaAux s (1 - hi) (1 - lo) (negsByRank s) 0 + 0 * tpQ s (ts.head hw.ne) =
      stepAreaAux s (1 - hi) (1 - lo) (negsByRank s) 0 +
        overlap ((s.neg.length : ℚ) / ((s.neg.length + s.easyNeg : ℕ) : ℚ)) 1 (1 - hi) (1 - lo) := by
    ring
  rw [this]
  apply absR_of_nonneg
  have := stepAreaAux_nonneg s (1 - hi) (1 - lo) (negsByRank s) 0
  have := overlap_nonneg ((s.neg.length : ℚ) / ((s.neg.length + s.easyNeg : ℕ) : ℚ)) 1 (1 - hi) (1 - lo)
  linarith

end SA
