/-
From the code-shaped `Scores.auc` to the oriented rate curves (helper lemmas for C07 part B):
rates by counting, `allSome`, the reversal test, and the window.
-/
import SA.Proofs.AucPoints
import SA.Theorems.C01

namespace SA

/-- everything `Scores.auc` does after the curves have been oriented -/
def aucWindow (x y : List ℚ) (lower upper : ℚ) : ℚ :=
  let left := bisect (fun v => decide (v < lower)) x
  let right := bisect (fun v => decide (v ≤ upper)) x
  let left := min left (y.length - 1)
  let right := max right 1
  let xs := [lower] ++ (x.drop left).take (right - left) ++ [upper]
  let ys := [y.getD left 0] ++ (y.drop left).take (right - left) ++ [y.getD (right - 1) 0]
  absR (trapezoid xs ys)

theorem allSome_map_some (f : ℚ → ℚ) (l : List ℚ) :
    allSome (l.map fun t => some (f t)) = some (l.map f) := by
  induction l with
  | nil => rfl
  | cons a l ih => simp only [List.map_cons, allSome, ih, Option.map_some]

theorem allSome_map_none (l : List ℚ) (hl : l ≠ []) :
    allSome (l.map fun _ => (none : Option ℚ)) = none := by
  cases l with
  | nil => exact absurd rfl hl
  | cons a l => rfl

theorem rate_fpr (s : Scores) (hp : s.pos.Pairwise (· ≤ ·)) (hn : s.neg.Pairwise (· ≤ ·)) (t : ℚ) :
    (s.cm (.fin t)).rate .fpr =
      if s.neg.length + s.easyNeg = 0 then none else some (fpQ s t) := by
  rw [cm_eq_countCM_of_sorted s hp hn]
  have h := List.length_eq_countP_add_countP (fun x => accept s.cfg x (.fin t)) (l := s.neg)
  have h2 : s.neg.countP (fun a => decide ¬accept s.cfg a (.fin t) = true) =
      s.neg.countP (fun x => !accept s.cfg x (.fin t)) := by
    congr 1; funext x; cases accept s.cfg x (.fin t) <;> simp
  have e : s.neg.countP (fun x => accept s.cfg x (.fin t)) +
      (s.neg.countP (fun x => !accept s.cfg x (.fin t)) + s.easyNeg) = s.neg.length + s.easyNeg := by
    omega
  simp only [CM.rate, CM.fpr, countCM, CM.n, ratio, e, fpQ, accCount]

theorem rate_tpr (s : Scores) (hp : s.pos.Pairwise (· ≤ ·)) (hn : s.neg.Pairwise (· ≤ ·)) (t : ℚ) :
    (s.cm (.fin t)).rate .tpr =
      if s.pos.length + s.easyPos = 0 then none else some (tpQ s t) := by
  rw [cm_eq_countCM_of_sorted s hp hn]
  have h := List.length_eq_countP_add_countP (fun x => accept s.cfg x (.fin t)) (l := s.pos)
  have h2 : s.pos.countP (fun a => decide ¬accept s.cfg a (.fin t) = true) =
      s.pos.countP (fun x => !accept s.cfg x (.fin t)) := by
    congr 1; funext x; cases accept s.cfg x (.fin t) <;> simp
  have e : s.pos.countP (fun x => accept s.cfg x (.fin t)) + s.easyPos +
      s.pos.countP (fun x => !accept s.cfg x (.fin t)) = s.pos.length + s.easyPos := by
    omega
  simp only [CM.rate, CM.tpr, countCM, CM.p, ratio, e, tpQ, accCount]

theorem getD_map_zero (f : ℚ → ℚ) (l : List ℚ) (hl : l ≠ []) :
    (l.map f).getD 0 0 = f (l.head hl) := by
  cases l with
  | nil => exact absurd rfl hl
  | cons a l => rfl

theorem getD_map_last (f : ℚ → ℚ) (l : List ℚ) (hl : l ≠ []) :
    (l.map f).getD ((l.map f).length - 1) 0 = f (l.getLast hl) := by
  have hlen : 0 < l.length := List.length_pos_iff.mpr hl
  rw [List.getLast_eq_getElem, List.length_map, List.getD_eq_getElem?_getD,
    List.getElem?_eq_getElem (by rw [List.length_map]; omega)]
  simp

theorem aucPoints_ne_nil (u : Ulp) (s : Scores) (h : s.pos ++ s.neg ≠ []) : aucPoints u s ≠ [] := by
  intro h0
  have := aucPoints_length u s
  rw [h0] at this
  have h2 : (s.pos ++ s.neg).length ≠ 0 := fun h0 => h (List.eq_nil_of_length_eq_zero h0)
  simp only [List.length_nil, List.length_append] at this h2
  omega

theorem auc_unfold (u : Ulp) (s : Scores) (lower upper : ℚ) (xm ym : Metric) :
    s.auc u lower upper xm ym =
      match allSome ((aucPoints u s).map fun t => (s.cm (.fin t)).rate xm),
            allSome ((aucPoints u s).map fun t => (s.cm (.fin t)).rate ym) with
      | some x, some y =>
        if x.length = 0 then none else
        some (aucWindow
          (if decide (x.getD (x.length - 1) 0 < x.getD 0 0) = true then x.reverse else x)
          (if decide (x.getD (x.length - 1) 0 < x.getD 0 0) = true then y.reverse else y)
          lower upper)
      | _, _ => none := rfl

theorem fpQ_nonneg (s : Scores) (t : ℚ) : 0 ≤ fpQ s t := by unfold fpQ; positivity

theorem fpQ_le_one (s : Scores) (t : ℚ) : fpQ s t ≤ 1 := by
  unfold fpQ
  by_cases h : s.neg.length + s.easyNeg = 0
  · rw [h]; simp
  · have hpos : (0 : ℚ) < ((s.neg.length + s.easyNeg : ℕ) : ℚ) := by
      exact_mod_cast Nat.pos_of_ne_zero h
    rw [div_le_one hpos]
    have : accCount s.cfg s.neg t ≤ s.neg.length := List.countP_le_length
    exact_mod_cast (by omega : accCount s.cfg s.neg t ≤ s.neg.length + s.easyNeg)

theorem fpQ_orient_head (u : Ulp) (hu : u.Lawful) (s : Scores)
    (hne : orientAuc s.cfg (aucPoints u s) ≠ []) :
    fpQ s ((orientAuc s.cfg (aucPoints u s)).head hne) = 0 := by
  unfold fpQ accCount
  rw [List.countP_eq_zero.mpr]
  · simp
  · intro x hx
    rw [accept_orient_head u hu s hne x (List.mem_append_right _ hx)]; simp

theorem fpQ_orient_last (u : Ulp) (hu : u.Lawful) (s : Scores)
    (hne : orientAuc s.cfg (aucPoints u s) ≠ []) :
    fpQ s ((orientAuc s.cfg (aucPoints u s)).getLast hne) =
      (s.neg.length : ℚ) / ((s.neg.length + s.easyNeg : ℕ) : ℚ) := by
  unfold fpQ accCount
  rw [List.countP_eq_length.mpr]
  intro x hx
  exact accept_orient_last u hu s hne x (List.mem_append_right _ hx)

theorem tpQ_orient_last (u : Ulp) (hu : u.Lawful) (s : Scores)
    (hne : orientAuc s.cfg (aucPoints u s) ≠ []) (hP : s.pos.length + s.easyPos ≠ 0) :
    tpQ s ((orientAuc s.cfg (aucPoints u s)).getLast hne) = 1 := by
  unfold tpQ accCount
  rw [List.countP_eq_length.mpr]
  · have hpos : (0 : ℚ) < ((s.pos.length + s.easyPos : ℕ) : ℚ) := by
      exact_mod_cast Nat.pos_of_ne_zero hP
    exact div_self hpos.ne'
  · intro x hx
    exact accept_orient_last u hu s hne x (List.mem_append_left _ hx)

/-- FPR at the smallest / largest evaluation point decides the reversal: the curves end up in
acceptance order -/
theorem auc_eq_window (u : Ulp) (hu : u.Lawful) (s : Scores) (hp : s.pos.Pairwise (· ≤ ·))
    (hn : s.neg.Pairwise (· ≤ ·)) (hneg : s.neg ≠ []) (lower upper : ℚ) :
    s.auc u lower upper .fpr .tpr =
      if s.pos.length + s.easyPos = 0 then none else
        some (aucWindow ((orientAuc s.cfg (aucPoints u s)).map (fpQ s))
          ((orientAuc s.cfg (aucPoints u s)).map (tpQ s)) lower upper) := by
  have hnl : 0 < s.neg.length := List.length_pos_iff.mpr hneg
  have hN : s.neg.length + s.easyNeg ≠ 0 := by omega
  have hsc : s.pos ++ s.neg ≠ [] := by simp [hneg]
  have hpts := aucPoints_ne_nil u s hsc
  have ex : ((aucPoints u s).map fun t => (s.cm (.fin t)).rate .fpr) =
      (aucPoints u s).map fun t => some (fpQ s t) :=
    List.map_congr_left (fun t _ => by rw [rate_fpr s hp hn, if_neg hN])
  rw [auc_unfold, ex, allSome_map_some]
  by_cases hP : s.pos.length + s.easyPos = 0
  · have ey : ((aucPoints u s).map fun t => (s.cm (.fin t)).rate .tpr) =
        (aucPoints u s).map fun _ => (none : Option ℚ) :=
      List.map_congr_left (fun t _ => by rw [rate_tpr s hp hn, if_pos hP])
    rw [ey, allSome_map_none _ hpts, if_pos hP]
  · have ey : ((aucPoints u s).map fun t => (s.cm (.fin t)).rate .tpr) =
        (aucPoints u s).map fun t => some (tpQ s t) :=
      List.map_congr_left (fun t _ => by rw [rate_tpr s hp hn, if_neg hP])
    rw [ey, allSome_map_some, if_neg hP]
    have hlen : ((aucPoints u s).map (fpQ s)).length ≠ 0 := by
      rw [List.length_map]; exact fun h => hpts (List.eq_nil_of_length_eq_zero h)
    simp only [hlen, if_false]
    rw [getD_map_zero _ _ hpts, getD_map_last _ _ hpts]
    have hne := orient_ne_nil s.cfg _ hpts
    have h0 := fpQ_orient_head u hu s hne
    have h1 := fpQ_orient_last u hu s hne
    have hNpos : (0 : ℚ) < ((s.neg.length + s.easyNeg : ℕ) : ℚ) := by
      exact_mod_cast Nat.pos_of_ne_zero hN
    have hfrac : (0 : ℚ) < (s.neg.length : ℚ) / ((s.neg.length + s.easyNeg : ℕ) : ℚ) :=
      div_pos (by exact_mod_cast hnl) hNpos
    cases hc : s.cfg.scoreClass with
    | neg =>
      have e0 : (orientAuc s.cfg (aucPoints u s)).head hne = (aucPoints u s).head hpts := by
        simp only [orientAuc, hc]
      rw [e0] at h0
      have hrev : decide (fpQ s ((aucPoints u s).getLast hpts) < fpQ s ((aucPoints u s).head hpts))
          = false := by
        rw [h0, decide_eq_false_iff_not, not_lt]; exact fpQ_nonneg s _
      simp only [hrev, Bool.false_eq_true, if_false, orientAuc, hc]
    | pos =>
      have e0 : (orientAuc s.cfg (aucPoints u s)).head hne = (aucPoints u s).getLast hpts := by
        simp only [orientAuc, hc, List.head_reverse]
      have e1 : (orientAuc s.cfg (aucPoints u s)).getLast hne = (aucPoints u s).head hpts := by
        simp only [orientAuc, hc, List.getLast_reverse]
      rw [e0] at h0
      rw [e1] at h1
      have hrev : decide (fpQ s ((aucPoints u s).getLast hpts) < fpQ s ((aucPoints u s).head hpts))
          = true := by
        rw [h0, h1, decide_eq_true_eq]; exact hfrac
      simp only [hrev, if_true, orientAuc, hc, List.map_reverse]

/-! ### other axes -/

theorem tpQ_nonneg (s : Scores) (t : ℚ) : 0 ≤ tpQ s t := by unfold tpQ; positivity

theorem tpQ_le_one (s : Scores) (t : ℚ) : tpQ s t ≤ 1 := by
  unfold tpQ
  by_cases h : s.pos.length + s.easyPos = 0
  · rw [h]; simp
  · have hpos : (0 : ℚ) < ((s.pos.length + s.easyPos : ℕ) : ℚ) := by
      exact_mod_cast Nat.pos_of_ne_zero h
    rw [div_le_one hpos]
    have : accCount s.cfg s.pos t ≤ s.pos.length := List.countP_le_length
    exact_mod_cast (by omega : accCount s.cfg s.pos t + s.easyPos ≤ s.pos.length + s.easyPos)

theorem rate_tnr (s : Scores) (hp : s.pos.Pairwise (· ≤ ·)) (hn : s.neg.Pairwise (· ≤ ·)) (t : ℚ)
    (hN : s.neg.length + s.easyNeg ≠ 0) :
    (s.cm (.fin t)).rate .tnr = some (1 - fpQ s t) := by
  rw [cm_eq_countCM_of_sorted s hp hn]
  have h := List.length_eq_countP_add_countP (fun x => accept s.cfg x (.fin t)) (l := s.neg)
  have h2 : s.neg.countP (fun a => decide ¬accept s.cfg a (.fin t) = true) =
      s.neg.countP (fun x => !accept s.cfg x (.fin t)) := by
    congr 1; funext x; cases accept s.cfg x (.fin t) <;> simp
  have e : s.neg.countP (fun x => accept s.cfg x (.fin t)) +
      (s.neg.countP (fun x => !accept s.cfg x (.fin t)) + s.easyNeg) = s.neg.length + s.easyNeg := by
    omega
  have hNq : ((s.neg.length + s.easyNeg : ℕ) : ℚ) ≠ 0 := by exact_mod_cast hN
  simp only [CM.rate, CM.tnr, countCM, CM.n, ratio, e, fpQ, accCount, hN, if_false, Option.some.injEq]
  rw [eq_sub_iff_add_eq, ← add_div, div_eq_one_iff_eq hNq]
  exact_mod_cast (by omega : s.neg.countP (fun x => !accept s.cfg x (.fin t)) + s.easyNeg +
    s.neg.countP (fun x => accept s.cfg x (.fin t)) = s.neg.length + s.easyNeg)

theorem rate_fnr (s : Scores) (hp : s.pos.Pairwise (· ≤ ·)) (hn : s.neg.Pairwise (· ≤ ·)) (t : ℚ)
    (hP : s.pos.length + s.easyPos ≠ 0) :
    (s.cm (.fin t)).rate .fnr = some (1 - tpQ s t) := by
  rw [cm_eq_countCM_of_sorted s hp hn]
  have h := List.length_eq_countP_add_countP (fun x => accept s.cfg x (.fin t)) (l := s.pos)
  have h2 : s.pos.countP (fun a => decide ¬accept s.cfg a (.fin t) = true) =
      s.pos.countP (fun x => !accept s.cfg x (.fin t)) := by
    congr 1; funext x; cases accept s.cfg x (.fin t) <;> simp
  have e : s.pos.countP (fun x => accept s.cfg x (.fin t)) + s.easyPos +
      s.pos.countP (fun x => !accept s.cfg x (.fin t)) = s.pos.length + s.easyPos := by
    omega
  have hPq : ((s.pos.length + s.easyPos : ℕ) : ℚ) ≠ 0 := by exact_mod_cast hP
  simp only [CM.rate, CM.fnr, countCM, CM.p, ratio, e, tpQ, accCount, hP, if_false, Option.some.injEq]
  rw [eq_sub_iff_add_eq, ← add_div, div_eq_one_iff_eq hPq]
  exact_mod_cast (by omega : s.pos.countP (fun x => !accept s.cfg x (.fin t)) +
    (s.pos.countP (fun x => accept s.cfg x (.fin t)) + s.easyPos) = s.pos.length + s.easyPos)

/-- `Scores.auc` for any pair of axes whose rates are given by total functions -/
theorem auc_of_rates (u : Ulp) (s : Scores) (lower upper : ℚ) (xm ym : Metric) (fx gy : ℚ → ℚ)
    (hx : ∀ t, (s.cm (.fin t)).rate xm = some (fx t))
    (hy : ∀ t, (s.cm (.fin t)).rate ym = some (gy t)) (hpts : aucPoints u s ≠ []) :
    s.auc u lower upper xm ym =
      some (aucWindow
        ((if fx ((aucPoints u s).getLast hpts) < fx ((aucPoints u s).head hpts)
          then (aucPoints u s).reverse else aucPoints u s).map fx)
        ((if fx ((aucPoints u s).getLast hpts) < fx ((aucPoints u s).head hpts)
          then (aucPoints u s).reverse else aucPoints u s).map gy) lower upper) := by
  have ex : ((aucPoints u s).map fun t => (s.cm (.fin t)).rate xm) =
      (aucPoints u s).map fun t => some (fx t) := List.map_congr_left (fun t _ => hx t)
  have ey : ((aucPoints u s).map fun t => (s.cm (.fin t)).rate ym) =
      (aucPoints u s).map fun t => some (gy t) := List.map_congr_left (fun t _ => hy t)
  rw [auc_unfold, ex, ey, allSome_map_some, allSome_map_some]
  have hlen : ((aucPoints u s).map fx).length ≠ 0 := by
    rw [List.length_map]; exact fun h => hpts (List.eq_nil_of_length_eq_zero h)
  simp only [hlen, if_false]
  rw [getD_map_zero _ _ hpts, getD_map_last _ _ hpts]
  by_cases hr : fx ((aucPoints u s).getLast hpts) < fx ((aucPoints u s).head hpts)
  · simp only [hr, decide_true, if_true, List.map_reverse]
  · simp only [hr, decide_false, Bool.false_eq_true, if_false]

/-- the reversal test puts the curves in acceptance order when `fx` grows along it -/
theorem orient_choice (cfg : Cfg) (pts : List ℚ) (hpts : pts ≠ []) (fx : ℚ → ℚ)
    (hne : orientAuc cfg pts ≠ [])
    (h : fx ((orientAuc cfg pts).head hne) < fx ((orientAuc cfg pts).getLast hne)) :
    (if fx (pts.getLast hpts) < fx (pts.head hpts) then pts.reverse else pts) = orientAuc cfg pts := by
  cases hc : cfg.scoreClass with
  | neg =>
    have e0 : (orientAuc cfg pts).head hne = pts.head hpts := by simp only [orientAuc, hc]
    have e1 : (orientAuc cfg pts).getLast hne = pts.getLast hpts := by simp only [orientAuc, hc]
    rw [e0, e1] at h
    rw [if_neg (not_lt.mpr (le_of_lt h))]
    simp only [orientAuc, hc]
  | pos =>
    have e0 : (orientAuc cfg pts).head hne = pts.getLast hpts := by
      simp only [orientAuc, hc, List.head_reverse]
    have e1 : (orientAuc cfg pts).getLast hne = pts.head hpts := by
      simp only [orientAuc, hc, List.getLast_reverse]
    rw [e0, e1] at h
    rw [if_pos h]
    simp only [orientAuc, hc]

/-- ... and in reverse acceptance order when `fx` falls along it -/
theorem orient_choice_rev (cfg : Cfg) (pts : List ℚ) (hpts : pts ≠ []) (fx : ℚ → ℚ)
    (hne : orientAuc cfg pts ≠ [])
    (h : fx ((orientAuc cfg pts).getLast hne) < fx ((orientAuc cfg pts).head hne)) :
    (if fx (pts.getLast hpts) < fx (pts.head hpts) then pts.reverse else pts) =
      (orientAuc cfg pts).reverse := by
  cases hc : cfg.scoreClass with
  | neg =>
    have e0 : (orientAuc cfg pts).head hne = pts.head hpts := by simp only [orientAuc, hc]
    have e1 : (orientAuc cfg pts).getLast hne = pts.getLast hpts := by simp only [orientAuc, hc]
    rw [e0, e1] at h
    rw [if_pos h]
    simp only [orientAuc, hc]
  | pos =>
    have e0 : (orientAuc cfg pts).head hne = pts.getLast hpts := by
      simp only [orientAuc, hc, List.head_reverse]
    have e1 : (orientAuc cfg pts).getLast hne = pts.head hpts := by
      simp only [orientAuc, hc, List.getLast_reverse]
    rw [e0, e1] at h
    rw [if_neg (not_lt.mpr (le_of_lt h))]
    simp only [orientAuc, hc, List.reverse_reverse]

end SA
