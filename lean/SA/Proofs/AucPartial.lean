/-
Partial AUC, part 2: the window step of `Scores.auc` on a monotone curve whose segments are
horizontal or vertical equals the clipped trapezoid sum plus the flat tail up to FPR = 1
(helper lemmas for C07 B3).
-/
import SA.Proofs.AucStep
import SA.Proofs.AucWindow

namespace SA

/-- wherever `f` moves between consecutive points `g` does not -/
def HorizStep (f g : ℚ → ℚ) : List ℚ → Prop
  | t0 :: t1 :: rest => (f t0 < f t1 → g t0 = g t1) ∧ HorizStep f g (t1 :: rest)
  | _ => True

theorem horizStep_at (f g : ℚ → ℚ) (pre : List ℚ) (t0 t1 : ℚ) (rest : List ℚ)
    (h : HorizStep f g (pre ++ t0 :: t1 :: rest)) (hlt : f t0 < f t1) : g t0 = g t1 := by
  induction pre with
  | nil => exact h.1 hlt
  | cons a pre ih =>
    cases pre with
    | nil => exact ih h.2
    | cons b pre => exact ih h.2

/-- split a monotone list of points into those below, inside and above the window -/
theorem mono_decomp (f : ℚ → ℚ) (lo hi : ℚ) (ts : List ℚ)
    (hs : ts.Pairwise (fun t t' => f t ≤ f t')) :
    ∃ A B C, ts = A ++ B ++ C ∧ (∀ t ∈ A, f t < lo) ∧ (∀ t ∈ B, lo ≤ f t ∧ f t ≤ hi) ∧
      (∀ t ∈ C, hi < f t) := by
  induction ts with
  | nil => exact ⟨[], [], [], rfl, by simp, by simp, by simp⟩
  | cons t rest ih =>
    rw [List.pairwise_cons] at hs
    obtain ⟨A, B, C, rfl, hA, hB, hC⟩ := ih hs.2
    by_cases h1 : f t < lo
    · refine ⟨t :: A, B, C, by simp, ?_, hB, hC⟩
      intro x hx
      rcases List.mem_cons.mp hx with h | h
      · rw [h]; exact h1
      · exact hA x h
    · rw [not_lt] at h1
      have hAnil : A = [] := by
        rw [List.eq_nil_iff_forall_not_mem]
        intro a ha
        have := hs.1 a (by simp [ha])
        have := hA a ha
        linarith
      subst hAnil
      by_cases h2 : f t ≤ hi
      · refine ⟨[], t :: B, C, by simp, by simp, ?_, hC⟩
        intro x hx
        rcases List.mem_cons.mp hx with h | h
        · rw [h]; exact ⟨h1, h2⟩
        · exact hB x h
      · rw [not_le] at h2
        have hBnil : B = [] := by
          rw [List.eq_nil_iff_forall_not_mem]
          intro b hb
          have := hs.1 b (by simp [hb])
          have := (hB b hb).2
          linarith
        subst hBnil
        refine ⟨[], [], t :: C, by simp, by simp, by simp, ?_⟩
        intro x hx
        rcases List.mem_cons.mp hx with h | h
        · rw [h]; exact h2
        · exact hC x h

theorem bisect_lo_decomp (f : ℚ → ℚ) (lo hi : ℚ) (A B C : List ℚ)
    (hs : (A ++ B ++ C).Pairwise (fun t t' => f t ≤ f t'))
    (hA : ∀ t ∈ A, f t < lo) (hB : ∀ t ∈ B, lo ≤ f t ∧ f t ≤ hi) (hC : ∀ t ∈ C, hi < f t)
    (hlh : lo ≤ hi) :
    bisect (fun v => decide (v < lo)) ((A ++ B ++ C).map f) = A.length := by
  rw [bisect_eq_countP _ _ (List.pairwise_map.mpr hs)
    (by intro a b hab hb; simp only [decide_eq_true_eq] at *; exact lt_of_le_of_lt hab hb)]
  rw [List.countP_map, List.countP_append, List.countP_append]
  have e1 : A.countP ((fun v => decide (v < lo)) ∘ f) = A.length := by
    rw [List.countP_eq_length]; intro t ht; simpa using hA t ht
  have e2 : B.countP ((fun v => decide (v < lo)) ∘ f) = 0 := by
    rw [List.countP_eq_zero]; intro t ht; simpa using (hB t ht).1
  have e3 : C.countP ((fun v => decide (v < lo)) ∘ f) = 0 := by
    rw [List.countP_eq_zero]; intro t ht; have := hC t ht; simp; linarith
  rw [e1, e2, e3]; omega

theorem bisect_hi_decomp (f : ℚ → ℚ) (lo hi : ℚ) (A B C : List ℚ)
    (hs : (A ++ B ++ C).Pairwise (fun t t' => f t ≤ f t'))
    (hA : ∀ t ∈ A, f t < lo) (hB : ∀ t ∈ B, lo ≤ f t ∧ f t ≤ hi) (hC : ∀ t ∈ C, hi < f t)
    (hlh : lo ≤ hi) :
    bisect (fun v => decide (v ≤ hi)) ((A ++ B ++ C).map f) = A.length + B.length := by
  rw [bisect_eq_countP _ _ (List.pairwise_map.mpr hs)
    (by intro a b hab hb; simp only [decide_eq_true_eq] at *; exact le_trans hab hb)]
  rw [List.countP_map, List.countP_append, List.countP_append]
  have e1 : A.countP ((fun v => decide (v ≤ hi)) ∘ f) = A.length := by
    rw [List.countP_eq_length]; intro t ht; have := hA t ht; simp; linarith
  have e2 : B.countP ((fun v => decide (v ≤ hi)) ∘ f) = B.length := by
    rw [List.countP_eq_length]; intro t ht; simpa using (hB t ht).2
  have e3 : C.countP ((fun v => decide (v ≤ hi)) ∘ f) = 0 := by
    rw [List.countP_eq_zero]; intro t ht; simpa using hC t ht
  rw [e1, e2, e3]; omega

/-! ### index bookkeeping for the three shapes of the window -/

theorem getD_append_lt (l l' : List ℚ) (n : ℕ) (h : n < l.length) :
    (l ++ l').getD n 0 = l.getD n 0 := by
  rw [List.getD_eq_getElem?_getD, List.getD_eq_getElem?_getD, List.getElem?_append_left h]

theorem getD_append_length (l : List ℚ) (a : ℚ) (l' : List ℚ) :
    (l ++ a :: l').getD l.length 0 = a := by
  rw [List.getD_eq_getElem?_getD, List.getElem?_append_right (le_refl _)]
  simp

theorem drop_take_mid (f : ℚ → ℚ) (A B C : List ℚ) :
    (((A ++ B ++ C).map f).drop A.length).take (A.length + B.length - A.length) = B.map f := by
  rw [Nat.add_sub_cancel_left, List.map_append, List.map_append, List.append_assoc,
    List.drop_left' (by simp), List.take_left' (by simp)]

theorem getD_mid_head (g : ℚ → ℚ) (A : List ℚ) (b0 : ℚ) (B' C : List ℚ) :
    ((A ++ (b0 :: B') ++ C).map g).getD A.length 0 = g b0 := by
  have := getD_append_length (A.map g) (g b0) ((B' ++ C).map g)
  rw [List.length_map] at this
  rw [← this]
  congr 1
  simp

theorem getD_mid_last (g : ℚ → ℚ) (A B C : List ℚ) (hB : B ≠ []) :
    ((A ++ B ++ C).map g).getD (A.length + B.length - 1) 0 = g (B.getLast hB) := by
  have hlen : 0 < B.length := List.length_pos_iff.mpr hB
  have hAB : A ++ B ≠ [] := by simp [hB]
  rw [List.map_append, getD_append_lt _ _ _ (by simp; omega)]
  have := getD_map_last g (A ++ B) hAB
  rw [List.length_map, List.length_append] at this
  rw [this, List.getLast_append_of_ne_nil hAB hB]

/-- (i) some points lie inside the window -/
theorem aucWindow_mid (f g : ℚ → ℚ) (lo hi : ℚ) (A : List ℚ) (b0 : ℚ) (B' C : List ℚ)
    (hL : bisect (fun v => decide (v < lo)) ((A ++ (b0 :: B') ++ C).map f) = A.length)
    (hR : bisect (fun v => decide (v ≤ hi)) ((A ++ (b0 :: B') ++ C).map f) =
      A.length + (b0 :: B').length) :
    aucWindow ((A ++ (b0 :: B') ++ C).map f) ((A ++ (b0 :: B') ++ C).map g) lo hi =
      absR (trapezoid ([lo] ++ (b0 :: B').map f ++ [hi])
        ([g b0] ++ (b0 :: B').map g ++ [g ((b0 :: B').getLast (by simp))])) := by
  unfold aucWindow
  simp only [hL, hR]
  have e1 : min A.length (((A ++ (b0 :: B') ++ C).map g).length - 1) = A.length := by
    simp only [List.length_map, List.length_append, List.length_cons]; omega
  have e2 : max (A.length + (b0 :: B').length) 1 = A.length + (b0 :: B').length := by
    simp only [List.length_cons]; omega
  rw [e1, e2, drop_take_mid f A (b0 :: B') C, drop_take_mid g A (b0 :: B') C,
    getD_mid_head g A b0 B' C, getD_mid_last g A (b0 :: B') C (by simp)]

/-- (ii) the window falls strictly between two consecutive points -/
theorem aucWindow_gap (f g : ℚ → ℚ) (lo hi : ℚ) (A : List ℚ) (hA : A ≠ []) (c0 : ℚ) (C' : List ℚ)
    (hL : bisect (fun v => decide (v < lo)) ((A ++ [] ++ (c0 :: C')).map f) = A.length)
    (hR : bisect (fun v => decide (v ≤ hi)) ((A ++ [] ++ (c0 :: C')).map f) =
      A.length + ([] : List ℚ).length) :
    aucWindow ((A ++ [] ++ (c0 :: C')).map f) ((A ++ [] ++ (c0 :: C')).map g) lo hi =
      absR (trapezoid [lo, hi] [g c0, g (A.getLast hA)]) := by
  have hlen : 0 < A.length := List.length_pos_iff.mpr hA
  unfold aucWindow
  simp only [hL, hR]
  have e1 : min A.length (((A ++ [] ++ (c0 :: C')).map g).length - 1) = A.length := by
    simp only [List.length_map, List.length_append, List.length_cons, List.length_nil]; omega
  have e2 : max (A.length + ([] : List ℚ).length) 1 = A.length := by
    simp only [List.length_nil]; omega
  rw [e1, e2, Nat.sub_self, List.take_zero, List.take_zero]
  have e3 : ((A ++ [] ++ (c0 :: C')).map g).getD A.length 0 = g c0 := by
    have := getD_append_length (A.map g) (g c0) (C'.map g)
    rw [List.length_map] at this
    rw [← this]; congr 1; simp
  have e4 : ((A ++ [] ++ (c0 :: C')).map g).getD (A.length - 1) 0 = g (A.getLast hA) := by
    have := getD_mid_last g [] A (c0 :: C') hA
    simp only [List.nil_append, List.length_nil, Nat.zero_add] at this
    rw [← this]; congr 2; simp
  rw [e3, e4]
  rfl

/-- (iii) the window lies beyond the last point -/
theorem aucWindow_beyond (f g : ℚ → ℚ) (lo hi : ℚ) (A : List ℚ) (hA : A ≠ [])
    (hL : bisect (fun v => decide (v < lo)) ((A ++ [] ++ []).map f) = A.length)
    (hR : bisect (fun v => decide (v ≤ hi)) ((A ++ [] ++ []).map f) =
      A.length + ([] : List ℚ).length) :
    aucWindow ((A ++ [] ++ []).map f) ((A ++ [] ++ []).map g) lo hi =
      absR (trapezoid [lo, f (A.getLast hA), hi]
        [g (A.getLast hA), g (A.getLast hA), g (A.getLast hA)]) := by
  have hlen : 0 < A.length := List.length_pos_iff.mpr hA
  unfold aucWindow
  simp only [hL, hR]
  have e1 : min A.length (((A ++ [] ++ []).map g).length - 1) = A.length - 1 := by
    simp only [List.length_map, List.length_append, List.length_nil]; omega
  have e2 : max (A.length + ([] : List ℚ).length) 1 = A.length := by
    simp only [List.length_nil]; omega
  rw [e1, e2]
  have e0 : A.length - (A.length - 1) = 1 := by omega
  obtain ⟨A', al, rfl⟩ : ∃ A' al, A = A' ++ [al] :=
    ⟨A.dropLast, A.getLast hA, (List.dropLast_append_getLast hA).symm⟩
  have hl : (A' ++ [al]).length - 1 = A'.length := by simp
  have hgl : (A' ++ [al]).getLast hA = al := by simp
  rw [e0, hl, hgl]
  have e3 : ((A' ++ [al] ++ [] ++ []).map f).drop A'.length = [f al] := by
    simp only [List.append_nil, List.map_append, List.map_cons, List.map_nil]
    rw [List.drop_left' (by simp)]
  have e4 : ((A' ++ [al] ++ [] ++ []).map g).drop A'.length = [g al] := by
    simp only [List.append_nil, List.map_append, List.map_cons, List.map_nil]
    rw [List.drop_left' (by simp)]
  have e5 : ((A' ++ [al] ++ [] ++ []).map g).getD A'.length 0 = g al := by
    have := getD_append_length (A'.map g) (g al) []
    rw [List.length_map] at this
    rw [← this]; congr 1; simp
  rw [e3, e4, e5]
  rfl

/-! ### the clipped sum, piece by piece -/

theorem trapF_clip_below (f g : ℚ → ℚ) (lo hi : ℚ) (hlh : lo ≤ hi) (A : List ℚ)
    (hA : ∀ t ∈ A, f t < lo) : trapF (fun t => clipQ lo hi (f t)) g A = 0 := by
  rw [trapF_congr _ (fun _ => lo) g g A
    (fun t ht => clipQ_of_le lo hi _ hlh (le_of_lt (hA t ht))) (fun _ _ => rfl), trapF_const_left]

theorem trapF_clip_above (f g : ℚ → ℚ) (lo hi : ℚ) (hlh : lo ≤ hi) (C : List ℚ)
    (hC : ∀ t ∈ C, hi < f t) : trapF (fun t => clipQ lo hi (f t)) g C = 0 := by
  rw [trapF_congr _ (fun _ => hi) g g C
    (fun t ht => clipQ_of_ge lo hi _ hlh (le_of_lt (hC t ht))) (fun _ _ => rfl), trapF_const_left]

theorem trapF_clip_inside (f g : ℚ → ℚ) (lo hi : ℚ) (B : List ℚ)
    (hB : ∀ t ∈ B, lo ≤ f t ∧ f t ≤ hi) : trapF (fun t => clipQ lo hi (f t)) g B = trapF f g B :=
  trapF_congr _ f g g B (fun t ht => clipQ_of_mem lo hi _ (hB t ht).1 (hB t ht).2) (fun _ _ => rfl)

/-- entering the window -/
theorem trapF_clip_enter (f g : ℚ → ℚ) (lo hi : ℚ) (hlh : lo ≤ hi) (A : List ℚ) (b0 : ℚ)
    (hA : ∀ t ∈ A, f t < lo) (hb : lo ≤ f b0 ∧ f b0 ≤ hi) (hstart : A = [] → f b0 = lo)
    (hhor : ∀ A' al, A = A' ++ [al] → g al = g b0) :
    trapF (fun t => clipQ lo hi (f t)) g (A ++ [b0]) = (f b0 - lo) * g b0 := by
  rcases List.eq_nil_or_concat A with h | ⟨A', al, h⟩
  · subst h
    rw [List.nil_append, trapF_single, hstart rfl]; ring
  · rw [List.concat_eq_append] at h
    subst h
    have hal : f al < lo := hA al (by simp)
    rw [List.append_assoc, List.singleton_append, trapF_append, trapF_clip_below f g lo hi hlh _ hA,
      trapF_cons_cons, trapF_single, clipQ_of_le lo hi _ hlh (le_of_lt hal),
      clipQ_of_mem lo hi _ hb.1 hb.2, hhor A' al rfl]
    ring

/-- leaving the window -/
theorem trapF_clip_leave (f g : ℚ → ℚ) (lo hi : ℚ) (hlh : lo ≤ hi) (bl c0 : ℚ) (C' : List ℚ)
    (hC : ∀ t ∈ c0 :: C', hi < f t) (hb : lo ≤ f bl ∧ f bl ≤ hi) (hhor : g bl = g c0) :
    trapF (fun t => clipQ lo hi (f t)) g (bl :: c0 :: C') = (hi - f bl) * g bl := by
  rw [trapF_cons_cons, trapF_clip_above f g lo hi hlh _ hC, clipQ_of_mem lo hi _ hb.1 hb.2,
    clipQ_of_ge lo hi _ hlh (le_of_lt (hC c0 (by simp))), hhor]
  ring

/-- jumping over the window -/
theorem trapF_clip_jump (f g : ℚ → ℚ) (lo hi : ℚ) (hlh : lo ≤ hi) (A' : List ℚ) (al c0 : ℚ)
    (C' : List ℚ) (hA : ∀ t ∈ A' ++ [al], f t < lo) (hC : ∀ t ∈ c0 :: C', hi < f t) :
    trapF (fun t => clipQ lo hi (f t)) g (A' ++ al :: c0 :: C') = (hi - lo) * (g al + g c0) / 2 := by
  rw [trapF_append, trapF_clip_below f g lo hi hlh _ hA, trapF_cons_cons,
    trapF_clip_above f g lo hi hlh _ hC, clipQ_of_le lo hi _ hlh (le_of_lt (hA al (by simp))),
    clipQ_of_ge lo hi _ hlh (le_of_lt (hC c0 (by simp)))]
  ring

theorem trapF_split3 (F g : ℚ → ℚ) (A : List ℚ) (b0 : ℚ) (B' C : List ℚ) :
    trapF F g (A ++ (b0 :: B') ++ C) =
      trapF F g (A ++ [b0]) + trapF F g (b0 :: B') +
        trapF F g ((b0 :: B').getLast (by simp) :: C) := by
  obtain ⟨D, bl, hD⟩ : ∃ D bl, b0 :: B' = D ++ [bl] :=
    ⟨(b0 :: B').dropLast, (b0 :: B').getLast (by simp),
      (List.dropLast_append_getLast (by simp)).symm⟩
  have hgl : (b0 :: B').getLast (by simp) = bl := by simp [hD]
  rw [hgl]
  have e1 : A ++ (b0 :: B') ++ C = A ++ b0 :: (B' ++ C) := by simp
  rw [e1, trapF_append F g A b0 (B' ++ C)]
  have e2 : b0 :: (B' ++ C) = D ++ bl :: C := by
    have : b0 :: (B' ++ C) = (b0 :: B') ++ C := rfl
    rw [this, hD]; simp
  rw [e2, trapF_append F g D bl C, ← hD]
  ring

theorem overlap_tail_inside (a lo hi : ℚ) (h1 : lo ≤ a) (h2 : a ≤ hi) (h3 : hi ≤ 1) :
    overlap a 1 lo hi = hi - a := by
  unfold overlap
  simp only [max_def, min_def]
  split_ifs <;> linarith

theorem overlap_tail_above (a lo hi : ℚ) (h2 : hi < a) :
    overlap a 1 lo hi = 0 := by
  unfold overlap
  simp only [max_def, min_def]
  split_ifs <;> linarith

theorem overlap_tail_below (a lo hi : ℚ) (h1 : a < lo) (h2 : lo ≤ hi) (h3 : hi ≤ 1) :
    overlap a 1 lo hi = hi - lo := by
  unfold overlap
  simp only [max_def, min_def]
  split_ifs <;> linarith

/-- **window = clipped sum + flat tail**, for a monotone curve starting at `f = 0` whose
segments are horizontal or vertical -/
theorem window_eq_clip (f g : ℚ → ℚ) (lo hi : ℚ) (h0 : 0 ≤ lo) (hlh : lo ≤ hi) (h1 : hi ≤ 1)
    (ts : List ℚ) (hne : ts ≠ []) (hs : ts.Pairwise (fun t t' => f t ≤ f t'))
    (hh : HorizStep f g ts) (hzero : ∃ t ∈ ts, f t = 0) :
    aucWindow (ts.map f) (ts.map g) lo hi =
      absR (trapF (fun t => clipQ lo hi (f t)) g ts +
        overlap (f (ts.getLast hne)) 1 lo hi * g (ts.getLast hne)) := by
  obtain ⟨A, B, C, rfl, hA, hB, hC⟩ := mono_decomp f lo hi ts hs
  have hL := bisect_lo_decomp f lo hi A B C hs hA hB hC hlh
  have hR := bisect_hi_decomp f lo hi A B C hs hA hB hC hlh
  obtain ⟨tz, htz, hfz⟩ := hzero
  cases B with
  | cons b0 B' =>
    have hb0 := hB b0 (by simp)
    have hstart : A = [] → f b0 = lo := by
      intro hAn
      subst hAn
      have hle : f b0 ≤ f tz := by
        simp only [List.nil_append, List.cons_append, List.mem_cons] at htz
        rcases htz with h | h
        · rw [h]
        · simp only [List.nil_append, List.cons_append, List.pairwise_cons] at hs
          exact hs.1 tz h
      linarith [hb0.1]
    have hhor : ∀ A' al, A = A' ++ [al] → g al = g b0 := by
      intro A' al hAe
      subst hAe
      have e : A' ++ [al] ++ (b0 :: B') ++ C = A' ++ al :: b0 :: (B' ++ C) := by simp
      rw [e] at hh
      exact horizStep_at f g A' al b0 (B' ++ C) hh
        (lt_of_lt_of_le (hA al (by simp)) hb0.1)
    have hbl := hB ((b0 :: B').getLast (by simp)) (List.getLast_mem _)
    rw [aucWindow_mid f g lo hi A b0 B' C hL hR, trapezoid_both, trapF_split3,
      trapF_clip_enter f g lo hi hlh A b0 hA hb0 hstart hhor, trapF_clip_inside f g lo hi _ hB]
    cases C with
    | nil =>
      have hgl : (A ++ (b0 :: B') ++ []).getLast hne = (b0 :: B').getLast (by simp) := by
        simp only [List.append_nil]
        exact List.getLast_append_of_ne_nil _ (by simp)
      rw [hgl, overlap_tail_inside _ lo hi hbl.1 hbl.2 h1, trapF_single]
      congr 1; ring
    | cons c0 C' =>
      have hgl : (A ++ (b0 :: B') ++ (c0 :: C')).getLast hne = (c0 :: C').getLast (by simp) :=
        List.getLast_append_of_ne_nil _ (by simp)
      have hlast := hC ((c0 :: C').getLast (by simp)) (List.getLast_mem _)
      obtain ⟨D, bl, hD⟩ : ∃ D bl, b0 :: B' = D ++ [bl] :=
        ⟨(b0 :: B').dropLast, (b0 :: B').getLast (by simp),
          (List.dropLast_append_getLast (by simp)).symm⟩
      have hblD : (b0 :: B').getLast (by simp) = bl := by simp [hD]
      have hhor2 : g ((b0 :: B').getLast (by simp)) = g c0 := by
        rw [hblD]
        have e : A ++ (b0 :: B') ++ (c0 :: C') = (A ++ D) ++ bl :: c0 :: C' := by
          rw [hD]; simp
        rw [e] at hh
        apply horizStep_at f g (A ++ D) bl c0 C' hh
        rw [← hblD]
        exact lt_of_le_of_lt hbl.2 (hC c0 (by simp))
      rw [hgl, overlap_tail_above _ lo hi hlast,
        trapF_clip_leave f g lo hi hlh _ c0 C' hC hbl hhor2]
      congr 1; ring
  | nil =>
    cases C with
    | cons c0 C' =>
      have hAne : A ≠ [] := by
        intro hAn
        subst hAn
        have : hi < f tz := hC tz (by simpa using htz)
        linarith
      obtain ⟨A', al, hAe⟩ : ∃ A' al, A = A' ++ [al] :=
        ⟨A.dropLast, A.getLast hAne, (List.dropLast_append_getLast hAne).symm⟩
      have hal : A.getLast hAne = al := by simp [hAe]
      have hgl : (A ++ [] ++ (c0 :: C')).getLast hne = (c0 :: C').getLast (by simp) :=
        List.getLast_append_of_ne_nil _ (by simp)
      have hlast := hC ((c0 :: C').getLast (by simp)) (List.getLast_mem _)
      rw [aucWindow_gap f g lo hi A hAne c0 C' hL hR, hgl, overlap_tail_above _ lo hi hlast, hal]
      have e : A ++ [] ++ (c0 :: C') = A' ++ al :: c0 :: C' := by rw [hAe]; simp
      rw [e, trapF_clip_jump f g lo hi hlh A' al c0 C' (by rw [← hAe]; exact hA) hC]
      congr 1
      simp only [trapezoid]
      ring
    | nil =>
      have hAne : A ≠ [] := by simpa using hne
      have hgl : (A ++ [] ++ []).getLast hne = A.getLast hAne := by
        simp only [List.append_nil]
      have hal := hA (A.getLast hAne) (List.getLast_mem _)
      rw [aucWindow_beyond f g lo hi A hAne hL hR, hgl, overlap_tail_below _ lo hi hal hlh h1]
      have e : A ++ [] ++ [] = A := by simp
      rw [e, trapF_clip_below f g lo hi hlh A hA]
      congr 1
      simp only [trapezoid]
      ring

/-! ### the sweep of a tie-free data set is such a curve -/

theorem sweep_tpQ_eq (s : Scores) (hnt : noCrossTies s = true) (pre : List ℚ) (t0 t1 : ℚ)
    (rest : List ℚ) (hw : Sweep s (pre ++ t0 :: t1 :: rest))
    (hlt : accCount s.cfg s.neg t0 < accCount s.cfg s.neg t1) : tpQ s t0 = tpQ s t1 := by
  have h1R : accCount s.cfg s.neg t1 ≤ (negsByRank s).length := by
    rw [negsByRank_length]; exact List.countP_le_length
  have hlen : (((negsByRank s).drop (accCount s.cfg s.neg t0)).take
      (accCount s.cfg s.neg t1 - accCount s.cfg s.neg t0)).length =
      accCount s.cfg s.neg t1 - accCount s.cfg s.neg t0 := by
    rw [List.length_take, List.length_drop]; omega
  have hne : ((negsByRank s).drop (accCount s.cfg s.neg t0)).take
      (accCount s.cfg s.neg t1 - accCount s.cfg s.neg t0) ≠ [] := by
    intro h0; rw [h0] at hlen; simp at hlen; omega
  obtain ⟨q, hq⟩ := List.exists_mem_of_ne_nil _ hne
  obtain ⟨hqn, hq0, hq1⟩ := slice_spec s t0 t1 q hq
  have e : accCount s.cfg s.pos t0 = accCount s.cfg s.pos t1 := by
    unfold accCount
    exact List.countP_congr (fun p hp => by
      rw [(sweep_level s hnt pre t0 t1 rest hw q hqn hq0 hq1 p hp).1,
        (sweep_level s hnt pre t0 t1 rest hw q hqn hq0 hq1 p hp).2])
  unfold tpQ; rw [e]

theorem fpQ_lt_imp (s : Scores) (t0 t1 : ℚ) (h : fpQ s t0 < fpQ s t1) :
    accCount s.cfg s.neg t0 < accCount s.cfg s.neg t1 := by
  by_contra hc
  rw [not_lt] at hc
  have : fpQ s t1 ≤ fpQ s t0 := by
    unfold fpQ
    apply div_le_div_of_nonneg_right _ (by positivity)
    exact_mod_cast hc
  linarith

theorem sweep_horiz_tail (s : Scores) (hnt : noCrossTies s = true) (ts : List ℚ) :
    ∀ pre, Sweep s (pre ++ ts) → HorizStep (fpQ s) (tpQ s) ts := by
  induction ts using trapF_induction with
  | h0 => intro _ _; trivial
  | h1 t => intro _ _; trivial
  | h2 t0 t1 rest ih =>
    intro pre hw
    refine ⟨fun hlt => sweep_tpQ_eq s hnt pre t0 t1 rest hw (fpQ_lt_imp s t0 t1 hlt), ?_⟩
    apply ih (pre ++ [t0])
    rw [List.append_assoc]; exact hw

theorem sweep_fpQ_mono (s : Scores) (ts : List ℚ) (hw : Sweep s ts) :
    ts.Pairwise (fun t t' => fpQ s t ≤ fpQ s t') := by
  apply hw.mono.imp
  intro a b hab
  unfold fpQ
  apply div_le_div_of_nonneg_right _ (by positivity)
  exact_mod_cast accCount_mono s.cfg s.neg a b hab

/-- the window over `[lo, hi] ⊆ [0, 1]` along the sweep of a tie-free data set is the step area -/
theorem aucWindow_sweep (s : Scores) (hnt : noCrossTies s = true) (ts : List ℚ) (hw : Sweep s ts)
    (hP : s.pos.length + s.easyPos ≠ 0) (lo hi : ℚ) (h0 : 0 ≤ lo) (hlh : lo ≤ hi) (h1 : hi ≤ 1) :
    aucWindow (ts.map (fpQ s)) (ts.map (tpQ s)) lo hi =
      stepAreaAux s lo hi (negsByRank s) 0 +
        overlap ((s.neg.length : ℚ) / ((s.neg.length + s.easyNeg : ℕ) : ℚ)) 1 lo hi := by
  have hPq : (0 : ℚ) < ((s.pos.length + s.easyPos : ℕ) : ℚ) := by
    exact_mod_cast Nat.pos_of_ne_zero hP
  have hf0 := accCount_first s ts hw s.neg (fun x hx => List.mem_append_right _ hx)
  have hf1 := accCount_last s ts hw s.neg (fun x hx => List.mem_append_right _ hx)
  have hg1 := accCount_last s ts hw s.pos (fun x hx => List.mem_append_left _ hx)
  have hzero : ∃ t ∈ ts, fpQ s t = 0 :=
    ⟨ts.head hw.ne, List.head_mem _, by unfold fpQ; rw [hf0]; simp⟩
  rw [window_eq_clip (fpQ s) (tpQ s) lo hi h0 hlh h1 ts hw.ne (sweep_fpQ_mono s ts hw)
    (sweep_horiz_tail s hnt ts [] hw) hzero, trapF_clip_sweep s hnt lo hi hlh ts hw]
  have e1 : fpQ s (ts.getLast hw.ne) = (s.neg.length : ℚ) / ((s.neg.length + s.easyNeg : ℕ) : ℚ) := by
    unfold fpQ; rw [hf1]
  have e2 : tpQ s (ts.getLast hw.ne) = 1 := by
    unfold tpQ; rw [hg1]; exact div_self hPq.ne'
  rw [e1, e2, mul_one]
  apply absR_of_nonneg
  have := stepAreaAux_nonneg s lo hi (negsByRank s) 0
  have := overlap_nonneg ((s.neg.length : ℚ) / ((s.neg.length + s.easyNeg : ℕ) : ℚ)) 1 lo hi
  linarith

end SA
