/-
Structure of the evaluation points of `Scores.auc` (one ulp either side of every score) and the
decomposition of the trapezoid sum into positive/negative pairs (helper lemmas for C07 part B).
-/
import SA.Proofs.Auc
import SA.Proofs.AucTrap
import SA.Proofs.Threshold

namespace SA

/-- the oracle is adjacent with respect to the data: nothing of the data lies between a score
and its neighbours, i.e. `up a ≤ down b` for data values `a < b` -/
def Ulp.AdjacentOn (u : Ulp) (sc : List ℚ) : Prop :=
  ∀ a ∈ sc, ∀ b ∈ sc, a < b → u.up a ≤ u.down b

/-- the weaker property every `nextafter` has: no data value lies strictly between a data value
and its two neighbours (`up a ≤ b` and `a ≤ down b` for data values `a < b`; consecutive
floats in the data are allowed) -/
def Ulp.NeighbourOn (u : Ulp) (sc : List ℚ) : Prop :=
  ∀ a ∈ sc, ∀ b ∈ sc, a < b → u.up a ≤ b ∧ a ≤ u.down b

theorem Ulp.AdjacentOn.neighbour {u : Ulp} {sc : List ℚ} (h : u.AdjacentOn sc) (hu : u.Lawful) :
    u.NeighbourOn sc := by
  intro a ha b hb hab
  have := h a ha b hb hab
  exact ⟨le_trans this (le_of_lt (hu.down_lt b)), le_trans (le_of_lt (hu.lt_up a)) this⟩

/-- the sorted evaluation points of `Scores.auc` -/
def aucPoints (u : Ulp) (s : Scores) : List ℚ :=
  sortQ ((s.pos ++ s.neg).map u.down ++ (s.pos ++ s.neg).map u.up)

/-! ### the decision rule one ulp below / above a data value -/

theorem lt_down_iff (u : Ulp) (hu : u.Lawful) (sc : List ℚ) (hadj : u.AdjacentOn sc)
    (x v : ℚ) (hx : x ∈ sc) (hv : v ∈ sc) : x < u.down v ↔ x < v := by
  constructor
  · intro h; exact lt_trans h (hu.down_lt v)
  · intro h; exact lt_of_lt_of_le (hu.lt_up x) (hadj x hx v hv h)

theorem le_down_iff (u : Ulp) (hu : u.Lawful) (sc : List ℚ) (hadj : u.AdjacentOn sc)
    (x v : ℚ) (hx : x ∈ sc) (hv : v ∈ sc) : x ≤ u.down v ↔ x < v := by
  constructor
  · intro h; exact lt_of_le_of_lt h (hu.down_lt v)
  · intro h; exact le_of_lt ((lt_down_iff u hu sc hadj x v hx hv).mpr h)

theorem le_up_iff (u : Ulp) (hu : u.Lawful) (sc : List ℚ) (hadj : u.AdjacentOn sc)
    (x v : ℚ) (hx : x ∈ sc) (hv : v ∈ sc) : x ≤ u.up v ↔ x ≤ v := by
  constructor
  · intro h
    by_contra hc
    rw [not_le] at hc
    have := hadj v hv x hx hc
    have := hu.down_lt x
    linarith
  · intro h; exact le_of_lt (lt_of_le_of_lt h (hu.lt_up v))

theorem lt_up_iff (u : Ulp) (hu : u.Lawful) (sc : List ℚ) (hadj : u.AdjacentOn sc)
    (x v : ℚ) (hx : x ∈ sc) (hv : v ∈ sc) : x < u.up v ↔ x ≤ v := by
  constructor
  · intro h; exact (le_up_iff u hu sc hadj x v hx hv).mp (le_of_lt h)
  · intro h; exact lt_of_le_of_lt h (hu.lt_up v)

/-- one ulp below a data value `v` every configuration decides like the rule that puts `v`
itself on the high side (`x < v` is the low side) -/
theorem accept_at_down (u : Ulp) (hu : u.Lawful) (sc : List ℚ) (hadj : u.AdjacentOn sc)
    (cfg : Cfg) (x v : ℚ) (hx : x ∈ sc) (hv : v ∈ sc) :
    accept cfg x (.fin (u.down v)) = accept ⟨cfg.scoreClass, cfg.scoreClass⟩ x (.fin v) := by
  obtain ⟨c, e⟩ := cfg
  have h1 := lt_down_iff u hu sc hadj x v hx hv
  have h2 := le_down_iff u hu sc hadj x v hx hv
  cases c <;> cases e <;> simp only [accept, ltE, leE, h1, h2]

/-- one ulp above a data value `v` every configuration decides like the rule that puts `v`
itself on the low side (`x ≤ v` is the low side) -/
theorem accept_at_up (u : Ulp) (hu : u.Lawful) (sc : List ℚ) (hadj : u.AdjacentOn sc)
    (cfg : Cfg) (x v : ℚ) (hx : x ∈ sc) (hv : v ∈ sc) :
    accept cfg x (.fin (u.up v)) = accept ⟨cfg.scoreClass, cfg.scoreClass.flip⟩ x (.fin v) := by
  obtain ⟨c, e⟩ := cfg
  have h1 := lt_up_iff u hu sc hadj x v hx hv
  have h2 := le_up_iff u hu sc hadj x v hx hv
  cases c <;> cases e <;> simp only [accept, ltE, leE, h1, h2, Label.flip]

theorem accept_of_lt (cfg : Cfg) (x t : ℚ) (h : x < t) :
    accept cfg x (.fin t) = decide (cfg.scoreClass = .neg) := by
  obtain ⟨c, e⟩ := cfg
  have h' : x ≤ t := le_of_lt h
  cases c <;> cases e <;> simp [accept, ltE, leE, h, h']

theorem accept_of_gt (cfg : Cfg) (x t : ℚ) (h : t < x) :
    accept cfg x (.fin t) = decide (cfg.scoreClass = .pos) := by
  obtain ⟨c, e⟩ := cfg
  have h1 : ¬ x < t := not_lt.mpr (le_of_lt h)
  have h2 : ¬ x ≤ t := not_le.mpr h
  cases c <;> cases e <;> simp [accept, ltE, leE, h1, h2]

/-! ### orientation: the points in the order in which samples get accepted -/

/-- everything accepted at `t` is accepted at `t'` -/
def AccMono (cfg : Cfg) (t t' : ℚ) : Prop :=
  ∀ x, accept cfg x (.fin t) = true → accept cfg x (.fin t') = true

theorem accMono_of_le_neg (cfg : Cfg) (h : cfg.scoreClass = .neg) (t t' : ℚ) (htt : t ≤ t') :
    AccMono cfg t t' := by
  obtain ⟨c, e⟩ := cfg
  simp only at h; subst h
  intro x
  cases e <;> simp only [accept, ltE, leE, decide_eq_true_eq] <;> intro hx <;> linarith

theorem accMono_of_ge_pos (cfg : Cfg) (h : cfg.scoreClass = .pos) (t t' : ℚ) (htt : t' ≤ t) :
    AccMono cfg t t' := by
  obtain ⟨c, e⟩ := cfg
  simp only at h; subst h
  intro x
  cases e <;> simp only [accept, ltE, leE, Bool.not_eq_true', decide_eq_false_iff_not, not_lt,
    not_le] <;> intro hx <;> linarith

/-- the evaluation points in acceptance order -/
def orientAuc (cfg : Cfg) (pts : List ℚ) : List ℚ :=
  match cfg.scoreClass with
  | .neg => pts
  | .pos => pts.reverse

theorem orient_mono (cfg : Cfg) (pts : List ℚ) (hs : pts.Pairwise (· ≤ ·)) :
    (orientAuc cfg pts).Pairwise (AccMono cfg) := by
  unfold orientAuc
  cases h : cfg.scoreClass with
  | neg => exact hs.imp (fun {a b} hab => accMono_of_le_neg cfg h a b hab)
  | pos =>
    simp only
    rw [List.pairwise_reverse]
    exact hs.imp (fun {a b} hab => accMono_of_ge_pos cfg h b a hab)

theorem mem_orient (cfg : Cfg) (pts : List ℚ) (t : ℚ) : t ∈ orientAuc cfg pts ↔ t ∈ pts := by
  unfold orientAuc; cases cfg.scoreClass <;> simp

theorem orient_ne_nil (cfg : Cfg) (pts : List ℚ) (h : pts ≠ []) : orientAuc cfg pts ≠ [] := by
  unfold orientAuc; cases cfg.scoreClass <;> simpa using h

theorem mem_aucPoints (u : Ulp) (s : Scores) (t : ℚ) :
    t ∈ aucPoints u s ↔ ∃ v ∈ s.pos ++ s.neg, t = u.down v ∨ t = u.up v := by
  unfold aucPoints
  rw [(sortQ_perm _).mem_iff, List.mem_append, List.mem_map, List.mem_map]
  constructor
  · rintro (⟨v, hv, rfl⟩ | ⟨v, hv, rfl⟩)
    · exact ⟨v, hv, Or.inl rfl⟩
    · exact ⟨v, hv, Or.inr rfl⟩
  · rintro ⟨v, hv, rfl | rfl⟩
    · exact Or.inl ⟨v, hv, rfl⟩
    · exact Or.inr ⟨v, hv, rfl⟩

theorem aucPoints_sorted (u : Ulp) (s : Scores) : (aucPoints u s).Pairwise (· ≤ ·) :=
  sortQ_pairwise _

theorem aucPoints_length (u : Ulp) (s : Scores) :
    (aucPoints u s).length = 2 * (s.pos.length + s.neg.length) := by
  unfold aucPoints; rw [length_sortQ]; simp; omega

/-- first element of a sorted non-empty list is a lower bound -/
theorem head_le_sorted (l : List ℚ) (hl : l ≠ []) (hs : l.Pairwise (· ≤ ·)) (x : ℚ) (hx : x ∈ l) :
    l.head hl ≤ x := by
  cases l with
  | nil => exact absurd rfl hl
  | cons a l =>
    rw [List.pairwise_cons] at hs
    rcases List.mem_cons.mp hx with h | h
    · rw [h]; exact le_refl _
    · exact hs.1 x h

theorem le_head_antisorted (l : List ℚ) (hl : l ≠ []) (hs : l.Pairwise (· ≥ ·)) (x : ℚ)
    (hx : x ∈ l) : x ≤ l.head hl := by
  cases l with
  | nil => exact absurd rfl hl
  | cons a l =>
    rw [List.pairwise_cons] at hs
    rcases List.mem_cons.mp hx with h | h
    · rw [h]; exact le_refl _
    · exact hs.1 x h

theorem le_getLast_sorted (l : List ℚ) (hl : l ≠ []) (hs : l.Pairwise (· ≤ ·)) (x : ℚ) (hx : x ∈ l) :
    x ≤ l.getLast hl := by
  have h1 : l.reverse.Pairwise (· ≥ ·) := by
    rw [List.pairwise_reverse]; exact hs.imp (fun {a b} h => h)
  have h2 : l.reverse ≠ [] := by simpa using hl
  have h3 : l.getLast hl = l.reverse.head h2 := by rw [List.head_reverse]
  rw [h3]
  exact le_head_antisorted _ h2 h1 x (by simpa using hx)

/-- F2: at the first oriented point nothing scored is accepted -/
theorem accept_orient_head (u : Ulp) (hu : u.Lawful) (s : Scores)
    (hne : orientAuc s.cfg (aucPoints u s) ≠ []) (x : ℚ) (hx : x ∈ s.pos ++ s.neg) :
    accept s.cfg x (.fin ((orientAuc s.cfg (aucPoints u s)).head hne)) = false := by
  have hpts : aucPoints u s ≠ [] := by
    intro h; apply hne; unfold orientAuc; rw [h]; cases s.cfg.scoreClass <;> rfl
  have hd : u.down x ∈ aucPoints u s := (mem_aucPoints u s _).mpr ⟨x, hx, Or.inl rfl⟩
  have hup : u.up x ∈ aucPoints u s := (mem_aucPoints u s _).mpr ⟨x, hx, Or.inr rfl⟩
  cases h : s.cfg.scoreClass with
  | neg =>
    have e : (orientAuc s.cfg (aucPoints u s)).head hne = (aucPoints u s).head hpts := by
      simp only [orientAuc, h]
    rw [e, accept_of_gt _ _ _ (lt_of_le_of_lt (head_le_sorted _ hpts (aucPoints_sorted u s) _ hd)
      (hu.down_lt x)), h]; rfl
  | pos =>
    have e : (orientAuc s.cfg (aucPoints u s)).head hne = (aucPoints u s).getLast hpts := by
      simp only [orientAuc, h, List.head_reverse]
    rw [e, accept_of_lt _ _ _ (lt_of_lt_of_le (hu.lt_up x)
      (le_getLast_sorted _ hpts (aucPoints_sorted u s) _ hup)), h]; rfl

/-- F3: at the last oriented point everything scored is accepted -/
theorem accept_orient_last (u : Ulp) (hu : u.Lawful) (s : Scores)
    (hne : orientAuc s.cfg (aucPoints u s) ≠ []) (x : ℚ) (hx : x ∈ s.pos ++ s.neg) :
    accept s.cfg x (.fin ((orientAuc s.cfg (aucPoints u s)).getLast hne)) = true := by
  have hpts : aucPoints u s ≠ [] := by
    intro h; apply hne; unfold orientAuc; rw [h]; cases s.cfg.scoreClass <;> rfl
  have hd : u.down x ∈ aucPoints u s := (mem_aucPoints u s _).mpr ⟨x, hx, Or.inl rfl⟩
  have hup : u.up x ∈ aucPoints u s := (mem_aucPoints u s _).mpr ⟨x, hx, Or.inr rfl⟩
  cases h : s.cfg.scoreClass with
  | neg =>
    have e : (orientAuc s.cfg (aucPoints u s)).getLast hne = (aucPoints u s).getLast hpts := by
      simp only [orientAuc, h]
    rw [e, accept_of_lt _ _ _ (lt_of_lt_of_le (hu.lt_up x)
      (le_getLast_sorted _ hpts (aucPoints_sorted u s) _ hup)), h]; rfl
  | pos =>
    have e : (orientAuc s.cfg (aucPoints u s)).getLast hne = (aucPoints u s).head hpts := by
      simp only [orientAuc, h, List.getLast_reverse]
    rw [e, accept_of_gt _ _ _ (lt_of_le_of_lt (head_le_sorted _ hpts (aucPoints_sorted u s) _ hd)
      (hu.down_lt x)), h]; rfl

/-- F4: if `x` ranks strictly on the positive side of `y` there is an evaluation point at which
`x` is accepted and `y` is not (which point depends on the tie-breaking convention) -/
theorem separating_point (u : Ulp) (hu : u.Lawful) (s : Scores)
    (hadj : u.NeighbourOn (s.pos ++ s.neg)) (x y : ℚ) (hx : x ∈ s.pos ++ s.neg)
    (hy : y ∈ s.pos ++ s.neg) (h : ranksAbove s.cfg.scoreClass x y = true) :
    ∃ t ∈ orientAuc s.cfg (aucPoints u s),
      accept s.cfg x (.fin t) = true ∧ accept s.cfg y (.fin t) = false := by
  have mdown : ∀ v ∈ s.pos ++ s.neg, u.down v ∈ orientAuc s.cfg (aucPoints u s) :=
    fun v hv => (mem_orient _ _ _).mpr ((mem_aucPoints u s _).mpr ⟨v, hv, Or.inl rfl⟩)
  have mup : ∀ v ∈ s.pos ++ s.neg, u.up v ∈ orientAuc s.cfg (aucPoints u s) :=
    fun v hv => (mem_orient _ _ _).mpr ((mem_aucPoints u s _).mpr ⟨v, hv, Or.inr rfl⟩)
  cases hc : s.cfg.scoreClass with
  | neg =>
    rw [hc] at h
    simp only [ranksAbove, decide_eq_true_eq] at h
    have hn := hadj x hx y hy h
    cases he : s.cfg.equalClass with
    | pos =>
      -- accept is `· ≤ t`: take `t = down y`
      refine ⟨u.down y, mdown y hy, ?_, ?_⟩
      · simp only [accept, hc, he, leE, decide_eq_true_eq]; exact hn.2
      · simp only [accept, hc, he, leE, decide_eq_false_iff_not, not_le]; exact hu.down_lt y
    | neg =>
      -- accept is `· < t`: take `t = up x`
      refine ⟨u.up x, mup x hx, ?_, ?_⟩
      · simp only [accept, hc, he, ltE, decide_eq_true_eq]; exact hu.lt_up x
      · simp only [accept, hc, he, ltE, decide_eq_false_iff_not, not_lt]; exact hn.1
  | pos =>
    rw [hc] at h
    simp only [ranksAbove, decide_eq_true_eq] at h
    have hn := hadj y hy x hx h
    cases he : s.cfg.equalClass with
    | pos =>
      -- accept is `¬ · < t`: take `t = up y`
      refine ⟨u.up y, mup y hy, ?_, ?_⟩
      · simp only [accept, hc, he, ltE, Bool.not_eq_true', decide_eq_false_iff_not, not_lt]
        exact hn.1
      · simp only [accept, hc, he, ltE, Bool.not_eq_false', decide_eq_true_eq]; exact hu.lt_up y
    | neg =>
      -- accept is `¬ · ≤ t`: take `t = down x`
      refine ⟨u.down x, mdown x hx, ?_, ?_⟩
      · simp only [accept, hc, he, leE, Bool.not_eq_true', decide_eq_false_iff_not, not_le]
        exact hu.down_lt x
      · simp only [accept, hc, he, leE, Bool.not_eq_false', decide_eq_true_eq]; exact hn.2

/-! ### the sweep: an abstract list of thresholds along which samples get accepted one value
at a time, separated from each other -/

structure Sweep (s : Scores) (ts : List ℚ) : Prop where
  mono : ts.Pairwise (AccMono s.cfg)
  ne : ts ≠ []
  first : ∀ x ∈ s.pos ++ s.neg, accept s.cfg x (.fin (ts.head ne)) = false
  last : ∀ x ∈ s.pos ++ s.neg, accept s.cfg x (.fin (ts.getLast ne)) = true
  sep : ∀ x ∈ s.pos ++ s.neg, ∀ y ∈ s.pos ++ s.neg, ranksAbove s.cfg.scoreClass x y = true →
    ∃ t ∈ ts, accept s.cfg x (.fin t) = true ∧ accept s.cfg y (.fin t) = false

theorem sweep_orient (u : Ulp) (hu : u.Lawful) (s : Scores)
    (hadj : u.NeighbourOn (s.pos ++ s.neg)) (hne : s.pos ++ s.neg ≠ []) :
    Sweep s (orientAuc s.cfg (aucPoints u s)) := by
  have hpts : aucPoints u s ≠ [] := by
    intro h
    have := aucPoints_length u s
    rw [h] at this
    have h2 : (s.pos ++ s.neg).length ≠ 0 := by
      intro h0; exact hne (List.eq_nil_of_length_eq_zero h0)
    simp only [List.length_nil, List.length_append] at this h2
    omega
  have hne' := orient_ne_nil s.cfg _ hpts
  exact ⟨orient_mono _ _ (aucPoints_sorted u s), hne', accept_orient_head u hu s hne',
    accept_orient_last u hu s hne', fun x hx y hy h => separating_point u hu s hadj x y hx hy h⟩

theorem ranksAbove_irrefl (c : Label) (p : ℚ) : ranksAbove c p p = false := by
  cases c <;> simp [ranksAbove]

theorem ranksAbove_total (c : Label) (p q : ℚ) (h : p ≠ q) (h1 : ranksAbove c p q = false) :
    ranksAbove c q p = true := by
  cases c <;> simp only [ranksAbove, decide_eq_false_iff_not, not_lt, decide_eq_true_eq] at * <;>
    exact lt_of_le_of_ne h1 (by first | exact h | exact h.symm)

/-- the trapezoid sum of one negative `q` against one positive `p`:
1 for a win, 1/2 for a tie, 0 for a loss -/
theorem trapF_pair (s : Scores) (ts : List ℚ) (hw : Sweep s ts) (p q : ℚ)
    (hp : p ∈ s.pos ++ s.neg) (hq : q ∈ s.pos ++ s.neg) :
    trapF (fun t => ind (accept s.cfg q (.fin t))) (fun t => ind (accept s.cfg p (.fin t))) ts =
      ind (ranksAbove s.cfg.scoreClass p q) + ind (decide (p = q)) / 2 := by
  obtain ⟨hmono, hne, hfirst, hlast, hsep⟩ := hw
  cases ts with
  | nil => exact absurd rfl hne
  | cons t0 rest =>
    simp only [List.head_cons] at hfirst
    have hbm : (t0 :: rest).Pairwise (BothMono (fun t => accept s.cfg q (.fin t))
        (fun t => accept s.cfg p (.fin t))) := hmono.imp (fun {a b} h => ⟨h q, h p⟩)
    by_cases hpq : p = q
    · subst hpq
      rw [trapF_ind_self (fun t => accept s.cfg p (.fin t)) t0 rest (hfirst p hp) (hlast p hp),
        ranksAbove_irrefl]
      simp [ind]
    · have hd : decide (p = q) = false := by simp [hpq]
      rw [hd, ind_false]
      cases hr : ranksAbove s.cfg.scoreClass p q with
      | true =>
        obtain ⟨t, ht, h1, h2⟩ := hsep p hp q hq hr
        rw [trapF_pair_win _ _ _ hbm t ht h2 h1,
          trapF_ind_span (fun t => accept s.cfg q (.fin t)) t0 rest (hfirst q hq) (hlast q hq),
          ind_true]
        ring
      | false =>
        obtain ⟨t, ht, h1, h2⟩ := hsep q hq p hp (ranksAbove_total _ p q hpq hr)
        rw [trapF_pair_loss _ _ _ hbm t ht h1 h2, ind_false]
        ring

/-! ### the rates along the sweep and their trapezoid sum -/

def accCount (cfg : Cfg) (l : List ℚ) (t : ℚ) : ℕ := l.countP fun x => accept cfg x (.fin t)

/-- FPR at a finite threshold, by counting -/
def fpQ (s : Scores) (t : ℚ) : ℚ :=
  (accCount s.cfg s.neg t : ℚ) / ((s.neg.length + s.easyNeg : ℕ) : ℚ)
/-- TPR at a finite threshold, by counting -/
def tpQ (s : Scores) (t : ℚ) : ℚ :=
  ((accCount s.cfg s.pos t + s.easyPos : ℕ) : ℚ) / ((s.pos.length + s.easyPos : ℕ) : ℚ)

theorem accCount_cast (cfg : Cfg) (l : List ℚ) (t : ℚ) :
    ((accCount cfg l t : ℕ) : ℚ) = (l.map fun x => ind (accept cfg x (.fin t))).sum := by
  unfold accCount
  induction l with
  | nil => simp
  | cons a l ih =>
    simp only [List.countP_cons, List.map_cons, List.sum_cons, ← ih]
    cases accept cfg a (.fin t) <;> simp [ind]
    ring

theorem trapF_accCount_left (cfg : Cfg) (l : List ℚ) (g : ℚ → ℚ) (ts : List ℚ) :
    trapF (fun t => ((accCount cfg l t : ℕ) : ℚ)) g ts =
      (l.map fun q => trapF (fun t => ind (accept cfg q (.fin t))) g ts).sum := by
  rw [← trapF_sum_left]
  congr 1
  funext t
  exact accCount_cast cfg l t

theorem trapF_accCount_right (cfg : Cfg) (l : List ℚ) (f : ℚ → ℚ) (ts : List ℚ) :
    trapF f (fun t => ((accCount cfg l t : ℕ) : ℚ)) ts =
      (l.map fun p => trapF f (fun t => ind (accept cfg p (.fin t))) ts).sum := by
  rw [← trapF_sum_right]
  congr 1
  funext t
  exact accCount_cast cfg l t

theorem sum_ind_half {α : Type} (r e : α → Bool) (l : List α) :
    (l.map fun q => ind (r q) + ind (e q) / 2).sum =
      ((l.countP r : ℕ) : ℚ) + ((l.countP e : ℕ) : ℚ) / 2 := by
  induction l with
  | nil => simp
  | cons a l ih =>
    simp only [List.map_cons, List.sum_cons, List.countP_cons, ih]
    cases r a <;> cases e a <;> simp [ind] <;> ring

theorem sum_cast_half {α : Type} (f g : α → ℕ) (l : List α) :
    (l.map fun p => ((f p : ℕ) : ℚ) + ((g p : ℕ) : ℚ) / 2).sum =
      (((l.map f).sum : ℕ) : ℚ) + (((l.map g).sum : ℕ) : ℚ) / 2 := by
  induction l with
  | nil => simp
  | cons a l ih =>
    simp only [List.map_cons, List.sum_cons, ih]
    push_cast; ring

/-- counts against counts: wins plus half the ties -/
theorem trapF_counts (s : Scores) (ts : List ℚ) (hw : Sweep s ts) :
    trapF (fun t => ((accCount s.cfg s.neg t : ℕ) : ℚ)) (fun t => ((accCount s.cfg s.pos t : ℕ) : ℚ)) ts
      = (mwWins s : ℚ) + (mwTies s : ℚ) / 2 := by
  rw [trapF_accCount_right]
  have h : ∀ p ∈ s.pos, trapF (fun t => ((accCount s.cfg s.neg t : ℕ) : ℚ))
      (fun t => ind (accept s.cfg p (.fin t))) ts =
      ((s.neg.countP (fun q => ranksAbove s.cfg.scoreClass p q) : ℕ) : ℚ) +
        ((s.neg.countP (fun q => decide (p = q)) : ℕ) : ℚ) / 2 := by
    intro p hp
    rw [trapF_accCount_left]
    rw [List.map_congr_left (fun q hq => trapF_pair s ts hw p q (List.mem_append_left _ hp)
      (List.mem_append_right _ hq))]
    exact sum_ind_half _ _ _
  rw [List.map_congr_left h, sum_cast_half]
  rfl

theorem accCount_first (s : Scores) (ts : List ℚ) (hw : Sweep s ts) (l : List ℚ)
    (hl : ∀ x ∈ l, x ∈ s.pos ++ s.neg) : accCount s.cfg l (ts.head hw.ne) = 0 := by
  unfold accCount
  rw [List.countP_eq_zero]
  intro x hx
  rw [hw.first x (hl x hx)]; simp

theorem accCount_last (s : Scores) (ts : List ℚ) (hw : Sweep s ts) (l : List ℚ)
    (hl : ∀ x ∈ l, x ∈ s.pos ++ s.neg) : accCount s.cfg l (ts.getLast hw.ne) = l.length := by
  unfold accCount
  rw [List.countP_eq_length]
  intro x hx
  exact hw.last x (hl x hx)

/-- **sweep = Mann–Whitney numerator**: the trapezoid sum of TPR against FPR along the sweep -/
theorem trapF_rates (s : Scores) (ts : List ℚ) (hw : Sweep s ts) :
    trapF (fpQ s) (tpQ s) ts =
      ((mwWins s : ℚ) + (mwTies s : ℚ) / 2 + (s.easyPos : ℚ) * (s.neg.length : ℚ)) /
        (((s.pos.length + s.easyPos : ℕ) : ℚ) * ((s.neg.length + s.easyNeg : ℕ) : ℚ)) := by
  have e1 : fpQ s = fun t => ((accCount s.cfg s.neg t : ℕ) : ℚ) / ((s.neg.length + s.easyNeg : ℕ) : ℚ) := rfl
  have e2 : tpQ s = fun t => (((accCount s.cfg s.pos t : ℕ) : ℚ) + (s.easyPos : ℚ)) /
      ((s.pos.length + s.easyPos : ℕ) : ℚ) := by
    funext t; unfold tpQ; push_cast; rfl
  rw [e1, e2, trapF_div_left, trapF_div_right, trapF_add_right, trapF_counts s ts hw]
  have h0 := accCount_first s ts hw s.neg (fun x hx => List.mem_append_right _ hx)
  have h1 := accCount_last s ts hw s.neg (fun x hx => List.mem_append_right _ hx)
  obtain ⟨_, hne, _, _, _⟩ := hw
  cases ts with
  | nil => exact absurd rfl hne
  | cons t0 rest =>
    simp only [List.head_cons] at h0
    rw [trapF_const_right, h0, h1]
    simp only [Nat.cast_zero, sub_zero]
    rw [div_div]

end SA
