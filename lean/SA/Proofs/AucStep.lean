/-
Partial AUC, part 1: along a sweep without cross-class ties, the trapezoid sum of TPR against
the *clipped* FPR is the step area of the reference (helper lemmas for C07 B3).
-/
import SA.Proofs.AucCode

namespace SA

/-! ### consecutive points of a sweep -/

theorem sweep_mem_split (pre : List ℚ) (t0 t1 : ℚ) (rest : List ℚ) (t : ℚ)
    (h : t ∈ pre ++ t0 :: t1 :: rest) : t ∈ pre ++ [t0] ∨ t ∈ t1 :: rest := by
  simp only [List.mem_append, List.mem_cons, List.not_mem_nil, or_false] at h ⊢
  tauto

/-- every point up to `t0` accepts no more than `t0` -/
theorem sweep_before (cfg : Cfg) (pre : List ℚ) (t0 t1 : ℚ) (rest : List ℚ)
    (hm : (pre ++ t0 :: t1 :: rest).Pairwise (AccMono cfg)) (t : ℚ) (ht : t ∈ pre ++ [t0]) :
    AccMono cfg t t0 := by
  rw [List.pairwise_append] at hm
  rw [List.mem_append, List.mem_singleton] at ht
  rcases ht with ht | ht
  · exact hm.2.2 t ht t0 (by simp)
  · rw [ht]; exact fun x hx => hx

/-- every point from `t1` on accepts no less than `t1` -/
theorem sweep_after (cfg : Cfg) (pre : List ℚ) (t0 t1 : ℚ) (rest : List ℚ)
    (hm : (pre ++ t0 :: t1 :: rest).Pairwise (AccMono cfg)) (t : ℚ) (ht : t ∈ t1 :: rest) :
    AccMono cfg t1 t := by
  rw [List.pairwise_append] at hm
  have h2 := hm.2.1
  rw [List.pairwise_cons, List.pairwise_cons] at h2
  rw [List.mem_cons] at ht
  rcases ht with ht | ht
  · rw [ht]; exact fun x hx => hx
  · exact h2.2.1 t ht

theorem sweep_step (cfg : Cfg) (pre : List ℚ) (t0 t1 : ℚ) (rest : List ℚ)
    (hm : (pre ++ t0 :: t1 :: rest).Pairwise (AccMono cfg)) : AccMono cfg t0 t1 := by
  rw [List.pairwise_append] at hm
  have h2 := hm.2.1
  rw [List.pairwise_cons] at h2
  exact h2.1 t1 (by simp)

/-- if `y` is accepted at `t1` and `x` ranks before `y`, then `x` is accepted already at `t0` -/
theorem sweep_key (s : Scores) (pre : List ℚ) (t0 t1 : ℚ) (rest : List ℚ)
    (hw : Sweep s (pre ++ t0 :: t1 :: rest)) (x y : ℚ) (hx : x ∈ s.pos ++ s.neg)
    (hy : y ∈ s.pos ++ s.neg) (hy1 : accept s.cfg y (.fin t1) = true)
    (hr : ranksAbove s.cfg.scoreClass x y = true) : accept s.cfg x (.fin t0) = true := by
  obtain ⟨t, ht, h1, h2⟩ := hw.sep x hx y hy hr
  rcases sweep_mem_split pre t0 t1 rest t ht with h | h
  · exact sweep_before s.cfg pre t0 t1 rest hw.mono t h x h1
  · have := sweep_after s.cfg pre t0 t1 rest hw.mono t h y hy1
    rw [h2] at this; cases this

/-- if `y` is not accepted at `t0` and `y` ranks before `x`, then `x` is not accepted at `t1` -/
theorem sweep_key' (s : Scores) (pre : List ℚ) (t0 t1 : ℚ) (rest : List ℚ)
    (hw : Sweep s (pre ++ t0 :: t1 :: rest)) (x y : ℚ) (hx : x ∈ s.pos ++ s.neg)
    (hy : y ∈ s.pos ++ s.neg) (hy0 : accept s.cfg y (.fin t0) = false)
    (hr : ranksAbove s.cfg.scoreClass y x = true) : accept s.cfg x (.fin t1) = false := by
  obtain ⟨t, ht, h1, h2⟩ := hw.sep y hy x hx hr
  rcases sweep_mem_split pre t0 t1 rest t ht with h | h
  · have := sweep_before s.cfg pre t0 t1 rest hw.mono t h y h1
    rw [hy0] at this; cases this
  · cases hx1 : accept s.cfg x (.fin t1) with
    | false => rfl
    | true =>
      have := sweep_after s.cfg pre t0 t1 rest hw.mono t h x hx1
      rw [h2] at this; cases this

theorem noCrossTies_ne (s : Scores) (h : noCrossTies s = true) (p q : ℚ) (hp : p ∈ s.pos)
    (hq : q ∈ s.neg) : p ≠ q := by
  unfold noCrossTies at h
  rw [List.all_eq_true] at h
  have := h p hp
  simp only [Bool.not_eq_true', List.contains_eq_mem, decide_eq_false_iff_not] at this
  intro hpq; exact this (hpq ▸ hq)

/-- without cross-class ties, where a negative `q` is taken up between consecutive points the
positives accepted before are exactly those ranked above `q` -/
theorem sweep_level (s : Scores) (hnt : noCrossTies s = true) (pre : List ℚ) (t0 t1 : ℚ)
    (rest : List ℚ) (hw : Sweep s (pre ++ t0 :: t1 :: rest)) (q : ℚ) (hq : q ∈ s.neg)
    (hq0 : accept s.cfg q (.fin t0) = false) (hq1 : accept s.cfg q (.fin t1) = true) (p : ℚ)
    (hp : p ∈ s.pos) :
    (accept s.cfg p (.fin t0) = ranksAbove s.cfg.scoreClass p q) ∧
    (accept s.cfg p (.fin t1) = ranksAbove s.cfg.scoreClass p q) := by
  have hp' : p ∈ s.pos ++ s.neg := List.mem_append_left _ hp
  have hq' : q ∈ s.pos ++ s.neg := List.mem_append_right _ hq
  cases hr : ranksAbove s.cfg.scoreClass p q with
  | true =>
    have h0 := sweep_key s pre t0 t1 rest hw p q hp' hq' hq1 hr
    exact ⟨h0, sweep_step s.cfg pre t0 t1 rest hw.mono p h0⟩
  | false =>
    have hr' := ranksAbove_total _ p q (noCrossTies_ne s hnt p q hp hq) hr
    have h1 := sweep_key' s pre t0 t1 rest hw p q hp' hq' hq0 hr'
    refine ⟨?_, h1⟩
    cases h0 : accept s.cfg p (.fin t0) with
    | false => rfl
    | true =>
      have := sweep_step s.cfg pre t0 t1 rest hw.mono p h0
      rw [h1] at this; cases this

/-! ### the negatives in acceptance order -/

/-- `a` is accepted whenever `b` is -/
def AccBefore (cfg : Cfg) (a b : ℚ) : Prop :=
  ∀ t, accept cfg b (.fin t) = true → accept cfg a (.fin t) = true

theorem accBefore_of_le_neg (cfg : Cfg) (h : cfg.scoreClass = .neg) (a b : ℚ) (hab : a ≤ b) :
    AccBefore cfg a b := by
  obtain ⟨c, e⟩ := cfg
  simp only at h; subst h
  intro t
  cases e <;> simp only [accept, ltE, leE, decide_eq_true_eq] <;> intro hx <;> linarith

theorem accBefore_of_ge_pos (cfg : Cfg) (h : cfg.scoreClass = .pos) (a b : ℚ) (hab : b ≤ a) :
    AccBefore cfg a b := by
  obtain ⟨c, e⟩ := cfg
  simp only at h; subst h
  intro t
  cases e <;> simp only [accept, ltE, leE, Bool.not_eq_true', decide_eq_false_iff_not, not_lt,
    not_le] <;> intro hx <;> linarith

theorem negsByRank_pairwise (s : Scores) : (negsByRank s).Pairwise (AccBefore s.cfg) := by
  unfold negsByRank
  cases h : s.cfg.scoreClass with
  | neg => exact (sortQ_pairwise s.neg).imp (fun {a b} hab => accBefore_of_le_neg s.cfg h a b hab)
  | pos =>
    simp only
    rw [List.pairwise_reverse]
    exact (sortQ_pairwise s.neg).imp (fun {a b} hab => accBefore_of_ge_pos s.cfg h b a hab)

/-- along a list ordered by a relation under which `p` is closed towards the front, `p` holds
exactly on the prefix of length `countP p` -/
theorem pairwise_prefix {R : ℚ → ℚ → Prop} (l : List ℚ) (hs : l.Pairwise R) (p : ℚ → Bool)
    (hp : ∀ a b, R a b → p b = true → p a = true) :
    (∀ x ∈ l.take (l.countP p), p x = true) ∧ (∀ x ∈ l.drop (l.countP p), p x = false) := by
  induction l with
  | nil => simp
  | cons a l ih =>
    rw [List.pairwise_cons] at hs
    obtain ⟨ha, hs'⟩ := hs
    by_cases hat : p a = true
    · simp only [List.countP_cons, hat, if_true, List.take_succ_cons, List.drop_succ_cons]
      obtain ⟨i1, i2⟩ := ih hs'
      refine ⟨?_, i2⟩
      intro x hx
      rcases List.mem_cons.mp hx with h | h
      · rw [h]; exact hat
      · exact i1 x h
    · have hnone : ∀ x ∈ l, p x = false := by
        intro x hx
        cases hpx : p x with
        | false => rfl
        | true => exact absurd (hp a x (ha x hx) hpx) hat
      have hc : l.countP p = 0 := by
        rw [List.countP_eq_zero]; intro x hx; rw [hnone x hx]; simp
      simp only [List.countP_cons, hat, hc]
      refine ⟨by simp, ?_⟩
      intro x hx
      simp only [Bool.false_eq_true, if_false, Nat.add_zero, List.drop_zero] at hx
      rcases List.mem_cons.mp hx with h | h
      · rw [h]; simpa using hat
      · exact hnone x h

theorem accCount_negsByRank (s : Scores) (t : ℚ) :
    accCount s.cfg (negsByRank s) t = accCount s.cfg s.neg t :=
  (negsByRank_perm s).countP_eq _

/-- the negatives taken up between two thresholds: a slice of the rank order -/
theorem slice_spec (s : Scores) (t0 t1 : ℚ) (q : ℚ)
    (hq : q ∈ ((negsByRank s).drop (accCount s.cfg s.neg t0)).take
      (accCount s.cfg s.neg t1 - accCount s.cfg s.neg t0)) :
    q ∈ s.neg ∧ accept s.cfg q (.fin t0) = false ∧ accept s.cfg q (.fin t1) = true := by
  have hq1 : q ∈ (negsByRank s).drop (accCount s.cfg s.neg t0) := List.mem_of_mem_take hq
  have hmem : q ∈ s.neg := (negsByRank_perm s).mem_iff.mp (List.mem_of_mem_drop hq1)
  have h0 := (pairwise_prefix (negsByRank s) (negsByRank_pairwise s)
    (fun x => accept s.cfg x (.fin t0)) (fun a b hab hb => hab t0 hb)).2
  have h1 := (pairwise_prefix (negsByRank s) (negsByRank_pairwise s)
    (fun x => accept s.cfg x (.fin t1)) (fun a b hab hb => hab t1 hb)).1
  have e0 : (negsByRank s).countP (fun x => accept s.cfg x (.fin t0)) = accCount s.cfg s.neg t0 :=
    accCount_negsByRank s t0
  have e1 : (negsByRank s).countP (fun x => accept s.cfg x (.fin t1)) = accCount s.cfg s.neg t1 :=
    accCount_negsByRank s t1
  rw [e0] at h0
  rw [e1] at h1
  refine ⟨hmem, h0 q hq1, h1 q ?_⟩
  -- the slice lies inside the prefix of length a1
  rw [List.take_drop] at hq
  have := List.mem_of_mem_drop hq
  by_cases hle : accCount s.cfg s.neg t0 ≤ accCount s.cfg s.neg t1
  · rwa [Nat.add_sub_cancel' hle] at this
  · have h0' : accCount s.cfg s.neg t1 - accCount s.cfg s.neg t0 = 0 := by omega
    rw [h0'] at hq; simp at hq

/-! ### step area of a slice at constant level; clipping -/

/-- clip a value to the window -/
def clipQ (lo hi v : ℚ) : ℚ := max lo (min v hi)

theorem overlap_eq_clip (a b lo hi : ℚ) (hab : a ≤ b) (h : lo ≤ hi) :
    overlap a b lo hi = clipQ lo hi b - clipQ lo hi a := by
  unfold overlap clipQ
  simp only [max_def, min_def]
  split_ifs <;> linarith

theorem clipQ_of_mem (lo hi v : ℚ) (h1 : lo ≤ v) (h2 : v ≤ hi) : clipQ lo hi v = v := by
  unfold clipQ
  simp only [max_def, min_def]
  split_ifs <;> linarith

theorem clipQ_of_le (lo hi v : ℚ) (h : lo ≤ hi) (h1 : v ≤ lo) : clipQ lo hi v = lo := by
  unfold clipQ
  simp only [max_def, min_def]
  split_ifs <;> linarith

theorem clipQ_of_ge (lo hi v : ℚ) (h : lo ≤ hi) (h1 : hi ≤ v) : clipQ lo hi v = hi := by
  unfold clipQ
  simp only [max_def, min_def]
  split_ifs <;> linarith

theorem overlap_self (a lo hi : ℚ) : overlap a a lo hi = 0 := by
  unfold overlap
  simp only [max_def, min_def]
  split_ifs <;> linarith

theorem stepAreaAux_append (s : Scores) (lo hi : ℚ) (l1 l2 : List ℚ) (j : ℕ) :
    stepAreaAux s lo hi (l1 ++ l2) j =
      stepAreaAux s lo hi l1 j + stepAreaAux s lo hi l2 (j + l1.length) := by
  induction l1 generalizing j with
  | nil => simp [stepAreaAux]
  | cons q l1 ih =>
    simp only [List.cons_append, stepAreaAux, List.length_cons, ih (j + 1)]
    have : j + 1 + l1.length = j + (l1.length + 1) := by omega
    rw [this]; ring

/-- a slice on which the level is constant contributes level × overlap -/
theorem stepAreaAux_const (s : Scores) (lo hi : ℚ) (h : lo ≤ hi) (c : ℚ) (l : List ℚ) (j : ℕ)
    (hl : ∀ q ∈ l, ((s.easyPos + winsOver s q : ℕ) : ℚ) / ((s.pos.length + s.easyPos : ℕ) : ℚ) = c) :
    stepAreaAux s lo hi l j =
      overlap ((j : ℚ) / ((s.neg.length + s.easyNeg : ℕ) : ℚ))
        (((j + l.length : ℕ) : ℚ) / ((s.neg.length + s.easyNeg : ℕ) : ℚ)) lo hi * c := by
  induction l generalizing j with
  | nil =>
    simp only [stepAreaAux, List.length_nil, Nat.add_zero]
    rw [overlap_self]; ring
  | cons q rest ih =>
    simp only [stepAreaAux, List.length_cons]
    have hN : (0 : ℚ) ≤ ((s.neg.length + s.easyNeg : ℕ) : ℚ) := by positivity
    rw [ih (j + 1) (fun q' hq' => hl q' (List.mem_cons_of_mem _ hq')), hl q (by simp)]
    have h2 := overlap_split_interval ((j : ℚ) / ((s.neg.length + s.easyNeg : ℕ) : ℚ))
      (((j + 1 : ℕ) : ℚ) / ((s.neg.length + s.easyNeg : ℕ) : ℚ))
      (((j + 1 + rest.length : ℕ) : ℚ) / ((s.neg.length + s.easyNeg : ℕ) : ℚ)) lo hi
      (div_step_le j _ hN)
      (by apply div_le_div_of_nonneg_right _ hN; push_cast
          linarith [(Nat.cast_nonneg rest.length : (0:ℚ) ≤ _)])
      h
    have h5 : j + (rest.length + 1) = j + 1 + rest.length := by omega
    rw [h5, ← h2]
    ring

/-! ### clipped trapezoid sum along a sweep = step area -/

theorem accCount_mono (cfg : Cfg) (l : List ℚ) (t t' : ℚ) (h : AccMono cfg t t') :
    accCount cfg l t ≤ accCount cfg l t' := by
  unfold accCount
  exact List.countP_mono_left (fun x _ hx => h x hx)

theorem take_drop_split (l : List ℚ) (a0 a1 al : ℕ) (h01 : a0 ≤ a1) (h1l : a1 ≤ al) :
    (l.drop a0).take (al - a0) = (l.drop a0).take (a1 - a0) ++ (l.drop a1).take (al - a1) := by
  have e : al - a0 = (a1 - a0) + (al - a1) := by omega
  rw [e, List.take_add, List.drop_drop]
  congr 3
  omega

/-- one segment of the sweep -/
theorem sweep_segment (s : Scores) (hnt : noCrossTies s = true) (lo hi : ℚ) (h : lo ≤ hi)
    (pre : List ℚ) (t0 t1 : ℚ) (rest : List ℚ) (hw : Sweep s (pre ++ t0 :: t1 :: rest)) :
    stepAreaAux s lo hi (((negsByRank s).drop (accCount s.cfg s.neg t0)).take
        (accCount s.cfg s.neg t1 - accCount s.cfg s.neg t0)) (accCount s.cfg s.neg t0) =
      (clipQ lo hi (fpQ s t1) - clipQ lo hi (fpQ s t0)) * (tpQ s t0 + tpQ s t1) / 2 := by
  have hmono := sweep_step s.cfg pre t0 t1 rest hw.mono
  have h01 := accCount_mono s.cfg s.neg t0 t1 hmono
  have h1R : accCount s.cfg s.neg t1 ≤ (negsByRank s).length := by
    rw [negsByRank_length]; exact List.countP_le_length
  by_cases heq : accCount s.cfg s.neg t0 = accCount s.cfg s.neg t1
  · have e : fpQ s t1 = fpQ s t0 := by unfold fpQ; rw [heq]
    rw [heq, Nat.sub_self, List.take_zero, e]
    simp [stepAreaAux]
  · have hlt : accCount s.cfg s.neg t0 < accCount s.cfg s.neg t1 := by omega
    have hlen : (((negsByRank s).drop (accCount s.cfg s.neg t0)).take
        (accCount s.cfg s.neg t1 - accCount s.cfg s.neg t0)).length =
        accCount s.cfg s.neg t1 - accCount s.cfg s.neg t0 := by
      rw [List.length_take, List.length_drop]; omega
    -- a negative of the slice exists
    have hne : ((negsByRank s).drop (accCount s.cfg s.neg t0)).take
        (accCount s.cfg s.neg t1 - accCount s.cfg s.neg t0) ≠ [] := by
      intro h0; rw [h0] at hlen; simp at hlen; omega
    obtain ⟨q, hq⟩ := List.exists_mem_of_ne_nil _ hne
    obtain ⟨hqn, hq0, hq1⟩ := slice_spec s t0 t1 q hq
    -- the TPR is the same at both ends and equals the level of every negative of the slice
    have hlev : ∀ q' ∈ ((negsByRank s).drop (accCount s.cfg s.neg t0)).take
        (accCount s.cfg s.neg t1 - accCount s.cfg s.neg t0),
        winsOver s q' = accCount s.cfg s.pos t0 ∧ winsOver s q' = accCount s.cfg s.pos t1 := by
      intro q' hq'
      obtain ⟨hqn', hq0', hq1'⟩ := slice_spec s t0 t1 q' hq'
      unfold winsOver accCount
      constructor
      · exact List.countP_congr (fun p hp => by
          rw [(sweep_level s hnt pre t0 t1 rest hw q' hqn' hq0' hq1' p hp).1])
      · exact List.countP_congr (fun p hp => by
          rw [(sweep_level s hnt pre t0 t1 rest hw q' hqn' hq0' hq1' p hp).2])
    have hy : tpQ s t1 = tpQ s t0 := by
      unfold tpQ; rw [← (hlev q hq).1, ← (hlev q hq).2]
    have hconst : ∀ q' ∈ ((negsByRank s).drop (accCount s.cfg s.neg t0)).take
        (accCount s.cfg s.neg t1 - accCount s.cfg s.neg t0),
        ((s.easyPos + winsOver s q' : ℕ) : ℚ) / ((s.pos.length + s.easyPos : ℕ) : ℚ) = tpQ s t0 := by
      intro q' hq'
      unfold tpQ
      rw [(hlev q' hq').1, Nat.add_comm]
    rw [stepAreaAux_const s lo hi h (tpQ s t0) _ _ hconst, hlen, Nat.add_sub_cancel' h01, hy,
      overlap_eq_clip _ _ _ _ _ h]
    · unfold fpQ; ring
    · apply div_le_div_of_nonneg_right _ (by positivity)
      exact_mod_cast h01

/-- the clipped trapezoid sum over a tail of the sweep is the step area of the negatives taken
up along that tail -/
theorem trapF_clip_tail (s : Scores) (hnt : noCrossTies s = true) (lo hi : ℚ) (h : lo ≤ hi)
    (rest : List ℚ) : ∀ (pre : List ℚ) (t0 : ℚ), Sweep s (pre ++ t0 :: rest) →
    trapF (fun t => clipQ lo hi (fpQ s t)) (tpQ s) (t0 :: rest) =
      stepAreaAux s lo hi (((negsByRank s).drop (accCount s.cfg s.neg t0)).take
        (accCount s.cfg s.neg ((t0 :: rest).getLast (by simp)) - accCount s.cfg s.neg t0))
        (accCount s.cfg s.neg t0) := by
  induction rest with
  | nil =>
    intro pre t0 _
    simp [trapF_single, stepAreaAux]
  | cons t1 rest ih =>
    intro pre t0 hw
    have hw' : Sweep s ((pre ++ [t0]) ++ t1 :: rest) := by
      rw [List.append_assoc]; exact hw
    have hseg := sweep_segment s hnt lo hi h pre t0 t1 rest hw
    have hmono := sweep_step s.cfg pre t0 t1 rest hw.mono
    have h01 := accCount_mono s.cfg s.neg t0 t1 hmono
    have hlast : AccMono s.cfg t1 ((t1 :: rest).getLast (by simp)) :=
      sweep_after s.cfg pre t0 t1 rest hw.mono _ (List.getLast_mem _)
    have h1l := accCount_mono s.cfg s.neg _ _ hlast
    have h1R : accCount s.cfg s.neg t1 ≤ (negsByRank s).length := by
      rw [negsByRank_length]; exact List.countP_le_length
    rw [trapF_cons_cons, ih (pre ++ [t0]) t1 hw', List.getLast_cons (l := t1 :: rest) (by simp),
      take_drop_split _ _ _ _ h01 h1l, stepAreaAux_append, hseg]
    congr 2
    rw [List.length_take, List.length_drop]
    omega

/-- **clipped sum = step area** along a whole sweep -/
theorem trapF_clip_sweep (s : Scores) (hnt : noCrossTies s = true) (lo hi : ℚ) (h : lo ≤ hi)
    (ts : List ℚ) (hw : Sweep s ts) :
    trapF (fun t => clipQ lo hi (fpQ s t)) (tpQ s) ts =
      stepAreaAux s lo hi (negsByRank s) 0 := by
  have h0 := accCount_first s ts hw s.neg (fun x hx => List.mem_append_right _ hx)
  have h1 := accCount_last s ts hw s.neg (fun x hx => List.mem_append_right _ hx)
  have hne := hw.ne
  cases ts with
  | nil => exact absurd rfl hne
  | cons t0 rest =>
    simp only [List.head_cons] at h0
    rw [trapF_clip_tail s hnt lo hi h rest [] t0 hw, h0, h1, Nat.sub_zero, List.drop_zero,
      List.take_of_length_le (by rw [negsByRank_length])]

end SA
