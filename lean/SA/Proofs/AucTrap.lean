/-
Algebra of the trapezoid rule along a list of evaluation points (helper lemmas for C07 part B).
`trapF f g ts` is `np.trapezoid(y, x)` for `x = f(ts)`, `y = g(ts)`.
-/
import SA.Model.Auc
import Mathlib.Tactic.Linarith
import Mathlib.Tactic.Ring

namespace SA

def trapF (f g : ℚ → ℚ) (ts : List ℚ) : ℚ := trapezoid (ts.map f) (ts.map g)

theorem trapF_nil (f g : ℚ → ℚ) : trapF f g [] = 0 := rfl
theorem trapF_single (f g : ℚ → ℚ) (t : ℚ) : trapF f g [t] = 0 := rfl
theorem trapF_cons_cons (f g : ℚ → ℚ) (t0 t1 : ℚ) (ts : List ℚ) :
    trapF f g (t0 :: t1 :: ts) = (f t1 - f t0) * (g t0 + g t1) / 2 + trapF f g (t1 :: ts) := rfl

/-- induction principle following the recursion of `trapezoid` -/
theorem trapF_induction {motive : List ℚ → Prop} (h0 : motive []) (h1 : ∀ t, motive [t])
    (h2 : ∀ t0 t1 ts, motive (t1 :: ts) → motive (t0 :: t1 :: ts)) : ∀ ts, motive ts
  | [] => h0
  | [t] => h1 t
  | t0 :: t1 :: ts => h2 t0 t1 ts (trapF_induction h0 h1 h2 (t1 :: ts))

theorem trapF_congr (f f' g g' : ℚ → ℚ) (ts : List ℚ) (hf : ∀ t ∈ ts, f t = f' t)
    (hg : ∀ t ∈ ts, g t = g' t) : trapF f g ts = trapF f' g' ts := by
  unfold trapF
  rw [List.map_congr_left hf, List.map_congr_left hg]

theorem trapF_add_left (f1 f2 g : ℚ → ℚ) (ts : List ℚ) :
    trapF (fun t => f1 t + f2 t) g ts = trapF f1 g ts + trapF f2 g ts := by
  induction ts using trapF_induction with
  | h0 => simp [trapF_nil]
  | h1 t => simp [trapF_single]
  | h2 t0 t1 ts ih => simp only [trapF_cons_cons, ih]; ring

theorem trapF_add_right (f g1 g2 : ℚ → ℚ) (ts : List ℚ) :
    trapF f (fun t => g1 t + g2 t) ts = trapF f g1 ts + trapF f g2 ts := by
  induction ts using trapF_induction with
  | h0 => simp [trapF_nil]
  | h1 t => simp [trapF_single]
  | h2 t0 t1 ts ih => simp only [trapF_cons_cons, ih]; ring

theorem trapF_div_left (f g : ℚ → ℚ) (c : ℚ) (ts : List ℚ) :
    trapF (fun t => f t / c) g ts = trapF f g ts / c := by
  induction ts using trapF_induction with
  | h0 => simp [trapF_nil]
  | h1 t => simp [trapF_single]
  | h2 t0 t1 ts ih => simp only [trapF_cons_cons, ih]; ring

theorem trapF_div_right (f g : ℚ → ℚ) (c : ℚ) (ts : List ℚ) :
    trapF f (fun t => g t / c) ts = trapF f g ts / c := by
  induction ts using trapF_induction with
  | h0 => simp [trapF_nil]
  | h1 t => simp [trapF_single]
  | h2 t0 t1 ts ih => simp only [trapF_cons_cons, ih]; ring

theorem trapF_const_left (c : ℚ) (g : ℚ → ℚ) (ts : List ℚ) : trapF (fun _ => c) g ts = 0 := by
  induction ts using trapF_induction with
  | h0 => rfl
  | h1 t => rfl
  | h2 t0 t1 ts ih => simp only [trapF_cons_cons, ih]; ring

theorem trapF_zero_right (f : ℚ → ℚ) (ts : List ℚ) : trapF f (fun _ => 0) ts = 0 := by
  induction ts using trapF_induction with
  | h0 => rfl
  | h1 t => rfl
  | h2 t0 t1 ts ih => simp only [trapF_cons_cons, ih]; ring

/-- against a constant height the rule telescopes -/
theorem trapF_const_right (f : ℚ → ℚ) (c : ℚ) (t0 : ℚ) (ts : List ℚ) :
    trapF f (fun _ => c) (t0 :: ts) = c * (f ((t0 :: ts).getLast (by simp)) - f t0) := by
  induction ts generalizing t0 with
  | nil => simp [trapF_single]
  | cons t1 ts ih =>
    rw [trapF_cons_cons, ih t1, List.getLast_cons (l := t1 :: ts) (by simp)]
    ring

/-- a curve against itself: half the difference of squares -/
theorem trapF_self (f : ℚ → ℚ) (ts : List ℚ) :
    trapF f f ts = trapF (fun t => f t ^ 2 / 2) (fun _ => 1) ts := by
  induction ts using trapF_induction with
  | h0 => rfl
  | h1 t => rfl
  | h2 t0 t1 ts ih => simp only [trapF_cons_cons, ih]; ring

/-- the rule splits at any point -/
theorem trapF_append (f g : ℚ → ℚ) (l1 : List ℚ) (t : ℚ) (l2 : List ℚ) :
    trapF f g (l1 ++ t :: l2) = trapF f g (l1 ++ [t]) + trapF f g (t :: l2) := by
  induction l1 with
  | nil => simp [trapF_single]
  | cons a l1 ih =>
    cases l1 with
    | nil =>
      simp only [List.cons_append, List.nil_append, trapF_cons_cons, trapF_single]; ring
    | cons b l1 =>
      simp only [List.cons_append, trapF_cons_cons] at ih ⊢
      rw [ih]; ring

/-- reversing the points negates the rule -/
theorem trapF_reverse (f g : ℚ → ℚ) (ts : List ℚ) : trapF f g ts.reverse = - trapF f g ts := by
  induction ts using trapF_induction with
  | h0 => simp [trapF_nil]
  | h1 t => simp [trapF_single]
  | h2 t0 t1 ts ih =>
    rw [List.reverse_cons, List.reverse_cons, List.append_assoc] at *
    simp only [List.singleton_append] at *
    rw [trapF_append, trapF_cons_cons, trapF_single, trapF_cons_cons, ih]
    ring

/-- sum over a list in the left slot -/
theorem trapF_sum_left {α : Type} (l : List α) (F : α → ℚ → ℚ) (g : ℚ → ℚ) (ts : List ℚ) :
    trapF (fun t => (l.map fun a => F a t).sum) g ts = (l.map fun a => trapF (F a) g ts).sum := by
  induction l with
  | nil => simp [trapF_const_left]
  | cons a l ih =>
    simp only [List.map_cons, List.sum_cons]
    rw [trapF_add_left, ih]

theorem trapF_sum_right {α : Type} (l : List α) (f : ℚ → ℚ) (G : α → ℚ → ℚ) (ts : List ℚ) :
    trapF f (fun t => (l.map fun a => G a t).sum) ts = (l.map fun a => trapF f (G a) ts).sum := by
  induction l with
  | nil => simp [trapF_zero_right]
  | cons a l ih =>
    simp only [List.map_cons, List.sum_cons]
    rw [trapF_add_right, ih]

/-! ### two 0/1 curves that are monotone along the points -/

def ind (b : Bool) : ℚ := if b then 1 else 0

theorem ind_true : ind true = 1 := rfl
theorem ind_false : ind false = 0 := rfl

/-- both indicator curves are monotone along the list -/
def BothMono (a b : ℚ → Bool) (t t' : ℚ) : Prop :=
  (a t = true → a t' = true) ∧ (b t = true → b t' = true)

/-- `b` switches on strictly before `a` (witnessed by a point of the list): every jump of `a`
is taken at full height. -/
theorem trapF_pair_win (a b : ℚ → Bool) (ts : List ℚ) (hmono : ts.Pairwise (BothMono a b))
    (tstar : ℚ) (hmem : tstar ∈ ts) (ha : a tstar = false) (hb : b tstar = true) :
    trapF (fun t => ind (a t)) (fun t => ind (b t)) ts =
      trapF (fun t => ind (a t)) (fun _ => 1) ts := by
  obtain ⟨l1, l2, rfl⟩ := List.append_of_mem hmem
  rw [List.pairwise_append] at hmono
  obtain ⟨_, h2, h3⟩ := hmono
  rw [List.pairwise_cons] at h2
  have hA : ∀ t ∈ l1 ++ [tstar], (fun t => ind (a t)) t = (fun _ => (0 : ℚ)) t := by
    intro t ht
    rw [List.mem_append, List.mem_singleton] at ht
    have : a t = false := by
      rcases ht with ht | ht
      · cases hat : a t with
        | false => rfl
        | true => have := (h3 t ht tstar (by simp)).1 hat; rw [ha] at this; cases this
      · rw [ht]; exact ha
    simp only [this, ind_false]
  have hB : ∀ t ∈ tstar :: l2, (fun t => ind (b t)) t = (fun _ => (1 : ℚ)) t := by
    intro t ht
    rw [List.mem_cons] at ht
    have : b t = true := by
      rcases ht with ht | ht
      · rw [ht]; exact hb
      · exact (h2.1 t ht).2 hb
    simp only [this, ind_true]
  rw [trapF_append _ _ l1 tstar l2, trapF_append _ (fun _ => 1) l1 tstar l2,
    trapF_congr _ _ _ _ _ hA (fun _ _ => rfl), trapF_const_left,
    trapF_congr (fun t => ind (a t)) _ (fun _ => 1) (fun _ => 1) (l1 ++ [tstar]) hA (fun _ _ => rfl),
    trapF_const_left,
    trapF_congr _ _ _ _ (tstar :: l2) (fun _ _ => rfl) hB]

/-- `a` switches on strictly before `b`: every jump of `a` is taken at height zero. -/
theorem trapF_pair_loss (a b : ℚ → Bool) (ts : List ℚ) (hmono : ts.Pairwise (BothMono a b))
    (tstar : ℚ) (hmem : tstar ∈ ts) (ha : a tstar = true) (hb : b tstar = false) :
    trapF (fun t => ind (a t)) (fun t => ind (b t)) ts = 0 := by
  obtain ⟨l1, l2, rfl⟩ := List.append_of_mem hmem
  rw [List.pairwise_append] at hmono
  obtain ⟨_, h2, h3⟩ := hmono
  rw [List.pairwise_cons] at h2
  have hB : ∀ t ∈ l1 ++ [tstar], (fun t => ind (b t)) t = (fun _ => (0 : ℚ)) t := by
    intro t ht
    rw [List.mem_append, List.mem_singleton] at ht
    have : b t = false := by
      rcases ht with ht | ht
      · cases hbt : b t with
        | false => rfl
        | true => have := (h3 t ht tstar (by simp)).2 hbt; rw [hb] at this; cases this
      · rw [ht]; exact hb
    simp only [this, ind_false]
  have hA : ∀ t ∈ tstar :: l2, (fun t => ind (a t)) t = (fun _ => (1 : ℚ)) t := by
    intro t ht
    rw [List.mem_cons] at ht
    have : a t = true := by
      rcases ht with ht | ht
      · rw [ht]; exact ha
      · exact (h2.1 t ht).1 ha
    simp only [this, ind_true]
  rw [trapF_append _ _ l1 tstar l2, trapF_congr _ _ _ _ _ (fun _ _ => rfl) hB, trapF_zero_right,
    trapF_congr _ _ _ _ (tstar :: l2) hA (fun _ _ => rfl), trapF_const_left]
  ring

/-- value of the telescoped rule for an indicator that is off at the first and on at the
last point -/
theorem trapF_ind_span (a : ℚ → Bool) (t0 : ℚ) (ts : List ℚ) (h0 : a t0 = false)
    (h1 : a ((t0 :: ts).getLast (by simp)) = true) :
    trapF (fun t => ind (a t)) (fun _ => 1) (t0 :: ts) = 1 := by
  rw [trapF_const_right, h0, h1, ind_true, ind_false]; ring

theorem trapF_ind_self (a : ℚ → Bool) (t0 : ℚ) (ts : List ℚ) (h0 : a t0 = false)
    (h1 : a ((t0 :: ts).getLast (by simp)) = true) :
    trapF (fun t => ind (a t)) (fun t => ind (a t)) (t0 :: ts) = 1 / 2 := by
  rw [trapF_self, trapF_const_right, h0, h1, ind_true, ind_false]; ring

end SA
