/-
The window step of `Scores.auc` (binary searches, flat extension at the cuts): the full window.
-/
import SA.Proofs.AucCode

namespace SA

theorem bisect_all_false (p : ℚ → Bool) (a : List ℚ) (h : ∀ v ∈ a, p v = false) :
    bisect p a = 0 := by
  unfold bisect
  apply bisectAux_spec p a 0 (Nat.zero_le _) _ a.length 0 a.length rfl (le_refl _) (Nat.zero_le _)
    (le_refl _)
  intro i hi
  have hm : a.getD i 0 ∈ a := by
    rw [List.getD_eq_getElem?_getD, List.getElem?_eq_getElem hi]; exact List.getElem_mem hi
  rw [h _ hm]; simp

theorem bisect_all_true (p : ℚ → Bool) (a : List ℚ) (h : ∀ v ∈ a, p v = true) :
    bisect p a = a.length := by
  unfold bisect
  apply bisectAux_spec p a a.length (le_refl _) _ a.length 0 a.length rfl (Nat.zero_le _) (le_refl _)
    (le_refl _)
  intro i hi
  have hm : a.getD i 0 ∈ a := by
    rw [List.getD_eq_getElem?_getD, List.getElem?_eq_getElem hi]; exact List.getElem_mem hi
  rw [h _ hm]; simp [hi]

/-- appending one point on the right -/
theorem trapezoid_snoc (f g : ℚ → ℚ) (t0 : ℚ) (rest : List ℚ) (a b : ℚ) :
    trapezoid ((t0 :: rest).map f ++ [a]) ((t0 :: rest).map g ++ [b]) =
      trapF f g (t0 :: rest) +
        (a - f ((t0 :: rest).getLast (by simp))) * (g ((t0 :: rest).getLast (by simp)) + b) / 2 := by
  induction rest generalizing t0 with
  | nil => simp [trapezoid, trapF_single]
  | cons t1 rest ih =>
    have := ih t1
    simp only [List.map_cons, List.cons_append] at this ⊢
    rw [trapF_cons_cons, List.getLast_cons (l := t1 :: rest) (by simp)]
    simp only [trapezoid]
    rw [this]; ring

/-- one point on either side -/
theorem trapezoid_both (f g : ℚ → ℚ) (t0 : ℚ) (rest : List ℚ) (a b c d : ℚ) :
    trapezoid ([a] ++ (t0 :: rest).map f ++ [c]) ([b] ++ (t0 :: rest).map g ++ [d]) =
      (f t0 - a) * (b + g t0) / 2 + trapF f g (t0 :: rest) +
        (c - f ((t0 :: rest).getLast (by simp))) * (g ((t0 :: rest).getLast (by simp)) + d) / 2 := by
  have := trapezoid_snoc f g t0 rest c d
  simp only [List.map_cons, List.cons_append, List.nil_append] at this ⊢
  simp only [trapezoid]
  rw [this]; ring

/-- over the full range nothing is cut: the window is the whole curve with a flat piece from
0 to the first and from the last point to 1 -/
theorem aucWindow_full (f g : ℚ → ℚ) (t0 : ℚ) (rest : List ℚ)
    (h0 : ∀ t ∈ t0 :: rest, 0 ≤ f t) (h1 : ∀ t ∈ t0 :: rest, f t ≤ 1) :
    aucWindow ((t0 :: rest).map f) ((t0 :: rest).map g) 0 1 =
      absR (f t0 * g t0 + trapF f g (t0 :: rest) +
        (1 - f ((t0 :: rest).getLast (by simp))) * g ((t0 :: rest).getLast (by simp))) := by
  have hl : bisect (fun v => decide (v < 0)) ((t0 :: rest).map f) = 0 := by
    apply bisect_all_false
    intro v hv
    rw [List.mem_map] at hv
    obtain ⟨t, ht, rfl⟩ := hv
    rw [decide_eq_false_iff_not, not_lt]; exact h0 t ht
  have hr : bisect (fun v => decide (v ≤ 1)) ((t0 :: rest).map f) = ((t0 :: rest).map f).length := by
    apply bisect_all_true
    intro v hv
    rw [List.mem_map] at hv
    obtain ⟨t, ht, rfl⟩ := hv
    rw [decide_eq_true_eq]; exact h1 t ht
  unfold aucWindow
  simp only [hl, hr]
  have e1 : min 0 (((t0 :: rest).map g).length - 1) = 0 := Nat.zero_min _
  have e2 : max ((t0 :: rest).map f).length 1 = (t0 :: rest).length := by
    simp only [List.length_map, List.length_cons]; omega
  rw [e1, e2]
  have e3 : (((t0 :: rest).map f).drop 0).take ((t0 :: rest).length - 0) = (t0 :: rest).map f := by
    rw [List.drop_zero, Nat.sub_zero, List.take_of_length_le (by simp)]
  have e4 : (((t0 :: rest).map g).drop 0).take ((t0 :: rest).length - 0) = (t0 :: rest).map g := by
    rw [List.drop_zero, Nat.sub_zero, List.take_of_length_le (by simp)]
  have e5 : ((t0 :: rest).map g).getD 0 0 = g t0 := rfl
  have e6 : ((t0 :: rest).map g).getD ((t0 :: rest).length - 1) 0 =
      g ((t0 :: rest).getLast (by simp)) := by
    have := getD_map_last g (t0 :: rest) (by simp)
    rw [List.length_map] at this; exact this
  rw [e3, e4, e5, e6, trapezoid_both]
  congr 1; ring

theorem absR_of_nonneg (x : ℚ) (h : 0 ≤ x) : absR x = x := by
  unfold absR; rw [if_neg (not_lt.mpr h)]

/-- the full window along a sweep is the Mann–Whitney value -/
theorem aucWindow_full_sweep (s : Scores) (ts : List ℚ) (hw : Sweep s ts)
    (hP : s.pos.length + s.easyPos ≠ 0) (hN : s.neg.length + s.easyNeg ≠ 0) :
    aucWindow (ts.map (fpQ s)) (ts.map (tpQ s)) 0 1 =
      (((mwWins s + (s.easyPos * (s.neg.length + s.easyNeg) + s.pos.length * s.easyNeg) : ℕ) : ℚ)
        + (mwTies s : ℚ) / 2) /
      (((s.pos.length + s.easyPos) * (s.neg.length + s.easyNeg) : ℕ) : ℚ) := by
  have h0 := accCount_first s ts hw s.neg (fun x hx => List.mem_append_right _ hx)
  have h1 := accCount_last s ts hw s.neg (fun x hx => List.mem_append_right _ hx)
  have h2 := accCount_last s ts hw s.pos (fun x hx => List.mem_append_left _ hx)
  have hr := trapF_rates s ts hw
  have hPq : (0 : ℚ) < ((s.pos.length + s.easyPos : ℕ) : ℚ) := by
    exact_mod_cast Nat.pos_of_ne_zero hP
  have hNq : (0 : ℚ) < ((s.neg.length + s.easyNeg : ℕ) : ℚ) := by
    exact_mod_cast Nat.pos_of_ne_zero hN
  obtain ⟨_, hne, _, _, _⟩ := hw
  cases ts with
  | nil => exact absurd rfl hne
  | cons t0 rest =>
    simp only [List.head_cons] at h0
    rw [aucWindow_full _ _ _ _ (fun t _ => fpQ_nonneg s t) (fun t _ => fpQ_le_one s t), hr]
    have f0 : fpQ s t0 = 0 := by unfold fpQ; rw [h0]; simp
    have f1 : fpQ s ((t0 :: rest).getLast hne) =
        (s.neg.length : ℚ) / ((s.neg.length + s.easyNeg : ℕ) : ℚ) := by unfold fpQ; rw [h1]
    have g1 : tpQ s ((t0 :: rest).getLast hne) = 1 := by
      unfold tpQ; rw [h2]; exact div_self hPq.ne'
    rw [f0, f1, g1]
    have hval : 0 * tpQ s t0 +
        ((mwWins s : ℚ) + (mwTies s : ℚ) / 2 + (s.easyPos : ℚ) * (s.neg.length : ℚ)) /
          (((s.pos.length + s.easyPos : ℕ) : ℚ) * ((s.neg.length + s.easyNeg : ℕ) : ℚ)) +
        (1 - (s.neg.length : ℚ) / ((s.neg.length + s.easyNeg : ℕ) : ℚ)) * 1 =
      (((mwWins s + (s.easyPos * (s.neg.length + s.easyNeg) + s.pos.length * s.easyNeg) : ℕ) : ℚ)
        + (mwTies s : ℚ) / 2) /
      (((s.pos.length + s.easyPos) * (s.neg.length + s.easyNeg) : ℕ) : ℚ) := by
      push_cast at hPq hNq ⊢
      field_simp
      ring
    rw [hval]
    apply absR_of_nonneg
    positivity

end SA
