/-
Binary search on a sorted list = counting.  Keystone lemma for C01 and everything that
is derived from confusion matrices.
-/
import SA.Model.Basic
import Mathlib.Tactic.Linarith
import Mathlib.Data.List.Sort

namespace SA

/-- On a sorted list a predicate that is downward closed along the order holds exactly on
a prefix, of length `countP p`. -/
theorem sorted_prefix (s : List Rat) (hs : s.Pairwise (· ≤ ·)) (p : Rat → Bool)
    (hp : ∀ a b, a ≤ b → p b = true → p a = true) :
    ∀ i (hi : i < s.length), p s[i] = true ↔ i < s.countP p := by
  induction s with
  | nil => intro i hi; simp at hi
  | cons a s ih =>
    intro i hi
    rw [List.pairwise_cons] at hs
    obtain ⟨ha, hs'⟩ := hs
    by_cases hat : p a = true
    · simp only [List.countP_cons, hat, if_true]
      cases i with
      | zero => simp [hat]
      | succ i =>
        simp only [List.getElem_cons_succ]
        have := ih hs' i (by simpa using hi)
        rw [this]; omega
    · have hnone : s.countP p = 0 := by
        rw [List.countP_eq_zero]
        intro x hx hpx
        exact hat (hp a x (ha x hx) hpx)
      simp only [List.countP_cons, hat, hnone]
      cases i with
      | zero => simp [hat]
      | succ i =>
        simp only [List.getElem_cons_succ]
        have hi' : i < s.length := by simpa using hi
        have hmem : s[i] ∈ s := List.getElem_mem hi'
        constructor
        · intro h; exact absurd (hp a _ (ha _ hmem) h) hat
        · intro h; simp at h

theorem sorted_prefix_getD (s : List Rat) (hs : s.Pairwise (· ≤ ·)) (p : Rat → Bool)
    (hp : ∀ a b, a ≤ b → p b = true → p a = true) (i : Nat) (hi : i < s.length) :
    p (s.getD i 0) = true ↔ i < s.countP p := by
  have h : s.getD i 0 = s[i] := by
    simp [List.getD_eq_getElem?_getD, List.getElem?_eq_getElem hi]
  rw [h]; exact sorted_prefix s hs p hp i hi

/-- Invariant of the binary search, for a predicate that holds exactly on a prefix. -/
theorem bisectAux_spec (p : Rat → Bool) (a : List Rat) (c : Nat) (hc : c ≤ a.length)
    (hpre : ∀ i, i < a.length → (p (a.getD i 0) = true ↔ i < c)) :
    ∀ (n lo hi : Nat), hi - lo = n → lo ≤ c → c ≤ hi → hi ≤ a.length →
      bisectAux p a lo hi = c := by
  intro n
  induction n using Nat.strong_induction_on with
  | _ n ih =>
    intro lo hi hn hlo hhi hsz
    unfold bisectAux
    by_cases h : lo < hi
    · simp only [h, if_true]
      have hmid : lo + (hi - lo) / 2 < a.length := by omega
      by_cases hm : p (a.getD (lo + (hi - lo) / 2) 0) = true
      · simp only [hm, if_true]
        have hlt := (hpre _ hmid).mp hm
        exact ih (hi - (lo + (hi - lo) / 2 + 1)) (by omega) _ _ rfl (by omega) hhi hsz
      · simp only [hm]
        have hnl : ¬ (lo + (hi - lo) / 2 < c) := fun hh => hm ((hpre _ hmid).mpr hh)
        exact ih ((lo + (hi - lo) / 2) - lo) (by omega) _ _ rfl hlo (by omega) (by omega)
    · simp only [h, if_false]
      omega

/-- Binary search on a sorted list with a downward-closed predicate is `countP`. -/
theorem bisect_eq_countP (p : Rat → Bool) (a : List Rat) (hs : a.Pairwise (· ≤ ·))
    (hp : ∀ x y, x ≤ y → p y = true → p x = true) :
    bisect p a = a.countP p := by
  unfold bisect
  exact bisectAux_spec p a (a.countP p) List.countP_le_length
    (fun i hi => sorted_prefix_getD a hs p hp i hi) a.length 0 a.length rfl
    (Nat.zero_le _) List.countP_le_length (le_refl _)

theorem ltE_antitone (t : ERat) (x y : Rat) (h : x ≤ y) (hy : ltE y t = true) :
    ltE x t = true := by
  cases t with
  | negInf => simp [ltE] at hy
  | posInf => simp [ltE]
  | fin q =>
    simp only [ltE, decide_eq_true_eq] at *
    exact lt_of_le_of_lt h hy

theorem leE_antitone (t : ERat) (x y : Rat) (h : x ≤ y) (hy : leE y t = true) :
    leE x t = true := by
  cases t with
  | negInf => simp [leE] at hy
  | posInf => simp [leE]
  | fin q =>
    simp only [leE, decide_eq_true_eq] at *
    exact le_trans h hy

/-- `searchsorted` on a sorted list counts the elements `<` resp. `≤` the threshold. -/
theorem searchsorted_left (a : List Rat) (hs : a.Pairwise (· ≤ ·)) (t : ERat) :
    searchsorted a t .left = a.countP (fun x => ltE x t) :=
  bisect_eq_countP _ a hs (ltE_antitone t)

theorem searchsorted_right (a : List Rat) (hs : a.Pairwise (· ≤ ·)) (t : ERat) :
    searchsorted a t .right = a.countP (fun x => leE x t) :=
  bisect_eq_countP _ a hs (leE_antitone t)

/-! ### Sorting -/

theorem sortQ_pairwise (l : List Rat) : (sortQ l).Pairwise (· ≤ ·) := by
  unfold sortQ
  have := List.pairwise_mergeSort (le := fun a b : Rat => decide (a ≤ b))
    (by intro a b c hab hbc; simp only [decide_eq_true_eq] at *; exact le_trans hab hbc)
    (by intro a b; simp only [Bool.or_eq_true, decide_eq_true_eq]; exact le_total a b) l
  simpa using this

theorem sortQ_perm (l : List Rat) : (sortQ l).Perm l := List.mergeSort_perm _ _

theorem countP_sortQ (p : Rat → Bool) (l : List Rat) : (sortQ l).countP p = l.countP p :=
  (sortQ_perm l).countP_eq p

theorem length_sortQ (l : List Rat) : (sortQ l).length = l.length := (sortQ_perm l).length_eq

theorem countP_not (p : Rat → Bool) (l : List Rat) :
    l.countP (fun x => !p x) = l.length - l.countP p := by
  have := List.length_eq_countP_add_countP p (l := l)
  have h2 : l.countP (fun a => decide ¬p a = true) = l.countP (fun x => !p x) := by
    congr 1; funext x; cases p x <;> simp
  omega

end SA
