/-
Helper lemmas for C14: every linear quantile of a constant list is that constant; columns of the
replicate matrix; reflexivity of the spec predicates.
-/
import SA.Proofs.Quantile
import SA.Model.BootMetric
import SA.Spec.C14

namespace SA
open Spec.C13 Spec.C14

/-- the interpolation formula on a non-empty list all of whose members equal `c` -/
theorem c14_qcore_const (v : List ℚ) (c : ℚ) (hne : v.length ≠ 0) (hc : ∀ x ∈ v, x = c) (q : ℚ) :
    qcore v q = c := by
  unfold qcore
  simp only []
  rw [hc _ (getD_mem v _ (clampIdx_lt _ _ hne)), hc _ (getD_mem v _ (clampIdx_lt _ _ hne))]
  ring

/-- the finite values of a list all of whose entries are `some c` -/
theorem c14_filterMap_const (l : List (Option ℚ)) (c : ℚ) (hc : ∀ x ∈ l, x = some c) :
    l.filterMap id = List.replicate l.length c := by
  induction l with
  | nil => rfl
  | cons a l ih =>
    have ha : a = some c := hc a (List.mem_cons_self)
    have hl : ∀ x ∈ l, x = some c := fun x hx => hc x (List.mem_cons_of_mem _ hx)
    subst ha
    have ih' := ih hl
    simp only [List.filterMap_cons, id, List.length_cons, List.replicate_succ] at ih' ⊢
    rw [ih']

/-- **the real content of the identity clause**: a non-empty list all of whose entries are the
finite value `c` has `c` as its quantile at EVERY level (inside or outside `[0,1]`). -/
theorem c14_quantile_const_of_mem (l : List (Option ℚ)) (c : ℚ) (hne : l ≠ [])
    (hc : ∀ x ∈ l, x = some c) (q : ℚ) : quantileLinear l q = some c := by
  rw [quantileLinear_eq, c14_filterMap_const l c hc]
  have hlen : (sortQ (List.replicate l.length c)).length ≠ 0 := by
    rw [length_sortQ, List.length_replicate]
    intro h; exact hne (List.eq_nil_of_length_eq_zero h)
  rw [if_neg hlen]
  congr 1
  apply c14_qcore_const _ c hlen
  intro x hx
  have hx' : x ∈ List.replicate l.length c := (sortQ_perm _).mem_iff.mp hx
  exact (List.mem_replicate.mp hx').2

/-- the proportion of finite replicates `≤` the estimate exists as soon as there is one -/
theorem c14_fracLe_isSome (l : List (Option ℚ)) (c th : ℚ) (hne : l ≠ [])
    (hc : ∀ x ∈ l, x = some c) : ∃ p, fracLe l th = some p := by
  unfold fracLe
  simp only []
  rw [c14_filterMap_const l c hc]
  have hlen : (List.replicate l.length c).length ≠ 0 := by
    rw [List.length_replicate]; intro h; exact hne (List.eq_nil_of_length_eq_zero h)
  rw [if_neg hlen]
  exact ⟨_, rfl⟩

/-- the C13 formula on a constant column: both limits are the constant, for every method, every
estimate, every alpha and ANY oracles -/
theorem c14_bootstrapCI_const (nrm : Normal) (p15 : ℚ → ℚ) (m : BootMethod) (l : List (Option ℚ))
    (c th al : ℚ) (hne : l ≠ []) (hc : ∀ x ∈ l, x = some c) :
    bootstrapCI nrm p15 m l th al = (some c, some c) := by
  have hq := c14_quantile_const_of_mem l c hne hc
  obtain ⟨p, hp⟩ := c14_fracLe_isSome l c th hne hc
  cases m <;> simp only [bootstrapCI, hq, hp]

/-! ### rows and columns -/

theorem c14_length_rows {σ : Type} (sampler : ℕ → σ) (metric : σ → List (Option ℚ)) (nb : ℕ) :
    (bootstrapMetric sampler metric nb).length = nb := by
  simp [bootstrapMetric]

theorem c14_row_get {σ : Type} (sampler : ℕ → σ) (metric : σ → List (Option ℚ)) (nb j : ℕ)
    (hj : j < nb) : (bootstrapMetric sampler metric nb)[j]? = some (metric (sampler j)) := by
  simp [bootstrapMetric, hj]

/-- column `k` of the replicate matrix lists component `k` of the metric of sample `0, 1, ...` -/
theorem c14_column_eq {σ : Type} (sampler : ℕ → σ) (metric : σ → List (Option ℚ)) (nb k : ℕ) :
    column (bootstrapMetric sampler metric nb) k =
      (List.range nb).map fun j => (metric (sampler j)).getD k none := by
  simp [column, bootstrapMetric, List.map_map, Function.comp_def]

theorem c14_rows_congr {σ : Type} (s1 s2 : ℕ → σ) (metric : σ → List (Option ℚ)) (nb : ℕ)
    (h : ∀ j, j < nb → s1 j = s2 j) :
    bootstrapMetric s1 metric nb = bootstrapMetric s2 metric nb := by
  unfold bootstrapMetric
  apply List.map_congr_left
  intro j hj
  rw [h j (List.mem_range.mp hj)]

/-- under an identity sampler column `k` is constant -/
theorem c14_column_identity {σ : Type} (sampler : ℕ → σ) (metric : σ → List (Option ℚ))
    (original : σ) (nb k : ℕ) (hid : ∀ j, j < nb → sampler j = original) :
    ∀ x ∈ column (bootstrapMetric sampler metric nb) k, x = (metric original).getD k none := by
  rw [c14_column_eq]
  intro x hx
  obtain ⟨j, hj, rfl⟩ := List.mem_map.mp hx
  rw [hid j (List.mem_range.mp hj)]

theorem c14_column_ne_nil {σ : Type} (sampler : ℕ → σ) (metric : σ → List (Option ℚ))
    (nb k : ℕ) (hnb : 1 ≤ nb) : column (bootstrapMetric sampler metric nb) k ≠ [] := by
  intro h
  have hl := congrArg List.length h
  simp [column, bootstrapMetric] at hl
  omega

/-! ### spec predicates are reflexive at `eps = 0` -/

theorem c14_nearO_refl (a : Option ℚ) : nearO 0 a a = true := by
  cases a with
  | none => rfl
  | some x => simp [nearO, absQ]

theorem c14_rowOK_refl (r : List (Option ℚ)) : rowOK 0 r r = true := by
  induction r with
  | nil => rfl
  | cons a r ih => simp [rowOK, c14_nearO_refl, ih]

theorem c14_rowsOK_refl (rows : List (List (Option ℚ))) : rowsOK 0 rows rows = true := by
  induction rows with
  | nil => rfl
  | cons a r ih => simp [rowsOK, c14_rowOK_refl, ih]

theorem c14_identityOK_diag (es : List (Option ℚ)) :
    identityOK 0 es (es.map fun e => (e, e)) = true := by
  induction es with
  | nil => rfl
  | cons a r ih => simp [identityOK, c14_nearO_refl, ih]

end SA
